#!/usr/bin/env python3
"""Regenerates /verif/MANIFEST.json from bin/stages.json (which checks exist) and the texts below."""
import json
import os

VERIF = os.path.dirname(os.path.dirname(os.path.abspath(__file__)))

META = {
    "C11": dict(
        category="exploration", design_ref="§6 C11",
        text="Runs the real codec on seed-determined specs covering all ids, every public-name length 1..255, key lengths and suite lists; "
             "an independent section-4 parser and live crypto/tls client/server ECH handshakes act as oracles; every strict prefix and "
             "single-byte mutation of sampled encodings goes through the parser under a panic guard. Held = no refuting observation on the listed executions.",
        note="Trusts the harness' independent parser and crypto/tls of go1.24.0 as the conforming peer; sampled, not exhaustive, over spec contents.",
        technique="runtime monitor: differential oracle (independent parser + live crypto/tls peers) over generated and mutated encodings"),
}

ALL = ["C%02d" % i for i in range(1, 21)]

def main():
    stages = json.load(open(os.path.join(VERIF, "bin", "stages.json")))
    checks = []
    for pid in ALL:
        if pid not in stages or pid not in META:
            continue
        m = META[pid]
        checks.append(dict(
            property_id=pid,
            quick_cmd="./bin/verif check %s quick" % pid,
            thorough_cmd="./bin/verif check %s thorough" % pid,
            evidence_file="/verif/evidence/%s.json" % pid,
            replay_cmd_template="./bin/verif replay {path}",
            engine="verif-harness",
            level_claimed=dict(category=m["category"], text=m["text"], design_ref=m["design_ref"]),
            level_note=m["note"],
            technique=m["technique"]))
    na = [dict(property_id=p, reason="check not built yet in this revision of /verif (runtime monitoring applies; see DESIGN.md §6)")
          for p in ALL if p not in stages or p not in META]
    man = dict(
        version=1,
        setup_cmd="./bin/verif setup",
        hooks=dict(guard="verif",
                   enable="go test -tags verif (the harness module replaces github.com/c2FmZQ/ech and .../publish with /repo)",
                   baseline_off_cmd="for m in . publish quic; do (cd /repo/$m && go test -mod=mod -json -vet=off -count=1 -timeout 25m ./...); done",
                   source_commits=json.load(open(os.path.join(VERIF, "bin", "hook_commits.json"))),
                   add_only=True),
        engines=[dict(name="verif-harness", path="/verif/harness",
                      serves_properties=[c["property_id"] for c in checks],
                      kind_free_text="Go test binaries (one per property) built from /repo's working tree with -tags verif, "
                                     "driven by bin/verif: generators, boundary taps, reference models, race detector, porcupine, synctest")],
        checks=checks,
        notes="Runtime monitoring only. Every verdict is 'held on the executions listed in the evidence'. See DESIGN.md.",
        not_applicable=na)
    with open(os.path.join(VERIF, "MANIFEST.json"), "w") as f:
        json.dump(man, f, indent=1)
        f.write("\n")
    print("MANIFEST.json: %d checks, %d not_applicable" % (len(checks), len(na)))

if __name__ == "__main__":
    main()
