#!/usr/bin/env python3
"""Regenerates /verif/MANIFEST.json from bin/stages.json (which checks exist) and the texts below."""
import json
import os

VERIF = os.path.dirname(os.path.dirname(os.path.abspath(__file__)))

def M(category, ref, text, note, technique):
    return dict(category=category, design_ref=ref, text=text, note=note, technique=technique)

HELD = " Held = no refuting observation on the executions listed in the evidence; nothing is proved."

META = {
    "C01": M("exploration", "§6 C01",
        "Runs real crypto/tls clients (two releases: go1.24.0 and go1.26.8 stages) through a recording transport, ech.NewConn with the key set, a router on Conn.ServerName() and real crypto/tls backends without ECH keys (public-name server with keys for stale configs), "
        "over a covering list plus PRNG fill of curves (forcing real HelloRetryRequests), ALPN lists, names of 1..253 bytes, PSK resumption, client certificates, chains up to 40 KB, key sets, AEADs, stale configs, payloads to 100 KB and transport chunking; "
        "the oracle combines both ConnectionStates, the backend's ClientHelloInfo, the Conn accessors, echo comparison and a wire tap that confirms HRR / second ClientHello / over-16K records really occurred (floors on each)." + HELD,
        "The conforming peers are crypto/tls (2 releases); a completed TLS 1.3 handshake is a cryptographic equality check on the forwarded hello. Sampled configurations.",
        "runtime monitor: end-to-end differential run against real TLS stacks with wire tap and state oracles"),
    "C02": M("exploration", "§6 C02",
        "Takes hellos that ARE accepted (first flights of real crypto/tls clients, and offers sealed by an independent RFC 9180 sender) and runs NewConn on every single-bit flip of each ClientHello body "
        "(exhaustive per hello) plus wrong-key / wrong-info / wrong-suite / wrong-config-id substitutions, enc and payload truncations and payload transplants; acceptance of any modified input, "
        "or a non-transparent fall-back of a still-valid hello, refutes." + HELD,
        "Trusts crypto/tls as spec-consistent sealer, the harness HPKE sender (RFC 9180 vectors) and the independent TLS codec; base hellos are sampled.",
        "runtime monitor: mutation of accepted inputs with an acceptance oracle at the NewConn boundary"),
    "C03": M("exploration", "§6 C03",
        "The generator commits to a ClientHelloInner first, derives outer hello, compression run, padding and HPKE payload from it, and the monitor compares the first record NewConn delivers byte for byte with that inner hello "
        "(and ServerName/ALPNProtos with its values); all (run start, run length) positions for 7-entry lists are enumerated, layouts and sizes up to the 16384-byte record limit are PRNG-drawn." + HELD,
        "Trusts the generator (validated at the start of every run against a plain crypto/tls ECH server, incl. compressed offers) and the HPKE sender (RFC vectors).",
        "runtime monitor: generate-from-the-answer differential oracle over ECH offers"),
    "C04": M("exploration", "§6 C04",
        "Applies each catalogued rule violation (R1..R13, single and double faults, at PRNG-chosen applicable positions) to authentic offers whose unfaulted control is accepted, and every length-field truncation of outer hellos; "
        "a tap on the client-side transport checks the error class, that exactly one matching fatal alert is written, that the transport is closed and that nothing is readable from the Conn." + HELD,
        "Allowed error classes are as wide as the draft allows; structurally damaged outer hellos (R14) are only judged for non-acceptance and alert consistency.",
        "runtime monitor: fault-injected inputs with a transport tap (alert bytes, Close) as oracle"),
    "C05": M("exploration", "§6 C05",
        "Feeds syntactically valid ClientHellos from an independent byte-level generator (foreign encodings, GREASE, 60 B..16 KiB, legacy versions, all ECH non-acceptance states, three key-set kinds, real crypto/tls TLS1.2/1.3 flights) "
        "through NewConn followed by random record streams in both directions under random chunking; byte equality at the taps and agreement of ServerName/ALPNProtos with crypto/tls' ClientHelloInfo (or the independent codec) decide." + HELD,
        "Unique extension types only; server_name lists may carry entries of other name types; crypto/tls and tlswire are the independent stacks.",
        "runtime monitor: pass-through conservation at transport taps + differential accessor check"),
    "C06": M("exploration", "§6 C06",
        "Executes every history of client/backend records up to a length bound (3 quick, 4 thorough; 19 record kinds incl. each ill-formed retry) and PRNG-drawn histories up to length 14 on the real Conn, "
        "comparing each step with a reference state machine written from the statement: forwarded verbatim / replaced by the reconstructed inner hello / abort with class, alert, close." + HELD,
        "Backend records are well-formed; the model is the statement's reading that exactly one HelloRetryRequest arms exactly one retry.",
        "runtime monitor: online trace checker against a reference state machine over enumerated histories"),
    "C07": M("fault_enumeration", "§6 C07",
        "Replays accepted-ECH, ECH+HelloRetryRequest and pass-through flows with record lengths covering 0..2^14+256 under every combination of transport read chunking, caller buffer size and backend write split, "
        "and injects a transport EOF / error / error-with-data at EVERY byte offset of the client stream of small flows and write failures at every 7th offset; conservation and order over the tap logs decide "
        "(thorough: reader and writer on separate goroutines under the race detector)." + HELD,
        "Tolerances: a cut inside the first record is a NewConn error; a cut inside a retried hello may deliver none or the raw partial record. All record lengths only in the thorough tier (stride 97 in quick).",
        "runtime monitor: fault enumeration at every byte offset with conservation/order oracle over tap logs; race detector"),
    "C08": M("exploration", "§6 C08",
        "Drives structure-aware hostile inputs (record-level edge cases, byte-level and structural mutations of valid offers and plain hellos incl. duplicated ECH extensions, authentic payloads whose decrypted inner is hostile, hostile client "
        "and backend record streams) through NewConn/Read/Write under a panic guard with progress counters from the transport tap, a two-record bound on bytes buffered inside the Conn and exact per-call allocation deltas "
        "(single-threaded sub-workload); a second stage runs NewConn under testing/synctest with the client stalling at EVERY byte offset of the first record and requires an error no later than the context deadline in virtual time." + HELD,
        "'All byte strings' is sampled; allocation budget 1 MiB per call; the stall stage uses go1.26.8 (testing/synctest).",
        "runtime monitor: panic guard + progress/buffer/allocation counters over generated hostile inputs; virtual-time stall enumeration"),
    "C18": M("exploration", "§6 C18",
        "Runs Dial inside testing/synctest bubbles (virtual time) with a scripted DialFunc: all 88,880 scenarios of a reduced grid with <= 3 targets are enumerated and 120k (2M thorough) larger ones PRNG-drawn; a trace-specification checker over "
        "start/finish/close/return events stamped with virtual time decides order, concurrency bound, stagger delay, per-attempt timeout, first-success-wins, closing of late winners, joined errors, prompt cancellation, cancelled late attempts, "
        "and a goroutine scan at quiescence detects leaks; a small workload uses a connection type without Close() (like *quic.Conn) - its result is the recorded finding K1 (KNOWN-FINDING line, see known_findings.txt); thorough repeats the grid under the race detector." + HELD,
        "Virtual time serialises timer events; same-instant events may be ordered either way and are judged leniently. go1.26.8 toolchain.",
        "runtime monitor: offline trace checker over virtual-time event logs (testing/synctest) + goroutine leak scan; race detector"),
    "C09": M("exploration", "§6 C09",
        "Metamorphic check: for offers sealed to a target key K, every key list of length <= 3 (K at each position or absent; neighbours from same/other id x same/disjoint/partial suites x same/other public name) and sampled lists of length 4 "
        "must give the same acceptance, error class, forwarded bytes and accessors as the single-key (or no-key) baseline, for the first hello and for hello -> HRR -> retried hello; every second list is handed over through several WithKeys options." + HELD,
        "Baselines come from the same run; three (thirty in thorough) target offers.",
        "runtime monitor: metamorphic equality against in-run baselines over enumerated key lists"),
    "C10": M("exploration", "§6 C10",
        "Produces (does not enumerate) the schedules of NewConn's context watcher: GOMAXPROCS 1..16 x hello already buffered / delivered late / in two halves x context cancelled immediately after the return, after a yield, by a racing goroutine, "
        "by deadline expiry or never x background load; a transport tap logs every SetDeadline and a context wrapper logs when the watcher first evaluates ctx.Done(), both on one sequence counter; after quiescence the Conn must still read and write. "
        "A second stage in virtual time (testing/synctest) checks that a blocked NewConn fails at exactly the instant its context ends, for every 7th stall offset, on transports whose writes succeed or block, also when NewConn is blocked writing its own alert." + HELD,
        "Only schedules the Go runtime produced; the evidence reports how many trials had the watcher scheduled after NewConn's work was done and the context had ended (late_watcher_* counters, floor 200).",
        "runtime monitor: sequence-numbered transport/context taps under scheduler stress (GOMAXPROCS sweep) + virtual-time promptness check"),
    "C16": M("exploration", "§6 C16",
        "Sequential histories (resolve, clock steps at ttl-1/ttl/ttl+1, zone changes incl. CNAME repointing, failure on/off, cache resizing) on a virtual clock (hook VerifSetClock) against a versioned fake DoH zone whose answers identify the data version "
        "they came from, judged by an exact model with the server's query log (never stale, failures not cached, re-query after expiry, no upstream query within TTL; smallest TTL over ALL records of the response incl. CNAMEs and extras, 0 = uncacheable); "
        "concurrent phases of 2..16 goroutines with held/released upstream queries whose recorded call/return histories are checked per (name, qtype) with porcupine against a nondeterministic cache model; a deadlock monitor reports calls that are all parked on a lock inside the library; the same workload under the race detector (stage race)." + HELD,
        "Clock and zone change only at barriers in the concurrent part; porcupine Unknown (60 s) would be inconclusive; responses without any record may be cached up to 300 s (less when the SOA of a negative answer says so). After a failure blip inside a phase the answers fetched by the calls that then succeeded must be in the cache (no second upstream query within their TTL).",
        "runtime monitor: model-based history checking (exact model + porcupine linearizability) over recorded call logs, virtual clock hook, race detector"),
    "C17": M("exploration", "§6 C17",
        "Runs Dial against generated DNS universes served by a fake DoH server with a recording DialFunc that returns scripted outcomes (ok, error, ECH rejection with/without retry configs, repeated rejection); an oracle over the invocation log checks: "
        "no attempt without an ECH list under RequireECH, caller list/ServerName never replaced, list provenance per HTTPS record (computed from the zone model, not from the code under test), ServerName = the caller's host, exactly one retry "
        "to the same address with exactly the retry configs, no leak of a retry list to later targets, caller's tls.Config unchanged; address forms include host, host:port, https:// URIs and IP literals." + HELD,
        "Lenient where the statement is silent (tied priorities, target order, an empty non-nil list in the caller's config may be kept or treated as absent). A list of zero bytes (ech= without value in the zone, empty caller slice) counts as no list for RequireECH.",
        "runtime monitor: DialFunc argument tap + provenance oracle against a zone model"),
    "C11": M("exploration", "§6 C11",
        "Runs the real codec on seed-determined specs covering all ids, every public-name length 1..255, key lengths and suite lists; an independent section-4 parser and live crypto/tls client/server ECH handshakes act as oracles; "
        "every strict prefix and single-byte mutation of sampled encodings goes through the parser under a panic guard. Public names outside the plain multi-label LDH shape and empty vectors may be refused by the producers, but a config they do produce must be usable by crypto/tls (produced => accepted)." + HELD,
        "Trusts the harness' independent parser and crypto/tls of go1.24.0 as the conforming peer; sampled, not exhaustive, over spec contents.",
        "runtime monitor: differential oracle (independent parser + live crypto/tls peers) over generated and mutated encodings"),
    "C12": M("exploration", "§6 C12",
        "Decodes hostile DNS inputs (45 compression-pointer shapes at 13 name positions, lying counts, truncated/over-long RDATA for every decoder type, mutations, up to 64 KiB) in helper processes that log each input before decoding and "
        "self-monitor cumulative heap allocation and CPU time against a polynomial budget, check the Go type of every decoded RR, and serve a sample as DoH bodies to a real Resolver under a panic guard; a second workload serves DoH answers with unusual HTTP framing (no or wrong Content-Length, 0, 65535, 65536, 16 MiB announced, non-200; thorough: malformed headers) to dns.DoH and Resolve; thorough adds a race/checkptr build." + HELD,
        "Budgets: 1 MiB + 16 n^2 bytes allocated and 5 CPU-seconds per call (never wall-clock). Inputs are sampled.",
        "runtime monitor: resource-budget sanitizer (allocation/CPU counters) + panic guard + type-table assertion in isolated child processes"),
    "C13": M("exploration", "§6 C13",
        "Round-trips generated messages through Bytes/DecodeMessage, compares Bytes() byte for byte with an independent RFC 1035/9460 encoder and field by field with golang.org/x/net/dns/dnsmessage, decodes dnsmessage-built packets "
        "(with name compression, all record types of the statement, arbitrary SvcParams) and checks AddPadding (length multiple of 128, question preserved, one padding option) for every name length 1..253; every fourth encoded message is respelled (FQDN names with a trailing dot, IPv4 addresses in 16-byte net.IP form)." + HELD,
        "x/net dnsmessage v0.42.0 and the harness' RFC 9460 RDATA codec are the independent side; representation choices (root as \"\", nil vs empty) are normalised.",
        "runtime monitor: differential testing against an independent codec in both directions"),
    "C14": M("exploration", "§6 C14",
        "Resolves generated zone universes (alias chains and loops, CNAME chains, service records, error rcodes, poisoned answers owned by other names) through a fake DoH server built on an independent encoder that logs every query as seen on the wire; "
        "a relational oracle checks query-name legality and provenance, the query bound, record ownership/priority order, address attribution, rcode mapping and the treatment of over-long names. Every fourth case runs on a Resolver with a history (same name resolved in another universe, virtual clock moved beyond every TTL); IP literals in every spelling and names with an empty label must never reach the wire. Universes also vary what carries no meaning: letter case of owners, FQDN spelling, the order of records inside the answer section (CNAME after its target's records), alias and service records mixed in one RRSet in any order, and the HTTP framing of the response (with or without Content-Length)." + HELD,
        "Relational (not exact) on long alias chains; cache disabled except in the cases with a history.",
        "runtime monitor: server-side query log + relational oracle against a zone model"),
    "C15": M("exploration", "§6 C15",
        "Compares the sequence yielded by Targets with a reference implementation written from the statement for random ResolveResults x six networks x early termination points, and deep-compares the result "
        "(including the hidden capacity region of every slice) before and after enumeration." + HELD,
        "Order inside one record's contribution follows the input lists; ALPN compared as a set.",
        "runtime monitor: reference-model comparison + deep state snapshot (purity) check"),
    "C19": M("exploration", "§6 C19",
        "Drives request sequences of one http.Client over Transport against a fake DoH server, three local TLS servers (HTTP/2, real certificates; two origins share an address and a certificate), a plaintext server and a fake HTTP/3 round-tripper, "
        "with a DialFunc tap that records arguments and performs real handshakes; server-side logs (connection ids, TLS state, Host), tap logs and a table model of the h3 choice check: no plaintext, http->https upgrade, ServerName = URL host and certificate "
        "verification against it, original Host, no pooled connection shared across origins, h3 decision, protocol-compatible dial targets, resp.Request identity." + HELD,
        "Lenient where the statement is silent (https://host:80, address order, sets mixing alias and service records); an http URL that is served over TLS must be dialled at 443 (RFC 9460 9.5), and an origin whose only HTTPS record is an alias to a name with addresses must be upgraded. CNAMEs and alias loops not generated here (C14).",
        "runtime monitor: server-side request/connection logs + DialFunc tap against a decision-table model"),
    "C20": M("exploration", "§6 C20",
        "Runs histories of publishes against a fake Cloudflare API (pagination, PATCH merge, failure injection, full request log) and compares results, request log and the stored records with a model store: one result per target in order, "
        "only the ech parameter changed, no PATCH when current, records on later pages found, non-targets untouched, failures isolated; every third history the API omits JSON members that hold a zero value; every fifth history a zone is absent during the first publishes and appears between two of them. An existing record is never reported not-found because the API failed." + HELD,
        "The fake API follows Cloudflare's documented envelope (count = items on this page); HTTPS names unique per zone. Writes are attributed per record (a publisher may send writes to different records in any order or concurrently).",
        "runtime monitor: request-log and store-diff oracle against a model of the API"),
}

ALL = ["C%02d" % i for i in range(1, 21)]

def main():
    stages = json.load(open(os.path.join(VERIF, "bin", "stages.json")))
    checks = []
    for pid in ALL:
        if pid not in stages or pid not in META:
            continue
        m = META[pid]
        checks.append(dict(
            property_id=pid,
            quick_cmd="./bin/verif check %s quick" % pid,
            thorough_cmd="./bin/verif check %s thorough" % pid,
            evidence_file="/verif/evidence/%s.json" % pid,
            replay_cmd_template="./bin/verif replay {path}",
            engine="verif-harness",
            level_claimed=dict(category=m["category"], text=m["text"], design_ref=m["design_ref"]),
            level_note=m["note"],
            technique=m["technique"]))
    na = [dict(property_id=p, reason="check not built yet in this revision of /verif (runtime monitoring applies; see DESIGN.md §6)")
          for p in ALL if p not in stages or p not in META]
    man = dict(
        version=1,
        setup_cmd="./bin/verif setup",
        hooks=dict(guard="verif",
                   enable="go test -tags verif (the harness module replaces github.com/c2FmZQ/ech and .../publish with /repo)",
                   baseline_off_cmd="for m in . publish quic; do (cd /repo/$m && go test -mod=mod -json -vet=off -count=1 -timeout 25m ./...); done",
                   source_commits=json.load(open(os.path.join(VERIF, "bin", "hook_commits.json"))),
                   add_only=True),
        engines=[dict(name="verif-harness", path="/verif/harness",
                      serves_properties=[c["property_id"] for c in checks],
                      kind_free_text="Go test binaries (one per property) built from /repo's working tree with -tags verif, "
                                     "driven by bin/verif: generators, boundary taps, reference models, race detector, porcupine, synctest")],
        checks=checks,
        notes="Runtime monitoring only. Every verdict is 'held on the executions listed in the evidence'. See DESIGN.md.",
        not_applicable=na)
    with open(os.path.join(VERIF, "MANIFEST.json"), "w") as f:
        json.dump(man, f, indent=1)
        f.write("\n")
    print("MANIFEST.json: %d checks, %d not_applicable" % (len(checks), len(na)))

if __name__ == "__main__":
    main()
