package echgen

import (
	"crypto/tls"
	"errors"
	"fmt"
	mrand "math/rand/v2"
	"slices"

	"verif/harness/internal/hpkex"
	"verif/harness/internal/tap"
)

var errStop = errors.New("echgen: stop after capture")

// PeerView feeds a first-flight record to a plain crypto/tls server that
// holds keys (no code under test involved) and reports the server name and
// ALPN list of the hello the server ended up processing.
func PeerView(record []byte, keys []tls.EncryptedClientHelloKey, cert tls.Certificate) (sni string, alpn []string, reached bool, err error) {
	tc := tap.FromBytes(record)
	conf := &tls.Config{
		Certificates:             []tls.Certificate{cert},
		EncryptedClientHelloKeys: keys,
		GetConfigForClient: func(chi *tls.ClientHelloInfo) (*tls.Config, error) {
			sni, alpn, reached = chi.ServerName, slices.Clone(chi.SupportedProtos), true
			return nil, errStop
		},
	}
	s := tls.Server(tc, conf)
	err = s.Handshake()
	if reached {
		err = nil
	}
	return
}

// SelfCheck validates the generator against crypto/tls: offers (with and
// without compression, all three AEADs) must be decrypted by a plain
// crypto/tls ECH server, which must see the inner name and ALPN.
func SelfCheck(rng *mrand.Rand, n int, cert tls.Certificate) error {
	if err := hpkex.SelfCheck(); err != nil {
		return err
	}
	for i := 0; i < n; i++ {
		aead := []uint16{hpkex.AES128GCM, hpkex.AES256GCM, hpkex.ChaCha20}[i%3]
		k := NewKey(uint8(rng.IntN(256)), "public.example")
		o := DefaultOpts()
		o.StrictPeer = true
		o.Compress = i%2 == 1
		o.InnerName = fmt.Sprintf("inner%d.example", i)
		of := Gen(rng, k, aead, o)
		sni, alpn, reached, err := PeerView(of.Record(), []tls.EncryptedClientHelloKey{k.TLSKey()}, cert)
		if !reached {
			return fmt.Errorf("echgen self-check %d: crypto/tls server did not reach the hello callback: %v (compress=%v run=%d+%d)", i, err, o.Compress, of.RunStart, of.RunLen)
		}
		if sni != of.InnerName || !slices.Equal(alpn, of.InnerALPN) {
			return fmt.Errorf("echgen self-check %d: crypto/tls server saw sni=%q alpn=%v, want %q %v (aead %d compress=%v)", i, sni, alpn, of.InnerName, of.InnerALPN, aead, o.Compress)
		}
	}
	return nil
}
