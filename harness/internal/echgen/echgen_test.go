package echgen

import (
	mrand "math/rand/v2"
	"testing"

	"verif/harness/internal/tlspeer"
)

func TestSelfCheck(t *testing.T) {
	ca, err := tlspeer.NewCA()
	if err != nil {
		t.Fatal(err)
	}
	rng := mrand.New(mrand.NewPCG(1, 2))
	if err := SelfCheck(rng, 60, ca.MustLeaf(0, "public.example")); err != nil {
		t.Fatal(err)
	}
}

