// Package echgen builds Encrypted Client Hello offers from the specification:
// it draws a ClientHelloInner first (the answer), then a ClientHelloOuter,
// chooses which inner extensions are compressed via ech_outer_extensions,
// encodes the EncodedClientHelloInner, and seals it with the independent HPKE
// sender. Nothing in here comes from the repository under test.
package echgen

import (
	"crypto/ecdh"
	"crypto/rand"
	"crypto/tls"
	"fmt"
	mrand "math/rand/v2"

	"verif/harness/internal/hpkex"
	"verif/harness/internal/tlswire"
)

// KeyPair is an ECH key with its serialized ECHConfig.
type KeyPair struct {
	Priv       *ecdh.PrivateKey
	Config     []byte // ECHConfig (version, length, contents)
	ID         uint8
	PublicName string
	AEADs      []uint16
}

// BuildConfig serialises an ECHConfig (draft-ietf-tls-esni §4) by hand.
func BuildConfig(id uint8, pk []byte, publicName string, maxNameLen uint8, aeads []uint16) []byte {
	var c []byte
	c = append(c, id)
	c = append(c, 0x00, 0x20) // DHKEM(X25519, HKDF-SHA256)
	c = append(c, byte(len(pk)>>8), byte(len(pk)))
	c = append(c, pk...)
	c = append(c, byte(4*len(aeads)>>8), byte(4*len(aeads)))
	for _, a := range aeads {
		c = append(c, 0x00, 0x01, byte(a>>8), byte(a))
	}
	c = append(c, maxNameLen)
	c = append(c, byte(len(publicName)))
	c = append(c, publicName...)
	c = append(c, 0, 0) // extensions
	out := []byte{0xfe, 0x0d, byte(len(c) >> 8), byte(len(c))}
	return append(out, c...)
}

// NewKey generates a key pair and its config. aeads defaults to all three.
func NewKey(id uint8, publicName string, aeads ...uint16) KeyPair {
	priv, err := ecdh.X25519().GenerateKey(rand.Reader)
	if err != nil {
		panic(err)
	}
	if len(aeads) == 0 {
		aeads = []uint16{hpkex.AES128GCM, hpkex.AES256GCM, hpkex.ChaCha20}
	}
	ml := len(publicName) + 16
	if ml > 255 {
		ml = 255
	}
	return KeyPair{Priv: priv, Config: BuildConfig(id, priv.PublicKey().Bytes(), publicName, uint8(ml), aeads), ID: id, PublicName: publicName, AEADs: aeads}
}

// TLSKey is the key in the form NewConn's WithKeys and crypto/tls take.
func (k KeyPair) TLSKey() tls.EncryptedClientHelloKey {
	return tls.EncryptedClientHelloKey{Config: k.Config, PrivateKey: k.Priv.Bytes(), SendAsRetry: true}
}

// ConfigList wraps configs into an ECHConfigList.
func ConfigList(cfgs ...[]byte) []byte {
	var b []byte
	for _, c := range cfgs {
		b = append(b, c...)
	}
	return append([]byte{byte(len(b) >> 8), byte(len(b))}, b...)
}

// Info is the HPKE info string of a config.
func Info(config []byte) []byte { return append([]byte("tls ech\x00"), config...) }

// Offer is one generated ECH first flight (and, optionally, its retry).
type Offer struct {
	Key       KeyPair
	AEAD      uint16
	Inner     *tlswire.ClientHello // ClientHelloInner as the client committed to it (session id = outer's)
	Outer     *tlswire.ClientHello // ClientHelloOuter with the sealed payload in place
	Encoded   []byte               // EncodedClientHelloInner incl. padding
	RunStart  int                  // first compressed inner extension index (-1: none)
	RunLen    int
	PadLen    int
	Sender    *hpkex.Sender
	InnerName string
	InnerALPN []string
	RecVer    uint16
}

// Record returns the first-flight record.
func (o *Offer) Record() []byte { return o.Outer.HelloRecord(o.RecVer) }

// Opts steer the generator.
type Opts struct {
	InnerName   string
	InnerALPN   []string
	NoALPN      bool
	MinExtra    int  // additional random inner extensions (lower bound)
	MaxExtra    int  // upper bound
	Compress    bool // compress a random contiguous run
	RunStart    int  // used when >= 0 together with RunLen > 0 (explicit run); set RunStart=-1 for random
	RunLen      int
	PadLen      int // -1: random 0..300 incl. the 32-byte rule; >=0 exact
	BigKeyShare bool
	SessionID   int // -1 random 0..32 (favouring 32), else exact length
	ECHPos      int // position of the ECH extension in the outer hello (-1 = last, -2 = random)
	InnerECHPos int // position of the inner-type ECH extension in the inner hello (-1 random)
	StrictPeer  bool // restrict the hello to what crypto/tls' own (stricter) parser accepts: TLS 1.3 only, filler types from the unassigned range
}

// DefaultOpts is what most workloads start from.
func DefaultOpts() Opts {
	return Opts{InnerName: "inner.example", InnerALPN: []string{"h2", "http/1.1"}, MaxExtra: 6, RunStart: -1, PadLen: -1, SessionID: -1, ECHPos: -2, InnerECHPos: -1}
}

var greaseVals = []uint16{0x0a0a, 0x1a1a, 0x2a2a, 0x3a3a, 0x4a4a, 0x5a5a, 0x6a6a, 0x7a7a, 0x8a8a, 0x9a9a, 0xaaaa, 0xbaba, 0xcaca, 0xdada, 0xeaea, 0xfafa}

func rbytes(rng *mrand.Rand, n int) []byte {
	b := make([]byte, n)
	for i := range b {
		b[i] = byte(rng.IntN(256))
	}
	return b
}

// known extension types that parsers give meaning to and that therefore must
// not be drawn as "unknown" fillers.
var reserved = map[uint16]bool{0: true, 16: true, 43: true, 0xfd00: true, 0xfe0d: true, 41: true}

// GenInner draws a ClientHelloInner (session id still empty).
func GenInner(rng *mrand.Rand, o Opts) *tlswire.ClientHello {
	h := &tlswire.ClientHello{LegacyVersion: 0x0303, Random: rbytes(rng, 32), Compression: []byte{0}}
	ns := 1 + rng.IntN(12)
	for i := 0; i < ns; i++ {
		switch rng.IntN(6) {
		case 0:
			g := greaseVals[rng.IntN(len(greaseVals))]
			h.CipherSuites = append(h.CipherSuites, byte(g>>8), byte(g))
		case 1:
			h.CipherSuites = append(h.CipherSuites, byte(rng.IntN(256)), byte(rng.IntN(256)))
		default:
			s := []uint16{0x1301, 0x1302, 0x1303}[rng.IntN(3)]
			h.CipherSuites = append(h.CipherSuites, byte(s>>8), byte(s))
		}
	}
	var exts []tlswire.Ext
	exts = append(exts, tlswire.SNI(o.InnerName))
	if !o.NoALPN {
		exts = append(exts, tlswire.ALPN(o.InnerALPN))
	}
	// A conforming client offers TLS 1.3 and nothing below it in the inner hello (draft-ietf-tls-esni 6.1: "MUST NOT
	// offer to negotiate TLS 1.2 or below"), and a server may - by 7.1 must - refuse an inner hello that does: a VALID
	// offer therefore lists 0x0304, possibly with GREASE values, and nothing else.
	vers := []uint16{0x0304}
	if !o.StrictPeer {
		rng.IntN(2) // (the draw that used to add 0x0303: kept so that the other draws stay as they were)
		if rng.IntN(3) == 0 {
			vers = append([]uint16{greaseVals[rng.IntN(16)]}, vers...)
		}
	}
	exts = append(exts, tlswire.SupportedVersions(vers...))
	ksLen := 32
	ks := []tlswire.KeyShareEntry{{Group: 0x001d, Key: rbytes(rng, ksLen)}}
	if o.BigKeyShare || rng.IntN(5) == 0 {
		ks = append([]tlswire.KeyShareEntry{{Group: 0x11ec, Key: rbytes(rng, 1216)}}, ks...)
	}
	exts = append(exts, tlswire.KeyShare(ks...))
	exts = append(exts, tlswire.U16List(tlswire.ExtSupportedGroups, 0x001d, 0x0017, 0x0018))
	exts = append(exts, tlswire.U16List(tlswire.ExtSigAlgs, 0x0403, 0x0804, 0x0401, 0x0503))
	exts = append(exts, tlswire.Ext{Type: tlswire.ExtPSKModes, Data: []byte{1, 1}})
	extra := o.MinExtra
	if o.MaxExtra > o.MinExtra {
		extra += rng.IntN(o.MaxExtra - o.MinExtra + 1)
	}
	used := map[uint16]bool{}
	for _, e := range exts {
		used[e.Type] = true
	}
	for i := 0; i < extra; i++ {
		var t uint16
		for {
			if rng.IntN(4) == 0 {
				t = greaseVals[rng.IntN(16)]
			} else if o.StrictPeer || rng.IntN(2) == 0 {
				t = uint16(0x4000 + rng.IntN(0xfcff-0x4000)) // unassigned range: ignored by real stacks
			} else {
				t = uint16(rng.IntN(65536))
			}
			if !used[t] && !reserved[t] {
				break
			}
		}
		used[t] = true
		n := 0
		switch rng.IntN(4) {
		case 0:
		case 1:
			n = 1 + rng.IntN(8)
		case 2:
			n = rng.IntN(64)
		default:
			n = rng.IntN(400)
		}
		exts = append(exts, tlswire.Ext{Type: t, Data: rbytes(rng, n)})
	}
	// shuffle, then insert the inner-type ECH extension
	rng.Shuffle(len(exts), func(i, j int) { exts[i], exts[j] = exts[j], exts[i] })
	pos := o.InnerECHPos
	if pos < 0 || pos > len(exts) {
		pos = rng.IntN(len(exts) + 1)
	}
	exts = append(exts[:pos], append([]tlswire.Ext{tlswire.ECHInner()}, exts[pos:]...)...)
	h.Exts = exts
	return h
}

// GenOuterBase draws a ClientHelloOuter without the ECH extension. copied are
// the inner extensions that must appear (in this order) in the outer hello.
func GenOuterBase(rng *mrand.Rand, publicName string, copied []tlswire.Ext, sessionIDLen int) *tlswire.ClientHello {
	h := &tlswire.ClientHello{LegacyVersion: 0x0303, Random: rbytes(rng, 32), Compression: []byte{0}}
	if sessionIDLen < 0 {
		sessionIDLen = 32
		if rng.IntN(4) == 0 {
			sessionIDLen = rng.IntN(33)
		}
	}
	h.SessionID = rbytes(rng, sessionIDLen)
	for _, s := range []uint16{0x1301, 0x1302, 0x1303} {
		h.CipherSuites = append(h.CipherSuites, byte(s>>8), byte(s))
	}
	used := map[uint16]bool{tlswire.ExtECH: true}
	for _, e := range copied {
		used[e.Type] = true
	}
	var own []tlswire.Ext
	add := func(e tlswire.Ext) {
		if !used[e.Type] {
			used[e.Type] = true
			own = append(own, e)
		}
	}
	add(tlswire.SNI(publicName))
	add(tlswire.SupportedVersions(0x0304))
	add(tlswire.KeyShare(tlswire.KeyShareEntry{Group: 0x001d, Key: rbytes(rng, 32)}))
	add(tlswire.U16List(tlswire.ExtSupportedGroups, 0x001d, 0x0017))
	add(tlswire.U16List(tlswire.ExtSigAlgs, 0x0403, 0x0804))
	if rng.IntN(2) == 0 {
		add(tlswire.ALPN([]string{"outer-proto"}))
	}
	for k := rng.IntN(4); k > 0; k-- {
		t := greaseVals[rng.IntN(16)]
		if rng.IntN(2) == 0 {
			t = uint16(rng.IntN(65536))
		}
		if reserved[t] {
			continue
		}
		add(tlswire.Ext{Type: t, Data: rbytes(rng, rng.IntN(40))})
	}
	rng.Shuffle(len(own), func(i, j int) { own[i], own[j] = own[j], own[i] })
	// interleave: keep `copied` in order, drop own extensions at random places
	var exts []tlswire.Ext
	ci, oi := 0, 0
	for ci < len(copied) || oi < len(own) {
		if ci < len(copied) && (oi >= len(own) || rng.IntN(2) == 0) {
			exts = append(exts, copied[ci])
			ci++
		} else {
			exts = append(exts, own[oi])
			oi++
		}
	}
	h.Exts = exts
	return h
}

// EncodeInner builds EncodedClientHelloInner: empty session id, the run
// [start,start+n) replaced by one ech_outer_extensions entry, pad zero bytes.
func EncodeInner(inner *tlswire.ClientHello, start, n, pad int) []byte {
	return EncodeInnerSID(inner, start, n, pad, nil)
}

// EncodeInnerSID is EncodeInner for a client that (against section 5.1) leaves a
// legacy_session_id in the encoded form; the server must still substitute the outer's.
func EncodeInnerSID(inner *tlswire.ClientHello, start, n, pad int, sid []byte) []byte {
	enc := inner.Clone()
	enc.SessionID = sid
	if n > 0 {
		var types []uint16
		for _, e := range inner.Exts[start : start+n] {
			types = append(types, e.Type)
		}
		var exts []tlswire.Ext
		exts = append(exts, inner.Exts[:start]...)
		exts = append(exts, tlswire.OuterExtensions(types))
		exts = append(exts, inner.Exts[start+n:]...)
		enc.Exts = exts
	}
	b := enc.Body()
	return append(b, make([]byte, pad)...)
}

// SealInto seals encoded into outer: the ECH extension is inserted at echPos
// (-1 = last) with the given enc, and the payload computed over the AAD (the
// outer ClientHello structure with a zeroed payload).
func SealInto(outer *tlswire.ClientHello, echPos int, s *hpkex.Sender, aead uint16, configID uint8, enc, encoded []byte) {
	placeholder := make([]byte, len(encoded)+s.Overhead())
	ext := tlswire.ECHOuter(hpkex.KDFSHA256, aead, configID, enc, placeholder)
	if echPos < 0 || echPos > len(outer.Exts) {
		echPos = len(outer.Exts)
	}
	outer.Exts = append(outer.Exts[:echPos:echPos], append([]tlswire.Ext{ext}, outer.Exts[echPos:]...)...)
	aad := outer.Body()
	payload := s.Seal(aad, encoded)
	outer.Exts[echPos] = tlswire.ECHOuter(hpkex.KDFSHA256, aead, configID, enc, payload)
}

// Gen draws a complete, valid offer for key k and the given AEAD.
func Gen(rng *mrand.Rand, k KeyPair, aead uint16, o Opts) *Offer {
	inner := GenInner(rng, o)
	of := &Offer{Key: k, AEAD: aead, InnerName: o.InnerName, InnerALPN: o.InnerALPN, RunStart: -1, RecVer: 0x0301}
	if o.NoALPN {
		of.InnerALPN = nil
	}
	// choose the compressed run (never containing the ECH extension)
	var copied []tlswire.Ext
	start, n := -1, 0
	if o.RunStart >= 0 && o.RunLen > 0 {
		start, n = o.RunStart, o.RunLen
	} else if o.Compress {
		echAt := inner.Find(tlswire.ExtECH)
		for tries := 0; tries < 20; tries++ {
			s := rng.IntN(len(inner.Exts))
			l := 1 + rng.IntN(len(inner.Exts)-s)
			if l > 127 {
				l = 127
			}
			if echAt >= s && echAt < s+l {
				continue
			}
			if sni := inner.Find(tlswire.ExtSNI); sni >= s && sni < s+l {
				continue // the outer hello must carry the public name, so server_name is never compressed
			}
			start, n = s, l
			break
		}
	}
	if n > 0 {
		copied = append(copied, inner.Exts[start:start+n]...)
		of.RunStart, of.RunLen = start, n
	}
	outer := GenOuterBase(rng, k.PublicName, copied, o.SessionID)
	inner.SessionID = append([]byte{}, outer.SessionID...)
	pad := o.PadLen
	if pad < 0 {
		switch rng.IntN(3) {
		case 0:
			pad = 0
		case 1:
			pad = rng.IntN(300)
		default:
			l := len(EncodeInner(inner, max(start, 0), n, 0))
			pad = 31 - ((l - 1) % 32)
		}
	}
	of.PadLen = pad
	of.Encoded = EncodeInner(inner, max(start, 0), n, pad)
	s, err := hpkex.Setup(aead, k.Priv.PublicKey().Bytes(), Info(k.Config), nil)
	if err != nil {
		panic(err)
	}
	pos := o.ECHPos
	if pos == -2 {
		pos = rng.IntN(len(outer.Exts) + 1)
		if rng.IntN(2) == 0 {
			pos = -1
		}
	}
	SealInto(outer, pos, s, aead, k.ID, s.Enc, of.Encoded)
	of.Inner, of.Outer, of.Sender = inner, outer, s
	return of
}

// Retry draws the second ClientHello sent after a HelloRetryRequest: a new
// inner hello with the same server name and ALPN (new random key share and a
// cookie), sealed under the same HPKE context with an empty enc.
func (o *Offer) Retry(rng *mrand.Rand, op Opts) *Offer {
	op.InnerName, op.InnerALPN = o.InnerName, o.InnerALPN
	op.NoALPN = o.InnerALPN == nil
	inner := GenInner(rng, op)
	if inner.Find(tlswire.ExtCookie) < 0 {
		inner.Exts = append(inner.Exts, tlswire.Ext{Type: tlswire.ExtCookie, Data: append([]byte{0, 8}, rbytes(rng, 8)...)})
	}
	outer := GenOuterBase(rng, o.Key.PublicName, nil, 0)
	outer.SessionID = append([]byte{}, o.Outer.SessionID...)
	inner.SessionID = append([]byte{}, outer.SessionID...)
	r := &Offer{Key: o.Key, AEAD: o.AEAD, InnerName: o.InnerName, InnerALPN: o.InnerALPN, RunStart: -1, Sender: o.Sender, RecVer: 0x0303}
	r.Encoded = EncodeInner(inner, 0, 0, 0)
	SealInto(outer, -1, o.Sender, o.AEAD, o.Key.ID, nil, r.Encoded)
	r.Inner, r.Outer = inner, outer
	return r
}

// Describe is a compact JSON-able description for evidence and replays.
func (o *Offer) Describe() map[string]any {
	return map[string]any{
		"aead": o.AEAD, "config_id": o.Key.ID, "public_name": o.Key.PublicName, "inner_name": o.InnerName, "inner_alpn": o.InnerALPN,
		"inner_exts": len(o.Inner.Exts), "outer_exts": len(o.Outer.Exts), "run_start": o.RunStart, "run_len": o.RunLen, "pad": o.PadLen,
		"session_id_len": len(o.Outer.SessionID), "record_len": len(o.Record()),
		"record": fmt.Sprintf("%x", o.Record()), "config": fmt.Sprintf("%x", o.Key.Config), "private_key": fmt.Sprintf("%x", o.Key.Priv.Bytes()),
	}
}
