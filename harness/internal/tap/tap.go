// Package tap provides a scripted in-memory net.Conn that stands for the
// client-side transport handed to ech.NewConn. It delivers bytes in chosen
// chunk sizes, can fail or end at an exact byte offset, honours deadlines the
// way a socket does, and records every call (bytes written, Close,
// SetDeadline…) with a global sequence number so that monitors can reason
// about order.
package tap

import (
	"errors"
	"io"
	"net"
	"os"
	"sync"
	"sync/atomic"
	"time"
)

// Event is one observed call on the transport.
type Event struct {
	Seq  int64
	Kind string // "read", "write", "close", "deadline", "rdeadline", "wdeadline", "read-timeout", "write-timeout"
	N    int
	Err  string
	T    time.Time // deadline value for deadline events
}

// Conn is the scripted transport.
type Conn struct {
	mu   sync.Mutex
	cond *sync.Cond

	rbuf     []byte
	consumed int   // total bytes handed to Read callers
	inClosed bool  // no more input will arrive
	inErr    error // error returned once the input is drained (default io.EOF)

	// Chunk decides how many of the avail bytes the next Read may return for a
	// caller buffer of size want (>=1). nil = as much as fits.
	Chunk func(avail, want int) int
	// FailAt: when >= 0, the Read that reaches this absolute input offset
	// returns the bytes before it together with FailErr (error-with-n>0) if
	// FailWithData, else returns them and fails on the next call.
	FailAt       int
	FailErr      error
	FailWithData bool
	failed       bool

	written    []byte
	WriteCalls [][]byte
	// WriteFailAfter: when >= 0 the Write that would exceed this many total
	// bytes writes only up to it and returns WriteErr (short write when nil).
	WriteFailAfter int
	WriteErr       error

	closed    int
	rDeadline time.Time
	wDeadline time.Time

	// Blocked receives a token (non-blocking send) every time a Read is about
	// to wait for input: the caller's goroutine is then pending inside Read.
	Blocked chan struct{}

	// BlockWrites makes Write behave like a flow-controlled transport whose
	// peer is not reading: it waits until the write deadline has passed (or
	// the transport is closed) and then fails.
	BlockWrites bool

	// OnWrite, when set, is called (without the tap's lock) after every Write
	// with the bytes that were accepted: the moment they are "on the wire".
	OnWrite func(b []byte)

	// QuietIO suppresses "read"/"write" events (deadline, close and timeout
	// events are always logged); used where the tap's own allocations matter.
	QuietIO bool

	seq    *atomic.Int64
	Events []Event
	local  net.Addr
}

type addr string

func (a addr) Network() string { return "tap" }
func (a addr) String() string  { return string(a) }

// New creates a transport. seq may be shared between taps (nil = private).
func New(seq *atomic.Int64) *Conn {
	if seq == nil {
		seq = new(atomic.Int64)
	}
	c := &Conn{FailAt: -1, WriteFailAfter: -1, seq: seq, inErr: io.EOF, Blocked: make(chan struct{}, 1)}
	c.cond = sync.NewCond(&c.mu)
	return c
}

func (c *Conn) log(kind string, n int, err error, t time.Time) {
	if c.QuietIO && (kind == "read" || kind == "write") {
		return
	}
	e := Event{Seq: c.seq.Add(1), Kind: kind, N: n, T: t}
	if err != nil {
		e.Err = err.Error()
	}
	c.Events = append(c.Events, e)
}

// Feed makes more client bytes available.
func (c *Conn) Feed(b []byte) {
	c.mu.Lock()
	c.rbuf = append(c.rbuf, b...)
	c.mu.Unlock()
	c.cond.Broadcast()
}

// CloseInput signals that the client will send nothing more; once the
// buffered bytes are drained Read returns err (io.EOF when nil).
func (c *Conn) CloseInput(err error) {
	c.mu.Lock()
	c.inClosed = true
	if err != nil {
		c.inErr = err
	}
	c.mu.Unlock()
	c.cond.Broadcast()
}

// Read implements net.Conn.
func (c *Conn) Read(b []byte) (int, error) {
	c.mu.Lock()
	defer c.mu.Unlock()
	for {
		if c.closed > 0 {
			c.log("read", 0, net.ErrClosed, time.Time{})
			return 0, net.ErrClosed
		}
		if !c.rDeadline.IsZero() && !time.Now().Before(c.rDeadline) {
			c.log("read-timeout", 0, os.ErrDeadlineExceeded, time.Time{})
			return 0, os.ErrDeadlineExceeded
		}
		if c.failed {
			c.log("read", 0, c.FailErr, time.Time{})
			return 0, c.FailErr
		}
		if len(b) == 0 {
			return 0, nil
		}
		avail := len(c.rbuf)
		if c.FailAt >= 0 && c.consumed+avail >= c.FailAt {
			avail = c.FailAt - c.consumed
			if avail == 0 {
				c.failed = true
				c.log("read", 0, c.FailErr, time.Time{})
				return 0, c.FailErr
			}
		}
		if avail > 0 {
			n := min(avail, len(b))
			if c.Chunk != nil {
				if k := c.Chunk(avail, len(b)); k >= 1 && k < n {
					n = k
				}
			}
			copy(b, c.rbuf[:n])
			c.rbuf = c.rbuf[n:]
			c.consumed += n
			if c.FailAt >= 0 && c.consumed == c.FailAt && c.FailWithData {
				c.failed = true
				c.log("read", n, c.FailErr, time.Time{})
				return n, c.FailErr
			}
			c.log("read", n, nil, time.Time{})
			return n, nil
		}
		if c.inClosed {
			c.log("read", 0, c.inErr, time.Time{})
			return 0, c.inErr
		}
		select {
		case c.Blocked <- struct{}{}:
		default:
		}
		if !c.rDeadline.IsZero() {
			// wake up at the deadline
			d := time.Until(c.rDeadline)
			t := time.AfterFunc(d, c.cond.Broadcast)
			c.cond.Wait()
			t.Stop()
			continue
		}
		c.cond.Wait()
	}
}

// Write implements net.Conn.
func (c *Conn) Write(b []byte) (n int, err error) {
	if c.OnWrite != nil {
		defer func() {
			if n > 0 {
				c.OnWrite(b[:n])
			}
		}()
	}
	c.mu.Lock()
	defer c.mu.Unlock()
	if c.closed > 0 {
		c.log("write", 0, net.ErrClosed, time.Time{})
		return 0, net.ErrClosed
	}
	for c.BlockWrites {
		if c.closed > 0 {
			c.log("write", 0, net.ErrClosed, time.Time{})
			return 0, net.ErrClosed
		}
		if !c.wDeadline.IsZero() && !time.Now().Before(c.wDeadline) {
			break
		}
		if !c.wDeadline.IsZero() {
			t := time.AfterFunc(time.Until(c.wDeadline), c.cond.Broadcast)
			c.cond.Wait()
			t.Stop()
			continue
		}
		c.cond.Wait()
	}
	if !c.wDeadline.IsZero() && !time.Now().Before(c.wDeadline) {
		c.log("write-timeout", 0, os.ErrDeadlineExceeded, time.Time{})
		return 0, os.ErrDeadlineExceeded
	}
	n = len(b)
	if c.WriteFailAfter >= 0 && len(c.written)+n > c.WriteFailAfter {
		n = max(0, c.WriteFailAfter-len(c.written))
		err = c.WriteErr
	}
	c.written = append(c.written, b[:n]...)
	c.WriteCalls = append(c.WriteCalls, append([]byte(nil), b[:n]...))
	c.log("write", n, err, time.Time{})
	return n, err
}

// Close implements net.Conn.
func (c *Conn) Close() error {
	c.mu.Lock()
	c.closed++
	c.log("close", 0, nil, time.Time{})
	c.mu.Unlock()
	c.cond.Broadcast()
	return nil
}

func (c *Conn) LocalAddr() net.Addr  { return addr("tap-local") }
func (c *Conn) RemoteAddr() net.Addr { return addr("tap-remote") }

// SetDeadline implements net.Conn.
func (c *Conn) SetDeadline(t time.Time) error {
	c.mu.Lock()
	c.rDeadline, c.wDeadline = t, t
	c.log("deadline", 0, nil, t)
	c.mu.Unlock()
	c.cond.Broadcast()
	return nil
}

// SetReadDeadline implements net.Conn.
func (c *Conn) SetReadDeadline(t time.Time) error {
	c.mu.Lock()
	c.rDeadline = t
	c.log("rdeadline", 0, nil, t)
	c.mu.Unlock()
	c.cond.Broadcast()
	return nil
}

// SetWriteDeadline implements net.Conn.
func (c *Conn) SetWriteDeadline(t time.Time) error {
	c.mu.Lock()
	c.wDeadline = t
	c.log("wdeadline", 0, nil, t)
	c.mu.Unlock()
	c.cond.Broadcast()
	return nil
}

// Written returns a copy of everything written so far.
func (c *Conn) Written() []byte {
	c.mu.Lock()
	defer c.mu.Unlock()
	return append([]byte(nil), c.written...)
}

// Closed returns how many times Close was called.
func (c *Conn) Closed() int {
	c.mu.Lock()
	defer c.mu.Unlock()
	return c.closed
}

// Consumed returns how many input bytes were handed out.
func (c *Conn) Consumed() int {
	c.mu.Lock()
	defer c.mu.Unlock()
	return c.consumed
}

// Pending returns how many fed bytes have not been read yet.
func (c *Conn) Pending() int {
	c.mu.Lock()
	defer c.mu.Unlock()
	return len(c.rbuf)
}

// Snapshot returns a copy of the event log.
func (c *Conn) Snapshot() []Event {
	c.mu.Lock()
	defer c.mu.Unlock()
	return append([]Event(nil), c.Events...)
}

// ErrInjected is the default injected transport failure.
var ErrInjected = errors.New("tap: injected transport error")

// FromBytes is the common case: all of b available, then EOF.
func FromBytes(b []byte) *Conn {
	c := New(nil)
	c.Feed(b)
	c.CloseInput(nil)
	return c
}
