package dohfake

import (
	"io"
	"net/http"
	"net/http/httptest"
	"slices"
	"sort"
	"strconv"
	"strings"
	"sync"
	"sync/atomic"
	"time"

	"golang.org/x/net/dns/dnsmessage"
)

// Failure switch modes.
const (
	FailNone     = iota
	FailServfail // every query is answered with rcode SERVFAIL
	FailHTTP400  // every query is answered with HTTP 400 (never 5xx: retryablehttp retries those for seconds)
)

// Query is one request seen by the server.
type Query struct {
	Seq       int64    // arrival order (atomic counter, starts at 1)
	Labels    []string // QNAME exactly as on the wire, one entry per length-prefixed label (literal walk, no pointers)
	Name      string   // Labels joined with ".", lower-cased
	Type      uint16   // QTYPE (0 when the name could not be walked)
	Parsed    bool     // dnsmessage.Parser accepted the whole message with exactly one question
	Legal     bool     // every label 1..63 bytes, terminated, wire length <= 255
	Rcode     int      // response code served (-1: no DNS response, see Status)
	Status    int      // HTTP status served
	Version   int      // zone version the answer was computed from
	Answers   int      // RRs in the answer section
	Poisoned  bool     // the answer carried RRs owned by unrelated names
	Overlap   int      // queries whose answer had not been written yet when this one arrived
	Unordered bool     // a CNAME record of the answer stood after records owned by its target
}

// Server is a DoH endpoint (POST, application/dns-message) on 127.0.0.1 over
// plain HTTP. Keep-alives are disabled so that one-shot clients leak nothing.
type Server struct {
	URL string

	ts       *httptest.Server
	seq      atomic.Int64
	arrivals chan Query
	mu       sync.Mutex
	zone     *Zone
	version  int
	fail     int
	gates    map[string]chan struct{}
	log      []Query
	onQuery  func(Query)
	epoch    int // bumped by Reset: answers computed for an older epoch are neither logged nor sent
	active   atomic.Int64
	delay    atomic.Int64
}

// SetDelay makes the server wait d before it answers each query (0 = none).
func (s *Server) SetDelay(d time.Duration) { s.delay.Store(int64(d)) }

// NewServer starts a server answering from z.
func NewServer(z *Zone) *Server {
	s := &Server{zone: z, gates: map[string]chan struct{}{}, arrivals: make(chan Query, 4096)}
	s.ts = httptest.NewUnstartedServer(s)
	s.ts.Config.SetKeepAlivesEnabled(false)
	s.ts.Start()
	s.URL = s.ts.URL + "/dns-query"
	return s
}

// Close shuts the server down and releases every blocked query.
func (s *Server) Close() { s.Release(); s.ts.Close() }

// Reset makes the server as new with universe z (log, sequence counter,
// version, gates, failure switch and hook cleared), so that one listener can
// serve many consecutive cases. Queries still in flight from before the Reset
// are dropped (HTTP 400, not logged).
func (s *Server) Reset(z *Zone) {
	s.Release()
	s.mu.Lock()
	defer s.mu.Unlock()
	s.zone, s.version, s.fail, s.log, s.onQuery = z, 0, FailNone, nil, nil
	s.epoch++
	s.seq.Store(0)
	s.delay.Store(0)
}

// SetZone replaces the universe; Update edits it under the server's lock.
func (s *Server) SetZone(z *Zone)        { s.mu.Lock(); s.zone = z; s.mu.Unlock() }
func (s *Server) Update(f func(z *Zone)) { s.mu.Lock(); f(s.zone); s.mu.Unlock() }

// Bump increments the zone version (all Auto addresses change) and returns it.
func (s *Server) Bump() int { s.mu.Lock(); defer s.mu.Unlock(); s.version++; return s.version }

// Version returns the current zone version.
func (s *Server) Version() int { s.mu.Lock(); defer s.mu.Unlock(); return s.version }

// SetFail toggles the failure switch (FailNone, FailServfail, FailHTTP400).
func (s *Server) SetFail(mode int) { s.mu.Lock(); s.fail = mode; s.mu.Unlock() }

// OnQuery installs a hook called on the handler goroutine at the arrival of
// every query, before gates and before the answer is computed (e.g. to cancel
// a client that exceeds a query budget).
func (s *Server) OnQuery(f func(Query)) { s.mu.Lock(); s.onQuery = f; s.mu.Unlock() }

// Block makes queries for the given names (any qtype) wait until Release.
func (s *Server) Block(names ...string) {
	s.mu.Lock()
	defer s.mu.Unlock()
	for _, n := range names {
		if s.gates[n] == nil {
			s.gates[n] = make(chan struct{})
		}
	}
}

// Release opens the gates of the given names, or all gates when none is given.
// The answer of a held query is computed after its release.
func (s *Server) Release(names ...string) {
	s.mu.Lock()
	defer s.mu.Unlock()
	if len(names) == 0 {
		for n := range s.gates {
			names = append(names, n)
		}
	}
	for _, n := range names {
		if g := s.gates[n]; g != nil {
			close(g)
			delete(s.gates, n)
		}
	}
}

// Arrivals delivers every query that reached a closed gate, at the moment it
// starts waiting (buffered; use it to synchronise on "the query is in flight").
func (s *Server) Arrivals() <-chan Query { return s.arrivals }

// Log returns the queries answered so far in arrival order; ResetLog clears it.
func (s *Server) Log() []Query {
	s.mu.Lock()
	out := append([]Query{}, s.log...)
	s.mu.Unlock()
	sort.Slice(out, func(i, j int) bool { return out[i].Seq < out[j].Seq })
	return out
}
func (s *Server) ResetLog() { s.mu.Lock(); s.log = nil; s.mu.Unlock() }

// Inspect walks the question of a raw DNS query: literal length-prefixed
// labels from offset 12 (so malformed names stay visible), legality per RFC
// 1035, and a full parse with dnsmessage.Parser.
func Inspect(msg []byte) (q Query, pq dnsmessage.Question, id uint16) {
	off, wire, ok := 12, 1, true
	for {
		if off >= len(msg) { // not terminated
			ok = false
			break
		}
		l := int(msg[off])
		off++
		if l == 0 {
			break
		}
		end := min(off+l, len(msg))
		q.Labels = append(q.Labels, string(msg[off:end]))
		if l > 63 || off+l > len(msg) {
			ok = false
		}
		wire += 1 + l
		off = end
	}
	q.Legal = ok && wire <= 255 && len(q.Labels) > 0
	q.Name = strings.ToLower(strings.Join(q.Labels, "."))
	if off+2 <= len(msg) {
		q.Type = uint16(msg[off])<<8 | uint16(msg[off+1])
	}
	var p dnsmessage.Parser
	h, err := p.Start(msg)
	if err != nil {
		return q, pq, id
	}
	id = h.ID
	qs, err := p.AllQuestions()
	if err != nil || len(qs) != 1 || h.Response {
		return q, pq, id
	}
	if p.SkipAllAnswers() != nil || p.SkipAllAuthorities() != nil {
		return q, pq, id
	}
	if _, err := p.AllAdditionals(); err != nil {
		return q, pq, id
	}
	q.Parsed, q.Type = true, uint16(qs[0].Type)
	return q, qs[0], id
}

// Build encodes a response: the echoed question (if any), rcode and answers.
func Build(id uint16, question *dnsmessage.Question, rcode int, rrs []RR, compress bool, soa ...*NegSOA) ([]byte, error) {
	b := dnsmessage.NewBuilder(nil, dnsmessage.Header{ID: id, Response: true, RecursionDesired: true, RecursionAvailable: true, RCode: dnsmessage.RCode(rcode & 0xf)})
	if compress {
		b.EnableCompression()
	}
	if err := b.StartQuestions(); err != nil {
		return nil, err
	}
	if question != nil {
		if err := b.Question(*question); err != nil {
			return nil, err
		}
	}
	if err := b.StartAnswers(); err != nil {
		return nil, err
	}
	for _, rr := range rrs {
		owner, err := dnsmessage.NewName(rr.Owner + ".")
		if err != nil {
			return nil, err
		}
		h := dnsmessage.ResourceHeader{Name: owner, Class: dnsmessage.ClassINET, TTL: rr.TTL}
		switch rr.Type {
		case TypeA:
			err = b.AResource(h, dnsmessage.AResource{A: rr.Addr.As4()})
		case TypeAAAA:
			err = b.AAAAResource(h, dnsmessage.AAAAResource{AAAA: rr.Addr.As16()})
		case TypeCNAME:
			var t dnsmessage.Name
			if t, err = dnsmessage.NewName(rr.Target + "."); err == nil {
				err = b.CNAMEResource(h, dnsmessage.CNAMEResource{CNAME: t})
			}
		case TypeHTTPS:
			var data []byte
			if data, err = rr.HTTPS.RData(); err == nil {
				err = b.UnknownResource(h, dnsmessage.UnknownResource{Type: dnsmessage.Type(TypeHTTPS), Data: data})
			}
		default:
			err = errName
		}
		if err != nil {
			return nil, err
		}
	}
	if len(soa) > 0 && soa[0] != nil && question != nil {
		// negative answer: the SOA of the zone apex (the last label of the name asked) in the authority section
		if err := b.StartAuthorities(); err != nil {
			return nil, err
		}
		qn := strings.TrimSuffix(question.Name.String(), ".")
		apex := qn[strings.LastIndexByte(qn, '.')+1:]
		owner, err := dnsmessage.NewName(apex + ".")
		if err != nil {
			return nil, err
		}
		ns, _ := dnsmessage.NewName("ns." + apex + ".")
		mb, _ := dnsmessage.NewName("hostmaster." + apex + ".")
		h := dnsmessage.ResourceHeader{Name: owner, Class: dnsmessage.ClassINET, TTL: soa[0].TTL}
		if err := b.SOAResource(h, dnsmessage.SOAResource{NS: ns, MBox: mb, Serial: 1, Refresh: 7200, Retry: 3600, Expire: 86400, MinTTL: soa[0].Minimum}); err != nil {
			return nil, err
		}
	}
	if rcode > 15 {
		// extended RCODE (RFC 6891 section 6.1.3): the upper eight bits travel in the TTL field of an OPT record
		if err := b.StartAdditionals(); err != nil {
			return nil, err
		}
		var h dnsmessage.ResourceHeader
		if err := h.SetEDNS0(1232, dnsmessage.RCode(rcode), false); err != nil {
			return nil, err
		}
		if err := b.OPTResource(h, dnsmessage.OPTResource{}); err != nil {
			return nil, err
		}
	}
	return b.Finish()
}

// ServeHTTP implements RFC 8484 POST.
func (s *Server) ServeHTTP(w http.ResponseWriter, req *http.Request) {
	if req.Method != http.MethodPost || req.Header.Get("Content-Type") != "application/dns-message" {
		http.Error(w, "POST application/dns-message only", http.StatusBadRequest)
		return
	}
	body, err := io.ReadAll(io.LimitReader(req.Body, 65536))
	if err != nil {
		http.Error(w, "body", http.StatusBadRequest)
		return
	}
	q, pq, id := Inspect(body)
	q.Overlap = int(s.active.Add(1) - 1)
	defer s.active.Add(-1)
	s.mu.Lock()
	q.Seq = s.seq.Add(1)
	gate, hook, epoch := s.gates[q.Name], s.onQuery, s.epoch
	s.mu.Unlock()
	if hook != nil {
		hook(q)
	}
	if d := time.Duration(s.delay.Load()); d > 0 {
		time.Sleep(d) // an injected delay (SetDelay): queries that a client sends at the same time are then in flight together
	}
	if gate != nil {
		select {
		case s.arrivals <- q:
		default:
		}
		select {
		case <-gate:
		case <-req.Context().Done():
			return
		}
	}
	s.mu.Lock()
	defer s.mu.Unlock()
	if epoch != s.epoch {
		http.Error(w, "stale", http.StatusBadRequest)
		return
	}
	q.Version, q.Status = s.version, http.StatusOK
	var resp []byte
	switch {
	case s.fail == FailHTTP400:
		q.Status, q.Rcode = http.StatusBadRequest, -1
	case !q.Parsed:
		q.Rcode = FormErr
		resp, err = Build(id, nil, FormErr, nil, false)
	case s.fail == FailServfail:
		q.Rcode = ServFail
		resp, err = Build(id, &pq, ServFail, nil, false)
	default:
		var rrs []RR
		rrs, q.Rcode, q.Poisoned = s.zone.Answer(q.Name, q.Type, s.version)
		q.Answers = len(rrs)
		rrs, q.Unordered = s.zone.Reorder(rrs)
		var soa *NegSOA
		if q.Rcode == 0 && s.zone.NegSOA != nil {
			// negative answer (RFC 2308 section 2.2): no record of the type asked at the end of the chain; the
			// answer section is empty or holds the CNAMEs (and whatever poison is configured)
			genuine, _ := s.zone.Lookup(q.Name, q.Type, s.version)
			if !slices.ContainsFunc(genuine, func(rr RR) bool { return rr.Type == q.Type }) {
				soa = s.zone.NegSOA
			}
		}
		if resp, err = Build(id, &pq, q.Rcode, rrs, s.zone.Compress, soa); err != nil {
			// unencodable zone data: a fixture bug, visible to the client as SERVFAIL
			q.Rcode, q.Answers, q.Poisoned, q.Unordered = ServFail, 0, false, false
			resp, err = Build(id, &pq, ServFail, nil, false)
		}
	}
	s.log = append(s.log, q)
	if q.Status != http.StatusOK || err != nil {
		http.Error(w, "failure switch", http.StatusBadRequest)
		return
	}
	w.Header().Set("Content-Type", "application/dns-message")
	if s.zone.Chunked {
		w.WriteHeader(http.StatusOK)
		if f, ok := w.(http.Flusher); ok {
			f.Flush() // headers leave before the body is known: no Content-Length, chunked transfer coding
		}
		w.Write(resp)
		return
	}
	w.Header().Set("Content-Length", strconv.Itoa(len(resp)))
	w.Write(resp)
}
