// Package dohfake is a small DNS universe (Zone) served over RFC 8484
// DNS-over-HTTPS by an httptest server, with a query log, versioned addresses,
// per-name gates and a failure switch. It shares no code with the library
// under test: queries are parsed with x/net dnsmessage.Parser plus a literal
// label walk, responses are built with dnsmessage.Builder and an own RFC 9460
// RDATA encoder.
package dohfake

import (
	"encoding/binary"
	"errors"
	"hash/fnv"
	"net/netip"
	"slices"
	"strings"
)

// RR types and response codes used by the universe.
const (
	TypeA     uint16 = 1
	TypeCNAME uint16 = 5
	TypeAAAA  uint16 = 28
	TypeHTTPS uint16 = 65

	NoError  = 0
	FormErr  = 1
	ServFail = 2
	NXDomain = 3
	NotImp   = 4
	Refused  = 5
)

// HTTPS is the RDATA of one HTTPS (type 65) record, RFC 9460.
type HTTPS struct {
	Priority      uint16 // 0 = alias mode
	Target        string // "" or "." = root (service mode: the owner itself)
	ALPN          []string
	NoDefaultALPN bool
	Port          uint16
	IPv4Hint      []netip.Addr
	IPv6Hint      []netip.Addr
	ECH           []byte
	TargetWire    string // when set: the spelling of Target put on the wire (same name, other letter case)
	ECHEmpty      bool   // the ech parameter is present with a value of zero bytes (ECH must be empty)
}

// RR is one resource record. Owner and Target are lower-case without trailing dot.
type RR struct {
	Owner  string
	Type   uint16
	TTL    uint32
	Addr   netip.Addr // A, AAAA
	Target string     // CNAME
	HTTPS  *HTTPS     // HTTPS
}

// Key selects a (name, qtype) pair; Type 0 means every qtype.
type Key struct {
	Name string
	Type uint16
}

// Poison lists RRs owned by OTHER names that the server puts before / after
// the genuine answers of one (name, qtype).
type Poison struct{ Before, After []RR }

// Zone is the universe. Treat it as immutable once served; change it through
// Server.Update or Server.SetZone.
type Zone struct {
	RRs       map[string][]RR   // owner -> its records (A, AAAA, CNAME, HTTPS), each with its own TTL
	Auto      map[string][2]int // owner -> number of version-derived A and AAAA records (see AutoAddr)
	AutoTTL   uint32            // TTL of the version-derived records
	Rcode     map[Key]int       // forced response codes
	Poison    map[Key]Poison    // extra answers owned by unrelated names
	NXUnknown bool              // names without any data answer NXDOMAIN instead of NOERROR/no data
	Compress  bool              // use RFC 1035 name compression in responses
	Order     int               // order of the answer section: 0 CNAME chain first (as resolved), 1 reversed, 2 CNAME records last, 3 rotated by one (the order of RRs in a section carries no meaning)
	Chunked   bool              // responses are sent without a Content-Length header (chunked transfer coding), as HTTP servers do for streamed or larger bodies
	NegSOA    *NegSOA           // when set: a NOERROR response without answers carries this SOA in its authority section (RFC 2308)
}

// NegSOA is the SOA record of negative answers: its TTL and its MINIMUM field.
type NegSOA struct{ TTL, Minimum uint32 }

// NewZone returns an empty universe.
func NewZone() *Zone {
	return &Zone{RRs: map[string][]RR{}, Auto: map[string][2]int{}, Rcode: map[Key]int{}, Poison: map[Key]Poison{}, AutoTTL: 60}
}

// Add appends records under their owners.
func (z *Zone) Add(rrs ...RR) {
	for _, rr := range rrs {
		z.RRs[rr.Owner] = append(z.RRs[rr.Owner], rr)
	}
}

// Addr (A or AAAA by address family), CNAME and Svc build single records.
func Addr(owner string, ip netip.Addr, ttl uint32) RR {
	t := TypeAAAA
	if ip.Is4() {
		t = TypeA
	}
	return RR{Owner: owner, Type: t, TTL: ttl, Addr: ip}
}
func CNAME(owner, target string, ttl uint32) RR {
	return RR{Owner: owner, Type: TypeCNAME, TTL: ttl, Target: target}
}
func Svc(owner string, h HTTPS, ttl uint32) RR {
	return RR{Owner: owner, Type: TypeHTTPS, TTL: ttl, HTTPS: &h}
}

// AutoAddr is the i-th address of name at zone version v: 10.<h(name)>.<v low 8>.<v high 4|i>
// or fd00::<h(name)>:<v>:<i>. AddrVersion recovers v (12 bits for A, 32 for AAAA).
func AutoAddr(name string, v, i int, v6 bool) netip.Addr {
	h := fnv.New32a()
	h.Write([]byte(name))
	hs := h.Sum32()
	if !v6 {
		return netip.AddrFrom4([4]byte{10, byte(hs), byte(v), byte(v>>8&0xf)<<4 | byte(i&0xf)})
	}
	var b [16]byte
	b[0] = 0xfd
	binary.BigEndian.PutUint32(b[4:], hs)
	binary.BigEndian.PutUint32(b[8:], uint32(v))
	binary.BigEndian.PutUint32(b[12:], uint32(i))
	return netip.AddrFrom16(b)
}

// AddrVersion returns the zone version encoded in an AutoAddr address.
func AddrVersion(ip netip.Addr) int {
	if ip.Is4() {
		b := ip.As4()
		return int(b[2]) | int(b[3]>>4)<<8
	}
	b := ip.As16()
	return int(binary.BigEndian.Uint32(b[8:]))
}

func (z *Zone) forced(name string, qtype uint16) int {
	if rc, ok := z.Rcode[Key{name, qtype}]; ok {
		return rc
	}
	return z.Rcode[Key{name, 0}]
}

// Lookup is the genuine answer of a recursive resolver for (name, qtype) at
// zone version v: every CNAME RR of the in-zone chain starting at name, then
// the RRs of type qtype at the end of the chain, and the response code. A
// non-zero rcode (forced for any name on the chain, NXDOMAIN for a name
// without data when NXUnknown is set, SERVFAIL for a CNAME loop or more than
// 8 CNAMEs) comes with no answers.
func (z *Zone) Lookup(name string, qtype uint16, v int) ([]RR, int) {
	var out []RR
	cur := strings.ToLower(strings.TrimSuffix(name, "."))
	seen := map[string]bool{}
	for {
		if rc := z.forced(cur, qtype); rc != 0 {
			return nil, rc
		}
		if seen[cur] || len(seen) > 8 {
			return nil, ServFail
		}
		seen[cur] = true
		rrs, auto := z.RRs[cur], z.Auto[cur]
		if len(rrs) == 0 && auto == [2]int{} && z.NXUnknown {
			return nil, NXDomain // also for a dangling CNAME, as recursive resolvers do
		}
		next := ""
		for _, rr := range rrs {
			if rr.Type == TypeCNAME && qtype != TypeCNAME {
				out = append(out, rr)
				next = rr.Target
				break
			}
		}
		if next != "" {
			cur = next
			continue
		}
		for _, rr := range rrs {
			if rr.Type == qtype {
				out = append(out, rr)
			}
		}
		if qtype == TypeA || qtype == TypeAAAA {
			n := auto[0]
			if qtype == TypeAAAA {
				n = auto[1]
			}
			for i := 0; i < n; i++ {
				out = append(out, RR{Owner: cur, Type: qtype, TTL: z.AutoTTL, Addr: AutoAddr(cur, v, i, qtype == TypeAAAA)})
			}
		}
		return out, NoError
	}
}

// Answer is Lookup plus the poison configured for (name, qtype); poisoned
// reports whether unrelated records were added. Poison is served only with
// NOERROR.
func (z *Zone) Answer(name string, qtype uint16, v int) (rrs []RR, rcode int, poisoned bool) {
	rrs, rcode = z.Lookup(name, qtype, v)
	if rcode != NoError {
		return rrs, rcode, false
	}
	name = strings.ToLower(strings.TrimSuffix(name, "."))
	for _, k := range []Key{{name, qtype}, {name, 0}} {
		if p, ok := z.Poison[k]; ok && len(p.Before)+len(p.After) > 0 {
			rrs = append(append(append([]RR{}, p.Before...), rrs...), p.After...)
			poisoned = true
		}
	}
	return rrs, rcode, poisoned
}

// Reorder applies z.Order to an answer section and reports whether a CNAME
// record no longer stands before everything reached through it.
func (z *Zone) Reorder(rrs []RR) ([]RR, bool) {
	if z.Order == 0 || len(rrs) < 2 {
		return rrs, false
	}
	out := append([]RR{}, rrs...)
	switch z.Order {
	case 1:
		slices.Reverse(out)
	case 2:
		slices.SortStableFunc(out, func(a, b RR) int {
			ca, cb := a.Type == TypeCNAME, b.Type == TypeCNAME
			switch {
			case ca == cb:
				return 0
			case cb:
				return -1
			}
			return 1
		})
	default:
		out = append(out[1:], out[0])
	}
	for i, rr := range out {
		if rr.Type != TypeCNAME {
			continue
		}
		for _, before := range out[:i] {
			if strings.EqualFold(before.Owner, rr.Target) {
				return out, true
			}
		}
	}
	return out, false
}

var errName = errors.New("dohfake: illegal name in zone data")

func wireName(name string) ([]byte, error) {
	name = strings.TrimSuffix(name, ".")
	if name == "" {
		return []byte{0}, nil
	}
	var b []byte
	for _, l := range strings.Split(name, ".") {
		if len(l) == 0 || len(l) > 63 {
			return nil, errName
		}
		b = append(append(b, byte(len(l))), l...)
	}
	if len(b)+1 > 255 {
		return nil, errName
	}
	return append(b, 0), nil
}

// RData encodes the record per RFC 9460 section 2.2: priority, uncompressed
// target name, SvcParams in strictly increasing key order.
func (h *HTTPS) RData() ([]byte, error) {
	tn := h.Target
	if h.TargetWire != "" {
		tn = h.TargetWire
	}
	t, err := wireName(tn)
	if err != nil {
		return nil, err
	}
	b := binary.BigEndian.AppendUint16(nil, h.Priority)
	b = append(b, t...)
	param := func(key uint16, v []byte) {
		b = binary.BigEndian.AppendUint16(b, key)
		b = binary.BigEndian.AppendUint16(b, uint16(len(v)))
		b = append(b, v...)
	}
	if len(h.ALPN) > 0 {
		var v []byte
		for _, a := range h.ALPN {
			if len(a) == 0 || len(a) > 255 {
				return nil, errName
			}
			v = append(append(v, byte(len(a))), a...)
		}
		param(1, v)
	}
	if h.NoDefaultALPN {
		param(2, nil)
	}
	if h.Port != 0 {
		param(3, binary.BigEndian.AppendUint16(nil, h.Port))
	}
	if len(h.IPv4Hint) > 0 {
		var v []byte
		for _, ip := range h.IPv4Hint {
			a := ip.As4()
			v = append(v, a[:]...)
		}
		param(4, v)
	}
	if len(h.ECH) > 0 {
		param(5, h.ECH)
	} else if h.ECHEmpty {
		param(5, nil)
	}
	if len(h.IPv6Hint) > 0 {
		var v []byte
		for _, ip := range h.IPv6Hint {
			a := ip.As16()
			v = append(v, a[:]...)
		}
		param(6, v)
	}
	return b, nil
}
