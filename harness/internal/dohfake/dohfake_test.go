package dohfake

import (
	"bytes"
	"encoding/hex"
	"io"
	"net/http"
	"net/netip"
	"strings"
	"testing"

	"golang.org/x/net/dns/dnsmessage"
)

// RFC 9460 appendix D.2 wire-format vectors.
func TestRDataVectors(t *testing.T) {
	for _, tc := range []struct {
		h    HTTPS
		want string
	}{
		{HTTPS{Priority: 0, Target: "foo.example.com"}, "0000" + "03666f6f076578616d706c6503636f6d00"},
		{HTTPS{Priority: 1, Target: "."}, "000100"},
		{HTTPS{Priority: 16, Target: "foo.example.com", Port: 53}, "0010" + "03666f6f076578616d706c6503636f6d00" + "000300020035"},
		{HTTPS{Priority: 1, Target: "foo.example.com", IPv6Hint: []netip.Addr{netip.MustParseAddr("2001:db8::1"), netip.MustParseAddr("2001:db8::53:1")}},
			"0001" + "03666f6f076578616d706c6503636f6d00" + "00060020" + "20010db8000000000000000000000001" + "20010db8000000000000000000530001"},
		{HTTPS{Priority: 16, Target: "foo.example.org", ALPN: []string{"h2", "h3-19"}, IPv4Hint: []netip.Addr{netip.MustParseAddr("192.0.2.1")}},
			"0010" + "03666f6f076578616d706c65036f726700" + "00010009" + "02683205" + "68332d3139" + "00040004c0000201"},
	} {
		got, err := tc.h.RData()
		if err != nil || hex.EncodeToString(got) != tc.want {
			t.Errorf("%+v: got %x (%v), want %s", tc.h, got, err, tc.want)
		}
	}
}

func query(t *testing.T, name string, qtype uint16) []byte {
	b := dnsmessage.NewBuilder(nil, dnsmessage.Header{RecursionDesired: true})
	b.StartQuestions()
	if err := b.Question(dnsmessage.Question{Name: dnsmessage.MustNewName(name + "."), Type: dnsmessage.Type(qtype), Class: dnsmessage.ClassINET}); err != nil {
		t.Fatal(err)
	}
	m, _ := b.Finish()
	return m
}

func post(t *testing.T, s *Server, body []byte) (int, *dnsmessage.Message) {
	resp, err := http.Post(s.URL, "application/dns-message", bytes.NewReader(body))
	if err != nil {
		t.Fatal(err)
	}
	defer resp.Body.Close()
	raw, _ := io.ReadAll(resp.Body)
	if resp.StatusCode != 200 {
		return resp.StatusCode, nil
	}
	if int(resp.ContentLength) != len(raw) {
		t.Errorf("content-length %d, body %d", resp.ContentLength, len(raw))
	}
	var m dnsmessage.Message
	if err := m.Unpack(raw); err != nil {
		t.Fatalf("response does not parse: %v", err)
	}
	return 200, &m
}

func TestServer(t *testing.T) {
	z := NewZone()
	z.NXUnknown, z.Compress = true, true
	z.Add(CNAME("www.t", "real.t", 5), Svc("real.t", HTTPS{Priority: 1, ECH: []byte("x")}, 7), Addr("real.t", netip.MustParseAddr("10.0.0.1"), 9))
	z.Auto["auto.t"] = [2]int{2, 1}
	z.Rcode[Key{"bad.t", TypeA}] = Refused
	z.Poison[Key{"real.t", TypeA}] = Poison{Before: []RR{Addr("evil.t", netip.MustParseAddr("203.0.113.1"), 1)}}
	s := NewServer(z)
	defer s.Close()

	_, m := post(t, s, query(t, "www.t", TypeHTTPS))
	if len(m.Answers) != 2 || m.Answers[0].Header.Type != dnsmessage.TypeCNAME || m.Answers[1].Header.Name.String() != "real.t." || m.Answers[1].Header.TTL != 7 {
		t.Errorf("cname chain answer: %+v", m.Answers)
	}
	if _, m = post(t, s, query(t, "real.t", TypeA)); len(m.Answers) != 2 || m.Answers[0].Header.Name.String() != "evil.t." {
		t.Errorf("poisoned answer: %+v", m.Answers)
	}
	if _, m = post(t, s, query(t, "bad.t", TypeA)); m.RCode != dnsmessage.RCodeRefused {
		t.Errorf("forced rcode: %v", m.RCode)
	}
	if _, m = post(t, s, query(t, "nope.t", TypeA)); m.RCode != dnsmessage.RCodeNameError {
		t.Errorf("unknown name: %v", m.RCode)
	}
	_, m = post(t, s, query(t, "auto.t", TypeA))
	v0 := netip.AddrFrom4(m.Answers[0].Body.(*dnsmessage.AResource).A)
	s.Bump()
	_, m = post(t, s, query(t, "auto.t", TypeAAAA))
	v1 := netip.AddrFrom16(m.Answers[0].Body.(*dnsmessage.AAAAResource).AAAA)
	if AddrVersion(v0) != 0 || AddrVersion(v1) != 1 || v0 != AutoAddr("auto.t", 0, 0, false) {
		t.Errorf("versions %v %v", v0, v1)
	}
	// malformed QNAME (label of 70 bytes): logged as seen on the wire, answered FORMERR
	bad := query(t, strings.Repeat("a", 60)+"."+strings.Repeat("b", 20)+".t", TypeA)
	bad[12] = 70
	if _, m = post(t, s, bad); m.RCode != dnsmessage.RCodeFormatError {
		t.Errorf("malformed query: %v", m.RCode)
	}
	// failure switch and gate
	s.SetFail(FailHTTP400)
	if st, _ := post(t, s, query(t, "real.t", TypeA)); st != 400 {
		t.Errorf("http failure switch: %d", st)
	}
	s.SetFail(FailServfail)
	if _, m = post(t, s, query(t, "real.t", TypeA)); m.RCode != dnsmessage.RCodeServerFailure {
		t.Errorf("servfail switch: %v", m.RCode)
	}
	s.SetFail(FailNone)
	s.Block("real.t")
	done := make(chan int)
	go func() { st, _ := post(t, s, query(t, "real.t", TypeA)); done <- st }()
	if q := <-s.Arrivals(); q.Name != "real.t" {
		t.Errorf("arrival %+v", q)
	}
	select {
	case <-done:
		t.Error("blocked query answered before Release")
	default:
	}
	s.Release("real.t")
	<-done
	log := s.Log()
	if len(log) != 10 || log[6].Legal || log[6].Parsed || len(log[6].Labels[0]) != 70 || !log[1].Poisoned || log[7].Status != 400 || log[5].Version != 1 || log[9].Seq != 10 {
		t.Errorf("log: %+v", log)
	}
}
