// Package tlswire is an independent, byte-level codec for the few TLS
// structures the monitors need: records, ClientHello, ServerHello /
// HelloRetryRequest and the ECH-related extensions. It shares no code with
// the repository under test and uses explicit offset arithmetic only.
package tlswire

import (
	"encoding/binary"
	"errors"
	"fmt"
)

const (
	RecChangeCipherSpec = 20
	RecAlert            = 21
	RecHandshake        = 22
	RecApplicationData  = 23

	ExtSNI               = 0
	ExtSupportedGroups   = 10
	ExtSigAlgs           = 13
	ExtALPN              = 16
	ExtPadding           = 21
	ExtPreSharedKey      = 41
	ExtEarlyData         = 42
	ExtSupportedVersions = 43
	ExtCookie            = 44
	ExtPSKModes          = 45
	ExtKeyShare          = 51
	ExtOuterExtensions   = 0xfd00
	ExtECH               = 0xfe0d
)

// HRRRandom is the special ServerHello.random value of a HelloRetryRequest.
var HRRRandom = []byte{
	0xCF, 0x21, 0xAD, 0x74, 0xE5, 0x9A, 0x61, 0x11, 0xBE, 0x1D, 0x8C, 0x02, 0x1E, 0x65, 0xB8, 0x91,
	0xC2, 0xA2, 0x11, 0x16, 0x7A, 0xBB, 0x8C, 0x5E, 0x07, 0x9E, 0x09, 0xE2, 0xC8, 0xA8, 0x33, 0x9C,
}

var ErrMalformed = errors.New("tlswire: malformed")

// Ext is one TLS extension.
type Ext struct {
	Type uint16
	Data []byte
}

// ClientHello is the RFC 8446 §4.1.2 structure.
type ClientHello struct {
	LegacyVersion uint16
	Random        []byte // 32 bytes
	SessionID     []byte
	CipherSuites  []byte // raw, 2 bytes per suite
	Compression   []byte
	Exts          []Ext
	NoExtBlock    bool   // legacy hello that ends after compression_methods
	Trailing      []byte // bytes after the extensions block inside the body (malformed; hostile inputs only)
	ExtsTrailing  []byte // bytes at the end of the extensions block, inside its length (malformed; hostile inputs only)
}

// Clone returns a deep copy.
func (h *ClientHello) Clone() *ClientHello {
	c := *h
	c.Random = append([]byte(nil), h.Random...)
	c.SessionID = append([]byte(nil), h.SessionID...)
	c.CipherSuites = append([]byte(nil), h.CipherSuites...)
	c.Compression = append([]byte(nil), h.Compression...)
	c.Trailing = append([]byte(nil), h.Trailing...)
	c.ExtsTrailing = append([]byte(nil), h.ExtsTrailing...)
	c.Exts = make([]Ext, len(h.Exts))
	for i, e := range h.Exts {
		c.Exts[i] = Ext{e.Type, append([]byte(nil), e.Data...)}
	}
	return &c
}

func put16(b []byte, v int) []byte { return append(b, byte(v>>8), byte(v)) }
func put24(b []byte, v int) []byte { return append(b, byte(v>>16), byte(v>>8), byte(v)) }

// ExtBlock serialises a list of extensions without the outer length prefix.
func ExtBlock(exts []Ext) []byte {
	var b []byte
	for _, e := range exts {
		b = put16(b, int(e.Type))
		b = put16(b, len(e.Data))
		b = append(b, e.Data...)
	}
	return b
}

// Body serialises the ClientHello structure (no handshake header).
func (h *ClientHello) Body() []byte {
	var b []byte
	b = put16(b, int(h.LegacyVersion))
	b = append(b, h.Random...)
	b = append(b, byte(len(h.SessionID)))
	b = append(b, h.SessionID...)
	b = put16(b, len(h.CipherSuites))
	b = append(b, h.CipherSuites...)
	b = append(b, byte(len(h.Compression)))
	b = append(b, h.Compression...)
	if !h.NoExtBlock {
		eb := append(ExtBlock(h.Exts), h.ExtsTrailing...)
		b = put16(b, len(eb))
		b = append(b, eb...)
	}
	b = append(b, h.Trailing...)
	return b
}

// Message is the handshake message: msg_type(1) length(3) body.
func (h *ClientHello) Message() []byte {
	body := h.Body()
	b := []byte{1}
	b = put24(b, len(body))
	return append(b, body...)
}

// Record wraps payload in one TLSPlaintext/TLSCiphertext record.
func Record(typ byte, ver uint16, payload []byte) []byte {
	b := []byte{typ, byte(ver >> 8), byte(ver)}
	b = put16(b, len(payload))
	return append(b, payload...)
}

// HelloRecord is the first-flight record carrying h.
func (h *ClientHello) HelloRecord(recVer uint16) []byte {
	return Record(RecHandshake, recVer, h.Message())
}

// Find returns the index of the first extension of type t, or -1.
func (h *ClientHello) Find(t uint16) int {
	for i, e := range h.Exts {
		if e.Type == t {
			return i
		}
	}
	return -1
}

// ParseClientHelloMessage strictly parses a handshake message that must be a
// complete ClientHello with nothing before or after it.
func ParseClientHelloMessage(msg []byte) (*ClientHello, error) {
	if len(msg) < 4 || msg[0] != 1 {
		return nil, fmt.Errorf("%w: not a client hello", ErrMalformed)
	}
	n := int(msg[1])<<16 | int(msg[2])<<8 | int(msg[3])
	if n != len(msg)-4 {
		return nil, fmt.Errorf("%w: handshake length %d != %d", ErrMalformed, n, len(msg)-4)
	}
	return ParseClientHelloBody(msg[4:])
}

// ParseClientHelloBody parses the ClientHello structure. A body that ends
// right after compression_methods is accepted (NoExtBlock). Bytes after the
// extensions block are an error.
func ParseClientHelloBody(b []byte) (*ClientHello, error) {
	h := &ClientHello{}
	p := 0
	need := func(n int) bool { return n >= 0 && p+n <= len(b) }
	if !need(34) {
		return nil, fmt.Errorf("%w: short", ErrMalformed)
	}
	h.LegacyVersion = binary.BigEndian.Uint16(b)
	h.Random = append([]byte(nil), b[2:34]...)
	p = 34
	if !need(1) || !need(1+int(b[p])) {
		return nil, fmt.Errorf("%w: session id", ErrMalformed)
	}
	h.SessionID = append([]byte{}, b[p+1:p+1+int(b[p])]...)
	p += 1 + int(b[p])
	if !need(2) {
		return nil, fmt.Errorf("%w: cipher suites", ErrMalformed)
	}
	n := int(binary.BigEndian.Uint16(b[p:]))
	if !need(2 + n) {
		return nil, fmt.Errorf("%w: cipher suites", ErrMalformed)
	}
	h.CipherSuites = append([]byte{}, b[p+2:p+2+n]...)
	p += 2 + n
	if !need(1) || !need(1+int(b[p])) {
		return nil, fmt.Errorf("%w: compression", ErrMalformed)
	}
	h.Compression = append([]byte{}, b[p+1:p+1+int(b[p])]...)
	p += 1 + int(b[p])
	if p == len(b) {
		h.NoExtBlock = true
		return h, nil
	}
	if !need(2) {
		return nil, fmt.Errorf("%w: extensions length", ErrMalformed)
	}
	n = int(binary.BigEndian.Uint16(b[p:]))
	if p+2+n != len(b) {
		return nil, fmt.Errorf("%w: extensions block %d does not end the body", ErrMalformed, n)
	}
	p += 2
	exts, err := ParseExtBlock(b[p:])
	if err != nil {
		return nil, err
	}
	h.Exts = exts
	return h, nil
}

// ParseExtBlock parses a sequence of extensions.
func ParseExtBlock(b []byte) ([]Ext, error) {
	var out []Ext
	p := 0
	for p < len(b) {
		if p+4 > len(b) {
			return nil, fmt.Errorf("%w: extension header", ErrMalformed)
		}
		t := binary.BigEndian.Uint16(b[p:])
		n := int(binary.BigEndian.Uint16(b[p+2:]))
		if p+4+n > len(b) {
			return nil, fmt.Errorf("%w: extension body", ErrMalformed)
		}
		out = append(out, Ext{t, append([]byte{}, b[p+4:p+4+n]...)})
		p += 4 + n
	}
	return out, nil
}

// ---- extension builders ----

// SNI builds a server_name extension with one host_name entry.
func SNI(name string) Ext {
	var l []byte
	l = append(l, 0)
	l = put16(l, len(name))
	l = append(l, name...)
	var d []byte
	d = put16(d, len(l))
	d = append(d, l...)
	return Ext{ExtSNI, d}
}

// ALPN builds an application_layer_protocol_negotiation extension.
func ALPN(protos []string) Ext {
	var l []byte
	for _, p := range protos {
		l = append(l, byte(len(p)))
		l = append(l, p...)
	}
	var d []byte
	d = put16(d, len(l))
	d = append(d, l...)
	return Ext{ExtALPN, d}
}

// SupportedVersions builds the client form of supported_versions.
func SupportedVersions(vs ...uint16) Ext {
	d := []byte{byte(2 * len(vs))}
	for _, v := range vs {
		d = put16(d, int(v))
	}
	return Ext{ExtSupportedVersions, d}
}

// KeyShareEntry is one client key share.
type KeyShareEntry struct {
	Group uint16
	Key   []byte
}

// KeyShare builds the ClientHello key_share extension.
func KeyShare(entries ...KeyShareEntry) Ext {
	var l []byte
	for _, e := range entries {
		l = put16(l, int(e.Group))
		l = put16(l, len(e.Key))
		l = append(l, e.Key...)
	}
	var d []byte
	d = put16(d, len(l))
	d = append(d, l...)
	return Ext{ExtKeyShare, d}
}

// U16List builds a uint16-length-prefixed list of uint16 (supported_groups, signature_algorithms).
func U16List(t uint16, vs ...uint16) Ext {
	var d []byte
	d = put16(d, 2*len(vs))
	for _, v := range vs {
		d = put16(d, int(v))
	}
	return Ext{t, d}
}

// ECHOuter builds the outer form of encrypted_client_hello.
func ECHOuter(kdf, aead uint16, configID uint8, enc, payload []byte) Ext {
	d := []byte{0}
	d = put16(d, int(kdf))
	d = put16(d, int(aead))
	d = append(d, configID)
	d = put16(d, len(enc))
	d = append(d, enc...)
	d = put16(d, len(payload))
	d = append(d, payload...)
	return Ext{ExtECH, d}
}

// ECHInner builds the inner form of encrypted_client_hello.
func ECHInner() Ext { return Ext{ExtECH, []byte{1}} }

// OuterExtensions builds ech_outer_extensions naming the given types.
func OuterExtensions(types []uint16) Ext {
	d := []byte{byte(2 * len(types))}
	for _, t := range types {
		d = put16(d, int(t))
	}
	return Ext{ExtOuterExtensions, d}
}

// ECHOuterFields are the parsed contents of an outer ECH extension.
type ECHOuterFields struct {
	KDF, AEAD  uint16
	ConfigID   uint8
	Enc        []byte
	Payload    []byte
	PayloadOff int // offset of the payload inside the extension data
}

// ParseECHOuter parses the outer form; ok=false if it is not a well-formed outer ECH extension.
func ParseECHOuter(d []byte) (f ECHOuterFields, ok bool) {
	if len(d) < 1 || d[0] != 0 {
		return f, false
	}
	if len(d) < 8 {
		return f, false
	}
	f.KDF = binary.BigEndian.Uint16(d[1:])
	f.AEAD = binary.BigEndian.Uint16(d[3:])
	f.ConfigID = d[5]
	n := int(binary.BigEndian.Uint16(d[6:]))
	if 8+n+2 > len(d) {
		return f, false
	}
	f.Enc = d[8 : 8+n]
	m := int(binary.BigEndian.Uint16(d[8+n:]))
	if 8+n+2+m != len(d) {
		return f, false
	}
	f.PayloadOff = 8 + n + 2
	f.Payload = d[f.PayloadOff:]
	return f, true
}

// ---- extraction (what "an independent TLS stack" would see) ----

// ServerName extracts the host_name of the first server_name extension:
// ok=false when the extension is absent or malformed.
func (h *ClientHello) ServerName() (name string, present, wellformed bool) {
	i := h.Find(ExtSNI)
	if i < 0 {
		return "", false, true
	}
	d := h.Exts[i].Data
	if len(d) < 2 || int(binary.BigEndian.Uint16(d))+2 != len(d) {
		return "", true, false
	}
	l := d[2:]
	found := false
	for len(l) > 0 {
		if len(l) < 3 {
			return "", true, false
		}
		n := int(binary.BigEndian.Uint16(l[1:]))
		if 3+n > len(l) {
			return "", true, false
		}
		if l[0] == 0 {
			if found {
				return "", true, false
			}
			name = string(l[3 : 3+n])
			found = true
		}
		l = l[3+n:]
	}
	return name, true, true
}

// ALPNProtos extracts the protocol list.
func (h *ClientHello) ALPNProtos() (protos []string, present, wellformed bool) {
	i := h.Find(ExtALPN)
	if i < 0 {
		return nil, false, true
	}
	d := h.Exts[i].Data
	if len(d) < 2 || int(binary.BigEndian.Uint16(d))+2 != len(d) {
		return nil, true, false
	}
	l := d[2:]
	for len(l) > 0 {
		n := int(l[0])
		if 1+n > len(l) {
			return nil, true, false
		}
		protos = append(protos, string(l[1:1+n]))
		l = l[1+n:]
	}
	return protos, true, true
}

// OffersTLS13 reports whether supported_versions lists 0x0304 or higher.
func (h *ClientHello) OffersTLS13() bool {
	i := h.Find(ExtSupportedVersions)
	if i < 0 {
		return false
	}
	d := h.Exts[i].Data
	if len(d) < 1 || int(d[0])+1 != len(d) || d[0]%2 != 0 {
		return false
	}
	for j := 1; j+1 < len(d); j += 2 {
		if binary.BigEndian.Uint16(d[j:]) >= 0x0304 {
			return true
		}
	}
	return false
}

// ---- records ----

// Rec is one TLS record.
type Rec struct {
	Type    byte
	Version uint16
	Payload []byte
	Raw     []byte
}

// SplitRecords cuts a byte stream into complete records and the unconsumed rest.
func SplitRecords(s []byte) (recs []Rec, rest []byte) {
	for len(s) >= 5 {
		n := int(binary.BigEndian.Uint16(s[3:]))
		if 5+n > len(s) {
			break
		}
		recs = append(recs, Rec{s[0], binary.BigEndian.Uint16(s[1:]), s[5 : 5+n], s[:5+n]})
		s = s[5+n:]
	}
	return recs, s
}

// ---- ServerHello ----

// ServerHello is the RFC 8446 §4.1.3 structure.
type ServerHello struct {
	LegacyVersion uint16
	Random        []byte
	SessionID     []byte
	CipherSuite   uint16
	Compression   byte
	Exts          []Ext
}

// Message serialises the handshake message.
func (s *ServerHello) Message() []byte {
	var b []byte
	b = put16(b, int(s.LegacyVersion))
	b = append(b, s.Random...)
	b = append(b, byte(len(s.SessionID)))
	b = append(b, s.SessionID...)
	b = put16(b, int(s.CipherSuite))
	b = append(b, s.Compression)
	eb := ExtBlock(s.Exts)
	b = put16(b, len(eb))
	b = append(b, eb...)
	m := []byte{2}
	m = put24(m, len(b))
	return append(m, b...)
}

// ParseServerHelloMessage parses a ServerHello handshake message.
func ParseServerHelloMessage(msg []byte) (*ServerHello, error) {
	if len(msg) < 4 || msg[0] != 2 {
		return nil, ErrMalformed
	}
	n := int(msg[1])<<16 | int(msg[2])<<8 | int(msg[3])
	if n > len(msg)-4 {
		return nil, ErrMalformed
	}
	b := msg[4 : 4+n]
	if len(b) < 35 {
		return nil, ErrMalformed
	}
	s := &ServerHello{LegacyVersion: binary.BigEndian.Uint16(b), Random: b[2:34]}
	p := 34
	sl := int(b[p])
	if p+1+sl+3 > len(b) {
		return nil, ErrMalformed
	}
	s.SessionID = b[p+1 : p+1+sl]
	p += 1 + sl
	s.CipherSuite = binary.BigEndian.Uint16(b[p:])
	s.Compression = b[p+2]
	p += 3
	if p == len(b) {
		return s, nil
	}
	if p+2 > len(b) {
		return nil, ErrMalformed
	}
	el := int(binary.BigEndian.Uint16(b[p:]))
	if p+2+el > len(b) {
		return nil, ErrMalformed
	}
	exts, err := ParseExtBlock(b[p+2 : p+2+el])
	if err != nil {
		return nil, err
	}
	s.Exts = exts
	return s, nil
}

// IsHRR reports whether the random is the HelloRetryRequest marker.
func (s *ServerHello) IsHRR() bool {
	if len(s.Random) != 32 {
		return false
	}
	for i := range s.Random {
		if s.Random[i] != HRRRandom[i] {
			return false
		}
	}
	return true
}

// Alert builds a TLS alert record as a peer would see it.
func Alert(level, desc byte) []byte { return []byte{21, 3, 3, 0, 2, level, desc} }

// HRRRecord builds a HelloRetryRequest record echoing sessionID.
func HRRRecord(sessionID []byte, group uint16) []byte {
	sh := &ServerHello{LegacyVersion: 0x0303, Random: append([]byte(nil), HRRRandom...), SessionID: sessionID, CipherSuite: 0x1301,
		Exts: []Ext{{ExtSupportedVersions, []byte{0x03, 0x04}}, {ExtKeyShare, []byte{byte(group >> 8), byte(group)}}}}
	return Record(RecHandshake, 0x0303, sh.Message())
}

// ServerHelloRecord builds an ordinary TLS 1.3 ServerHello record.
func ServerHelloRecord(random, sessionID []byte) []byte {
	sh := &ServerHello{LegacyVersion: 0x0303, Random: random, SessionID: sessionID, CipherSuite: 0x1301,
		Exts: []Ext{{ExtSupportedVersions, []byte{0x03, 0x04}}, {ExtKeyShare, append([]byte{0x00, 0x1d, 0x00, 0x20}, make([]byte, 32)...)}}}
	return Record(RecHandshake, 0x0303, sh.Message())
}
