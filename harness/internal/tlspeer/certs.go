// Package tlspeer provides real crypto/tls client and server fixtures: a
// private CA, leaf certificates for arbitrary names and of arbitrary size,
// and small helpers to run handshakes over in-memory transports.
package tlspeer

import (
	"crypto/ecdsa"
	"crypto/elliptic"
	"crypto/rand"
	"crypto/tls"
	"crypto/x509"
	"crypto/x509/pkix"
	"encoding/asn1"
	"fmt"
	"math/big"
	"sync"
	"sync/atomic"
	"time"
)

// CA is a throw-away certificate authority.
type CA struct {
	Cert *x509.Certificate
	Key  *ecdsa.PrivateKey
	Pool *x509.CertPool

	leafKey *ecdsa.PrivateKey
	serial  atomic.Int64
	mu      sync.Mutex
	cache   map[string]tls.Certificate
}

// NewCA creates a CA valid for ten years around now.
func NewCA() (*CA, error) {
	key, err := ecdsa.GenerateKey(elliptic.P256(), rand.Reader)
	if err != nil {
		return nil, err
	}
	leafKey, err := ecdsa.GenerateKey(elliptic.P256(), rand.Reader)
	if err != nil {
		return nil, err
	}
	now := time.Now()
	templ := &x509.Certificate{
		SerialNumber:          big.NewInt(1),
		Subject:               pkix.Name{CommonName: "verif root"},
		NotBefore:             now.Add(-24 * time.Hour),
		NotAfter:              now.Add(10 * 365 * 24 * time.Hour),
		KeyUsage:              x509.KeyUsageCertSign | x509.KeyUsageDigitalSignature,
		BasicConstraintsValid: true,
		IsCA:                  true,
	}
	der, err := x509.CreateCertificate(rand.Reader, templ, templ, key.Public(), key)
	if err != nil {
		return nil, err
	}
	cert, err := x509.ParseCertificate(der)
	if err != nil {
		return nil, err
	}
	pool := x509.NewCertPool()
	pool.AddCert(cert)
	ca := &CA{Cert: cert, Key: key, Pool: pool, leafKey: leafKey, cache: map[string]tls.Certificate{}}
	ca.serial.Store(100)
	return ca, nil
}

// Leaf returns a server+client certificate for names. pad > 0 adds a
// non-critical private extension of that many bytes, which inflates the
// Certificate handshake message (used to produce large flights).
func (ca *CA) Leaf(pad int, names ...string) (tls.Certificate, error) {
	key := fmt.Sprintf("%d|%q", pad, names)
	ca.mu.Lock()
	if c, ok := ca.cache[key]; ok {
		ca.mu.Unlock()
		return c, nil
	}
	ca.mu.Unlock()
	now := time.Now()
	cn := "leaf"
	if len(names) > 0 && len(names[0]) <= 64 {
		cn = names[0]
	}
	templ := &x509.Certificate{
		SerialNumber: big.NewInt(ca.serial.Add(1)),
		Subject:      pkix.Name{CommonName: cn},
		NotBefore:    now.Add(-24 * time.Hour),
		NotAfter:     now.Add(5 * 365 * 24 * time.Hour),
		KeyUsage:     x509.KeyUsageDigitalSignature,
		ExtKeyUsage:  []x509.ExtKeyUsage{x509.ExtKeyUsageServerAuth, x509.ExtKeyUsageClientAuth},
		DNSNames:     names,
	}
	if pad > 0 {
		v, _ := asn1.Marshal(make([]byte, pad))
		templ.ExtraExtensions = []pkix.Extension{{Id: asn1.ObjectIdentifier{1, 3, 6, 1, 4, 1, 55555, 1}, Value: v}}
	}
	der, err := x509.CreateCertificate(rand.Reader, templ, ca.Cert, ca.leafKey.Public(), ca.Key)
	if err != nil {
		return tls.Certificate{}, err
	}
	leaf, err := x509.ParseCertificate(der)
	if err != nil {
		return tls.Certificate{}, err
	}
	c := tls.Certificate{Certificate: [][]byte{der}, PrivateKey: ca.leafKey, Leaf: leaf}
	ca.mu.Lock()
	ca.cache[key] = c
	ca.mu.Unlock()
	return c, nil
}

// MustLeaf is Leaf that panics on error (fixtures only).
func (ca *CA) MustLeaf(pad int, names ...string) tls.Certificate {
	c, err := ca.Leaf(pad, names...)
	if err != nil {
		panic(err)
	}
	return c
}
