package tlspeer

import (
	"io"
	"net"
	"os"
	"sync"
	"time"
)

// BufPipe returns the two ends of an in-memory, full-duplex connection with
// unbounded buffering: writes never block (unlike net.Pipe), reads block until
// data, EOF (peer closed) or the read deadline.
func BufPipe() (net.Conn, net.Conn) {
	a2b, b2a := newHalf(), newHalf()
	return &bufConn{r: b2a, w: a2b}, &bufConn{r: a2b, w: b2a}
}

type half struct {
	mu     sync.Mutex
	cond   *sync.Cond
	buf    []byte
	closed bool // writer side closed: EOF after the buffer drains
	rdead  time.Time
	rclose bool // reader side closed
}

func newHalf() *half {
	h := &half{}
	h.cond = sync.NewCond(&h.mu)
	return h
}

type bufConn struct {
	r, w *half
}

type pipeAddr struct{}

func (pipeAddr) Network() string { return "bufpipe" }
func (pipeAddr) String() string  { return "bufpipe" }

func (c *bufConn) Read(b []byte) (int, error) {
	h := c.r
	h.mu.Lock()
	defer h.mu.Unlock()
	for {
		if h.rclose {
			return 0, net.ErrClosed
		}
		if len(h.buf) > 0 {
			n := copy(b, h.buf)
			h.buf = h.buf[n:]
			return n, nil
		}
		if h.closed {
			return 0, io.EOF
		}
		if !h.rdead.IsZero() {
			d := time.Until(h.rdead)
			if d <= 0 {
				return 0, os.ErrDeadlineExceeded
			}
			t := time.AfterFunc(d, h.cond.Broadcast)
			h.cond.Wait()
			t.Stop()
			continue
		}
		h.cond.Wait()
	}
}

func (c *bufConn) Write(b []byte) (int, error) {
	h := c.w
	h.mu.Lock()
	defer h.mu.Unlock()
	if h.closed {
		return 0, net.ErrClosed
	}
	if h.rclose {
		return 0, io.ErrClosedPipe
	}
	h.buf = append(h.buf, b...)
	h.cond.Broadcast()
	return len(b), nil
}

func (c *bufConn) Close() error {
	c.w.mu.Lock()
	c.w.closed = true
	c.w.mu.Unlock()
	c.w.cond.Broadcast()
	c.r.mu.Lock()
	c.r.rclose = true
	c.r.mu.Unlock()
	c.r.cond.Broadcast()
	return nil
}

func (c *bufConn) LocalAddr() net.Addr  { return pipeAddr{} }
func (c *bufConn) RemoteAddr() net.Addr { return pipeAddr{} }

func (c *bufConn) SetDeadline(t time.Time) error      { return c.SetReadDeadline(t) }
func (c *bufConn) SetWriteDeadline(t time.Time) error { return nil }
func (c *bufConn) SetReadDeadline(t time.Time) error {
	c.r.mu.Lock()
	c.r.rdead = t
	c.r.mu.Unlock()
	c.r.cond.Broadcast()
	return nil
}
