// Package cfapi is a fake of the part of the Cloudflare v4 API that a DNS
// record publisher talks to: zone lookup by name, paginated listing of the DNS
// records of a zone, PATCH of one record. It keeps a full request log and can
// inject failures. It shares no code with /repo.
//
// Envelope semantics (as served by the real API and by /repo's own test
// fake): result_info.count is the number of items on THIS page,
// result_info.total_count the number of items over all pages.
package cfapi

import (
	"encoding/json"
	"fmt"
	"io"
	"net/http"
	"net/http/httptest"
	"net/url"
	"strconv"
	"strings"
	"sync"
)

// Data is the structured content of an HTTPS/SVCB record.
type Data struct {
	Priority int    `json:"priority"`
	Target   string `json:"target"`
	Value    string `json:"value"`
}

// Record is one stored DNS record.
type Record struct {
	ID      string `json:"id"`
	Name    string `json:"name"`
	Type    string `json:"type"`
	TTL     int    `json:"ttl"`
	Content string `json:"content,omitempty"` // non-HTTPS records
	Comment string `json:"comment,omitempty"`
	Data    *Data  `json:"data,omitempty"`
}

// Clone returns a deep copy.
func (r Record) Clone() Record {
	if r.Data != nil {
		d := *r.Data
		r.Data = &d
	}
	return r
}

// Zone is one zone with its records in listing order.
type Zone struct {
	ID      string   `json:"id"`
	Name    string   `json:"name"`
	Records []Record `json:"records"`
}

// Fault makes matching requests fail. Op: "zone" (GET zones?name=Zone),
// "list" (GET dns_records of zone Zone, page Page; Page 0 = any page),
// "patch" (PATCH of record RecordID). Mode: "403" (HTTP 403 with an error
// envelope) or "envelope" (HTTP 200, success:false). Left: how many more
// requests fail (<0: all).
type Fault struct {
	Op       string `json:"op"`
	Zone     string `json:"zone,omitempty"`
	Page     int    `json:"page,omitempty"`
	RecordID string `json:"record_id,omitempty"`
	Mode     string `json:"mode"`
	Left     int    `json:"left"`
}

// Entry is one served request.
type Entry struct {
	Seq      int     `json:"seq"`
	Method   string  `json:"method"`
	Path     string  `json:"path"`
	Query    string  `json:"query,omitempty"`
	Body     string  `json:"body,omitempty"`
	Op       string  `json:"op"` // zone | list | patch | other
	Zone     string  `json:"zone,omitempty"`
	ZoneID   string  `json:"zone_id,omitempty"`
	RecordID string  `json:"record_id,omitempty"`
	Page     int     `json:"page,omitempty"`
	PerPage  int     `json:"per_page,omitempty"`
	Returned int     `json:"returned,omitempty"` // items in the result (list)
	Status   int     `json:"status"`
	Fault    string  `json:"fault,omitempty"` // mode of the injected failure, "" = none
	AuthOK   bool    `json:"auth_ok"`
	Applied  bool    `json:"applied,omitempty"` // PATCH changed the store
	Before   *Record `json:"before,omitempty"`  // PATCH: stored record before / after
	After    *Record `json:"after,omitempty"`
}

// Server is the fake API.
type Server struct {
	mu     sync.Mutex
	token  string
	zones  []Zone
	faults []Fault
	log    []Entry
	ts     *httptest.Server
	sparse bool
}

// New starts a server that accepts "Authorization: Bearer <token>".
func New(token string) *Server {
	s := &Server{token: token}
	s.ts = httptest.NewServer(http.HandlerFunc(s.serve))
	return s
}

// Close shuts the listener and all connections.
func (s *Server) Close() {
	s.ts.CloseClientConnections()
	s.ts.Close()
}

// BaseURL is the URL a publisher must use as base (path /client/v4/zones).
func (s *Server) BaseURL() url.URL {
	u, err := url.Parse(s.ts.URL)
	if err != nil {
		panic(err)
	}
	u.Path = "/client/v4/zones"
	return *u
}

func cloneZones(in []Zone) []Zone {
	out := make([]Zone, len(in))
	for i, z := range in {
		out[i] = Zone{ID: z.ID, Name: z.Name, Records: make([]Record, len(z.Records))}
		for j, r := range z.Records {
			out[i].Records[j] = r.Clone()
		}
	}
	return out
}

// SetZones replaces the store.
func (s *Server) SetZones(z []Zone) {
	s.mu.Lock()
	s.zones = cloneZones(z)
	s.mu.Unlock()
}

// AddZone appends a zone to the store (a zone that becomes visible to the
// token after the client has already talked to the API).
func (s *Server) AddZone(z Zone) {
	s.mu.Lock()
	s.zones = append(s.zones, cloneZones([]Zone{z})...)
	s.mu.Unlock()
}

// Snapshot returns a deep copy of the store.
func (s *Server) Snapshot() []Zone {
	s.mu.Lock()
	defer s.mu.Unlock()
	return cloneZones(s.zones)
}

// SetFaults replaces the failure plan.
func (s *Server) SetFaults(f []Fault) {
	s.mu.Lock()
	s.faults = append([]Fault(nil), f...)
	s.mu.Unlock()
}

// SetValue changes data.value of a record behind the client's back (another
// actor editing the zone). It reports whether the record exists.
func (s *Server) SetValue(zoneID, recordID, value string) bool {
	s.mu.Lock()
	defer s.mu.Unlock()
	for i := range s.zones {
		if s.zones[i].ID != zoneID {
			continue
		}
		for j := range s.zones[i].Records {
			r := &s.zones[i].Records[j]
			if r.ID == recordID && r.Data != nil {
				r.Data.Value = value
				return true
			}
		}
	}
	return false
}

// Mark returns the current length of the log.
func (s *Server) Mark() int {
	s.mu.Lock()
	defer s.mu.Unlock()
	return len(s.log)
}

// LogSince returns a copy of the log entries from mark on.
func (s *Server) LogSince(mark int) []Entry {
	s.mu.Lock()
	defer s.mu.Unlock()
	return append([]Entry(nil), s.log[mark:]...)
}

type apiError struct {
	Code    int    `json:"code"`
	Message string `json:"message"`
}

type resultInfo struct {
	Page       int `json:"page"`
	PerPage    int `json:"per_page"`
	TotalPages int `json:"total_pages"`
	Count      int `json:"count"`
	TotalCount int `json:"total_count"`
}

type envelope struct {
	Result     any         `json:"result"`
	ResultInfo *resultInfo `json:"result_info,omitempty"`
	Success    bool        `json:"success"`
	Errors     []apiError  `json:"errors"`
	Messages   []string    `json:"messages"`
}

func write(w http.ResponseWriter, status int, env envelope) {
	if env.Errors == nil {
		env.Errors = []apiError{}
	}
	if env.Messages == nil {
		env.Messages = []string{}
	}
	b, err := json.Marshal(env)
	if err != nil {
		panic(err)
	}
	w.Header().Set("Content-Type", "application/json")
	w.WriteHeader(status)
	w.Write(b)
}

// takeFault consumes a matching fault. Caller holds s.mu.
func (s *Server) takeFault(op, zone string, page int, recordID string) string {
	for i := range s.faults {
		f := &s.faults[i]
		if f.Op != op || f.Left == 0 {
			continue
		}
		switch op {
		case "zone":
			if f.Zone != zone {
				continue
			}
		case "list":
			if f.Zone != zone || (f.Page != 0 && f.Page != page) {
				continue
			}
		case "patch":
			if f.RecordID != recordID {
				continue
			}
		}
		if f.Left > 0 {
			f.Left--
		}
		return f.Mode
	}
	return ""
}

func failWith(w http.ResponseWriter, mode string) int {
	env := envelope{Success: false, Errors: []apiError{{Code: 1, Message: "x"}}}
	status := http.StatusOK
	if mode == "403" {
		status = http.StatusForbidden
		env.Errors = []apiError{{Code: 10000, Message: "Authentication error"}}
	}
	if mode == "envelope-no-errors" {
		// HTTP 200, "success": false and an empty error list: the refusal is in the success member alone
		env.Errors = []apiError{}
	}
	write(w, status, env)
	return status
}

func atoi(s string, def int) int {
	if s == "" {
		return def
	}
	n, err := strconv.Atoi(s)
	if err != nil {
		return def
	}
	return n
}

// SetSparse makes the server leave out every JSON member whose value is the zero value of its type
// ("", 0, false, null, [] - the way an encoder with omitempty writes them). For a client that decodes
// each document into a fresh value this is the same document.
func (s *Server) SetSparse(on bool) { s.mu.Lock(); s.sparse = on; s.mu.Unlock() }

type sparseWriter struct{ http.ResponseWriter }

func prune(v any) any {
	switch x := v.(type) {
	case map[string]any:
		for k, e := range x {
			e = prune(e)
			switch y := e.(type) {
			case nil:
				delete(x, k)
				continue
			case string:
				if y == "" {
					delete(x, k)
					continue
				}
			case float64:
				if y == 0 {
					delete(x, k)
					continue
				}
			case bool:
				if !y {
					delete(x, k)
					continue
				}
			case []any:
				if len(y) == 0 && k != "result" {
					delete(x, k)
					continue
				}
			}
			x[k] = e
		}
		return x
	case []any:
		for i := range x {
			x[i] = prune(x[i])
		}
		return x
	}
	return v
}

func (w sparseWriter) Write(b []byte) (int, error) {
	var v any
	if err := json.Unmarshal(b, &v); err != nil {
		return w.ResponseWriter.Write(b)
	}
	out, err := json.Marshal(prune(v))
	if err != nil {
		return w.ResponseWriter.Write(b)
	}
	if _, err := w.ResponseWriter.Write(out); err != nil {
		return 0, err
	}
	return len(b), nil
}

func (s *Server) serve(w http.ResponseWriter, req *http.Request) {
	body, _ := io.ReadAll(req.Body)
	req.Body.Close()
	s.mu.Lock()
	defer s.mu.Unlock()
	if s.sparse {
		w = sparseWriter{w}
	}
	e := Entry{Seq: len(s.log), Method: req.Method, Path: req.URL.Path, Query: req.URL.RawQuery, Body: string(body), Op: "other"}
	defer func() { s.log = append(s.log, e) }()
	e.AuthOK = req.Header.Get("Authorization") == "Bearer "+s.token
	q := req.URL.Query()
	parts := strings.Split(strings.Trim(req.URL.Path, "/"), "/") // client v4 zones [id dns_records [rid]]
	if len(parts) < 3 || parts[0] != "client" || parts[1] != "v4" || parts[2] != "zones" {
		e.Status = http.StatusNotFound
		write(w, e.Status, envelope{Errors: []apiError{{Code: 7000, Message: "No route for that URI"}}})
		return
	}
	// classify first, so that the log names the operation even when it fails
	var zone *Zone
	if len(parts) >= 4 {
		e.ZoneID = parts[3]
		for i := range s.zones {
			if s.zones[i].ID == parts[3] {
				zone = &s.zones[i]
				e.Zone = zone.Name
			}
		}
	}
	switch {
	case len(parts) == 3 && req.Method == http.MethodGet:
		e.Op = "zone"
		e.Zone = q.Get("name")
	case len(parts) == 5 && parts[4] == "dns_records" && req.Method == http.MethodGet:
		e.Op = "list"
		e.Page = max(atoi(q.Get("page"), 1), 1)
		e.PerPage = atoi(q.Get("per_page"), 100)
		if e.PerPage < 1 || e.PerPage > 50000 {
			e.PerPage = 100
		}
	case len(parts) == 6 && parts[4] == "dns_records" && req.Method == http.MethodPatch:
		e.Op = "patch"
		e.RecordID = parts[5]
	}
	if !e.AuthOK {
		e.Status = failWith(w, "403")
		return
	}
	switch e.Op {
	case "zone":
		if m := s.takeFault("zone", e.Zone, 0, ""); m != "" {
			e.Fault = m
			e.Status = failWith(w, m)
			return
		}
		type zj struct {
			ID   string `json:"id"`
			Name string `json:"name"`
		}
		res := []zj{}
		for _, z := range s.zones {
			if e.Zone == "" || z.Name == e.Zone {
				res = append(res, zj{z.ID, z.Name})
			}
		}
		e.Returned = len(res)
		e.Status = http.StatusOK
		write(w, e.Status, envelope{Success: true, Result: res,
			ResultInfo: &resultInfo{Page: 1, PerPage: 20, TotalPages: 1, Count: len(res), TotalCount: len(res)}})
	case "list":
		if zone == nil {
			e.Status = http.StatusNotFound
			write(w, e.Status, envelope{Errors: []apiError{{Code: 7003, Message: "Could not route, perhaps your object identifier is invalid?"}}})
			return
		}
		if m := s.takeFault("list", zone.Name, e.Page, ""); m != "" {
			e.Fault = m
			e.Status = failWith(w, m)
			return
		}
		typ, name := q.Get("type"), q.Get("name")
		var all []Record
		for _, r := range zone.Records {
			if (typ == "" || r.Type == typ) && (name == "" || r.Name == name) {
				all = append(all, r)
			}
		}
		lo := min((e.Page-1)*e.PerPage, len(all))
		hi := min(lo+e.PerPage, len(all))
		res := make([]Record, 0, hi-lo)
		for _, r := range all[lo:hi] {
			res = append(res, r.Clone())
		}
		e.Returned = len(res)
		e.Status = http.StatusOK
		write(w, e.Status, envelope{Success: true, Result: res,
			ResultInfo: &resultInfo{Page: e.Page, PerPage: e.PerPage, TotalPages: (len(all) + e.PerPage - 1) / e.PerPage,
				Count: len(res), TotalCount: len(all)}})
	case "patch":
		var rec *Record
		if zone != nil {
			for i := range zone.Records {
				if zone.Records[i].ID == e.RecordID {
					rec = &zone.Records[i]
				}
			}
		}
		if rec == nil {
			e.Status = http.StatusNotFound
			write(w, e.Status, envelope{Errors: []apiError{{Code: 81044, Message: "Record does not exist."}}})
			return
		}
		before := rec.Clone()
		e.Before = &before
		if m := s.takeFault("patch", "", 0, rec.ID); m != "" {
			e.Fault = m
			e.Status = failWith(w, m)
			after := rec.Clone()
			e.After = &after
			return
		}
		var in struct {
			Name    *string `json:"name"`
			Type    *string `json:"type"`
			TTL     *int    `json:"ttl"`
			Content *string `json:"content"`
			Comment *string `json:"comment"`
			Data    *struct {
				Priority *int    `json:"priority"`
				Target   *string `json:"target"`
				Value    *string `json:"value"`
			} `json:"data"`
		}
		if err := json.Unmarshal(body, &in); err != nil {
			e.Status = http.StatusBadRequest
			write(w, e.Status, envelope{Errors: []apiError{{Code: 9207, Message: fmt.Sprintf("Request body is invalid: %v", err)}}})
			after := rec.Clone()
			e.After = &after
			return
		}
		if in.Name != nil {
			rec.Name = *in.Name
		}
		if in.Type != nil {
			rec.Type = *in.Type
		}
		if in.TTL != nil {
			rec.TTL = *in.TTL
		}
		if in.Content != nil {
			rec.Content = *in.Content
		}
		if in.Comment != nil {
			rec.Comment = *in.Comment
		}
		if in.Data != nil {
			if rec.Data == nil {
				rec.Data = &Data{}
			}
			if in.Data.Priority != nil {
				rec.Data.Priority = *in.Data.Priority
			}
			if in.Data.Target != nil {
				rec.Data.Target = *in.Data.Target
			}
			if in.Data.Value != nil {
				rec.Data.Value = *in.Data.Value
			}
		}
		after := rec.Clone()
		e.After = &after
		e.Applied = true
		e.Status = http.StatusOK
		write(w, e.Status, envelope{Success: true, Result: after})
	default:
		e.Status = http.StatusMethodNotAllowed
		write(w, e.Status, envelope{Errors: []apiError{{Code: 10405, Message: "Method not allowed for this endpoint"}}})
	}
}
