// Package echrun runs ech.NewConn on scripted transports and collects what a
// monitor may observe at the API boundary: the returned error and its class,
// the Conn accessors, the bytes the backend can read, the bytes written back
// to the client (alerts) and whether the transport was closed.
package echrun

import (
	"context"
	"errors"
	"io"

	"github.com/c2FmZQ/ech"

	"verif/harness/internal/tap"
)

// Class maps an error to the alert class it belongs to.
func Class(err error) string {
	switch {
	case err == nil:
		return "nil"
	case errors.Is(err, ech.ErrIllegalParameter):
		return "illegal_parameter"
	case errors.Is(err, ech.ErrDecodeError):
		return "decode_error"
	case errors.Is(err, ech.ErrDecryptError):
		return "decrypt_error"
	case errors.Is(err, ech.ErrMissingExtension):
		return "missing_extension"
	case errors.Is(err, ech.ErrUnexpectedMessage):
		return "unexpected_message"
	case errors.Is(err, io.EOF):
		return "eof"
	default:
		return "other"
	}
}

// AlertCode is the TLS alert description of an error class (0 = none defined).
func AlertCode(class string) byte {
	switch class {
	case "illegal_parameter":
		return 47
	case "decode_error":
		return 50
	case "decrypt_error":
		return 51
	case "missing_extension":
		return 109
	case "unexpected_message":
		return 10
	}
	return 0
}

// Outcome is what one NewConn call produced.
type Outcome struct {
	Err       error
	Class     string
	Conn      *ech.Conn
	Accepted  bool
	Presented bool
	SNI       string
	ALPN      []string
	First     []byte // first record available to the backend (nil if NewConn failed)
	FirstErr  error
	Tap       *tap.Conn
}

// Run feeds input (then EOF) to NewConn with the given keys and reads the
// first record.
func Run(input []byte, keys []ech.Key) Outcome {
	return RunTap(tap.FromBytes(input), keys)
}

// RunTap is Run on a prepared transport.
func RunTap(tc *tap.Conn, keys []ech.Key) Outcome {
	var opts []ech.Option
	if keys != nil {
		opts = append(opts, ech.WithKeys(keys))
	}
	c, err := ech.NewConn(context.Background(), tc, opts...)
	o := Outcome{Err: err, Class: Class(err), Conn: c, Tap: tc}
	if err != nil {
		return o
	}
	o.Accepted, o.Presented, o.SNI, o.ALPN = c.ECHAccepted(), c.ECHPresented(), c.ServerName(), c.ALPNProtos()
	o.First, o.FirstErr = ReadRecord(c)
	return o
}

// ReadRecord reads exactly one TLS record from r the way a backend TLS stack
// would (header, then body).
func ReadRecord(r io.Reader) ([]byte, error) {
	hdr := make([]byte, 5)
	if n, err := io.ReadFull(r, hdr); err != nil {
		return hdr[:n], err
	}
	l := int(hdr[3])<<8 | int(hdr[4])
	rec := make([]byte, 5+l)
	copy(rec, hdr)
	n, err := io.ReadFull(r, rec[5:])
	return rec[:5+n], err
}

// Flow steps a Conn through a scripted exchange: client records are fed to the
// transport and read back through the Conn; backend records are written
// through the Conn and observed on the transport.
type Flow struct {
	Tap  *tap.Conn
	Conn *ech.Conn
	wOff int
}

// StartFlow runs NewConn on the first record (more input may follow later).
func StartFlow(first []byte, keys []ech.Key) (*Flow, Outcome) {
	if keys == nil {
		return StartFlowGroups(first, nil)
	}
	return StartFlowGroups(first, [][]ech.Key{keys})
}

// StartFlowGroups is StartFlow with the keys handed over in several WithKeys options.
func StartFlowGroups(first []byte, groups [][]ech.Key) (*Flow, Outcome) {
	tc := tap.New(nil)
	tc.Feed(first)
	var opts []ech.Option
	for _, g := range groups {
		opts = append(opts, ech.WithKeys(g))
	}
	c, err := ech.NewConn(context.Background(), tc, opts...)
	o := Outcome{Err: err, Class: Class(err), Conn: c, Tap: tc}
	if err != nil {
		return &Flow{Tap: tc, Conn: c}, o
	}
	o.Accepted, o.Presented, o.SNI, o.ALPN = c.ECHAccepted(), c.ECHPresented(), c.ServerName(), c.ALPNProtos()
	o.First, o.FirstErr = ReadRecord(c)
	return &Flow{Tap: tc, Conn: c}, o
}

// Client feeds one client record and reads one record from the Conn.
func (f *Flow) Client(record []byte) ([]byte, error) {
	f.Tap.Feed(record)
	return ReadRecord(f.Conn)
}

// Backend writes one backend record through the Conn and returns what
// reached the client-side transport because of it.
func (f *Flow) Backend(record []byte) (delivered []byte, n int, err error) {
	n, err = f.Conn.Write(record)
	w := f.Tap.Written()
	delivered = w[f.wOff:]
	f.wOff = len(w)
	return
}
