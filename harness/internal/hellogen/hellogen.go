// Package hellogen draws syntactically valid ClientHello messages of arbitrary
// shape (foreign encodings the repository's own marshaller would never
// produce) and TLS record streams. It builds on tlswire only.
package hellogen

import (
	mrand "math/rand/v2"

	"verif/harness/internal/tlswire"
)

var grease = []uint16{0x0a0a, 0x1a1a, 0x2a2a, 0x3a3a, 0x4a4a, 0x5a5a, 0x6a6a, 0x7a7a, 0x8a8a, 0x9a9a, 0xaaaa, 0xbaba, 0xcaca, 0xdada, 0xeaea, 0xfafa}

// Bytes returns n PRNG bytes.
func Bytes(rng *mrand.Rand, n int) []byte {
	b := make([]byte, n)
	for i := range b {
		b[i] = byte(rng.IntN(256))
	}
	return b
}

// ECHState says what the hello carries in its ECH extension.
type ECHState int

const (
	ECHNone    ECHState = iota
	ECHGrease           // well-formed outer ECH with random contents
	ECHInner            // inner-type marker (legal towards a server without keys)
	ECHCustom           // caller inserts its own
	ECHStateN  = 3
)

// Opts steer Plain.
type Opts struct {
	Versions   []uint16 // supported_versions contents; nil = no such extension
	LegacyVer  uint16
	SNI        *string  // nil = none
	ALPN       []string // nil = none
	ECH        ECHState
	ConfigID   uint8
	TargetSize int  // approximate record payload size (0 = natural)
	NoExtBlock bool // legacy hello ending after compression_methods
	MaxExts    int
	Strict     bool // only unassigned filler types (so that crypto/tls parses the hello)
}

// Name draws a host name of 1..253 bytes.
func Name(rng *mrand.Rand) string {
	n := 1 + rng.IntN(60)
	switch rng.IntN(6) {
	case 0:
		n = 1 + rng.IntN(253)
	case 1:
		n = []int{1, 63, 64, 253}[rng.IntN(4)]
	}
	const al = "abcdefghijklmnopqrstuvwxyzABCDEFGHIJKLMNOPQRSTUVWXYZ0123456789-_"
	b := make([]byte, n)
	for i := range b {
		if i > 0 && i < n-1 && b[i-1] != '.' && rng.IntN(9) == 0 {
			b[i] = '.'
		} else {
			b[i] = al[rng.IntN(len(al))]
		}
	}
	return string(b)
}

// Protos draws an ALPN list of 1..8 protocols with names of 1..255 bytes.
func Protos(rng *mrand.Rand) []string {
	n := 1 + rng.IntN(8)
	out := make([]string, n)
	for i := range out {
		l := 1 + rng.IntN(10)
		if rng.IntN(12) == 0 {
			l = []int{1, 255, 128}[rng.IntN(3)]
		}
		out[i] = string(Bytes(rng, l))
	}
	return out
}

// RandomOpts draws hello options across the documented dimensions.
func RandomOpts(rng *mrand.Rand) Opts {
	o := Opts{LegacyVer: []uint16{0x0301, 0x0302, 0x0303, 0x0303, 0x0303}[rng.IntN(5)], MaxExts: []int{0, 2, 6, 15, 40}[rng.IntN(5)]}
	switch rng.IntN(6) {
	case 0:
		o.Versions = nil
	case 1:
		o.Versions = []uint16{0x0303}
	case 2:
		o.Versions = []uint16{0x0303, 0x0302, 0x0301}
	case 3:
		o.Versions = []uint16{0x0304}
	case 4:
		o.Versions = []uint16{grease[rng.IntN(16)], 0x0304, 0x0303}
	default:
		o.Versions = []uint16{0x0304, 0x0303, 0x0302, 0x0301}
	}
	if rng.IntN(6) != 0 {
		s := Name(rng)
		o.SNI = &s
	}
	if rng.IntN(3) != 0 {
		o.ALPN = Protos(rng)
	}
	o.ECH = ECHState(rng.IntN(int(ECHStateN)))
	o.ConfigID = uint8(rng.IntN(256))
	if rng.IntN(5) == 0 {
		o.TargetSize = []int{60, 512, 4096, 16000, 16384}[rng.IntN(5)]
	}
	return o
}

// Plain draws a syntactically valid ClientHello per the options.
func Plain(rng *mrand.Rand, o Opts) *tlswire.ClientHello {
	h := &tlswire.ClientHello{LegacyVersion: o.LegacyVer, Random: Bytes(rng, 32)}
	if h.LegacyVersion == 0 {
		h.LegacyVersion = 0x0303
	}
	h.SessionID = Bytes(rng, []int{0, 32, 32, rng.IntN(33)}[rng.IntN(4)])
	ns := 1 + rng.IntN(20)
	if rng.IntN(10) == 0 {
		ns = 1 + rng.IntN(200)
	}
	for i := 0; i < ns; i++ {
		var s uint16
		switch rng.IntN(4) {
		case 0:
			s = grease[rng.IntN(16)]
		case 1:
			s = uint16(rng.IntN(65536))
		default:
			s = []uint16{0x1301, 0x1302, 0x1303, 0xc02b, 0xc02f, 0xc02c, 0xc030, 0xcca9, 0xcca8, 0x009c, 0x002f, 0x0035, 0x00ff}[rng.IntN(13)]
		}
		h.CipherSuites = append(h.CipherSuites, byte(s>>8), byte(s))
	}
	h.Compression = []byte{0}
	if rng.IntN(6) == 0 {
		h.Compression = [][]byte{{1, 0}, {0, 1}, {0, 1, 64}}[rng.IntN(3)]
	}
	if o.NoExtBlock {
		h.NoExtBlock = true
		return h
	}
	var exts []tlswire.Ext
	used := map[uint16]bool{tlswire.ExtOuterExtensions: true, tlswire.ExtPreSharedKey: true}
	add := func(e tlswire.Ext) {
		if !used[e.Type] {
			used[e.Type] = true
			exts = append(exts, e)
		}
	}
	if o.SNI != nil {
		add(tlswire.SNI(*o.SNI))
	}
	if o.ALPN != nil {
		add(tlswire.ALPN(o.ALPN))
	}
	if o.Versions != nil {
		add(tlswire.SupportedVersions(o.Versions...))
	}
	switch o.ECH {
	case ECHGrease:
		add(tlswire.ECHOuter(1, []uint16{1, 2, 3}[rng.IntN(3)], o.ConfigID, Bytes(rng, 32), Bytes(rng, 17+rng.IntN(300))))
	case ECHInner:
		add(tlswire.ECHInner())
	case ECHCustom:
		used[tlswire.ExtECH] = true
	}
	if rng.IntN(2) == 0 {
		add(tlswire.KeyShare(tlswire.KeyShareEntry{Group: 0x001d, Key: Bytes(rng, 32)}))
		add(tlswire.U16List(tlswire.ExtSupportedGroups, 0x001d, 0x0017))
		add(tlswire.U16List(tlswire.ExtSigAlgs, 0x0403, 0x0804, 0x0401))
	}
	used[tlswire.ExtSNI], used[tlswire.ExtALPN], used[tlswire.ExtSupportedVersions], used[tlswire.ExtECH] = true, true, true, true
	used[tlswire.ExtKeyShare], used[tlswire.ExtSupportedGroups], used[tlswire.ExtSigAlgs] = true, true, true
	n := 0
	if o.MaxExts > 0 {
		n = rng.IntN(o.MaxExts + 1)
	}
	for i := 0; i < n; i++ {
		var t uint16
		for tries := 0; ; tries++ {
			switch {
			case rng.IntN(4) == 0:
				t = grease[rng.IntN(16)]
			case o.Strict || rng.IntN(2) == 0:
				t = uint16(0x4000 + rng.IntN(0xfcff-0x4000))
			default:
				t = uint16(rng.IntN(65536))
			}
			if !used[t] || tries > 50 {
				break
			}
		}
		if used[t] {
			continue
		}
		l := []int{0, 1, rng.IntN(16), rng.IntN(300)}[rng.IntN(4)]
		add(tlswire.Ext{Type: t, Data: Bytes(rng, l)})
	}
	rng.Shuffle(len(exts), func(i, j int) { exts[i], exts[j] = exts[j], exts[i] })
	h.Exts = exts
	if o.TargetSize > 0 {
		cur := len(h.Message())
		if want := o.TargetSize - cur - 4; want >= 0 {
			t := uint16(0x5b5b)
			if !used[t] {
				h.Exts = append(h.Exts, tlswire.Ext{Type: t, Data: Bytes(rng, want)})
			}
		}
	}
	return h
}

// Stream draws a sequence of well-formed TLS records (any content type,
// payload lengths 0..maxLen) totalling roughly total bytes.
func Stream(rng *mrand.Rand, total, maxLen int) []byte {
	var out []byte
	for len(out) < total {
		typ := []byte{20, 21, 22, 23, 23, 23, 24}[rng.IntN(7)]
		l := rng.IntN(64)
		switch rng.IntN(6) {
		case 0:
			l = 0
		case 1:
			l = maxLen
		case 2:
			l = rng.IntN(maxLen + 1)
		}
		out = append(out, tlswire.Record(typ, 0x0303, Bytes(rng, l))...)
	}
	return out
}
