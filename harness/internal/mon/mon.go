// Package mon is the shared runtime-monitoring plumbing of the harness: the
// run context (tier, seed), the deterministic case PRNG, the verdict
// collector (violations, inconclusive reasons, coverage counters, distinct
// case fingerprints, samples) and the result file the driver turns into
// evidence, replay files and VIOLATION lines.
//
// Nothing in here looks at wall-clock time to reach a verdict.
package mon

import (
	"encoding/hex"
	"encoding/json"
	"fmt"
	"hash/fnv"
	"math/rand/v2"
	"os"
	"path/filepath"
	"runtime"
	"runtime/debug"
	"sort"
	"strconv"
	"strings"
	"sync"
	"sync/atomic"
	"testing"
	"time"
)

// Violation is one refuting observation.
type Violation struct {
	Sig   string `json:"sig"`   // narrow signature (rule + failing class)
	Desc  string `json:"desc"`  // human readable: expected vs. observed
	Work  string `json:"work"`  // workload name
	Index int    `json:"index"` // case index inside the workload (replay key)
	Case  any    `json:"case"`  // full input/history, JSON-serialisable
	Count int    `json:"count"` // occurrences with this signature
}

// Result is what a child writes for the driver.
type Result struct {
	Property     string           `json:"property"`
	Tier         string           `json:"tier"`
	Seed         int64            `json:"seed"`
	Level        string           `json:"level"`
	Rule         string           `json:"rule"`
	Exhaustive   bool             `json:"exhaustive"`
	Evaluations  int64            `json:"evaluations"`
	Distinct     int64            `json:"distinct_nontrivial"`
	Counters     map[string]int64 `json:"counters"`
	Samples      []any            `json:"samples"`
	Assumptions  []string         `json:"assumptions"`
	Violations   []*Violation     `json:"violations"`
	Inconclusive []string         `json:"inconclusive"`
	Extra        map[string]any   `json:"extra,omitempty"`
	GoVersion    string           `json:"go_version"`
	WallS        float64          `json:"wall_s"`
	Complete     bool             `json:"complete"`
}

// Run collects what one child observed.
type Run struct {
	T     *testing.T
	ID    string
	Tier  string
	Seed  int64
	Level string

	only      string // "<work>:<index>" when replaying
	onlyIdx   int
	out       string
	start     time.Time
	evals     atomic.Int64
	mu        sync.Mutex
	distinct  map[uint64]struct{}
	counters  map[string]int64
	samples   []any
	maxSample int
	viol      map[string]*Violation
	incon     []string
	floors    map[string]int64
	rule      string
	assume    []string
	exh       bool
	extra     map[string]any
	curFile   *os.File
}

// Start creates the run context from VERIF_TIER / VERIF_SEED / VERIF_OUT /
// VERIF_ONLY.
func Start(t *testing.T, id, level string) *Run {
	r := &Run{T: t, ID: id, Level: level, Tier: "quick", Seed: 1,
		distinct: map[uint64]struct{}{}, counters: map[string]int64{},
		viol: map[string]*Violation{}, floors: map[string]int64{}, extra: map[string]any{},
		maxSample: 6, start: time.Now()}
	if v := os.Getenv("VERIF_TIER"); v == "thorough" {
		r.Tier = v
	}
	if v := os.Getenv("VERIF_SEED"); v != "" {
		if n, err := strconv.ParseInt(v, 10, 64); err == nil {
			r.Seed = n
		}
	}
	r.out = os.Getenv("VERIF_OUT")
	if v := os.Getenv("VERIF_ONLY"); v != "" {
		if i := strings.LastIndex(v, ":"); i > 0 {
			r.only = v[:i]
			r.onlyIdx, _ = strconv.Atoi(v[i+1:])
		}
	}
	if r.out != "" {
		f, err := os.OpenFile(filepath.Join(filepath.Dir(r.out), "current.case"), os.O_CREATE|os.O_TRUNC|os.O_WRONLY, 0o644)
		if err == nil {
			r.curFile = f
		}
	}
	return r
}

// Thorough reports whether the thorough tier was requested.
func (r *Run) Thorough() bool { return r.Tier == "thorough" }

// N picks the case count for the tier.
func (r *Run) N(quick, thorough int) int {
	if r.Thorough() {
		return thorough
	}
	return quick
}

// Replaying reports whether a single case is being replayed.
func (r *Run) Replaying() bool { return r.only != "" }

// Rand returns the PRNG of case (work, index): a function of the seed only.
func (r *Run) Rand(work string, index int) *rand.Rand {
	h := fnv.New64a()
	h.Write([]byte(work))
	return rand.New(rand.NewPCG(uint64(r.Seed)*0x9e3779b97f4a7c15^h.Sum64(), uint64(index)+1))
}

// SetRule records how cases are generated and what makes one distinct.
func (r *Run) SetRule(s string) { r.rule = s }

// Assume records a trusted-base statement for the evidence.
func (r *Run) Assume(s ...string) { r.assume = append(r.assume, s...) }

// SetExhaustive marks that (a stated sub-space of) the run was enumerated completely.
func (r *Run) SetExhaustive(b bool) { r.exh = b }

// Extra attaches a free-form value to the evidence.
func (r *Run) Extra(k string, v any) {
	r.mu.Lock()
	r.extra[k] = v
	r.mu.Unlock()
}

// Eval counts one execution whose class fingerprint is fp ("" = trivial, not
// counted as distinct).
func (r *Run) Eval(fp string) {
	r.evals.Add(1)
	if fp == "" {
		return
	}
	h := fnv.New64a()
	h.Write([]byte(fp))
	k := h.Sum64()
	r.mu.Lock()
	r.distinct[k] = struct{}{}
	r.mu.Unlock()
}

// EvalN counts n executions without fingerprints.
func (r *Run) EvalN(n int64) { r.evals.Add(n) }

// Count adds to a named coverage counter.
func (r *Run) Count(key string, n int64) {
	r.mu.Lock()
	r.counters[key] += n
	r.mu.Unlock()
}

// Counter reads a counter.
func (r *Run) Counter(key string) int64 {
	r.mu.Lock()
	defer r.mu.Unlock()
	return r.counters[key]
}

// Floor demands that counter key reaches min, else the run is inconclusive.
func (r *Run) Floor(key string, min int64) {
	r.mu.Lock()
	r.floors[key] = min
	r.mu.Unlock()
}

// Sample keeps a few cases written out in full.
func (r *Run) Sample(v any) {
	r.mu.Lock()
	if len(r.samples) < r.maxSample {
		r.samples = append(r.samples, v)
	}
	r.mu.Unlock()
}

// Violate records a refuting observation.
func (r *Run) Violate(work string, index int, sig, desc string, c any) {
	r.mu.Lock()
	defer r.mu.Unlock()
	if v, ok := r.viol[sig]; ok {
		v.Count++
		return
	}
	r.viol[sig] = &Violation{Sig: sig, Desc: desc, Work: work, Index: index, Case: c, Count: 1}
	if r.T != nil {
		r.T.Logf("VIOLATION-RAW sig=%s work=%s index=%d %s", sig, work, index, desc)
	}
}

// NViolations returns the number of distinct signatures so far.
func (r *Run) NViolations() int {
	r.mu.Lock()
	defer r.mu.Unlock()
	return len(r.viol)
}

// Inconclusive records a reason why no verdict can be given.
func (r *Run) Inconclusive(format string, a ...any) {
	r.mu.Lock()
	r.incon = append(r.incon, fmt.Sprintf(format, a...))
	r.mu.Unlock()
}

// Current logs the case about to run, so that a process-fatal error names
// its input.
func (r *Run) Current(work string, index int, input []byte) {
	if r.curFile == nil {
		return
	}
	line := fmt.Sprintf("%s %d %s\n", work, index, hex.EncodeToString(input))
	r.mu.Lock()
	r.curFile.WriteAt([]byte(line+strings.Repeat(" ", 0)), 0)
	r.curFile.Truncate(int64(len(line)))
	r.mu.Unlock()
}

// Guard runs f and converts a panic on this goroutine into a violation whose
// signature names the top frame inside the code under test.
func (r *Run) Guard(work string, index int, rule string, c any, f func()) (panicked bool) {
	defer func() {
		if p := recover(); p != nil {
			panicked = true
			stack := debug.Stack()
			frame := TopRepoFrame(stack)
			if frame == "unknown" {
				// no frame of the code under test on the panicking stack: the harness itself is broken, which is not a verdict
				r.Inconclusive("harness panic in %s[%d] (%s): %v | %s", work, index, rule, p, Clip(strings.ReplaceAll(string(stack), "\n", " / "), 900))
				return
			}
			r.Violate(work, index, rule+":panic@"+frame, fmt.Sprintf("panic: %v at %s", p, frame), c)
		}
	}()
	f()
	return false
}

// TopRepoFrame extracts the first function of the module under test from a
// stack dump (function name only, no line numbers, so it is stable).
func TopRepoFrame(stack []byte) string {
	for _, l := range strings.Split(string(stack), "\n") {
		l = strings.TrimSpace(l)
		if strings.HasPrefix(l, "github.com/c2FmZQ/ech") {
			if i := strings.LastIndex(l, "("); i > 0 {
				l = l[:i]
			}
			l = strings.TrimPrefix(l, "github.com/c2FmZQ/ech")
			l = strings.TrimPrefix(l, "/")
			l = strings.TrimPrefix(l, ".")
			return l
		}
	}
	return "unknown"
}

// Parallel runs cases 0..n-1 of workload work on all cores. Each case gets
// its own PRNG determined by (seed, work, index). When a single case is being
// replayed only that case runs.
func (r *Run) Parallel(work string, n int, f func(i int, rng *rand.Rand)) {
	r.ParallelW(work, n, runtime.GOMAXPROCS(0), f)
}

// ParallelW is Parallel with a chosen number of workers.
func (r *Run) ParallelW(work string, n, workers int, f func(i int, rng *rand.Rand)) {
	if r.only != "" {
		if r.only != work {
			return
		}
		if r.onlyIdx < n {
			f(r.onlyIdx, r.Rand(work, r.onlyIdx))
		}
		return
	}
	if workers < 1 {
		workers = 1
	}
	var next atomic.Int64
	var wg sync.WaitGroup
	for w := 0; w < workers; w++ {
		wg.Add(1)
		go func() {
			defer wg.Done()
			for {
				i := int(next.Add(1) - 1)
				if i >= n {
					return
				}
				f(i, r.Rand(work, i))
			}
		}()
	}
	wg.Wait()
}

// Skip reports whether workload work is excluded by a replay filter.
func (r *Run) Skip(work string) bool { return r.only != "" && r.only != work }

// Finish checks coverage floors and writes the result file.
func (r *Run) Finish() {
	r.mu.Lock()
	defer r.mu.Unlock()
	if r.only == "" {
		keys := make([]string, 0, len(r.floors))
		for k := range r.floors {
			keys = append(keys, k)
		}
		sort.Strings(keys)
		fl := map[string][2]int64{}
		for _, k := range keys {
			fl[k] = [2]int64{r.floors[k], r.counters[k]}
		}
		if len(fl) > 0 {
			r.extra["coverage_floors_min_and_observed"] = fl
		}
		for _, k := range keys {
			if r.counters[k] < r.floors[k] {
				r.incon = append(r.incon, fmt.Sprintf("coverage floor not reached: %s=%d < %d", k, r.counters[k], r.floors[k]))
			}
		}
	}
	res := Result{Property: r.ID, Tier: r.Tier, Seed: r.Seed, Level: r.Level, Rule: r.rule, Exhaustive: r.exh,
		Evaluations: r.evals.Load(), Distinct: int64(len(r.distinct)), Counters: r.counters, Samples: r.samples,
		Assumptions: r.assume, Inconclusive: r.incon, Extra: r.extra, GoVersion: runtime.Version(),
		WallS: time.Since(r.start).Seconds(), Complete: true}
	sigs := make([]string, 0, len(r.viol))
	for s := range r.viol {
		sigs = append(sigs, s)
	}
	sort.Strings(sigs)
	for _, s := range sigs {
		res.Violations = append(res.Violations, r.viol[s])
	}
	b, err := json.MarshalIndent(res, "", " ")
	if err != nil {
		// A sample or case was not serialisable: keep the verdict, drop payloads.
		res.Samples = []any{fmt.Sprintf("unserialisable: %v", err)}
		for _, v := range res.Violations {
			v.Case = fmt.Sprintf("%+v", v.Case)
		}
		b, _ = json.MarshalIndent(res, "", " ")
	}
	if r.out != "" {
		tmp := r.out + ".tmp"
		if err := os.WriteFile(tmp, b, 0o644); err == nil {
			os.Rename(tmp, r.out)
		}
	} else if r.T != nil {
		r.T.Logf("result: evaluations=%d distinct=%d violations=%d inconclusive=%v counters=%v", res.Evaluations, res.Distinct, len(res.Violations), res.Inconclusive, res.Counters)
	}
	if r.T != nil && r.out == "" {
		for _, v := range res.Violations {
			r.T.Errorf("violation %s: %s", v.Sig, v.Desc)
		}
	}
}

// Hex is a helper for JSON payloads.
func Hex(b []byte) string { return hex.EncodeToString(b) }

// Clip shortens long hex strings in descriptions.
func Clip(s string, n int) string {
	if len(s) <= n {
		return s
	}
	return s[:n] + fmt.Sprintf("…(+%d)", len(s)-n)
}

// ParkedOnLocks inspects the goroutines whose ids are in gids and reports whether every one
// of them is waiting for a sync.Mutex / sync.RWMutex inside the library under test. When
// those goroutines are the only users of the object they block on (and the library starts
// no goroutines of its own) this is a certain deadlock, not slowness: nobody is left to
// unlock. where names the innermost library frame of the first parked goroutine.
func ParkedOnLocks(gids map[uint64]bool) (all bool, parked int, where string) {
	if len(gids) == 0 {
		return false, 0, ""
	}
	buf := make([]byte, 1<<20)
	for {
		n := runtime.Stack(buf, true)
		if n < len(buf) {
			buf = buf[:n]
			break
		}
		buf = make([]byte, 2*len(buf))
	}
	seen := 0
	for _, blk := range strings.Split(string(buf), "\n\n") {
		var id uint64
		var state string
		hdr, rest, _ := strings.Cut(blk, "\n")
		if _, err := fmt.Sscanf(hdr, "goroutine %d [", &id); err != nil || !gids[id] {
			continue
		}
		seen++
		if i := strings.IndexByte(hdr, '['); i >= 0 {
			state = strings.TrimSuffix(hdr[i+1:], "]:")
			state, _, _ = strings.Cut(state, ",")
		}
		switch state {
		case "sync.Mutex.Lock", "sync.RWMutex.RLock", "sync.RWMutex.Lock", "semacquire":
		default:
			return false, parked, ""
		}
		lib := ""
		for _, l := range strings.Split(rest, "\n") {
			if strings.HasPrefix(l, "github.com/c2FmZQ/ech") {
				lib = strings.TrimPrefix(l, "github.com/c2FmZQ/ech")
				if i := strings.LastIndexByte(lib, '('); i > 0 {
					lib = lib[:i]
				}
				break
			}
		}
		if lib == "" {
			return false, parked, ""
		}
		if where == "" {
			where = strings.TrimPrefix(lib, ".")
		}
		parked++
	}
	return seen == len(gids) && parked == seen, parked, where
}
