package mon
