// Package dnsx is the harness' own DNS toolkit: an RFC 1035 message model
// with an uncompressed encoder and a bounded walker/decoder, a builder on top
// of golang.org/x/net/dns/dnsmessage (name compression), an RFC 9460
// SVCB/HTTPS RDATA codec, name helpers and seed-driven generators.
//
// Nothing in here imports the code under test.
//
// Name representation used throughout: labels joined by '.', no trailing dot,
// the root is "". Label bytes are arbitrary except '.' (neither this model nor
// the package under test escapes dots).
package dnsx

import (
	"errors"
	"math/rand/v2"
	"strings"
)

var ErrMalformed = errors.New("dnsx: malformed")

// Labels splits a name in the canonical representation (one optional trailing
// dot is tolerated). The root has no labels.
func Labels(name string) []string {
	name = strings.TrimSuffix(name, ".")
	if name == "" {
		return nil
	}
	return strings.Split(name, ".")
}

// WireLen is the length of the uncompressed wire form of name.
func WireLen(name string) int {
	n := 1
	for _, l := range Labels(name) {
		n += 1 + len(l)
	}
	return n
}

// ValidName reports whether name has an RFC 1035 wire form: labels of 1..63
// bytes, at most 255 bytes in total.
func ValidName(name string) bool {
	for _, l := range Labels(name) {
		if len(l) == 0 || len(l) > 63 {
			return false
		}
	}
	return WireLen(name) <= 255
}

// AppendName appends the uncompressed RFC 1035 section 3.1 form of name.
func AppendName(b []byte, name string) []byte {
	for _, l := range Labels(name) {
		b = append(b, byte(len(l)))
		b = append(b, l...)
	}
	return append(b, 0)
}

// ReadName decodes the (possibly compressed) name at msg[off:]. next is the
// offset after the name in the original stream. At most 127 pointer hops and
// 255 bytes of wire length are accepted.
func ReadName(msg []byte, off int) (name string, next int, err error) {
	var labels []string
	next = -1
	hops := 0
	wire := 1
	for {
		if off >= len(msg) {
			return "", 0, ErrMalformed
		}
		c := int(msg[off])
		switch c & 0xc0 {
		case 0x00:
			if c == 0 {
				if next < 0 {
					next = off + 1
				}
				return strings.Join(labels, "."), next, nil
			}
			if off+1+c > len(msg) {
				return "", 0, ErrMalformed
			}
			wire += 1 + c
			if wire > 255 {
				return "", 0, ErrMalformed
			}
			labels = append(labels, string(msg[off+1:off+1+c]))
			off += 1 + c
		case 0xc0:
			if off+2 > len(msg) {
				return "", 0, ErrMalformed
			}
			if next < 0 {
				next = off + 2
			}
			hops++
			if hops > 127 {
				return "", 0, ErrMalformed
			}
			off = (c&0x3f)<<8 | int(msg[off+1])
		default:
			return "", 0, ErrMalformed
		}
	}
}

const ldh = "abcdefghijklmnopqrstuvwxyz0123456789"

// GenLabel returns a label of exactly n bytes. exotic labels use arbitrary
// byte values except '.', otherwise lower-case letters, digits and inner hyphens.
func GenLabel(rng *rand.Rand, n int, exotic bool) string {
	b := make([]byte, n)
	for i := range b {
		if exotic {
			c := byte(rng.IntN(256))
			for c == '.' {
				c = byte(rng.IntN(256))
			}
			b[i] = c
			continue
		}
		b[i] = ldh[rng.IntN(len(ldh))]
		if i > 0 && i < n-1 && rng.IntN(10) == 0 {
			b[i] = '-'
		}
	}
	return string(b)
}

// GenName returns a name with exactly nLabels labels (0..127) whose wire form
// has at most maxWire (<=255) bytes.
func GenName(rng *rand.Rand, nLabels, maxWire int, exotic bool) string {
	if maxWire > 255 {
		maxWire = 255
	}
	if nLabels > (maxWire-1)/2 {
		nLabels = (maxWire - 1) / 2
	}
	if nLabels <= 0 {
		return ""
	}
	// every label gets 1 byte; distribute some of the remaining budget
	extra := maxWire - 1 - 2*nLabels
	lens := make([]int, nLabels)
	for i := range lens {
		lens[i] = 1
	}
	if extra > 0 {
		use := rng.IntN(extra + 1)
		if rng.IntN(4) == 0 {
			use = extra // a name of maximal length
		}
		for use > 0 {
			i := rng.IntN(nLabels)
			add := 1 + rng.IntN(min(use, 62))
			if lens[i]+add > 63 {
				add = 63 - lens[i]
			}
			if add == 0 {
				// all labels may be full: stop when none can grow
				full := true
				for _, l := range lens {
					if l < 63 {
						full = false
					}
				}
				if full {
					break
				}
				continue
			}
			lens[i] += add
			use -= add
		}
	}
	parts := make([]string, nLabels)
	for i, l := range lens {
		parts[i] = GenLabel(rng, l, exotic)
	}
	return strings.Join(parts, ".")
}

// NameOfLen returns a name whose presentation form (no trailing dot) has
// exactly n bytes, 1 <= n <= 253, with labels of at most 63 bytes.
func NameOfLen(rng *rand.Rand, n int) string {
	if n < 1 {
		n = 1
	}
	if n > 253 {
		n = 253
	}
	var parts []string
	rest := n
	for rest > 0 {
		l := 1 + rng.IntN(63)
		if l > rest {
			l = rest
		}
		// a label needs a dot before the next one: never leave exactly 1 byte for "." alone
		if rest-l == 1 {
			if l > 1 {
				l--
			} else {
				l = 2
				if l > rest {
					l = rest
				}
			}
		}
		parts = append(parts, GenLabel(rng, l, false))
		rest -= l
		if rest > 0 {
			rest-- // the dot
		}
	}
	return strings.Join(parts, ".")
}
