package dnsx

import "encoding/binary"

// Asm assembles a DNS message byte by byte, for packets that no library
// encoder produces (chosen compression pointers, lying lengths).
type Asm struct{ B []byte }

func (a *Asm) Off() int     { return len(a.B) }
func (a *Asm) U8(v int)     { a.B = append(a.B, byte(v)) }
func (a *Asm) U16(v int)    { a.B = binary.BigEndian.AppendUint16(a.B, uint16(v)) }
func (a *Asm) U32(v uint32) { a.B = binary.BigEndian.AppendUint32(a.B, v) }
func (a *Asm) Raw(p []byte) { a.B = append(a.B, p...) }

// Ptr writes a compression pointer (RFC 1035 section 4.1.4) to offset target.
func (a *Asm) Ptr(target int) { a.U16(0xc000 | target&0x3fff) }

// Name writes the uncompressed form of name, terminator included.
func (a *Asm) Name(name string) { a.B = AppendName(a.B, name) }

// Labels writes the labels of name without the terminating zero octet.
func (a *Asm) Labels(name string) {
	for _, l := range Labels(name) {
		a.U8(len(l))
		a.Raw([]byte(l))
	}
}

func (a *Asm) Header(id, flags uint16, qd, an, ns, ar int) {
	a.U16(int(id))
	a.U16(int(flags))
	a.U16(qd)
	a.U16(an)
	a.U16(ns)
	a.U16(ar)
}

// RR writes a record: owner (by callback), fixed fields and RDATA (by
// callback) with the matching RDLENGTH. It returns the offset of the RDATA.
func (a *Asm) RR(owner func(), typ, class uint16, ttl uint32, rdata func()) int {
	owner()
	a.U16(int(typ))
	a.U16(int(class))
	a.U32(ttl)
	at := a.Off()
	a.U16(0)
	rdata()
	binary.BigEndian.PutUint16(a.B[at:], uint16(a.Off()-at-2))
	return at + 2
}
