package dnsx

import (
	"math/rand/v2"
	"sort"
)

// Gen draws message parts from a PRNG. Names are drawn from a small pool of
// suffixes so that a compressing encoder finds something to compress.
type Gen struct {
	Rng      *rand.Rand
	Exotic   bool // labels with arbitrary byte values (never '.')
	RootData bool // allow the root as NS/CNAME/PTR/MX/SOA/SRV/SVCB name data
	pool     []string
}

func NewGen(rng *rand.Rand, exotic bool) *Gen {
	g := &Gen{Rng: rng, Exotic: exotic}
	for i := 0; i < 1+rng.IntN(3); i++ {
		g.pool = append(g.pool, GenName(rng, 1+rng.IntN(3), 40, exotic))
	}
	return g
}

// Refresh replaces the suffix pool, so that names drawn from now on are first
// written (and later pointed to) at the current, higher message offsets.
func (g *Gen) Refresh() {
	for i := range g.pool {
		g.pool[i] = GenName(g.Rng, 1+g.Rng.IntN(3), 40, g.Exotic)
	}
}

func (g *Gen) Bytes(n int) []byte {
	b := make([]byte, n)
	for i := range b {
		b[i] = byte(g.Rng.IntN(256))
	}
	return b
}

// Name draws an owner name: a pool suffix, a child of one, or a fresh name;
// the root with a small probability.
func (g *Gen) Name() string {
	switch k := g.Rng.IntN(20); {
	case k == 0:
		return ""
	case k < 6:
		return g.pool[g.Rng.IntN(len(g.pool))]
	case k < 14:
		base := g.pool[g.Rng.IntN(len(g.pool))]
		pre := GenName(g.Rng, 1+g.Rng.IntN(3), 30, g.Exotic)
		if n := pre + "." + base; ValidName(n) {
			return n
		}
		return base
	default:
		return GenName(g.Rng, 1+g.Rng.IntN(6), 20+g.Rng.IntN(236), g.Exotic)
	}
}

// DataName draws a name used inside RDATA.
func (g *Gen) DataName() string {
	for {
		n := g.Name()
		if n != "" || g.RootData {
			return n
		}
	}
}

// NameN draws a name with exactly n labels (0..127).
func (g *Gen) NameN(n int) string {
	return GenName(g.Rng, n, 255, g.Exotic)
}

func (g *Gen) class() uint16 {
	if g.Rng.IntN(8) == 0 {
		return uint16(g.Rng.IntN(65536))
	}
	return 1
}

func (g *Gen) ttl() uint32 {
	switch g.Rng.IntN(6) {
	case 0:
		return 0
	case 1:
		return 0xffffffff
	case 2:
		return g.Rng.Uint32()
	}
	return uint32(g.Rng.IntN(86400))
}

// EncoderTypes are the record types the package under test can serialise.
var EncoderTypes = []uint16{TypeA, TypeAAAA, TypeNS, TypeCNAME, TypePTR, TypeHTTPS}

// DecoderTypes are the types of the property's quantifier for the decode direction.
var DecoderTypes = []uint16{TypeA, TypeAAAA, TypeNS, TypeCNAME, TypePTR, TypeMX, TypeSOA, TypeTXT, TypeSRV, TypeSVCB, TypeHTTPS}

// RR draws a record of type t owned by name. svcMask >= 0 selects the basic
// HTTPS parameter subset (bit k-1 = SvcParamKey k, k = 1..6); svcMask < 0
// draws arbitrary parameter sets (mandatory, unknown keys).
func (g *Gen) RR(name string, t uint16, svcMask int) RR {
	rr := RR{Name: name, Type: t, Class: g.class(), TTL: g.ttl()}
	switch t {
	case TypeA:
		var a A
		copy(a[:], g.IP4())
		rr.Data = a
	case TypeAAAA:
		var a AAAA
		copy(a[:], g.IP6())
		rr.Data = a
	case TypeNS, TypeCNAME, TypePTR:
		rr.Data = Name(g.DataName())
	case TypeMX:
		rr.Data = MX{uint16(g.Rng.IntN(65536)), g.DataName()}
	case TypeSOA:
		rr.Data = SOA{g.DataName(), g.DataName(), g.Rng.Uint32(), g.Rng.Uint32(), g.Rng.Uint32(), g.Rng.Uint32(), g.Rng.Uint32()}
	case TypeTXT:
		n := g.Rng.IntN(5)
		txt := TXT{}
		for i := 0; i < n; i++ {
			l := g.Rng.IntN(40)
			if g.Rng.IntN(10) == 0 {
				l = 255
			}
			txt = append(txt, string(g.Bytes(l)))
		}
		rr.Data = txt
	case TypeSRV:
		rr.Data = SRV{uint16(g.Rng.IntN(65536)), uint16(g.Rng.IntN(65536)), uint16(g.Rng.IntN(65536)), g.DataName()}
	case TypeSVCB, TypeHTTPS:
		if svcMask >= 0 {
			rr.Data = g.SvcBasic(svcMask)
		} else {
			rr.Data = g.SvcArbitrary()
		}
	default:
		rr.Data = Raw(g.Bytes(g.Rng.IntN(40)))
	}
	return rr
}

func (g *Gen) svcHead() Svc {
	s := Svc{Priority: uint16(1 + g.Rng.IntN(5))}
	switch g.Rng.IntN(8) {
	case 0:
		s.Priority = 0
	case 1:
		s.Priority = uint16(g.Rng.IntN(65536))
	}
	// TargetName: the root (".", "this owner") or a name
	if g.Rng.IntN(2) == 0 {
		for s.Target == "" {
			s.Target = g.Name()
		}
	}
	return s
}

func (g *Gen) alpnIDs() []string {
	std := []string{"h2", "h3", "http/1.1", "h2c", "dot"}
	var ids []string
	for i := 0; i < 1+g.Rng.IntN(4); i++ {
		switch g.Rng.IntN(4) {
		case 0:
			ids = append(ids, string(g.Bytes(1+g.Rng.IntN(20)))) // arbitrary octets incl. ',' and '\\'
		default:
			ids = append(ids, std[g.Rng.IntN(len(std))])
		}
	}
	return ids
}

func (g *Gen) hints(sz int) [][]byte {
	var out [][]byte
	for i := 0; i < 1+g.Rng.IntN(4); i++ {
		if sz == 4 {
			out = append(out, g.IP4())
		} else {
			out = append(out, g.IP6())
		}
	}
	return out
}

// IP4 draws a 4-byte address: random, or (1 in 4) one of the special values
// 0.0.0.0, 255.255.255.255, 127.0.0.1.
func (g *Gen) IP4() []byte {
	if g.Rng.IntN(4) != 0 {
		return g.Bytes(4)
	}
	return [][]byte{{0, 0, 0, 0}, {255, 255, 255, 255}, {127, 0, 0, 1}}[g.Rng.IntN(3)]
}

// IP6 draws a 16-byte address: random, or (1 in 3) one of the special values
// ::, ::1, ::ffff:a.b.c.d (IPv4-mapped, RFC 4291 2.5.5.2), 64:ff9b::a.b.c.d
// (RFC 6052), fe80::1, all ones. A uniformly random address never falls into
// the mapped prefix, which software likes to treat as "really IPv4".
func (g *Gen) IP6() []byte {
	if g.Rng.IntN(3) != 0 {
		return g.Bytes(16)
	}
	b := make([]byte, 16)
	switch g.Rng.IntN(6) {
	case 0:
	case 1:
		b[15] = 1
	case 2:
		b[10], b[11] = 0xff, 0xff
		copy(b[12:], g.Bytes(4))
		if g.Rng.IntN(3) == 0 {
			copy(b[12:], []byte{192, 0, 2, 1})
		}
	case 3:
		b[1], b[2], b[3] = 0x64, 0xff, 0x9b
		copy(b[12:], g.Bytes(4))
	case 4:
		b[0], b[1], b[15] = 0xfe, 0x80, 1
	default:
		for i := range b {
			b[i] = 0xff
		}
	}
	return b
}

// IsIPv4Mapped reports whether the 16-byte address b lies in ::ffff:0:0/96.
func IsIPv4Mapped(b []byte) bool {
	if len(b) != 16 || b[10] != 0xff || b[11] != 0xff {
		return false
	}
	for _, c := range b[:10] {
		if c != 0 {
			return false
		}
	}
	return true
}

// SvcBasic draws RDATA whose parameters are exactly the keys selected by mask
// (bit k-1 = key k for k in 1..6), each with a well-formed non-trivial value
// (port != 0), in increasing key order.
func (g *Gen) SvcBasic(mask int) Svc {
	s := g.svcHead()
	for k := 1; k <= 6; k++ {
		if mask&(1<<(k-1)) == 0 {
			continue
		}
		var v []byte
		switch k {
		case KeyALPN:
			v = ALPNValue(g.alpnIDs())
		case KeyNoDefaultALPN:
		case KeyPort:
			v = PortValue(uint16(1 + g.Rng.IntN(65535)))
		case KeyIPv4Hint:
			v = HintValue(g.hints(4))
		case KeyECH:
			v = g.Bytes(1 + g.Rng.IntN(300))
		case KeyIPv6Hint:
			v = HintValue(g.hints(16))
		}
		s.Params = append(s.Params, SvcParam{uint16(k), v})
	}
	return s
}

// SvcArbitrary draws a legal RFC 9460 parameter set: any subset of the keys
// 1..6, unknown keys (7..65534) with arbitrary values, and optionally a
// mandatory list naming some of the present keys; strictly increasing keys.
func (g *Gen) SvcArbitrary() Svc {
	s := g.SvcBasic(g.Rng.IntN(64))
	for i := 0; i < g.Rng.IntN(4); i++ {
		k := uint16(7 + g.Rng.IntN(12))
		if g.Rng.IntN(3) == 0 {
			k = uint16(7 + g.Rng.IntN(65528))
		}
		dup := false
		for _, p := range s.Params {
			if p.Key == k {
				dup = true
			}
		}
		if !dup {
			s.Params = append(s.Params, SvcParam{k, g.Bytes(g.Rng.IntN(30))})
		}
	}
	sort.Slice(s.Params, func(i, j int) bool { return s.Params[i].Key < s.Params[j].Key })
	if len(s.Params) > 0 && g.Rng.IntN(3) == 0 {
		var m []uint16
		for _, p := range s.Params {
			if g.Rng.IntN(2) == 0 {
				m = append(m, p.Key)
			}
		}
		if len(m) > 0 {
			s.Params = append([]SvcParam{{KeyMandatory, MandatoryValue(m)}}, s.Params...)
		}
	}
	return s
}

// OPT draws an EDNS(0) pseudo record: root owner, class = UDP payload size,
// TTL = extended RCODE | version | flags, arbitrary options. padding says
// whether options with code 12 may appear.
func (g *Gen) OPT(padding bool) RR {
	rr := RR{Name: "", Type: TypeOPT, Class: uint16(g.Rng.IntN(65536)), TTL: g.Rng.Uint32()}
	switch g.Rng.IntN(4) {
	case 0:
		rr.TTL = 0
	case 1:
		rr.TTL &= 0xff000000
	}
	opts := OPT{}
	for i := 0; i < g.Rng.IntN(5); i++ {
		code := uint16(g.Rng.IntN(20))
		if g.Rng.IntN(4) == 0 {
			code = uint16(g.Rng.IntN(65536))
		}
		if code == 12 && !padding {
			code = 10
		}
		opts = append(opts, Option{code, g.Bytes(g.Rng.IntN(40))})
	}
	rr.Data = opts
	return rr
}

// Header draws the header fields from the low bits of sel: 7 flags, opcode, rcode.
func (m *Msg) SetHeader(id uint16, sel int) {
	m.ID = id
	m.QR, m.AA, m.TC, m.RD, m.RA = sel&1 != 0, sel&2 != 0, sel&4 != 0, sel&8 != 0, sel&16 != 0
	m.OpCode = uint8(sel >> 5 & 15)
	m.RCode = uint8(sel >> 9 & 15)
	m.AD, m.CD = sel>>13&1 != 0, sel>>14&1 != 0
}
