package dnsx

import (
	"bytes"
	"errors"
	"fmt"

	"golang.org/x/net/dns/dnsmessage"
)

func dmName(name string) (dnsmessage.Name, error) {
	return dnsmessage.NewName(name + ".")
}

func (m *Msg) dmHeader() dnsmessage.Header {
	return dnsmessage.Header{ID: m.ID, Response: m.QR, OpCode: dnsmessage.OpCode(m.OpCode & 0xf), Authoritative: m.AA, Truncated: m.TC,
		RecursionDesired: m.RD, RecursionAvailable: m.RA, AuthenticData: m.AD, CheckingDisabled: m.CD, RCode: dnsmessage.RCode(m.RCode & 0xf)}
}

// Build encodes m with golang.org/x/net/dns/dnsmessage, with or without name
// compression. SVCB/HTTPS and Raw data go in as opaque RDATA.
func (m *Msg) Build(compress bool) ([]byte, error) {
	b := dnsmessage.NewBuilder(nil, m.dmHeader())
	if compress {
		b.EnableCompression()
	}
	if err := b.StartQuestions(); err != nil {
		return nil, err
	}
	for _, q := range m.Question {
		n, err := dmName(q.Name)
		if err != nil {
			return nil, err
		}
		if err := b.Question(dnsmessage.Question{Name: n, Type: dnsmessage.Type(q.Type), Class: dnsmessage.Class(q.Class)}); err != nil {
			return nil, err
		}
	}
	starts := []func() error{b.StartAnswers, b.StartAuthorities, b.StartAdditionals}
	for i, sec := range [][]RR{m.Answer, m.Authority, m.Extra} {
		if err := starts[i](); err != nil {
			return nil, err
		}
		for _, rr := range sec {
			if err := addRR(&b, rr); err != nil {
				return nil, fmt.Errorf("%s %q: %w", TypeName(rr.Type), rr.Name, err)
			}
		}
	}
	return b.Finish()
}

func addRR(b *dnsmessage.Builder, rr RR) error {
	n, err := dmName(rr.Name)
	if err != nil {
		return err
	}
	h := dnsmessage.ResourceHeader{Name: n, Class: dnsmessage.Class(rr.Class), TTL: rr.TTL}
	switch d := rr.Data.(type) {
	case A:
		if rr.Type != TypeA {
			break
		}
		return b.AResource(h, dnsmessage.AResource{A: d})
	case AAAA:
		if rr.Type != TypeAAAA {
			break
		}
		return b.AAAAResource(h, dnsmessage.AAAAResource{AAAA: d})
	case Name:
		t, err := dmName(string(d))
		if err != nil {
			return err
		}
		switch rr.Type {
		case TypeNS:
			return b.NSResource(h, dnsmessage.NSResource{NS: t})
		case TypeCNAME:
			return b.CNAMEResource(h, dnsmessage.CNAMEResource{CNAME: t})
		case TypePTR:
			return b.PTRResource(h, dnsmessage.PTRResource{PTR: t})
		}
	case MX:
		if rr.Type != TypeMX {
			break
		}
		t, err := dmName(d.Exchange)
		if err != nil {
			return err
		}
		return b.MXResource(h, dnsmessage.MXResource{Pref: d.Pref, MX: t})
	case SOA:
		if rr.Type != TypeSOA {
			break
		}
		ns, err := dmName(d.MName)
		if err != nil {
			return err
		}
		mb, err := dmName(d.RName)
		if err != nil {
			return err
		}
		return b.SOAResource(h, dnsmessage.SOAResource{NS: ns, MBox: mb, Serial: d.Serial, Refresh: d.Refresh, Retry: d.Retry, Expire: d.Expire, MinTTL: d.Minimum})
	case TXT:
		if rr.Type != TypeTXT {
			break
		}
		return b.TXTResource(h, dnsmessage.TXTResource{TXT: d})
	case SRV:
		if rr.Type != TypeSRV {
			break
		}
		t, err := dmName(d.Target)
		if err != nil {
			return err
		}
		return b.SRVResource(h, dnsmessage.SRVResource{Priority: d.Priority, Weight: d.Weight, Port: d.Port, Target: t})
	case OPT:
		if rr.Type != TypeOPT {
			break
		}
		var o dnsmessage.OPTResource
		for _, x := range d {
			o.Options = append(o.Options, dnsmessage.Option{Code: x.Code, Data: x.Data})
		}
		return b.OPTResource(h, o)
	case Svc:
		return b.UnknownResource(h, dnsmessage.UnknownResource{Type: dnsmessage.Type(rr.Type), Data: d.Encode()})
	case Raw:
		return b.UnknownResource(h, dnsmessage.UnknownResource{Type: dnsmessage.Type(rr.Type), Data: d})
	}
	return fmt.Errorf("dnsx: data %T does not fit type %d", rr.Data, rr.Type)
}

// Diff is a disagreement: Class is a short stable label, Detail is for people.
type Diff struct {
	Class  string
	Detail string
}

func diff(class, format string, a ...any) *Diff {
	return &Diff{Class: class, Detail: fmt.Sprintf(format, a...)}
}

func dmNameStr(n dnsmessage.Name) string {
	s := n.String()
	if s == "." {
		return ""
	}
	if len(s) > 0 && s[len(s)-1] == '.' {
		s = s[:len(s)-1]
	}
	return s
}

// CheckParse parses wire with dnsmessage.Parser and compares every field with
// the model m. nil means full agreement. SVCB/HTTPS RDATA is decoded with the
// strict RFC 9460 decoder and compared parameter by parameter.
func (m *Msg) CheckParse(wire []byte) *Diff {
	var p dnsmessage.Parser
	h, err := p.Start(wire)
	if err != nil {
		return diff("header", "dnsmessage: %v", err)
	}
	if want := m.dmHeader(); h != want {
		return diff("header", "dnsmessage header %+v, want %+v", h, want)
	}
	w, err := Walk(wire)
	if err != nil {
		return diff("structure", "independent walker rejects the message: %v", err)
	}
	if w.Flags != m.Flags() {
		return diff("header", "flags word %04x, want %04x", w.Flags, m.Flags())
	}
	wantCounts := [4]uint16{uint16(len(m.Question)), uint16(len(m.Answer)), uint16(len(m.Authority)), uint16(len(m.Extra))}
	if w.Counts != wantCounts {
		return diff("counts", "section counts %v, want %v", w.Counts, wantCounts)
	}
	if w.End != len(wire) {
		return diff("length", "%d bytes after the last record", len(wire)-w.End)
	}
	qs, err := p.AllQuestions()
	if err != nil {
		return diff("question", "dnsmessage: %v", err)
	}
	if len(qs) != len(m.Question) {
		return diff("counts", "%d questions, want %d", len(qs), len(m.Question))
	}
	for i, q := range qs {
		want := m.Question[i]
		if dmNameStr(q.Name) != want.Name {
			return diff("question-name", "question %d name %q, want %q", i, dmNameStr(q.Name), want.Name)
		}
		if uint16(q.Type) != want.Type || uint16(q.Class) != want.Class {
			return diff("question-type-class", "question %d type/class %d/%d, want %d/%d", i, q.Type, q.Class, want.Type, want.Class)
		}
	}
	hdrs := []func() (dnsmessage.ResourceHeader, error){p.AnswerHeader, p.AuthorityHeader, p.AdditionalHeader}
	for s, sec := range [][]RR{m.Answer, m.Authority, m.Extra} {
		for i, want := range sec {
			rh, err := hdrs[s]()
			if err != nil {
				return diff("rr-header:"+TypeName(want.Type), "section %d record %d: dnsmessage: %v", s, i, err)
			}
			tn := TypeName(want.Type)
			if dmNameStr(rh.Name) != want.Name {
				return diff("rr-name:"+tn, "section %d record %d owner %q, want %q", s, i, dmNameStr(rh.Name), want.Name)
			}
			if uint16(rh.Type) != want.Type || uint16(rh.Class) != want.Class || rh.TTL != want.TTL {
				return diff("rr-fixed:"+tn, "section %d record %d type/class/ttl %d/%d/%d, want %d/%d/%d", s, i, rh.Type, rh.Class, rh.TTL, want.Type, want.Class, want.TTL)
			}
			raw := w.Sections[s][i]
			if d := checkBody(&p, wire, raw, want); d != nil {
				d.Detail = fmt.Sprintf("section %d record %d (%s %q): %s", s, i, tn, want.Name, d.Detail)
				return d
			}
		}
		if _, err := hdrs[s](); !errors.Is(err, dnsmessage.ErrSectionDone) {
			return diff("counts", "section %d holds more records than the model (%v)", s, err)
		}
	}
	return nil
}

func checkBody(p *dnsmessage.Parser, wire []byte, raw RawRR, want RR) *Diff {
	tn := TypeName(want.Type)
	// a name-only RDATA must consist of exactly the name
	nameOnly := func(got dnsmessage.Name, wantName string) *Diff {
		if dmNameStr(got) != wantName {
			return diff("rdata:"+tn, "name %q, want %q", dmNameStr(got), wantName)
		}
		if _, next, err := ReadName(wire, raw.RDOff); err != nil || next != raw.RDOff+raw.RDLen {
			return diff("rdata-length:"+tn, "RDLENGTH %d does not match the encoded name (ends at +%d)", raw.RDLen, next-raw.RDOff)
		}
		return nil
	}
	switch d := want.Data.(type) {
	case A:
		r, err := p.AResource()
		if err != nil {
			return diff("rdata:"+tn, "dnsmessage: %v", err)
		}
		if r.A != d || raw.RDLen != 4 {
			return diff("rdata:"+tn, "address %v (rdlength %d), want %v", r.A, raw.RDLen, d)
		}
	case AAAA:
		r, err := p.AAAAResource()
		if err != nil {
			return diff("rdata:"+tn, "dnsmessage: %v", err)
		}
		if r.AAAA != d || raw.RDLen != 16 {
			return diff("rdata:"+tn, "address %v (rdlength %d), want %v", r.AAAA, raw.RDLen, d)
		}
	case Name:
		var got dnsmessage.Name
		var err error
		switch want.Type {
		case TypeNS:
			var r dnsmessage.NSResource
			r, err = p.NSResource()
			got = r.NS
		case TypeCNAME:
			var r dnsmessage.CNAMEResource
			r, err = p.CNAMEResource()
			got = r.CNAME
		default:
			var r dnsmessage.PTRResource
			r, err = p.PTRResource()
			got = r.PTR
		}
		if err != nil {
			return diff("rdata:"+tn, "dnsmessage: %v", err)
		}
		return nameOnly(got, string(d))
	case MX:
		r, err := p.MXResource()
		if err != nil {
			return diff("rdata:"+tn, "dnsmessage: %v", err)
		}
		if r.Pref != d.Pref || dmNameStr(r.MX) != d.Exchange {
			return diff("rdata:"+tn, "%d %q, want %d %q", r.Pref, dmNameStr(r.MX), d.Pref, d.Exchange)
		}
	case SOA:
		r, err := p.SOAResource()
		if err != nil {
			return diff("rdata:"+tn, "dnsmessage: %v", err)
		}
		got := SOA{dmNameStr(r.NS), dmNameStr(r.MBox), r.Serial, r.Refresh, r.Retry, r.Expire, r.MinTTL}
		if got != d {
			return diff("rdata:"+tn, "%+v, want %+v", got, d)
		}
	case TXT:
		r, err := p.TXTResource()
		if err != nil {
			return diff("rdata:"+tn, "dnsmessage: %v", err)
		}
		if len(r.TXT) != len(d) {
			return diff("rdata:"+tn, "%d strings, want %d", len(r.TXT), len(d))
		}
		for i := range d {
			if r.TXT[i] != d[i] {
				return diff("rdata:"+tn, "string %d differs", i)
			}
		}
	case SRV:
		r, err := p.SRVResource()
		if err != nil {
			return diff("rdata:"+tn, "dnsmessage: %v", err)
		}
		got := SRV{r.Priority, r.Weight, r.Port, dmNameStr(r.Target)}
		if got != d {
			return diff("rdata:"+tn, "%+v, want %+v", got, d)
		}
	case OPT:
		r, err := p.OPTResource()
		if err != nil {
			return diff("rdata:"+tn, "dnsmessage: %v", err)
		}
		if len(r.Options) != len(d) {
			return diff("rdata:"+tn, "%d options, want %d", len(r.Options), len(d))
		}
		for i := range d {
			if r.Options[i].Code != d[i].Code || !bytes.Equal(r.Options[i].Data, d[i].Data) {
				return diff("rdata:"+tn, "option %d is %d:%x, want %d:%x", i, r.Options[i].Code, r.Options[i].Data, d[i].Code, d[i].Data)
			}
		}
	case Svc:
		r, err := p.UnknownResource()
		if err != nil {
			return diff("rdata:"+tn, "dnsmessage: %v", err)
		}
		got, err := DecodeSvc(r.Data, true)
		if err != nil {
			return diff("rdata:"+tn+":malformed", "RFC 9460 decoder: %v; rdata %x", err, r.Data)
		}
		if got.Priority != d.Priority {
			return diff("rdata:"+tn+":priority", "priority %d, want %d", got.Priority, d.Priority)
		}
		if got.Target != d.Target {
			return diff("rdata:"+tn+":target", "target %q, want %q", got.Target, d.Target)
		}
		if len(got.Params) != len(d.Params) {
			return diff("rdata:"+tn+":params", "%d SvcParams %v, want %d %v", len(got.Params), keys(got.Params), len(d.Params), keys(d.Params))
		}
		for i := range d.Params {
			if got.Params[i].Key != d.Params[i].Key {
				return diff("rdata:"+tn+":params", "SvcParamKeys %v, want %v", keys(got.Params), keys(d.Params))
			}
			if !bytes.Equal(got.Params[i].Value, d.Params[i].Value) {
				return diff(fmt.Sprintf("rdata:%s:key%d", tn, d.Params[i].Key), "SvcParam key %d value %x, want %x", d.Params[i].Key, got.Params[i].Value, d.Params[i].Value)
			}
		}
	case Raw:
		r, err := p.UnknownResource()
		if err != nil {
			return diff("rdata:"+tn, "dnsmessage: %v", err)
		}
		if !bytes.Equal(r.Data, d) {
			return diff("rdata:"+tn, "rdata %x, want %x", r.Data, []byte(d))
		}
	default:
		return diff("model", "unsupported model data %T", want.Data)
	}
	return nil
}

func keys(ps []SvcParam) []uint16 {
	out := make([]uint16, len(ps))
	for i, p := range ps {
		out[i] = p.Key
	}
	return out
}
