package dnsx

import (
	"encoding/binary"
	"fmt"
)

// Record type numbers.
const (
	TypeA     = 1
	TypeNS    = 2
	TypeCNAME = 5
	TypeSOA   = 6
	TypePTR   = 12
	TypeMX    = 15
	TypeTXT   = 16
	TypeAAAA  = 28
	TypeSRV   = 33
	TypeOPT   = 41
	TypeSVCB  = 64
	TypeHTTPS = 65
)

// TypeName is used in signatures and fingerprints.
func TypeName(t uint16) string {
	switch t {
	case 1:
		return "A"
	case 2:
		return "NS"
	case 5:
		return "CNAME"
	case 6:
		return "SOA"
	case 12:
		return "PTR"
	case 15:
		return "MX"
	case 16:
		return "TXT"
	case 28:
		return "AAAA"
	case 29:
		return "LOC"
	case 33:
		return "SRV"
	case 37:
		return "CERT"
	case 41:
		return "OPT"
	case 43:
		return "DS"
	case 46:
		return "RRSIG"
	case 47:
		return "NSEC"
	case 48:
		return "DNSKEY"
	case 64:
		return "SVCB"
	case 65:
		return "HTTPS"
	case 256:
		return "URI"
	case 257:
		return "CAA"
	}
	return fmt.Sprintf("TYPE%d", t)
}

// Msg is the harness' model of an RFC 1035 message.
type Msg struct {
	ID                         uint16
	QR, AA, TC, RD, RA, AD, CD bool
	OpCode, RCode              uint8 // 4 bits each
	Question                   []Question
	Answer, Authority, Extra   []RR
}

type Question struct {
	Name        string
	Type, Class uint16
}

// RR is a resource record; Data is one of A, AAAA, Name, MX, SOA, TXT, SRV,
// OPT, Svc, Raw.
type RR struct {
	Name        string
	Type, Class uint16
	TTL         uint32
	Data        any
}

type (
	A    [4]byte
	AAAA [16]byte
	Name string // NS, CNAME, PTR
	MX   struct {
		Pref     uint16
		Exchange string
	}
	SOA struct {
		MName, RName                            string
		Serial, Refresh, Retry, Expire, Minimum uint32
	}
	TXT []string
	SRV struct {
		Priority, Weight, Port uint16
		Target                 string
	}
	Option struct {
		Code uint16
		Data []byte
	}
	OPT []Option
	Raw []byte
)

// Flags is the second header word.
func (m *Msg) Flags() uint16 {
	v := uint16(m.OpCode&0xf)<<11 | uint16(m.RCode&0xf)
	for _, f := range []struct {
		on  bool
		bit uint16
	}{{m.QR, 1 << 15}, {m.AA, 1 << 10}, {m.TC, 1 << 9}, {m.RD, 1 << 8}, {m.RA, 1 << 7}, {m.AD, 1 << 5}, {m.CD, 1 << 4}} {
		if f.on {
			v |= f.bit
		}
	}
	return v
}

// ExtRCode is the 12-bit extended response code of RFC 6891 section 6.1.3:
// the upper 8 bits come from the first OPT record of the additional section.
func (m *Msg) ExtRCode() uint16 {
	rc := uint16(m.RCode & 0xf)
	for _, rr := range m.Extra {
		if rr.Type == TypeOPT {
			return uint16(rr.TTL>>24)<<4 | rc
		}
	}
	return rc
}

// HeaderWire is the 12-byte header.
func (m *Msg) HeaderWire() []byte {
	b := make([]byte, 12)
	binary.BigEndian.PutUint16(b[0:], m.ID)
	binary.BigEndian.PutUint16(b[2:], m.Flags())
	binary.BigEndian.PutUint16(b[4:], uint16(len(m.Question)))
	binary.BigEndian.PutUint16(b[6:], uint16(len(m.Answer)))
	binary.BigEndian.PutUint16(b[8:], uint16(len(m.Authority)))
	binary.BigEndian.PutUint16(b[10:], uint16(len(m.Extra)))
	return b
}

// Wire is the uncompressed question entry.
func (q Question) Wire() []byte {
	b := AppendName(nil, q.Name)
	b = binary.BigEndian.AppendUint16(b, q.Type)
	return binary.BigEndian.AppendUint16(b, q.Class)
}

// RData is the uncompressed RDATA.
func (rr RR) RData() []byte {
	switch d := rr.Data.(type) {
	case A:
		return d[:]
	case AAAA:
		return d[:]
	case Name:
		return AppendName(nil, string(d))
	case MX:
		return AppendName(binary.BigEndian.AppendUint16(nil, d.Pref), d.Exchange)
	case SOA:
		b := AppendName(nil, d.MName)
		b = AppendName(b, d.RName)
		for _, v := range []uint32{d.Serial, d.Refresh, d.Retry, d.Expire, d.Minimum} {
			b = binary.BigEndian.AppendUint32(b, v)
		}
		return b
	case TXT:
		var b []byte
		for _, s := range d {
			b = append(b, byte(len(s)))
			b = append(b, s...)
		}
		return b
	case SRV:
		b := binary.BigEndian.AppendUint16(nil, d.Priority)
		b = binary.BigEndian.AppendUint16(b, d.Weight)
		b = binary.BigEndian.AppendUint16(b, d.Port)
		return AppendName(b, d.Target)
	case OPT:
		var b []byte
		for _, o := range d {
			b = binary.BigEndian.AppendUint16(b, o.Code)
			b = binary.BigEndian.AppendUint16(b, uint16(len(o.Data)))
			b = append(b, o.Data...)
		}
		return b
	case Svc:
		return d.Encode()
	case Raw:
		return d
	}
	panic(fmt.Sprintf("dnsx: unsupported RR data %T", rr.Data))
}

// Wire is the uncompressed resource record.
func (rr RR) Wire() []byte {
	b := AppendName(nil, rr.Name)
	b = binary.BigEndian.AppendUint16(b, rr.Type)
	b = binary.BigEndian.AppendUint16(b, rr.Class)
	b = binary.BigEndian.AppendUint32(b, rr.TTL)
	rd := rr.RData()
	b = binary.BigEndian.AppendUint16(b, uint16(len(rd)))
	return append(b, rd...)
}

// Wire is the uncompressed message.
func (m *Msg) Wire() []byte {
	b := m.HeaderWire()
	for _, q := range m.Question {
		b = append(b, q.Wire()...)
	}
	for _, sec := range [][]RR{m.Answer, m.Authority, m.Extra} {
		for _, rr := range sec {
			b = append(b, rr.Wire()...)
		}
	}
	return b
}

// ---- bounded walker: structure of an encoded message, names decompressed ----

type RawRR struct {
	Name        string
	Type, Class uint16
	TTL         uint32
	RDOff       int // offset of RDATA in the message
	RDLen       int
}

type RawMsg struct {
	ID, Flags uint16
	Counts    [4]uint16
	Question  []Question
	Sections  [3][]RawRR
	End       int // offset after the last record
}

// Walk parses the section structure of msg.
func Walk(msg []byte) (*RawMsg, error) {
	if len(msg) < 12 {
		return nil, ErrMalformed
	}
	w := &RawMsg{ID: binary.BigEndian.Uint16(msg), Flags: binary.BigEndian.Uint16(msg[2:])}
	for i := range w.Counts {
		w.Counts[i] = binary.BigEndian.Uint16(msg[4+2*i:])
	}
	off := 12
	for i := 0; i < int(w.Counts[0]); i++ {
		name, next, err := ReadName(msg, off)
		if err != nil || next+4 > len(msg) {
			return nil, ErrMalformed
		}
		w.Question = append(w.Question, Question{name, binary.BigEndian.Uint16(msg[next:]), binary.BigEndian.Uint16(msg[next+2:])})
		off = next + 4
	}
	for s := 0; s < 3; s++ {
		for i := 0; i < int(w.Counts[1+s]); i++ {
			name, next, err := ReadName(msg, off)
			if err != nil || next+10 > len(msg) {
				return nil, ErrMalformed
			}
			rr := RawRR{Name: name, Type: binary.BigEndian.Uint16(msg[next:]), Class: binary.BigEndian.Uint16(msg[next+2:]),
				TTL: binary.BigEndian.Uint32(msg[next+4:]), RDLen: int(binary.BigEndian.Uint16(msg[next+8:])), RDOff: next + 10}
			if rr.RDOff+rr.RDLen > len(msg) {
				return nil, ErrMalformed
			}
			w.Sections[s] = append(w.Sections[s], rr)
			off = rr.RDOff + rr.RDLen
		}
	}
	w.End = off
	return w, nil
}
