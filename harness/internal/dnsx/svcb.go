package dnsx

import (
	"encoding/binary"
	"fmt"
)

// SvcParamKeys of RFC 9460 section 14.3.2.
const (
	KeyMandatory     = 0
	KeyALPN          = 1
	KeyNoDefaultALPN = 2
	KeyPort          = 3
	KeyIPv4Hint      = 4
	KeyECH           = 5
	KeyIPv6Hint      = 6
)

// SvcParam is one SvcParam in wire form.
type SvcParam struct {
	Key   uint16
	Value []byte
}

// Svc is the RDATA of an SVCB or HTTPS record (RFC 9460 section 2.2):
// SvcPriority, uncompressed TargetName, SvcParams in the given order.
type Svc struct {
	Priority uint16
	Target   string
	Params   []SvcParam
}

// Encode produces the RDATA wire format.
func (s Svc) Encode() []byte {
	b := binary.BigEndian.AppendUint16(nil, s.Priority)
	b = AppendName(b, s.Target)
	for _, p := range s.Params {
		b = binary.BigEndian.AppendUint16(b, p.Key)
		b = binary.BigEndian.AppendUint16(b, uint16(len(p.Value)))
		b = append(b, p.Value...)
	}
	return b
}

// DecodeSvc parses RDATA. With strict set it also enforces what RFC 9460
// section 2.2 demands of a sender: uncompressed target, keys in strictly
// increasing order, well-formed values for the keys 0..6.
func DecodeSvc(rd []byte, strict bool) (Svc, error) {
	var s Svc
	if len(rd) < 3 {
		return s, fmt.Errorf("svcb: short rdata")
	}
	s.Priority = binary.BigEndian.Uint16(rd)
	off := 2
	// uncompressed name inside the RDATA only
	name, next, err := readPlainName(rd, off)
	if err != nil {
		return s, err
	}
	s.Target = name
	off = next
	last := -1
	for off < len(rd) {
		if off+4 > len(rd) {
			return s, fmt.Errorf("svcb: truncated SvcParam header at %d", off)
		}
		k := binary.BigEndian.Uint16(rd[off:])
		l := int(binary.BigEndian.Uint16(rd[off+2:]))
		off += 4
		if off+l > len(rd) {
			return s, fmt.Errorf("svcb: SvcParam %d value of %d bytes exceeds rdata", k, l)
		}
		if strict && int(k) <= last {
			return s, fmt.Errorf("svcb: SvcParamKey %d after %d (must be strictly increasing)", k, last)
		}
		last = int(k)
		v := append([]byte{}, rd[off:off+l]...)
		off += l
		if strict {
			if err := checkValue(k, v); err != nil {
				return s, err
			}
		}
		s.Params = append(s.Params, SvcParam{k, v})
	}
	return s, nil
}

func readPlainName(b []byte, off int) (string, int, error) {
	var out []byte
	wire := 1
	for {
		if off >= len(b) {
			return "", 0, fmt.Errorf("svcb: truncated target name")
		}
		c := int(b[off])
		if c&0xc0 != 0 {
			return "", 0, fmt.Errorf("svcb: target name is compressed or uses a reserved label type (0x%02x)", c)
		}
		off++
		if c == 0 {
			return string(out), off, nil
		}
		if off+c > len(b) {
			return "", 0, fmt.Errorf("svcb: truncated target label")
		}
		wire += 1 + c
		if wire > 255 {
			return "", 0, fmt.Errorf("svcb: target name too long")
		}
		if len(out) > 0 {
			out = append(out, '.')
		}
		out = append(out, b[off:off+c]...)
		off += c
	}
}

func checkValue(k uint16, v []byte) error {
	switch k {
	case KeyMandatory:
		if len(v) == 0 || len(v)%2 != 0 {
			return fmt.Errorf("svcb: mandatory value of %d bytes", len(v))
		}
	case KeyALPN:
		if len(v) == 0 {
			return fmt.Errorf("svcb: empty alpn value")
		}
		for off := 0; off < len(v); {
			l := int(v[off])
			if l == 0 || off+1+l > len(v) {
				return fmt.Errorf("svcb: malformed alpn-id at %d", off)
			}
			off += 1 + l
		}
	case KeyNoDefaultALPN:
		if len(v) != 0 {
			return fmt.Errorf("svcb: no-default-alpn with a %d-byte value", len(v))
		}
	case KeyPort:
		if len(v) != 2 {
			return fmt.Errorf("svcb: port value of %d bytes", len(v))
		}
	case KeyIPv4Hint:
		if len(v) == 0 || len(v)%4 != 0 {
			return fmt.Errorf("svcb: ipv4hint value of %d bytes", len(v))
		}
	case KeyIPv6Hint:
		if len(v) == 0 || len(v)%16 != 0 {
			return fmt.Errorf("svcb: ipv6hint value of %d bytes", len(v))
		}
	}
	return nil
}

// SvcView is the interpretation of the parameters 0..6.
type SvcView struct {
	ALPN          []string
	NoDefaultALPN bool
	HasPort       bool
	Port          uint16
	IPv4Hint      [][]byte
	IPv6Hint      [][]byte
	HasECH        bool
	ECH           []byte
	Mandatory     []uint16
	Other         []SvcParam // keys > 6
}

// View interprets the parameters; values are taken as they come (a lenient
// receiver's reading: every complete unit is extracted).
func (s Svc) View() SvcView {
	var v SvcView
	for _, p := range s.Params {
		switch p.Key {
		case KeyMandatory:
			for i := 0; i+2 <= len(p.Value); i += 2 {
				v.Mandatory = append(v.Mandatory, binary.BigEndian.Uint16(p.Value[i:]))
			}
		case KeyALPN:
			for off := 0; off < len(p.Value); {
				l := int(p.Value[off])
				if off+1+l > len(p.Value) {
					break
				}
				v.ALPN = append(v.ALPN, string(p.Value[off+1:off+1+l]))
				off += 1 + l
			}
		case KeyNoDefaultALPN:
			v.NoDefaultALPN = true
		case KeyPort:
			if len(p.Value) >= 2 {
				v.HasPort = true
				v.Port = binary.BigEndian.Uint16(p.Value)
			}
		case KeyIPv4Hint:
			for i := 0; i+4 <= len(p.Value); i += 4 {
				v.IPv4Hint = append(v.IPv4Hint, p.Value[i:i+4])
			}
		case KeyIPv6Hint:
			for i := 0; i+16 <= len(p.Value); i += 16 {
				v.IPv6Hint = append(v.IPv6Hint, p.Value[i:i+16])
			}
		case KeyECH:
			v.HasECH = true
			v.ECH = p.Value
		default:
			v.Other = append(v.Other, p)
		}
	}
	return v
}

// ---- value encoders ----

func ALPNValue(ids []string) []byte {
	var b []byte
	for _, id := range ids {
		b = append(b, byte(len(id)))
		b = append(b, id...)
	}
	return b
}

func PortValue(p uint16) []byte { return binary.BigEndian.AppendUint16(nil, p) }

func HintValue(ips [][]byte) []byte {
	var b []byte
	for _, ip := range ips {
		b = append(b, ip...)
	}
	return b
}

func MandatoryValue(keys []uint16) []byte {
	var b []byte
	for _, k := range keys {
		b = binary.BigEndian.AppendUint16(b, k)
	}
	return b
}
