// Package hpkex is an independent RFC 9180 base-mode *sender* for
// DHKEM(X25519, HKDF-SHA256) / HKDF-SHA256 / {AES-128-GCM, AES-256-GCM,
// ChaCha20Poly1305}. It is written from the RFC and shares no code with the
// repository under test. SelfCheck validates it against the RFC's published
// vectors.
package hpkex

import (
	"crypto/aes"
	"crypto/cipher"
	"crypto/ecdh"
	"crypto/hkdf"
	"crypto/rand"
	"crypto/sha256"
	_ "embed"
	"encoding/binary"
	"encoding/hex"
	"encoding/json"
	"errors"
	"fmt"
	"strings"

	"golang.org/x/crypto/chacha20poly1305"
)

const (
	KEMX25519 = 0x0020
	KDFSHA256 = 0x0001
	AES128GCM = 0x0001
	AES256GCM = 0x0002
	ChaCha20  = 0x0003
)

func i2osp16(v int) []byte { return []byte{byte(v >> 8), byte(v)} }

func labeledExtract(suiteID, salt []byte, label string, ikm []byte) []byte {
	in := append([]byte("HPKE-v1"), suiteID...)
	in = append(in, label...)
	in = append(in, ikm...)
	prk, err := hkdf.Extract(sha256.New, in, salt)
	if err != nil {
		panic(err)
	}
	return prk
}

func labeledExpand(suiteID, prk []byte, label string, info []byte, l int) []byte {
	in := append(i2osp16(l), []byte("HPKE-v1")...)
	in = append(in, suiteID...)
	in = append(in, label...)
	in = append(in, info...)
	out, err := hkdf.Expand(sha256.New, prk, string(in), l)
	if err != nil {
		panic(err)
	}
	return out
}

// Sender is an HPKE sender context.
type Sender struct {
	Enc       []byte
	aead      cipher.AEAD
	baseNonce []byte
	seq       uint64
	Key       []byte
}

// Setup runs SetupBaseS. ephemeral may be nil (a fresh key is generated).
func Setup(aeadID uint16, pkR []byte, info []byte, ephemeral *ecdh.PrivateKey) (*Sender, error) {
	pub, err := ecdh.X25519().NewPublicKey(pkR)
	if err != nil {
		return nil, err
	}
	skE := ephemeral
	if skE == nil {
		if skE, err = ecdh.X25519().GenerateKey(rand.Reader); err != nil {
			return nil, err
		}
	}
	dh, err := skE.ECDH(pub)
	if err != nil {
		return nil, err
	}
	enc := skE.PublicKey().Bytes()
	kemSuite := append([]byte("KEM"), i2osp16(KEMX25519)...)
	kemContext := append(append([]byte{}, enc...), pkR...)
	eaePRK := labeledExtract(kemSuite, nil, "eae_prk", dh)
	shared := labeledExpand(kemSuite, eaePRK, "shared_secret", kemContext, 32)

	suite := append([]byte("HPKE"), i2osp16(KEMX25519)...)
	suite = append(suite, i2osp16(KDFSHA256)...)
	suite = append(suite, i2osp16(int(aeadID))...)
	pskIDHash := labeledExtract(suite, nil, "psk_id_hash", nil)
	infoHash := labeledExtract(suite, nil, "info_hash", info)
	ksc := append([]byte{0}, pskIDHash...)
	ksc = append(ksc, infoHash...)
	secret := labeledExtract(suite, shared, "secret", nil)
	var nk int
	switch aeadID {
	case AES128GCM:
		nk = 16
	case AES256GCM, ChaCha20:
		nk = 32
	default:
		return nil, errors.New("hpkex: unsupported AEAD")
	}
	key := labeledExpand(suite, secret, "key", ksc, nk)
	baseNonce := labeledExpand(suite, secret, "base_nonce", ksc, 12)
	var a cipher.AEAD
	if aeadID == ChaCha20 {
		a, err = chacha20poly1305.New(key)
	} else {
		var blk cipher.Block
		if blk, err = aes.NewCipher(key); err == nil {
			a, err = cipher.NewGCM(blk)
		}
	}
	if err != nil {
		return nil, err
	}
	return &Sender{Enc: enc, aead: a, baseNonce: baseNonce, Key: key}, nil
}

// Seq returns the next sequence number.
func (s *Sender) Seq() uint64 { return s.seq }

// SetSeq forces the sequence number (to build ill-formed retries).
func (s *Sender) SetSeq(n uint64) { s.seq = n }

// Seal encrypts with the next nonce and advances the sequence number.
func (s *Sender) Seal(aad, pt []byte) []byte {
	nonce := make([]byte, 12)
	binary.BigEndian.PutUint64(nonce[4:], s.seq)
	for i := range nonce {
		nonce[i] ^= s.baseNonce[i]
	}
	s.seq++
	return s.aead.Seal(nil, nonce, pt, aad)
}

// Overhead is the AEAD tag length.
func (s *Sender) Overhead() int { return s.aead.Overhead() }

//go:embed testdata/rfc9180-x25519.json
var vectors []byte

// SelfCheck replays the RFC 9180 vectors for the X25519 suites.
func SelfCheck() error {
	var vs []struct {
		Name        string
		Setup       string
		Encryptions string
	}
	if err := json.Unmarshal(vectors, &vs); err != nil {
		return err
	}
	if len(vs) < 2 {
		return errors.New("hpkex: vectors missing")
	}
	kv := func(s string) map[string]string {
		m := map[string]string{}
		for _, l := range strings.Split(s, "\n") {
			if k, v, ok := strings.Cut(l, ": "); ok {
				m[k] = v
			}
		}
		return m
	}
	unhex := func(s string) []byte { b, _ := hex.DecodeString(s); return b }
	for _, v := range vs {
		su := kv(v.Setup)
		var aeadID int
		fmt.Sscan(su["aead_id"], &aeadID)
		skE, err := ecdh.X25519().NewPrivateKey(unhex(su["skEm"]))
		if err != nil {
			return err
		}
		s, err := Setup(uint16(aeadID), unhex(su["pkRm"]), unhex(su["info"]), skE)
		if err != nil {
			return err
		}
		if hex.EncodeToString(s.Enc) != su["enc"] || hex.EncodeToString(s.Key) != su["key"] || hex.EncodeToString(s.baseNonce) != su["base_nonce"] {
			return fmt.Errorf("hpkex: key schedule mismatch for %s", v.Name)
		}
		for _, blk := range strings.Split(v.Encryptions, "\n\n") {
			e := kv(blk)
			var seq uint64
			fmt.Sscan(e["sequence number"], &seq)
			s.SetSeq(seq)
			if ct := s.Seal(unhex(e["aad"]), unhex(e["pt"])); hex.EncodeToString(ct) != e["ct"] {
				return fmt.Errorf("hpkex: ciphertext mismatch for %s seq %d", v.Name, seq)
			}
		}
	}
	return nil
}
