// C05 — without ECH acceptance the connection is passed through unmodified.
package c05

import (
	"bytes"
	"crypto/tls"
	"fmt"
	"io"
	mrand "math/rand/v2"
	"slices"
	"testing"

	"github.com/c2FmZQ/ech"

	"verif/harness/internal/echgen"
	"verif/harness/internal/echrun"
	"verif/harness/internal/hellogen"
	"verif/harness/internal/hpkex"
	"verif/harness/internal/mon"
	"verif/harness/internal/tap"
	"verif/harness/internal/tlspeer"
	"verif/harness/internal/tlswire"
)

type kase struct {
	class  string
	hello  *tlswire.ClientHello
	record []byte
	keys   []ech.Key
	desc   map[string]any
}

func capture(cfg *tls.Config) []byte {
	tc := tap.New(nil)
	tc.CloseInput(nil)
	tls.Client(tc, cfg).Handshake()
	recs, _ := tlswire.SplitRecords(tc.Written())
	if len(recs) == 0 {
		return nil
	}
	return recs[0].Raw
}

func TestCheck(t *testing.T) {
	r := mon.Start(t, "C05", "exploration")
	defer r.Finish()
	r.SetRule("syntactically valid ClientHellos from an independent byte-level generator (arbitrary extension types/order/contents, GREASE, 60 B..16 KiB, legacy versions 0x0301-0x0303, " +
		"version lists TLS1.0-1.3, session ids 0..32, suite lists 1..200, compression lists 1..3) x ECH state {none, GREASE, inner marker without keys, unknown config id, known id + garbage, " +
		"sealed to another key with the same id, TLS1.2-only hello carrying a valid ECH, valid ECH with no keys, legacy hello without extensions block, hello fragmented across records (larger than a record, or cut at arbitrary points)} x key sets {none, unrelated, same id}, plus real crypto/tls first flights (TLS 1.2 and 1.3); " +
		"each followed by random record streams in both directions with random chunking. distinct = distinct (class, #extensions, size bucket, legacy version, key-set kind) combinations that were passed through")
	r.Assume("tlswire (independent codec) decides syntactic validity and extracts SNI/ALPN; crypto/tls server (GetConfigForClient) is used as the independent TLS stack whenever it parses the forwarded hello",
		"only single-record hellos with one host_name entry and no duplicate extension types are generated")

	ca, err := tlspeer.NewCA()
	if err != nil {
		r.Inconclusive("fixture: %v", err)
		return
	}
	cert := ca.MustLeaf(0, "public.example")
	if err := echgen.SelfCheck(r.Rand("selfcheck", 0), 6, cert); err != nil {
		r.Inconclusive("generator self-check failed: %v", err)
		return
	}
	keyPool := make([]echgen.KeyPair, 8)
	for i := range keyPool {
		keyPool[i] = echgen.NewKey(uint8(40+i), "public.example")
	}

	classes := []string{"plain", "plain", "plain", "grease-ech", "inner-marker-nokeys", "unknown-config-id", "known-id-garbage", "other-key-same-id", "tls12-with-valid-ech", "valid-ech-no-keys", "legacy-no-extensions", "cryptotls-13", "cryptotls-12", "fragmented"}
	n := r.N(5000, 500000)
	r.Parallel("passthrough", n, func(i int, rng *mrand.Rand) {
		class := classes[i%len(classes)]
		k := kase{class: class}
		kp := keyPool[rng.IntN(len(keyPool))]
		keysetKind := "none"
		unrelated := func() []ech.Key {
			var ks []ech.Key
			for j := 0; j < 1+rng.IntN(3); j++ {
				o := keyPool[rng.IntN(len(keyPool))]
				if o.ID != kp.ID {
					ks = append(ks, o.TLSKey())
				}
			}
			return ks
		}
		opts := hellogen.RandomOpts(rng)
		switch class {
		case "plain":
			opts.ECH = hellogen.ECHNone
			k.hello = hellogen.Plain(rng, opts)
			// RFC 6066 leaves room for other name types in the server_name list: a TLS stack skips them
			if si := k.hello.Find(tlswire.ExtSNI); si >= 0 && rng.IntN(6) == 0 && len(k.hello.Exts[si].Data) > 2 {
				list := append([]byte{}, k.hello.Exts[si].Data[2:]...)
				other := append([]byte{byte(1 + rng.IntN(255))}, 0, byte(1+rng.IntN(9)))
				other = append(other, hellogen.Bytes(rng, int(other[2]))...)
				if rng.IntN(2) == 0 {
					list = append(other, list...)
				} else {
					list = append(list, other...)
				}
				k.hello.Exts[si].Data = append([]byte{byte(len(list) >> 8), byte(len(list))}, list...)
				r.Count("plain_with_foreign_name_type", 1)
			}
			if rng.IntN(2) == 0 {
				k.keys, keysetKind = unrelated(), "unrelated"
			}
		case "grease-ech":
			opts.ECH = hellogen.ECHGrease
			opts.Versions = []uint16{0x0304}
			k.hello = hellogen.Plain(rng, opts)
			switch rng.IntN(3) {
			case 1:
				k.keys, keysetKind = unrelated(), "unrelated"
			case 2:
				// GREASE that happens to name an id we hold: must fail to decrypt and fall back
				// ... also with an encapsulated key that is no usable X25519 share (empty, wrong length, all zeros):
				// nothing can be decrypted, so the hello is passed on
				enc := hellogen.Bytes(rng, 32)
				switch rng.IntN(8) {
				case 0:
					enc = nil
				case 1:
					enc = hellogen.Bytes(rng, []int{1, 31, 33, 65}[rng.IntN(4)])
				case 2:
					enc = make([]byte, 32)
				}
				k.hello.Exts[k.hello.Find(tlswire.ExtECH)] = tlswire.ECHOuter(1, []uint16{1, 2, 3}[rng.IntN(3)], kp.ID, enc, hellogen.Bytes(rng, 40+rng.IntN(200)))
				k.keys, keysetKind = []ech.Key{kp.TLSKey()}, "same-id"
				r.Count(fmt.Sprintf("grease_same_id_enc_len_%d", len(enc)), 1)
			}
		case "inner-marker-nokeys":
			opts.ECH = hellogen.ECHInner
			k.hello = hellogen.Plain(rng, opts)
		case "unknown-config-id", "known-id-garbage", "other-key-same-id", "tls12-with-valid-ech", "valid-ech-no-keys":
			o := echgen.DefaultOpts()
			o.InnerName = hellogen.Name(rng)
			o.Compress = rng.IntN(2) == 0
			aead := []uint16{hpkex.AES128GCM, hpkex.AES256GCM, hpkex.ChaCha20}[rng.IntN(3)]
			of := echgen.Gen(rng, kp, aead, o)
			k.hello = of.Outer
			switch class {
			case "unknown-config-id":
				k.keys, keysetKind = unrelated(), "unrelated"
				if len(k.keys) == 0 {
					keysetKind = "none"
				}
			case "known-id-garbage":
				ei := k.hello.Find(tlswire.ExtECH)
				f, _ := tlswire.ParseECHOuter(k.hello.Exts[ei].Data)
				k.hello.Exts[ei] = tlswire.ECHOuter(f.KDF, f.AEAD, f.ConfigID, f.Enc, hellogen.Bytes(rng, len(f.Payload)))
				k.keys, keysetKind = []ech.Key{kp.TLSKey()}, "same-id"
			case "other-key-same-id":
				other := echgen.NewKey(kp.ID, kp.PublicName)
				k.keys, keysetKind = []ech.Key{other.TLSKey()}, "same-id"
			case "tls12-with-valid-ech":
				// the outer hello does not offer TLS 1.3: ECH must not be processed even though it would decrypt.
				// (re-seal so that the AAD matches the modified outer hello)
				outer := k.hello.Clone()
				ei := outer.Find(tlswire.ExtECH)
				outer.Exts = append(outer.Exts[:ei], outer.Exts[ei+1:]...)
				if vi := outer.Find(tlswire.ExtSupportedVersions); vi >= 0 {
					switch rng.IntN(3) {
					case 0:
						outer.Exts[vi] = tlswire.SupportedVersions(0x0303, 0x0302)
					case 1:
						// RFC 8701 reserved values are no protocol versions: {GREASE, TLS 1.2} does not offer TLS 1.3
						g := uint16(rng.IntN(16))<<4 | 0x0a
						outer.Exts[vi] = tlswire.SupportedVersions(g<<8|g, 0x0303)
					default:
						outer.Exts = append(outer.Exts[:vi], outer.Exts[vi+1:]...)
					}
				}
				s, _ := hpkex.Setup(aead, kp.Priv.PublicKey().Bytes(), echgen.Info(kp.Config), nil)
				echgen.SealInto(outer, -1, s, aead, kp.ID, s.Enc, of.Encoded)
				k.hello = outer
				k.keys, keysetKind = []ech.Key{kp.TLSKey()}, "same-id"
			case "valid-ech-no-keys":
				if rng.IntN(2) == 0 {
					k.keys = []ech.Key{} // WithKeys(empty)
				}
			}
		case "legacy-no-extensions":
			opts.NoExtBlock = true
			opts.LegacyVer = []uint16{0x0301, 0x0302, 0x0303}[rng.IntN(3)]
			k.hello = hellogen.Plain(rng, opts)
			if rng.IntN(2) == 0 {
				k.keys, keysetKind = unrelated(), "unrelated"
			}
		case "fragmented":
			// a ClientHello split across several records (RFC 8446 section 5.1): larger than one record, or a small one cut at arbitrary points
			opts.ECH = []hellogen.ECHState{hellogen.ECHNone, hellogen.ECHGrease}[rng.IntN(2)]
			switch rng.IntN(8) {
			case 0, 1, 2:
				opts.TargetSize = 16385 + rng.IntN(45000)
			case 3:
				// the largest handshake messages there are: crypto/tls reads bodies of up to 65536 bytes
				opts.TargetSize = 65536 + 4 - rng.IntN(6)
			default:
				opts.TargetSize = 0
			}
			k.hello = hellogen.Plain(rng, opts)
			msg := k.hello.Message()
			if len(msg) > 65536+4 {
				return
			}
			if len(msg) > 65536-4 {
				r.Count("fragmented_hellos_within_4_bytes_of_the_limit", 1)
			}
			ver := []uint16{0x0301, 0x0303}[rng.IntN(2)]
			for len(msg) > 0 {
				n := min(len(msg), 16384)
				if opts.TargetSize == 0 || rng.IntN(3) == 0 {
					n = min(len(msg), 1+rng.IntN(min(len(msg), 16384)))
				}
				k.record = append(k.record, tlswire.Record(22, ver, msg[:n])...)
				msg = msg[n:]
			}
			if rng.IntN(2) == 0 {
				k.keys, keysetKind = unrelated(), "unrelated"
			}
		case "cryptotls-13", "cryptotls-12":
			cfg := &tls.Config{ServerName: hellogen.Name(rng), InsecureSkipVerify: true}
			if cfg.ServerName[len(cfg.ServerName)-1] == '.' {
				cfg.ServerName += "x"
			}
			if rng.IntN(2) == 0 {
				cfg.NextProtos = []string{"h2", "http/1.1"}
			}
			if class == "cryptotls-12" {
				cfg.MaxVersion = tls.VersionTLS12
			}
			rec := capture(cfg)
			if rec == nil {
				r.Inconclusive("crypto/tls capture failed")
				return
			}
			h, err := tlswire.ParseClientHelloMessage(rec[5:])
			if err != nil {
				r.Inconclusive("independent parser rejects a crypto/tls hello: %v", err)
				return
			}
			k.hello, k.record = h, rec
			if rng.IntN(2) == 0 {
				k.keys, keysetKind = unrelated(), "unrelated"
			}
		}
		if k.record == nil {
			k.record = k.hello.HelloRecord([]uint16{0x0301, 0x0303, 0x0302}[rng.IntN(3)])
		}
		if class != "fragmented" && len(k.record)-5 > 16384 {
			return
		}
		// the handshake message the client sends (its records concatenated)
		var msg []byte
		crecs, crest := tlswire.SplitRecords(k.record)
		for _, cr := range crecs {
			msg = append(msg, cr.Payload...)
		}
		if len(crest) != 0 {
			r.Inconclusive("generator produced a broken record sequence (%s)", class)
			return
		}
		// sanity: the independent parser must accept what we call syntactically valid
		if _, err := tlswire.ParseClientHelloMessage(msg); err != nil {
			r.Inconclusive("generator produced an invalid hello (%s): %v", class, err)
			return
		}
		up := hellogen.Stream(rng, rng.IntN(3000), []int{16384, 16384 + 256, 200}[rng.IntN(3)])
		down := hellogen.Stream(rng, rng.IntN(3000), []int{16384, 16384 + 256, 200}[rng.IntN(3)])
		// Every third case is a HelloRetryRequest flow: the backend answers the passed-through hello with a
		// HelloRetryRequest and the client sends a second ClientHello (the same records again: GREASE, unknown ids and
		// undecryptable payloads stay what they are). Nothing was accepted, so nothing may be interpreted: the backend's
		// bytes are written BEFORE the client's remaining bytes are read, the order in which a proxy sees them.
		hrrFlow := i%3 == 2
		if hrrFlow {
			down = append(tlswire.HRRRecord(k.hello.SessionID, 0x0017), down...)
			up = append(append(tlswire.Record(20, 0x0303, []byte{1}), k.record...), up...)
		}
		k.desc = map[string]any{"class": class, "keyset": keysetKind, "record": mon.Clip(mon.Hex(k.record), 6000), "client_records": len(crecs), "nkeys": len(k.keys), "up_len": len(up), "down_len": len(down)}
		sig := "passthrough:" + class
		r.Guard("passthrough", i, sig, k.desc, func() {
			tc := tap.New(nil)
			tc.Feed(k.record)
			tc.Feed(up)
			tc.CloseInput(nil)
			chunkSeed := rng.Uint64()
			crng := mrand.New(mrand.NewPCG(chunkSeed, 7))
			mode := rng.IntN(3)
			tc.Chunk = func(avail, want int) int {
				switch mode {
				case 0:
					return avail
				case 1:
					return 1 + crng.IntN(7)
				default:
					return 1 + crng.IntN(1500)
				}
			}
			out := echrun.RunTap(tc, k.keys)
			r.Count("cases", 1)
			if out.Err != nil {
				r.Violate("passthrough", i, sig+":aborted:"+out.Class, fmt.Sprintf("a syntactically valid hello that must be passed through (%s) was aborted: %v", class, out.Err), k.desc)
				return
			}
			if out.Accepted {
				r.Violate("passthrough", i, sig+":accepted", "ECH accepted for a hello that cannot be accepted ("+class+")", k.desc)
				return
			}
			// the backend must receive the ClientHello MESSAGE byte for byte; it reads handshake records until the message is complete
			fwd := append([]byte{}, out.First...)
			var got []byte
			ferr := out.FirstErr
			if ferr == nil && len(out.First) >= 5 {
				got = append(got, out.First[5:]...)
			}
			for ferr == nil && len(got) < len(msg) {
				var rec []byte
				if rec, ferr = echrun.ReadRecord(out.Conn); ferr == nil {
					if rec[0] != 22 || len(rec)-5 > 16384 {
						ferr = fmt.Errorf("unexpected record type %d / length %d inside the forwarded hello", rec[0], len(rec)-5)
					}
					got = append(got, rec[5:]...)
					fwd = append(fwd, rec...)
				}
			}
			if ferr != nil || len(out.First) < 5 || out.First[0] != 22 || !bytes.Equal(got, msg) {
				k.desc["forwarded"] = mon.Clip(mon.Hex(fwd), 4000)
				r.Violate("passthrough", i, sig+":hello-modified", fmt.Sprintf("forwarded ClientHello differs from the client's message (len %d vs %d, err=%v)", len(got), len(msg), ferr), k.desc)
				return
			}
			if class != "fragmented" && len(out.First) != len(k.record) {
				r.Violate("passthrough", i, sig+":hello-reframed", fmt.Sprintf("a single-record hello was forwarded with a different record framing (%d vs %d bytes)", len(out.First), len(k.record)), k.desc)
				return
			}
			out.First = fwd
			// accessors vs independent extraction
			wantSNI, _, _ := k.hello.ServerName()
			wantALPN, _, _ := k.hello.ALPNProtos()
			if sni, alpn, reached, _ := echgen.PeerView(out.First, nil, cert); reached {
				r.Count("compared_with_cryptotls", 1)
				if sni != wantSNI || !slices.Equal(alpn, wantALPN) {
					// crypto/tls disagrees with tlswire: trust neither blindly; only flag when Conn disagrees with both
					if out.SNI != sni && out.SNI != wantSNI {
						r.Violate("passthrough", i, "accessor:server-name", fmt.Sprintf("ServerName()=%q, crypto/tls %q, tlswire %q", out.SNI, sni, wantSNI), k.desc)
					}
				} else {
					if out.SNI != sni {
						r.Violate("passthrough", i, "accessor:server-name", fmt.Sprintf("ServerName()=%q but an independent stack extracts %q", out.SNI, sni), k.desc)
					}
					if !slices.Equal(out.ALPN, alpn) {
						r.Violate("passthrough", i, "accessor:alpn", fmt.Sprintf("ALPNProtos()=%q but an independent stack extracts %q", out.ALPN, alpn), k.desc)
					}
				}
			} else {
				if out.SNI != wantSNI {
					r.Violate("passthrough", i, "accessor:server-name", fmt.Sprintf("ServerName()=%q but the hello carries %q", out.SNI, wantSNI), k.desc)
				}
				if !slices.Equal(out.ALPN, wantALPN) {
					r.Violate("passthrough", i, "accessor:alpn", fmt.Sprintf("ALPNProtos()=%q but the hello carries %q", out.ALPN, wantALPN), k.desc)
				}
			}
			// every later byte, both directions
			readUp := func() bool {
				got, rerr := io.ReadAll(readerWithBuf{out.Conn, 1 + rng.IntN(5000)})
				if rerr != nil || !bytes.Equal(got, up) {
					s := sig
					if hrrFlow {
						s += ":after-hello-retry-request"
					}
					r.Violate("passthrough", i, s+":upstream-modified", fmt.Sprintf("client->backend bytes after the hello differ: got %d want %d err=%v (first diff %d)", len(got), len(up), rerr, firstDiff(got, up)), k.desc)
					return false
				}
				return true
			}
			if !hrrFlow && !readUp() {
				return
			}
			for p := 0; p < len(down); {
				q := min(len(down), p+1+rng.IntN(4000))
				nw, werr := out.Conn.Write(down[p:q])
				if werr != nil || nw != q-p {
					r.Violate("passthrough", i, sig+":write-failed", fmt.Sprintf("Write of backend bytes failed: n=%d/%d err=%v", nw, q-p, werr), k.desc)
					return
				}
				p = q
			}
			if hrrFlow {
				if !readUp() {
					return
				}
				r.Count("hello_retry_request_flows_passed_through", 1)
			}
			if w := tc.Written(); !bytes.Equal(w, down) {
				r.Violate("passthrough", i, sig+":downstream-modified", fmt.Sprintf("backend->client bytes differ: got %d want %d (first diff %d)", len(w), len(down), firstDiff(w, down)), k.desc)
				return
			}
			r.Count("passed_through", 1)
			r.Count("class_"+class, 1)
			szb := len(k.record) / 1024
			r.Eval(fmt.Sprintf("%s|%d|%d|%x|%s", class, len(k.hello.Exts), szb, k.hello.LegacyVersion, keysetKind))
		})
		if i < len(classes) && i%3 == 0 {
			r.Sample(k.desc)
		}
	})
	r.Floor("passed_through", int64(n)/2)
	for _, c := range []string{"plain", "grease-ech", "unknown-config-id", "known-id-garbage", "other-key-same-id", "tls12-with-valid-ech", "valid-ech-no-keys", "cryptotls-13", "cryptotls-12", "fragmented", "legacy-no-extensions"} {
		r.Floor("class_"+c, int64(n/len(classes)/2))
	}
	r.Floor("compared_with_cryptotls", int64(n)/10)
	r.Floor("hello_retry_request_flows_passed_through", int64(n)/5)
}

type readerWithBuf struct {
	r io.Reader
	n int
}

func (r readerWithBuf) Read(b []byte) (int, error) {
	if len(b) > r.n {
		b = b[:r.n]
	}
	return r.r.Read(b)
}

func firstDiff(a, b []byte) int {
	for i := 0; i < len(a) && i < len(b); i++ {
		if a[i] != b[i] {
			return i
		}
	}
	return min(len(a), len(b))
}
