// C08 — no peer input can crash, hang or balloon a Conn.
package c08

import (
	"context"
	"errors"
	"fmt"
	mrand "math/rand/v2"
	"os"
	"runtime"
	"testing"

	"github.com/c2FmZQ/ech"

	"verif/harness/internal/echgen"
	"verif/harness/internal/hellogen"
	"verif/harness/internal/hpkex"
	"verif/harness/internal/mon"
	"verif/harness/internal/tap"
	"verif/harness/internal/tlspeer"
	"verif/harness/internal/tlswire"
)

const (
	maxRecord   = 5 + 16384 + 256
	lagBound    = 2 * maxRecord
	allocBudget = 1 << 20 // bytes allocated by one NewConn/Read/Write call
)

var aeads = []uint16{hpkex.AES128GCM, hpkex.AES256GCM, hpkex.ChaCha20}

type input struct {
	class   string
	client  []byte
	pre     []byte // backend bytes written right after NewConn, before any Read (e.g. a HelloRetryRequest)
	backend []byte
	keys    []ech.Key
}

// fragment cuts a handshake message into records at PRNG-chosen points.
func fragment(rng *mrand.Rand, msg []byte, maxFrag int) []byte {
	var out []byte
	for len(msg) > 0 {
		n := 1 + rng.IntN(min(len(msg), maxFrag))
		out = append(out, tlswire.Record(22, 0x0301, msg[:n])...)
		msg = msg[n:]
	}
	return out
}

// mutate applies byte-level damage.
func mutate(rng *mrand.Rand, b []byte) []byte {
	b = append([]byte(nil), b...)
	if len(b) == 0 {
		return b
	}
	for k := 1 + rng.IntN(4); k > 0; k-- {
		switch rng.IntN(8) {
		case 0: // bit flip
			b[rng.IntN(len(b))] ^= 1 << rng.IntN(8)
		case 1: // byte to interesting value
			b[rng.IntN(len(b))] = []byte{0, 1, 0x7f, 0x80, 0xff, 0xfe, 0x0d, 0xfd}[rng.IntN(8)]
		case 2: // truncate
			b = b[:rng.IntN(len(b)+1)]
		case 3: // duplicate a block
			i := rng.IntN(len(b))
			j := i + rng.IntN(min(64, len(b)-i)+1)
			b = append(b[:j:j], append(append([]byte{}, b[i:j]...), b[j:]...)...)
		case 4: // delete a block
			i := rng.IntN(len(b))
			j := i + rng.IntN(min(64, len(b)-i)+1)
			b = append(b[:i:i], b[j:]...)
		case 5: // 16-bit field to 0 / 1 / max
			if len(b) >= 2 {
				i := rng.IntN(len(b) - 1)
				v := []uint16{0, 1, 0xffff, 0x4000, 0x4001, 0x4100, 0x4101}[rng.IntN(7)]
				b[i], b[i+1] = byte(v>>8), byte(v)
			}
		case 6: // insert random bytes
			i := rng.IntN(len(b) + 1)
			b = append(b[:i:i], append(hellogen.Bytes(rng, 1+rng.IntN(16)), b[i:]...)...)
		case 7: // overwrite a run
			i := rng.IntN(len(b))
			for j := i; j < len(b) && j < i+8; j++ {
				b[j] = byte(rng.IntN(256))
			}
		}
		if len(b) == 0 {
			break
		}
	}
	return b
}

// structural damage on a parsed hello, re-serialised with correct outer lengths
// so that the damage reaches the deeper parsers.
func structural(rng *mrand.Rand, h *tlswire.ClientHello) *tlswire.ClientHello {
	h = h.Clone()
	for k := 1 + rng.IntN(3); k > 0; k-- {
		switch rng.IntN(11) {
		case 10: // name a suite that the held config may list but the library does not implement (enc stays a usable share)
			if i := h.Find(tlswire.ExtECH); i >= 0 {
				if f, ok := tlswire.ParseECHOuter(h.Exts[i].Data); ok {
					fs := foreignSuites[rng.IntN(len(foreignSuites))]
					h.Exts[i] = tlswire.ECHOuter(fs[0], fs[1], f.ConfigID, f.Enc, f.Payload)
				}
			}
		case 9: // keep config id and suite of the ECH offer (they match the held key) but make enc / payload degenerate
			if i := h.Find(tlswire.ExtECH); i >= 0 {
				if f, ok := tlswire.ParseECHOuter(h.Exts[i].Data); ok {
					enc := [][]byte{nil, {7}, hellogen.Bytes(rng, 31), hellogen.Bytes(rng, 33), hellogen.Bytes(rng, 65), make([]byte, 32), f.Enc}[rng.IntN(7)]
					payload := [][]byte{f.Payload, nil, {1}, hellogen.Bytes(rng, 15), hellogen.Bytes(rng, 16), hellogen.Bytes(rng, 17)}[rng.IntN(6)]
					h.Exts[i] = tlswire.ECHOuter(f.KDF, f.AEAD, f.ConfigID, enc, payload)
				}
			}
		case 0: // duplicate an existing extension (incl. ECH)
			if len(h.Exts) > 0 {
				e := h.Exts[rng.IntN(len(h.Exts))]
				i := rng.IntN(len(h.Exts) + 1)
				h.Exts = append(h.Exts[:i:i], append([]tlswire.Ext{e}, h.Exts[i:]...)...)
			}
		case 1: // add an ECH extension of either type, possibly several
			for j := 1 + rng.IntN(3); j > 0; j-- {
				var e tlswire.Ext
				switch rng.IntN(4) {
				case 0:
					e = tlswire.ECHInner()
				case 1:
					e = tlswire.ECHOuter(1, aeads[rng.IntN(3)], byte(rng.IntN(4)), hellogen.Bytes(rng, []int{0, 1, 32, 33}[rng.IntN(4)]), hellogen.Bytes(rng, rng.IntN(40)))
				case 2:
					e = tlswire.Ext{Type: tlswire.ExtECH, Data: hellogen.Bytes(rng, rng.IntN(12))}
				default:
					e = tlswire.Ext{Type: tlswire.ExtECH}
				}
				i := rng.IntN(len(h.Exts) + 1)
				h.Exts = append(h.Exts[:i:i], append([]tlswire.Ext{e}, h.Exts[i:]...)...)
			}
		case 2: // empty an extension
			if len(h.Exts) > 0 {
				h.Exts[rng.IntN(len(h.Exts))].Data = nil
			}
		case 3: // truncate an extension's data
			if len(h.Exts) > 0 {
				e := &h.Exts[rng.IntN(len(h.Exts))]
				e.Data = e.Data[:rng.IntN(len(e.Data)+1)]
			}
		case 4: // damage the data of a parsed extension
			for i := range h.Exts {
				switch h.Exts[i].Type {
				case tlswire.ExtSNI, tlswire.ExtALPN, tlswire.ExtSupportedVersions, tlswire.ExtECH, tlswire.ExtOuterExtensions:
					if rng.IntN(2) == 0 {
						h.Exts[i].Data = mutate(rng, h.Exts[i].Data)
					}
				}
			}
		case 5: // ech_outer_extensions in the outer hello
			i := rng.IntN(len(h.Exts) + 1)
			h.Exts = append(h.Exts[:i:i], append([]tlswire.Ext{{Type: tlswire.ExtOuterExtensions, Data: hellogen.Bytes(rng, rng.IntN(9))}}, h.Exts[i:]...)...)
		case 6: // oversized session id / empty suites / empty compression
			switch rng.IntN(3) {
			case 0:
				h.SessionID = hellogen.Bytes(rng, 33+rng.IntN(200))
			case 1:
				h.CipherSuites = nil
			default:
				h.Compression = nil
			}
		case 7: // trailing bytes inside the body
			h.Trailing = hellogen.Bytes(rng, 1+rng.IntN(20))
		case 8: // huge extension
			h.Exts = append(h.Exts, tlswire.Ext{Type: 0x7777, Data: hellogen.Bytes(rng, 8000+rng.IntN(8000))})
		}
	}
	return h
}

func record(typ byte, payload []byte) []byte {
	if len(payload) > 0xffff {
		payload = payload[:0xffff]
	}
	return tlswire.Record(typ, 0x0301, payload)
}

// gen draws one hostile input.
func gen(rng *mrand.Rand, i int, keys []echgen.KeyPair) input {
	k := keys[rng.IntN(len(keys))]
	in := input{}
	withKeys := rng.IntN(4) != 0
	if withKeys {
		in.keys = []ech.Key{k.TLSKey()}
		if rng.IntN(3) == 0 {
			in.keys = append(in.keys, keys[rng.IntN(len(keys))].TLSKey())
		}
	}
	base := func() (*echgen.Offer, *tlswire.ClientHello) {
		o := echgen.DefaultOpts()
		o.MaxExtra = rng.IntN(5)
		o.Compress = rng.IntN(2) == 0
		of := echgen.Gen(rng, k, aeads[rng.IntN(3)], o)
		return of, of.Outer
	}
	switch i % 13 {
	case 10: // fragmented first flights, well-formed and hostile
		in.class = "fragmented-hello"
		of, _ := base()
		msg := of.Outer.Message()
		switch rng.IntN(6) {
		case 0: // legal: cut anywhere
			in.client = fragment(rng, msg, []int{3, 50, 16384}[rng.IntN(3)])
		case 1: // the first record carries 1..3 bytes of the handshake header and the announced length is huge
			l := []int{65537, 100000, 1 << 20, 0xffffff}[rng.IntN(4)]
			hdr := []byte{1, byte(l >> 16), byte(l >> 8), byte(l)}
			k := 1 + rng.IntN(3)
			in.client = tlswire.Record(22, 0x0301, hdr[:k])
			in.client = append(in.client, tlswire.Record(22, 0x0301, hdr[k:])...)
			for len(in.client) < 400000 {
				in.client = append(in.client, tlswire.Record(22, 0x0301, hellogen.Bytes(rng, 16384))...)
			}
		case 2: // huge announced length in a complete header
			l := []int{65537, 1 << 20, 0xffffff}[rng.IntN(3)]
			in.client = tlswire.Record(22, 0x0301, append([]byte{1, byte(l >> 16), byte(l >> 8), byte(l)}, hellogen.Bytes(rng, 100)...))
			for len(in.client) < 300000 {
				in.client = append(in.client, tlswire.Record(22, 0x0301, hellogen.Bytes(rng, 16384))...)
			}
		case 3: // a non-handshake record in the middle of the message
			cut := 1 + rng.IntN(len(msg)-1)
			in.client = tlswire.Record(22, 0x0301, msg[:cut])
			in.client = append(in.client, tlswire.Record(byte([]int{20, 21, 23}[rng.IntN(3)]), 0x0303, hellogen.Bytes(rng, 1+rng.IntN(5)))...)
			in.client = append(in.client, tlswire.Record(22, 0x0301, msg[cut:])...)
		case 4: // empty handshake records between the fragments
			cut := 1 + rng.IntN(len(msg)-1)
			in.client = tlswire.Record(22, 0x0301, msg[:cut])
			for k := rng.IntN(4); k >= 0; k-- {
				in.client = append(in.client, []byte{22, 3, 1, 0, 0}...)
			}
			in.client = append(in.client, tlswire.Record(22, 0x0301, msg[cut:])...)
		default: // damaged message, fragmented
			in.client = fragment(rng, mutate(rng, msg), 300)
		}
	case 11, 12: // accepted offer, HelloRetryRequest, then a hostile second hello
		in.class = "hrr-then-hostile-second-hello"
		in.keys = []ech.Key{k.TLSKey()}
		of, _ := base()
		in.client = of.Record()
		in.pre = tlswire.HRRRecord(of.Outer.SessionID, 23)
		re := of.Retry(rng, echgen.DefaultOpts())
		var second []byte
		switch rng.IntN(7) {
		case 0:
			second = record(22, structural(rng, re.Outer).Message())
		case 1: // a retry whose outer hello does not offer TLS 1.3 any more
			o2 := re.Outer.Clone()
			if vi := o2.Find(tlswire.ExtSupportedVersions); vi >= 0 {
				if rng.IntN(2) == 0 {
					o2.Exts = append(o2.Exts[:vi], o2.Exts[vi+1:]...)
				} else {
					o2.Exts[vi] = tlswire.SupportedVersions(0x0303)
				}
			}
			second = o2.HelloRecord(0x0303)
		case 2:
			second = record(22, mutate(rng, re.Outer.Message()))
		case 3: // plain hello without ECH
			second = hellogen.Plain(rng, hellogen.RandomOpts(rng)).HelloRecord(0x0303)
		case 4: // legal retry, fragmented
			second = fragment(rng, re.Outer.Message(), []int{3, 40, 16384}[rng.IntN(3)])
		case 5: // retry with a huge announced length split over the header
			second = append(tlswire.Record(22, 0x0303, []byte{1, 0xff}), tlswire.Record(22, 0x0303, append([]byte{0xff, 0xff}, hellogen.Bytes(rng, 200)...))...)
			for len(second) < 300000 {
				second = append(second, tlswire.Record(22, 0x0303, hellogen.Bytes(rng, 16384))...)
			}
		default: // authentic retry whose inner is hostile
			si := structural(rng, re.Inner)
			si.SessionID = nil
			o2 := echgen.GenOuterBase(rng, k.PublicName, nil, 0)
			o2.SessionID = append([]byte{}, of.Outer.SessionID...)
			of.Sender.SetSeq(1)
			echgen.SealInto(o2, -1, of.Sender, of.AEAD, k.ID, nil, si.Body())
			second = o2.HelloRecord(0x0303)
		}
		if rng.IntN(3) == 0 {
			in.client = append(in.client, tlswire.Record(20, 0x0303, []byte{1})...)
		}
		in.client = append(in.client, second...)
	case 0: // raw garbage
		in.class = "random-bytes"
		in.client = hellogen.Bytes(rng, rng.IntN(200))
	case 1: // record-level edge cases
		in.class = "record-edge"
		switch rng.IntN(7) {
		case 0:
			in.client = []byte{22, 3, 1, 0, 0} // zero-length handshake record
		case 1:
			in.client = []byte{22, 3, 1, 0, 1, 1} // one-byte record
		case 2:
			in.client = []byte{22, 3, 1, 0, 50} // header only, then EOF
		case 3:
			in.client = append([]byte{22, 3, 1, 0x41, 0x01}, hellogen.Bytes(rng, 300)...) // over the maximum length
		case 4:
			in.client = append([]byte{22, 3, 1, 0xff, 0xff}, hellogen.Bytes(rng, 100)...)
		case 5:
			in.client = hellogen.Bytes(rng, 1+rng.IntN(4)) // partial header
		default:
			in.client = record(byte(rng.IntN(256)), hellogen.Bytes(rng, rng.IntN(64)))
		}
	case 2, 3: // byte-level mutation of a valid ECH offer
		in.class = "mutated-offer"
		of, _ := base()
		rec := of.Record()
		in.client = append(rec[:5:5], mutate(rng, rec[5:])...)
		if rng.IntN(2) == 0 { // keep the record length consistent so the damage reaches the parser
			in.client = record(22, mutate(rng, rec[5:]))
		}
	case 4, 5: // structural damage with consistent framing
		in.class = "structural-offer"
		_, outer := base()
		in.client = record(22, structural(rng, outer).Message())
	case 6: // plain hellos with structural damage
		in.class = "structural-plain"
		in.client = record(22, structural(rng, hellogen.Plain(rng, hellogen.RandomOpts(rng))).Message())
	case 7, 8: // authentic payload whose decrypted inner is hostile
		in.class = "authentic-hostile-inner"
		in.keys = []ech.Key{k.TLSKey()}
		o := echgen.DefaultOpts()
		o.MaxExtra = rng.IntN(4)
		inner := echgen.GenInner(rng, o)
		var encoded []byte
		switch rng.IntN(4) {
		case 0:
			encoded = hellogen.Bytes(rng, rng.IntN(300))
		case 1:
			encoded = mutate(rng, echgen.EncodeInner(inner, 0, 0, rng.IntN(40)))
		case 2:
			si := structural(rng, inner)
			si.SessionID = nil
			encoded = si.Body()
		default:
			// hostile ech_outer_extensions bodies
			si := inner.Clone()
			si.SessionID = nil
			si.Exts = append(si.Exts, tlswire.Ext{Type: tlswire.ExtOuterExtensions, Data: hellogen.Bytes(rng, rng.IntN(12))})
			encoded = si.Body()
		}
		outer := echgen.GenOuterBase(rng, k.PublicName, nil, -1)
		aead := aeads[rng.IntN(3)]
		s, _ := hpkex.Setup(aead, k.Priv.PublicKey().Bytes(), echgen.Info(k.Config), nil)
		echgen.SealInto(outer, -1, s, aead, k.ID, s.Enc, encoded)
		in.client = outer.HelloRecord(0x0301)
	case 9:
		if rng.IntN(2) == 0 {
			// authentic payload built for amplification: many ech_outer_extensions markers (or one marker with many references)
			// that all point at one large outer extension
			in.class = "authentic-amplification"
			in.keys = []ech.Key{k.TLSKey()}
			o := echgen.DefaultOpts()
			o.MaxExtra = 0
			inner := echgen.GenInner(rng, o)
			big := tlswire.Ext{Type: 0x0015, Data: make([]byte, []int{1000, 12000, 40000}[rng.IntN(3)])}
			outer := echgen.GenOuterBase(rng, k.PublicName, []tlswire.Ext{big}, -1)
			si := inner.Clone()
			si.SessionID = nil
			switch rng.IntN(3) {
			case 0: // K markers, one reference each
				for n := []int{2, 60, 2000}[rng.IntN(3)]; n > 0; n-- {
					si.Exts = append(si.Exts, tlswire.OuterExtensions([]uint16{0x0015}))
				}
			case 1: // one marker naming the same extension many times
				refs := make([]uint16, 2+rng.IntN(125))
				for j := range refs {
					refs[j] = 0x0015
				}
				si.Exts = append(si.Exts, tlswire.OuterExtensions(refs))
			default: // markers nested in number and references
				for n := 1 + rng.IntN(30); n > 0; n-- {
					si.Exts = append(si.Exts, tlswire.OuterExtensions([]uint16{0x0015, 0x0015}))
				}
			}
			aead := aeads[rng.IntN(3)]
			s, _ := hpkex.Setup(aead, k.Priv.PublicKey().Bytes(), echgen.Info(k.Config), nil)
			echgen.SealInto(outer, -1, s, aead, k.ID, s.Enc, si.Body())
			msg := outer.Message()
			if len(msg) > 65536 {
				msg = msg[:65536]
			}
			for len(msg) > 0 {
				n := min(len(msg), 16384)
				in.client = append(in.client, tlswire.Record(22, 0x0301, msg[:n])...)
				msg = msg[n:]
			}
			break
		}
		fallthrough
	default: // valid offer (so that the Conn stays in inspection mode) followed by hostile streams
		in.class = "valid-then-hostile-stream"
		in.keys = []ech.Key{k.TLSKey()}
		of, _ := base()
		in.client = of.Record()
	}
	// what follows the first record, both directions
	follow := func() []byte {
		var s []byte
		for j := rng.IntN(5); j > 0; j-- {
			switch rng.IntN(8) {
			case 0:
				s = append(s, []byte{byte(20 + rng.IntN(4)), 3, 3, 0, 0}...) // zero-length record
			case 1:
				s = append(s, record(22, mutate(rng, tlswire.HRRRecord(hellogen.Bytes(rng, 32), 23)[5:]))...)
			case 2:
				s = append(s, tlswire.HRRRecord(hellogen.Bytes(rng, rng.IntN(33)), 23)...)
			case 3:
				s = append(s, record(22, append([]byte{2}, hellogen.Bytes(rng, rng.IntN(80))...))...) // ServerHello look-alike
			case 4:
				s = append(s, record(22, append([]byte{1}, hellogen.Bytes(rng, rng.IntN(80))...))...) // ClientHello look-alike
			case 5:
				s = append(s, []byte{22, 3, 3, 0x41, 0x01}...) // over-long record header
				s = append(s, hellogen.Bytes(rng, 50)...)
			case 6:
				s = append(s, hellogen.Bytes(rng, 1+rng.IntN(4))...) // partial header
			default:
				s = append(s, hellogen.Stream(rng, rng.IntN(600), 300)...)
			}
		}
		return s
	}
	in.client = append(in.client, follow()...)
	in.backend = follow()
	// a third of the key sets: the held config also lists suites this library does not implement (other tools
	// generate such configs); a hello may name any of them
	if len(in.keys) > 0 && rng.IntN(3) == 0 {
		for ki := range in.keys {
			in.keys[ki].Config = withForeignSuites(in.keys[ki].Config)
		}
	}
	return in
}

var foreignSuites = [][2]uint16{{2, 2}, {3, 1}, {1, 0xffff}, {0x7777, 3}, {2, 0xffff}, {0, 0}}

// withForeignSuites re-encodes an ECHConfig with foreignSuites appended to its cipher_suites vector.
func withForeignSuites(cfg []byte) []byte {
	// version(2) length(2) | id(1) kem(2) pk<2> suites<2> maxlen(1) name<1> ext<2>
	if len(cfg) < 9 {
		return cfg
	}
	pkLen := int(cfg[7])<<8 | int(cfg[8])
	so := 9 + pkLen
	if len(cfg) < so+2 {
		return cfg
	}
	sl := int(cfg[so])<<8 | int(cfg[so+1])
	var extra []byte
	for _, fs := range foreignSuites {
		extra = append(extra, byte(fs[0]>>8), byte(fs[0]), byte(fs[1]>>8), byte(fs[1]))
	}
	out := append([]byte{}, cfg[:so]...)
	out = append(out, byte((sl+len(extra))>>8), byte(sl+len(extra)))
	out = append(out, cfg[so+2:so+2+sl]...)
	out = append(out, extra...)
	out = append(out, cfg[so+2+sl:]...)
	body := len(out) - 4
	out[2], out[3] = byte(body>>8), byte(body)
	return out
}

// drive runs one input through NewConn / Read / Write and applies the oracle.
// measure enables per-call allocation accounting (single-threaded callers only).
func drive(r *mon.Run, work string, idx int, rng *mrand.Rand, in input, measure bool) {
	c := map[string]any{"class": in.class, "client": mon.Hex(in.client), "backend": mon.Hex(in.backend), "keys": len(in.keys)}
	r.Current(work, idx, in.client)
	// runtime.ReadMemStats flushes the per-P allocation caches, so TotalAlloc deltas are exact per call
	// (runtime/metrics' /gc/heap/allocs:bytes is only updated at span refills and GC flushes, which
	// attributes many earlier calls' allocations to one later call).
	var ms runtime.MemStats
	allocs := func() uint64 {
		if !measure {
			return 0
		}
		runtime.ReadMemStats(&ms)
		return ms.TotalAlloc
	}
	check := func(call string, before uint64) {
		if !measure {
			return
		}
		if d := allocs() - before; d > allocBudget {
			r.Violate(work, idx, "balloon:alloc:"+call, fmt.Sprintf("%s allocated %d bytes in one call (budget %d)", call, d, allocBudget), c)
		}
	}
	r.Guard(work, idx, "crash:"+in.class, c, func() {
		tc := tap.FromBytes(in.client)
		tc.QuietIO = true // the tap's own event log must not be billed to the call under test
		crng := mrand.New(mrand.NewPCG(rng.Uint64(), 3))
		mode := rng.IntN(3)
		tc.Chunk = func(avail, want int) int {
			if mode == 0 {
				return avail
			}
			return 1 + crng.IntN([]int{1, 7, 2000}[mode])
		}
		var opts []ech.Option
		if in.keys != nil {
			opts = append(opts, ech.WithKeys(in.keys))
		}
		a0 := allocs()
		conn, err := ech.NewConn(context.Background(), tc, opts...)
		check("NewConn", a0)
		r.Count("newconn_calls", 1)
		// NewConn may reassemble a fragmented ClientHello, but only up to the size of a handshake message plus the record being read
		if used := tc.Consumed(); used > 65536+4+2*maxRecord {
			r.Violate(work, idx, "balloon:newconn-consumed", fmt.Sprintf("NewConn consumed %d bytes of client input for one ClientHello", used), c)
			return
		}
		if err != nil {
			r.Count("newconn_errors", 1)
			return
		}
		r.Count("newconn_ok", 1)
		if conn.ECHAccepted() {
			r.Count("newconn_accepted", 1)
		}
		if len(in.pre) > 0 {
			if _, err := conn.Write(in.pre); err != nil {
				r.Count("pre_write_errors", 1)
			} else {
				r.Count("hrr_written_before_second_hello", 1)
			}
		}
		bufSize := []int{1, 32768}[rng.IntN(2)]
		if bufSize == 1 && len(in.client) > 3000 {
			bufSize = 64
		}
		if len(in.client) > 100000 {
			bufSize = 32768
		}
		buf := make([]byte, bufSize)
		delivered, idle := 0, 0
		wpos := 0
		var rerr, werr error
		for step := 0; rerr == nil || (werr == nil && wpos < len(in.backend)); step++ {
			if step > 4*(len(in.client)+len(in.backend))+1000 {
				r.Violate(work, idx, "hang:no-termination", "Read/Write loop did not terminate although the transport is finite", c)
				return
			}
			if rerr == nil {
				a0 := allocs()
				n, err := conn.Read(buf)
				check("Read", a0)
				r.Count("read_calls", 1)
				delivered += n
				rerr = err
				if n == 0 && err == nil {
					if idle++; idle > 64 {
						r.Violate(work, idx, "spin:read-no-progress", "Read returned (0, nil) 64 times in a row without consuming input", c)
						return
					}
				} else {
					idle = 0
				}
				// bytes held inside the Conn = consumed from the transport - delivered (+ growth from a rewritten hello)
				if held := tc.Consumed() - delivered; held > lagBound+65536 {
					r.Violate(work, idx, "balloon:read-buffer", fmt.Sprintf("%d client bytes held inside the Conn after a Read returned", held), c)
					return
				}
			}
			if werr == nil && wpos < len(in.backend) {
				q := min(len(in.backend), wpos+1+rng.IntN(400))
				a0 := allocs()
				n, err := conn.Write(in.backend[wpos:q])
				check("Write", a0)
				r.Count("write_calls", 1)
				if n < 0 || n > q-wpos {
					r.Violate(work, idx, "write:bad-count", fmt.Sprintf("Write returned n=%d for %d bytes", n, q-wpos), c)
					return
				}
				if err != nil {
					werr = err
				} else {
					wpos = q
					if held := wpos - len(tc.Written()); held > lagBound {
						r.Violate(work, idx, "balloon:write-buffer", fmt.Sprintf("%d backend bytes held inside the Conn after a Write returned", held), c)
						return
					}
				}
			}
		}
		if errors.Is(rerr, ech.ErrDecodeError) || errors.Is(rerr, ech.ErrIllegalParameter) {
			r.Count("read_aborts", 1)
		}
		r.Count("streams_completed", 1)
	})
}

func TestCheck(t *testing.T) {
	if os.Getenv("VERIF_C08_PART") == "stall" {
		stallCheck(t)
		return
	}
	r := mon.Start(t, "C08", "exploration")
	defer r.Finish()
	r.SetRule("structure-aware hostile inputs: random bytes, record-level edge cases (zero/one-byte records, header then EOF, over-long lengths), byte-level and structural mutations of valid ECH offers and plain hellos " +
		"(duplicate/empty/oversized extensions incl. several ECH extensions of both types, truncated vectors, trailing bytes), AUTHENTIC payloads whose decrypted inner is hostile (sealed by the independent sender), " +
		"fragmented first flights (legal cuts, header split with a huge announced length, foreign records or empty fragments inside the message), accepted offer + HelloRetryRequest + hostile second hello, authentic payloads built for amplification (thousands of ech_outer_extensions markers on one large outer extension), " +
		"each followed by hostile record streams on the client side and through Write on the backend side; with no keys, one key, two keys. Oracle: recovered panics, progress counters from the tap, buffered-bytes bound (2 records), " +
		"per-call allocation counter (runtime.MemStats.TotalAlloc deltas, single-threaded sub-workload). The stall stage runs NewConn under testing/synctest with the client stalling at every byte offset. " +
		"distinct = distinct (class, outcome of NewConn, accepted, first error class) combinations … plus every distinct input hash")
	r.Assume("'all byte strings' is sampled by generators; the evidence counts how many inputs reached NewConn success / acceptance / inspected streams",
		"allocation deltas are attributed to a call only in the single-threaded sub-workload")
	ca, err := tlspeer.NewCA()
	if err != nil {
		r.Inconclusive("fixture: %v", err)
		return
	}
	if err := echgen.SelfCheck(r.Rand("selfcheck", 0), 6, ca.MustLeaf(0, "public.example")); err != nil {
		r.Inconclusive("generator self-check failed: %v", err)
		return
	}
	keys := make([]echgen.KeyPair, 4)
	for i := range keys {
		keys[i] = echgen.NewKey(uint8(i%2), "public.example") // ids collide on purpose
	}
	n := r.N(60000, 5000000)
	if os.Getenv("VERIF_C08_PART") == "race" {
		n = r.N(20000, 200000)
	}
	r.Parallel("hostile", n, func(i int, rng *mrand.Rand) {
		in := gen(rng, i, keys)
		drive(r, "hostile", i, rng, in, false)
		r.Eval(fmt.Sprintf("%s|%x", in.class, fnv(in.client)^fnv(in.backend)*31))
		if i < 10 && i%3 == 0 {
			r.Sample(map[string]any{"class": in.class, "client": mon.Clip(mon.Hex(in.client), 400), "backend": mon.Clip(mon.Hex(in.backend), 200)})
		}
	})
	// single-threaded, with allocation accounting per call
	na := r.N(1500, 100000)
	prev := runtime.GOMAXPROCS(1) // one P: MemStats reads are cheap and nothing else allocates
	defer runtime.GOMAXPROCS(prev)
	r.ParallelW("alloc", na, 1, func(i int, rng *mrand.Rand) {
		in := gen(rng, i, keys)
		drive(r, "alloc", i, rng, in, true)
		r.Eval(fmt.Sprintf("a|%s|%x", in.class, fnv(in.client)))
	})
	r.Floor("newconn_ok", int64(n/20))
	r.Floor("newconn_accepted", int64(n/50))
	r.Floor("newconn_errors", int64(n/10))
	r.Floor("read_aborts", 10)
	r.Floor("write_calls", int64(n/20))
}

func fnv(b []byte) uint64 {
	h := uint64(14695981039346656037)
	for _, c := range b {
		h ^= uint64(c)
		h *= 1099511628211
	}
	return h
}
