//go:build !go1.25

package c08

import "testing"

func stallCheck(t *testing.T) {
	t.Fatal("the stall stage needs testing/synctest (go1.25+): build it with the go1.26.8 toolchain")
}
