//go:build go1.25

package c08

import (
	"context"
	"fmt"
	mrand "math/rand/v2"
	"testing"
	"testing/synctest"
	"time"

	"github.com/c2FmZQ/ech"

	"verif/harness/internal/echgen"
	"verif/harness/internal/hellogen"
	"verif/harness/internal/hpkex"
	"verif/harness/internal/mon"
	"verif/harness/internal/tap"
	"verif/harness/internal/tlswire"
)

// stallCheck: the client delivers the first o bytes of its hello and then
// stalls, for EVERY o; NewConn must return an error no later than the
// context's deadline. Time is virtual (testing/synctest), so "no later" is an
// exact comparison and a hang is a detected deadlock, not a timeout.
func stallCheck(t *testing.T) {
	r := mon.Start(t, "C08", "exploration")
	defer r.Finish()
	r.SetRule("stall stage: for each of several first flights (valid ECH offer, plain hello, large hello) the transport delivers the first o bytes and then blocks, for every o in 0..len-1; " +
		"the context expires at virtual time d; NewConn must return an error at virtual time <= d, after the transport saw a deadline. distinct = (hello, offset) pairs")
	rng := r.Rand("stall", 0)
	k := echgen.NewKey(7, "public.example")
	var hellos [][]byte
	nh := r.N(3, 12)
	for i := 0; i < nh; i++ {
		switch i % 3 {
		case 0:
			o := echgen.DefaultOpts()
			o.MaxExtra = 1
			hellos = append(hellos, echgen.Gen(rng, k, hpkex.AES128GCM, o).Record())
		case 1:
			po := hellogen.RandomOpts(rng)
			po.TargetSize, po.MaxExts = 0, 3
			hellos = append(hellos, hellogen.Plain(rng, po).HelloRecord(0x0301))
		default:
			po := hellogen.RandomOpts(rng)
			po.TargetSize = 2000
			hellos = append(hellos, hellogen.Plain(rng, po).HelloRecord(0x0301))
		}
	}
	// a ClientHello split across records: the stall may hit a continuation fragment
	{
		o := echgen.DefaultOpts()
		o.MaxExtra = 1
		msg := echgen.Gen(rng, k, hpkex.AES256GCM, o).Outer.Message()
		cut1, cut2 := len(msg)/3, 2*len(msg)/3
		var fr []byte
		for _, part := range [][]byte{msg[:cut1], msg[cut1:cut2], msg[cut2:]} {
			fr = append(fr, tlswire.Record(22, 0x0301, part)...)
		}
		hellos = append(hellos, fr)
		hellos = append(hellos, append(tlswire.Record(22, 0x0301, msg[:2]), tlswire.Record(22, 0x0301, msg[2:])...))
	}
	type job struct{ h, off int }
	var jobs []job
	for hi, h := range hellos {
		for o := 0; o < len(h); o++ {
			jobs = append(jobs, job{hi, o})
		}
	}
	d := 50 * time.Millisecond
	// synctest bubbles are run one after the other on this goroutine
	for ji, j := range jobs {
		if r.Skip("stall") {
			break
		}
		c := map[string]any{"hello": mon.Hex(hellos[j.h]), "offset": j.off, "deadline_ms": 50}
		var elapsed time.Duration
		var err error
		var sawDeadline, returned bool
		deadlock := ""
		ok := t.Run(fmt.Sprintf("stall-%d", ji), func(t *testing.T) {
			// a deadlocked bubble (NewConn blocked for ever) panics on this goroutine: that is a verdict, not a crash
			defer func() {
				if p := recover(); p != nil {
					deadlock = fmt.Sprint(p)
				}
			}()
			synctest.Test(t, func(t *testing.T) {
				tc := tap.New(nil)
				// every other case: a flow-controlled transport whose peer does not read, so that a write (the alert)
				// blocks until a write deadline is set
				tc.BlockWrites = ji%2 == 1
				tc.Feed(hellos[j.h][:j.off])
				ctx, cancel := context.WithTimeout(context.Background(), d)
				defer cancel()
				start := time.Now()
				_, err = ech.NewConn(ctx, tc, ech.WithKeys([]ech.Key{k.TLSKey()}))
				elapsed = time.Since(start)
				returned = true
				for _, e := range tc.Snapshot() {
					if e.Kind == "deadline" || e.Kind == "rdeadline" {
						sawDeadline = true
					}
				}
				synctest.Wait()
			})
		})
		r.Eval(fmt.Sprintf("stall|%d|%d", j.h, j.off))
		r.Count("stall_cases", 1)
		switch {
		case deadlock != "" || !ok || !returned:
			r.Violate("stall", ji, "stall:newconn-did-not-return", "NewConn did not return although its context expired ("+deadlock+")", c)
		case err == nil:
			r.Violate("stall", ji, "stall:no-error", "NewConn returned success on a stalled, incomplete first record", c)
		case elapsed > d:
			r.Violate("stall", ji, "stall:late-return", fmt.Sprintf("NewConn returned at virtual %v, after the %v deadline", elapsed, d), c)
		default:
			// HOW the blocked read was interrupted (a deadline on the transport, or closing it) is the implementation's
			// business: the statement asks for the return, in time, with an error. The mechanism is only counted.
			if sawDeadline {
				r.Count("stall_interrupted_by_a_deadline_on_the_transport", 1)
			} else {
				r.Count("stall_interrupted_without_a_deadline", 1)
			}
			r.Count("stall_ok", 1)
			if elapsed == d {
				r.Count("stall_returned_exactly_at_deadline", 1)
			}
		}
		if ji < 2 {
			r.Sample(c)
		}
	}
	r.SetExhaustive(true)
	r.Floor("stall_ok", int64(len(jobs))*9/10)
	_ = mrand.Rand{}
}
