// C02 — ECH is accepted only for an authentic payload bound to the exact outer hello.
package c02

import (
	"bytes"
	"crypto/ecdh"
	"crypto/rand"
	"crypto/tls"
	"fmt"
	mrand "math/rand/v2"
	"testing"

	"github.com/c2FmZQ/ech"

	"verif/harness/internal/echgen"
	"verif/harness/internal/echrun"
	"verif/harness/internal/hellogen"
	"verif/harness/internal/hpkex"
	"verif/harness/internal/mon"
	"verif/harness/internal/tap"
	"verif/harness/internal/tlspeer"
	"verif/harness/internal/tlswire"
)

var aeads = []uint16{hpkex.AES128GCM, hpkex.AES256GCM, hpkex.ChaCha20}

type base struct {
	name   string
	record []byte
	keys   []ech.Key
	key    echgen.KeyPair
	offer  *echgen.Offer // nil for captured crypto/tls hellos
}

// capture returns the first flight a real crypto/tls client sends.
func capture(cfg *tls.Config) ([]byte, error) {
	tc := tap.New(nil)
	tc.CloseInput(nil)
	c := tls.Client(tc, cfg)
	c.Handshake() // fails with EOF after the hello was written
	w := tc.Written()
	recs, _ := tlswire.SplitRecords(w)
	if len(recs) == 0 || recs[0].Type != 22 {
		return nil, fmt.Errorf("no hello captured (%d bytes)", len(w))
	}
	return recs[0].Raw, nil
}

// mustReject runs one modified input and judges it.
func mustReject(r *mon.Run, work string, i int, rule string, input []byte, keys []ech.Key, c map[string]any) {
	r.Guard(work, i, rule, c, func() {
		out := echrun.Run(input, keys)
		if out.Err == nil && out.Accepted {
			c["input"] = mon.Hex(input)
			r.Violate(work, i, "accepted:"+rule, "ECH was accepted for a modified/unauthentic hello ("+rule+")", c)
			return
		}
		if out.Err != nil {
			r.Count("aborted", 1)
			return
		}
		r.Count("fell_back", 1)
		// transparent fall-back: when the modified hello is still a syntactically valid ClientHello the
		// backend must receive exactly it (record-header version excepted)
		if len(input) < 9 {
			return
		}
		if _, perr := tlswire.ParseClientHelloMessage(input[5:]); perr != nil {
			return
		}
		if out.FirstErr != nil || len(out.First) < 5 || !bytes.Equal(out.First[5:], input[5:]) {
			c["input"] = mon.Hex(input)
			c["forwarded"] = mon.Hex(out.First)
			r.Violate(work, i, "fallback-not-transparent:"+rule, "not accepted, but the forwarded hello is not the (modified) outer hello", c)
		}
	})
}

func TestCheck(t *testing.T) {
	r := mon.Start(t, "C02", "exploration")
	defer r.Finish()
	r.SetRule("base hellos = first flights captured from real crypto/tls clients (HPKE by the standard library) + echgen offers over the 3 AEADs with/without compression; " +
		"precondition: accepted unmodified. Mutations: EVERY single-bit flip of the ClientHello body of each base hello (exhaustive per hello), plus wrong-key/wrong-info/wrong-suite/wrong-config-id substitutions, " +
		"enc and payload truncations/extensions, payload transplants, honest seals under a suite the held config does not list, bytes appended after the extensions or inside the ECH extension. distinct = distinct (base hello, bit position) or (base hello, substitution kind, parameter) pairs executed after the baseline was accepted")
	r.Assume("crypto/tls client as the spec-consistent sealer for captured hellos; independent RFC 9180 sender (RFC vectors) for generated ones",
		"a modified hello that aborts or falls back is fine; only acceptance (or a non-transparent fall-back of a still-valid hello) refutes")

	ca, err := tlspeer.NewCA()
	if err != nil {
		r.Inconclusive("fixture: %v", err)
		return
	}
	if err := echgen.SelfCheck(r.Rand("selfcheck", 0), 12, ca.MustLeaf(0, "public.example")); err != nil {
		r.Inconclusive("generator self-check failed: %v", err)
		return
	}

	var bases []*base
	rng := r.Rand("bases", 0)
	// (a) generated offers
	nGen := r.N(6, 60)
	for i := 0; i < nGen; i++ {
		k := echgen.NewKey(uint8(rng.IntN(256)), "public.example")
		o := echgen.DefaultOpts()
		o.Compress = i%2 == 1
		o.MaxExtra = []int{0, 2, 6}[i%3]
		o.PadLen = []int{0, 17, -1}[i%3]
		if r.Thorough() && i%8 == 7 {
			o.BigKeyShare = true
			o.MaxExtra = 20
		}
		of := echgen.Gen(rng, k, aeads[i%3], o)
		bases = append(bases, &base{name: fmt.Sprintf("gen%d-aead%d", i, aeads[i%3]), record: of.Record(), keys: []ech.Key{k.TLSKey()}, key: k, offer: of})
	}
	// (b) crypto/tls captures
	nCap := r.N(2, 20)
	for i := 0; i < nCap; i++ {
		k := echgen.NewKey(uint8(rng.IntN(256)), "public.example", aeads[i%3])
		cfg := &tls.Config{ServerName: "inner.example", RootCAs: ca.Pool, MinVersion: tls.VersionTLS13,
			EncryptedClientHelloConfigList: echgen.ConfigList(k.Config), NextProtos: []string{"h2", "http/1.1"}}
		if i%2 == 0 {
			cfg.CurvePreferences = []tls.CurveID{tls.X25519} // small hello
		}
		rec, err := capture(cfg)
		if err != nil {
			r.Inconclusive("capture: %v", err)
			return
		}
		bases = append(bases, &base{name: fmt.Sprintf("cryptotls%d-aead%d", i, aeads[i%3]), record: rec, keys: []ech.Key{k.TLSKey()}, key: k})
	}

	// precondition: every base hello is accepted unmodified
	for bi, b := range bases {
		out := echrun.Run(b.record, b.keys)
		if out.Err != nil || !out.Accepted {
			r.Inconclusive("baseline %s not accepted unmodified (err=%v): bit-flip results would be vacuous", b.name, out.Err)
			return
		}
		r.Count("baselines_accepted", 1)
		if bi < 2 {
			r.Sample(map[string]any{"base": b.name, "record_len": len(b.record), "record": mon.Hex(b.record)})
		}
	}

	// -- every bit of every body --
	type job struct{ b, byteOff int }
	var jobs []job
	for bi, b := range bases {
		for off := 9; off < len(b.record); off++ {
			jobs = append(jobs, job{bi, off})
		}
	}
	r.Parallel("bitflip", len(jobs), func(i int, _ *mrand.Rand) {
		j := jobs[i]
		b := bases[j.b]
		for bit := 0; bit < 8; bit++ {
			in := append([]byte(nil), b.record...)
			in[j.byteOff] ^= 1 << bit
			c := map[string]any{"base": b.name, "byte": j.byteOff, "bit": bit, "base_record": mon.Hex(b.record)}
			mustReject(r, "bitflip", i, "bitflip", in, b.keys, c)
			r.Eval(fmt.Sprintf("flip|%d|%d|%d", j.b, j.byteOff, bit))
		}
		r.Count("bits_flipped", 8)
	})
	r.SetExhaustive(true)

	// -- substitutions --
	nSub := r.N(40, 8000)
	r.Parallel("subst", nSub, func(i int, rng *mrand.Rand) {
		b := bases[i%len(bases)]
		h, err := tlswire.ParseClientHelloMessage(b.record[5:])
		if err != nil {
			r.Inconclusive("independent parser rejects base hello %s: %v", b.name, err)
			return
		}
		ei := h.Find(tlswire.ExtECH)
		f, ok := tlswire.ParseECHOuter(h.Exts[ei].Data)
		if !ok {
			r.Inconclusive("base hello %s has no well-formed outer ECH extension", b.name)
			return
		}
		rebuild := func(kdf, aead uint16, id uint8, enc, payload []byte) []byte {
			hh := h.Clone()
			hh.Exts[ei] = tlswire.ECHOuter(kdf, aead, id, enc, payload)
			return hh.HelloRecord(0x0301)
		}
		spec, _ := ech.Config(b.key.Config).Spec()
		try := func(rule string, in []byte, keys []ech.Key, param any) {
			c := map[string]any{"base": b.name, "param": param, "base_record": mon.Hex(b.record)}
			mustReject(r, "subst", i, rule, in, keys, c)
			r.Eval(fmt.Sprintf("subst|%s|%d|%v", rule, i%len(bases), param))
			r.Count("subst_"+rule, 1)
		}
		// another private key under the same config (same id, same public key bytes in the config)
		other, _ := ecdh.X25519().GenerateKey(rand.Reader)
		try("wrong-private-key", b.record, []ech.Key{{Config: b.key.Config, PrivateKey: other.Bytes(), SendAsRetry: true}}, "fresh private key, same config")
		// another key pair under the same id
		k2 := echgen.NewKey(b.key.ID, b.key.PublicName)
		try("other-key-same-id", b.record, []ech.Key{k2.TLSKey()}, "other key pair, same id and name")
		// same private key, config differs in one field => info string differs
		pk := b.key.Priv.PublicKey().Bytes()
		for _, v := range []struct {
			name string
			cfg  []byte
		}{
			{"public-name", echgen.BuildConfig(b.key.ID, pk, b.key.PublicName+"x", spec.MaximumNameLength, b.key.AEADs)},
			{"max-name-length", echgen.BuildConfig(b.key.ID, pk, b.key.PublicName, spec.MaximumNameLength+1, b.key.AEADs)},
			{"suite-list", echgen.BuildConfig(b.key.ID, pk, b.key.PublicName, spec.MaximumNameLength, append([]uint16{f.AEAD}, 0x7777))},
			{"public-key", echgen.BuildConfig(b.key.ID, k2.Priv.PublicKey().Bytes(), b.key.PublicName, spec.MaximumNameLength, b.key.AEADs)},
		} {
			try("wrong-info:"+v.name, b.record, []ech.Key{{Config: v.cfg, PrivateKey: b.key.Priv.Bytes(), SendAsRetry: true}}, v.name)
		}
		// config id in the server's config differs (client's hello names the old id)
		try("server-config-id", b.record, []ech.Key{{Config: echgen.BuildConfig(b.key.ID+1, pk, b.key.PublicName, spec.MaximumNameLength, b.key.AEADs), PrivateKey: b.key.Priv.Bytes()}}, "id+1 on the server")
		// suite id in the extension replaced
		for _, a := range aeads {
			if a != f.AEAD {
				try("wrong-suite", rebuild(f.KDF, a, f.ConfigID, f.Enc, f.Payload), b.keys, a)
			}
		}
		try("wrong-kdf", rebuild(f.KDF+1, f.AEAD, f.ConfigID, f.Enc, f.Payload), b.keys, f.KDF+1)
		// config id in the extension
		for _, id := range []uint8{f.ConfigID + 1, f.ConfigID - 1, uint8(rng.IntN(256)) | 1 ^ f.ConfigID&1} {
			if id != f.ConfigID {
				try("wrong-config-id", rebuild(f.KDF, f.AEAD, id, f.Enc, f.Payload), b.keys, id)
				// ... also when the server does hold a key with the id the hello names (in either order):
				// the payload was still sealed to the other key, whose id the hello does not name
				k3 := echgen.NewKey(id, b.key.PublicName, b.key.AEADs...)
				try("wrong-config-id:id-of-another-held-key", rebuild(f.KDF, f.AEAD, id, f.Enc, f.Payload), append([]ech.Key{k3.TLSKey()}, b.keys...), id)
				try("wrong-config-id:id-of-another-held-key", rebuild(f.KDF, f.AEAD, id, f.Enc, f.Payload), append(append([]ech.Key{}, b.keys...), k3.TLSKey()), id)
			}
		}
		// enc truncated / extended
		cut := rng.IntN(32)
		try("enc-truncated", rebuild(f.KDF, f.AEAD, f.ConfigID, f.Enc[:cut], f.Payload), b.keys, cut)
		try("enc-truncated", rebuild(f.KDF, f.AEAD, f.ConfigID, nil, f.Payload), b.keys, 0)
		try("enc-extended", rebuild(f.KDF, f.AEAD, f.ConfigID, append(append([]byte{}, f.Enc...), byte(rng.IntN(256))), f.Payload), b.keys, 33)
		// payload truncated (sampled lengths incl. 1, tag-1, len-1) / extended
		for _, pl := range []int{1, 15, 16, 17, len(f.Payload) - 1, 1 + rng.IntN(len(f.Payload)-1)} {
			if pl > 0 && pl < len(f.Payload) {
				try("payload-truncated", rebuild(f.KDF, f.AEAD, f.ConfigID, f.Enc, f.Payload[:pl]), b.keys, pl)
			}
		}
		try("payload-extended", rebuild(f.KDF, f.AEAD, f.ConfigID, f.Enc, append(append([]byte{}, f.Payload...), 0)), b.keys, len(f.Payload)+1)
		// bytes appended inside the ClientHello body after the extensions block (handshake and record lengths adjusted):
		// the outer hello is no longer the one the payload was bound to
		{
			hh := h.Clone()
			hh.Trailing = hellogen.Bytes(rng, 1+rng.IntN(24))
			try("trailing-bytes-in-body", hh.HelloRecord(0x0301), b.keys, len(hh.Trailing))
		}
		// bytes appended INSIDE the ECH extension after the payload vector (extension and all enclosing lengths adjusted)
		{
			hh := h.Clone()
			hh.Exts[ei].Data = append(append([]byte{}, hh.Exts[ei].Data...), hellogen.Bytes(rng, 1+rng.IntN(70))...)
			try("trailing-bytes-in-ech-extension", hh.HelloRecord(0x0301), b.keys, len(hh.Exts[ei].Data)-len(h.Exts[ei].Data))
		}
		// a payload authenticated against something OTHER than "the whole outer hello with the payload zeroed":
		// the extension carries t extra bytes after the payload vector and the tag is computed over the hello with the
		// LAST len(payload) bytes of the extension body zeroed (the extra bytes and the payload's tail) - which is what
		// a server gets when it locates the payload by counting back from the end of the extension. Such a hello does
		// not open under the specified associated data, and its extra bytes are not covered by the tag.
		if b.offer != nil {
			of2 := echgen.Gen(rng, b.key, f.AEAD, echgen.DefaultOpts())
			h2 := of2.Outer.Clone()
			e2 := h2.Find(tlswire.ExtECH)
			f2, _ := tlswire.ParseECHOuter(h2.Exts[e2].Data)
			encoded := echgen.EncodeInner(of2.Inner, max(of2.RunStart, 0), of2.RunLen, of2.PadLen)
			t := 1 + rng.IntN(min(40, len(f2.Payload)-17))
			extra := hellogen.Bytes(rng, t)
			snd, err := hpkex.Setup(f.AEAD, b.key.Priv.PublicKey().Bytes(), echgen.Info(b.key.Config), nil)
			if err != nil {
				r.Inconclusive("hpke setup: %v", err)
				return
			}
			body := snd.Seal(nil, encoded) // the ciphertext body does not depend on the associated data, only the tag does
			body = body[:len(body)-snd.Overhead()]
			mk := func(payload []byte) {
				h2.Exts[e2] = tlswire.ECHOuter(f2.KDF, f2.AEAD, f2.ConfigID, snd.Enc, payload)
				h2.Exts[e2].Data = append(h2.Exts[e2].Data, extra...)
			}
			plen := len(body) + snd.Overhead()
			mk(append(append([]byte{}, body...), make([]byte, snd.Overhead())...))
			shifted := h2.Clone()
			d := append([]byte{}, shifted.Exts[e2].Data...)
			for k := len(d) - plen; k < len(d); k++ {
				d[k] = 0
			}
			shifted.Exts[e2].Data = d
			snd.SetSeq(0)
			mk(snd.Seal(shifted.Body(), encoded))
			try("authenticated-against-shifted-aad", h2.HelloRecord(0x0301), b.keys, t)
		}
		// sealed to held key A (A's public key, A's config in the info string, the hello as sent as associated data)
		// but NAMING the config id of another held key B: the key it opens under is not the one the client named
		if b.offer != nil {
			of2 := echgen.Gen(rng, b.key, f.AEAD, echgen.DefaultOpts())
			encoded := echgen.EncodeInner(of2.Inner, max(of2.RunStart, 0), of2.RunLen, of2.PadLen)
			kb := echgen.NewKey(b.key.ID+1+uint8(rng.IntN(254)), b.key.PublicName, b.key.AEADs...)
			for order := 0; order < 2; order++ {
				h2 := of2.Outer.Clone()
				e2 := h2.Find(tlswire.ExtECH)
				h2.Exts = append(h2.Exts[:e2:e2], h2.Exts[e2+1:]...)
				snd, err := hpkex.Setup(f.AEAD, b.key.Priv.PublicKey().Bytes(), echgen.Info(b.key.Config), nil)
				if err != nil {
					r.Inconclusive("hpke setup: %v", err)
					return
				}
				echgen.SealInto(h2, e2, snd, f.AEAD, kb.ID, snd.Enc, encoded)
				ks := []ech.Key{b.key.TLSKey(), kb.TLSKey()}
				if order == 1 {
					ks[0], ks[1] = ks[1], ks[0]
				}
				try("sealed-to-held-key-A-naming-held-key-B", h2.HelloRecord(0x0301), ks, fmt.Sprintf("order%d", order))
			}
		}
		// two held keys share the config id (key roll-over); the hello is sealed to the second one with an info string
		// that is NOT "tls ech" || 0 || its config but "tls ech" || 0 || first config || second config
		if b.offer != nil {
			of2 := echgen.Gen(rng, b.key, f.AEAD, echgen.DefaultOpts())
			encoded := echgen.EncodeInner(of2.Inner, max(of2.RunStart, 0), of2.RunLen, of2.PadLen)
			ka := echgen.NewKey(b.key.ID, b.key.PublicName, b.key.AEADs...)
			h2 := of2.Outer.Clone()
			e2 := h2.Find(tlswire.ExtECH)
			h2.Exts = append(h2.Exts[:e2:e2], h2.Exts[e2+1:]...)
			info := append(append([]byte{}, echgen.Info(ka.Config)...), b.key.Config...)
			snd, err := hpkex.Setup(f.AEAD, b.key.Priv.PublicKey().Bytes(), info, nil)
			if err != nil {
				r.Inconclusive("hpke setup: %v", err)
				return
			}
			echgen.SealInto(h2, e2, snd, f.AEAD, b.key.ID, snd.Enc, encoded)
			try("wrong-info:configs-of-both-same-id-keys", h2.HelloRecord(0x0301), []ech.Key{ka.TLSKey(), b.key.TLSKey()}, "info = prefix || config A || config B, sealed to B")
		}
		// 1..3 stray bytes at the end of the extensions block (its length, the handshake length and the record length say so):
		// the outer hello is not the one the payload was bound to
		{
			hh := h.Clone()
			hh.ExtsTrailing = hellogen.Bytes(rng, 1+rng.IntN(3))
			try("stray-bytes-at-end-of-extensions", hh.HelloRecord(0x0301), b.keys, len(hh.ExtsTrailing))
		}
		// transplant: payload+enc of this hello inside another outer hello for the same key
		if b.offer != nil {
			o := echgen.DefaultOpts()
			of2 := echgen.Gen(rng, b.key, f.AEAD, o)
			h2 := of2.Outer.Clone()
			e2 := h2.Find(tlswire.ExtECH)
			h2.Exts[e2] = tlswire.ECHOuter(f.KDF, f.AEAD, f.ConfigID, f.Enc, f.Payload)
			try("transplant", h2.HelloRecord(0x0301), b.keys, "payload+enc of A inside outer B")
			// and the control: B itself is accepted (keeps the transplant case honest)
			if out := echrun.Run(of2.Record(), b.keys); out.Err != nil || !out.Accepted {
				r.Inconclusive("control offer for transplant not accepted: %v", out.Err)
			}
		}
	})

	// -- honestly sealed under a suite the held key's config does not list --
	nu := r.N(60, 12000)
	r.Parallel("unlisted-suite", nu, func(i int, rng *mrand.Rand) {
		listed := aeads[i%3]
		var lists [][]uint16
		lists = append(lists, []uint16{listed})
		lists = append(lists, []uint16{listed, aeads[(i+1)%3]})
		for li, l := range lists {
			k := echgen.NewKey(uint8(rng.IntN(256)), "public.example", l...)
			for _, a := range aeads {
				isListed := false
				for _, x := range l {
					if x == a {
						isListed = true
					}
				}
				o := echgen.DefaultOpts()
				o.MaxExtra = 1
				of := echgen.Gen(rng, k, a, o) // sealed with the right key, id, info and AAD, under AEAD a
				c := map[string]any{"config_suites": l, "sealed_with": a, "record": mon.Hex(of.Record()), "config": mon.Hex(k.Config)}
				if isListed {
					if out := echrun.Run(of.Record(), []ech.Key{k.TLSKey()}); out.Err != nil || !out.Accepted {
						r.Inconclusive("control: offer under a listed suite not accepted (%v)", out.Err)
					}
					continue
				}
				mustReject(r, "unlisted-suite", i, "suite-not-in-config", of.Record(), []ech.Key{k.TLSKey()}, c)
				r.Eval(fmt.Sprintf("unlisted|%d|%d|%d", li, listed, a))
				r.Count("subst_suite-not-in-config", 1)
			}
		}
	})
	r.Floor("subst_suite-not-in-config", int64(nu))

	// -- every payload length (exhaustive) for the first generated base --
	{
		b := bases[0]
		h, _ := tlswire.ParseClientHelloMessage(b.record[5:])
		ei := h.Find(tlswire.ExtECH)
		f, _ := tlswire.ParseECHOuter(h.Exts[ei].Data)
		r.Parallel("payloadcut", len(f.Payload), func(i int, _ *mrand.Rand) {
			hh := h.Clone()
			hh.Exts[ei] = tlswire.ECHOuter(f.KDF, f.AEAD, f.ConfigID, f.Enc, f.Payload[:i])
			c := map[string]any{"base": b.name, "payload_len": i}
			mustReject(r, "payloadcut", i, "payload-truncated", hh.HelloRecord(0x0301), b.keys, c)
			r.Eval(fmt.Sprintf("pcut|%d", i))
		})
	}

	r.Floor("baselines_accepted", int64(len(bases)))
	r.Floor("bits_flipped", 8*3000)
	r.Floor("subst_transplant", 1)
	r.Floor("subst_wrong-suite", 2)
}
