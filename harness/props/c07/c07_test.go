// C07 — Conn is an order-preserving, lossless byte pipe for every fragmentation and cut.
package c07

import (
	"bytes"
	"context"
	"errors"
	"fmt"
	"io"
	mrand "math/rand/v2"
	"sync"
	"testing"

	"github.com/c2FmZQ/ech"

	"verif/harness/internal/echgen"
	"verif/harness/internal/echrun"
	"verif/harness/internal/hellogen"
	"verif/harness/internal/hpkex"
	"verif/harness/internal/mon"
	"verif/harness/internal/tap"
	"verif/harness/internal/tlspeer"
	"verif/harness/internal/tlswire"
)

const maxLag = 5 + 16384 + 256

// flow is one scripted connection.
type flow struct {
	kind        string // "ech", "ech-retry", "plain"
	keys        []ech.Key
	first       []byte
	firstImage  []byte // what the backend must read for the first record (bytes 1-2 of the header are free)
	pre         []byte // client records between first hello and the retried hello
	hrr         []byte
	second      []byte
	secondImage []byte
	up          []byte // rest of the client's bytes
	down        []byte // backend bytes after the (optional) HRR
}

func (f *flow) client() []byte {
	return bytes.Join([][]byte{f.first, f.pre, f.second, f.up}, nil)
}
func (f *flow) backend() []byte { return append(append([]byte{}, f.hrr...), f.down...) }

// expectedUp is what the backend must read when the client's stream is cut at
// offset cut (len(client) = no cut). lo is the mandatory prefix, hi the
// longest allowed delivery (they differ only for a cut inside a retried hello).
func (f *flow) expectedUp(cut int) (lo, hi []byte) {
	c := f.client()
	if cut > len(c) {
		cut = len(c)
	}
	o1 := len(f.first)
	o2 := o1 + len(f.pre)
	o3 := o2 + len(f.second)
	if cut < o1 {
		return nil, nil
	}
	out := append([]byte{}, f.firstImage...)
	if cut <= o2 || len(f.second) == 0 {
		out = append(out, c[o1:cut]...)
		return out, out
	}
	out = append(out, f.pre...)
	if cut < o3 {
		return out, append(append([]byte{}, out...), c[o2:cut]...)
	}
	out = append(out, f.secondImage...)
	out = append(out, c[o3:cut]...)
	return out, out
}

func image(msg []byte) []byte { return tlswire.Record(22, 0x0303, msg) }

// stream draws records whose lengths come from lens (cycled) with the given content types.
// opaque: the direction is not inspected at all (no ECH was accepted), so handshake records
// may begin with any message type, including bytes that look like a ClientHello or ServerHello.
func stream(rng *mrand.Rand, lens []int, protectedOnly, opaque bool) []byte {
	var out []byte
	for _, l := range lens {
		typ := byte(23)
		if !protectedOnly && l >= 1 && l <= 16384 && rng.IntN(3) == 0 {
			typ = []byte{20, 21, 22}[rng.IntN(3)]
		}
		p := hellogen.Bytes(rng, l)
		if typ == 22 && l > 0 {
			p[0] = 11 // a handshake message that is neither ClientHello nor ServerHello
			if opaque {
				p[0] = []byte{1, 2, 2, 11, 0xff, p[0]}[rng.IntN(6)]
			}
		}
		out = append(out, tlswire.Record(typ, 0x0303, p)...)
	}
	return out
}

// splitHandshake re-frames the handshake message of a one-record flight as 2..3 handshake records.
func splitHandshake(rng *mrand.Rand, rec []byte) []byte {
	msg := rec[5:]
	a := 1 + rng.IntN(len(msg)-1)
	out := tlswire.Record(22, 0x0303, msg[:a])
	if b := a + rng.IntN(len(msg)-a); b > a {
		out = append(out, tlswire.Record(22, 0x0303, msg[a:b])...)
		a = b
	}
	return append(out, tlswire.Record(22, 0x0303, msg[a:])...)
}

func genFlow(rng *mrand.Rand, kind string, keys []echgen.KeyPair, upLens, downLens []int) *flow {
	f := &flow{kind: kind}
	k := keys[rng.IntN(len(keys))]
	switch kind {
	case "plain":
		o := hellogen.RandomOpts(rng)
		o.ECH = hellogen.ECHNone
		o.TargetSize = 0
		h := hellogen.Plain(rng, o)
		f.first = h.HelloRecord(0x0301)
		f.firstImage = f.first
		if rng.IntN(2) == 0 {
			f.keys = []ech.Key{k.TLSKey()}
		}
	default:
		aead := []uint16{hpkex.AES128GCM, hpkex.AES256GCM, hpkex.ChaCha20}[rng.IntN(3)]
		o := echgen.DefaultOpts()
		o.MaxExtra = 3
		o.Compress = rng.IntN(2) == 0
		of := echgen.Gen(rng, k, aead, o)
		f.first, f.firstImage = of.Record(), image(of.Inner.Message())
		f.keys = []ech.Key{k.TLSKey()}
		if kind == "ech-retry" {
			f.hrr = tlswire.HRRRecord(of.Outer.SessionID, 0x0017)
			if rng.IntN(3) == 0 {
				f.hrr = splitHandshake(rng, f.hrr) // a HelloRetryRequest may span several records
			}
			if rng.IntN(2) == 0 {
				f.pre = tlswire.Record(20, 0x0303, []byte{1})
			}
			re := of.Retry(rng, echgen.DefaultOpts())
			f.second, f.secondImage = re.Record(), image(re.Inner.Message())
		} else if rng.IntN(2) == 0 {
			f.hrr = tlswire.ServerHelloRecord(hellogen.Bytes(rng, 32), of.Outer.SessionID) // ordinary ServerHello in place of the HRR
			switch rng.IntN(4) {
			case 0:
				f.hrr = splitHandshake(rng, f.hrr)
			case 1: // a ServerHello that ends after compression_method (TLS 1.2 backends)
				body := append([]byte{0x03, 0x03}, hellogen.Bytes(rng, 32)...)
				body = append(append(body, byte(len(of.Outer.SessionID))), of.Outer.SessionID...)
				body = append(body, 0xc0, 0x2f, 0x00)
				f.hrr = tlswire.Record(22, 0x0303, append([]byte{2, 0, 0, byte(len(body))}, body...))
			}
		}
	}
	// while the Conn still inspects a direction, the records are the handshake's own: keep the first ones protected or small
	f.up = stream(rng, upLens, false, kind == "plain")
	// backend -> client: whatever follows the backend's first handshake message is opaque to the Conn
	f.down = stream(rng, downLens, false, kind == "plain" || len(f.hrr) > 0)
	if kind == "plain" && rng.IntN(3) == 0 {
		// a TLS 1.2 style ServerHello without an extensions block, as an older backend sends it
		body := append([]byte{0x03, 0x03}, hellogen.Bytes(rng, 32)...)
		sid := hellogen.Bytes(rng, []int{0, 32}[rng.IntN(2)])
		body = append(append(body, byte(len(sid))), sid...)
		body = append(body, 0xc0, 0x2f, 0x00)
		msg := append([]byte{2, 0, 0, byte(len(body))}, body...)
		f.down = append(tlswire.Record(22, 0x0303, msg), f.down...)
	}
	return f
}

// sameUp compares delivered bytes with an expectation, ignoring the record
// version bytes of rewritten hello records.
func sameUp(got, want []byte, f *flow) bool {
	if len(got) != len(want) {
		return false
	}
	g := append([]byte{}, got...)
	fix := func(off int) {
		if off+3 <= len(g) && off+3 <= len(want) {
			g[off+1], g[off+2] = want[off+1], want[off+2]
		}
	}
	fix(0)
	if len(f.second) > 0 {
		fix(len(f.firstImage) + len(f.pre))
	}
	return bytes.Equal(g, want)
}

type script struct {
	readChunk  int // 0 = whole, else max bytes per transport read (1, 2, primes, MSS…); -1 random
	bufSize    int // caller buffer size
	writeSplit int // 0 = whole backend stream in one Write; >0 max bytes per Write; -1 random
	cut        int // -1 none; else client stream offset where the transport fails
	cutErr     error
	cutData    bool // error returned together with the last bytes
	wfail      int  // -1 none; else transport write failure after this many bytes
}

func (s script) String() string {
	return fmt.Sprintf("chunk=%d buf=%d wsplit=%d cut=%d(%v,data=%v) wfail=%d", s.readChunk, s.bufSize, s.writeSplit, s.cut, s.cutErr, s.cutData, s.wfail)
}

// replay runs one flow under one script and judges it.
func replay(r *mon.Run, work string, idx int, rng *mrand.Rand, f *flow, s script, concurrent bool) {
	c := map[string]any{"flow": f.kind, "script": s.String(), "first": mon.Hex(f.first), "client_len": len(f.client()), "backend_len": len(f.backend()), "concurrent": concurrent}
	sig := func(what string) string { return what + ":" + f.kind }
	r.Guard(work, idx, "pipe:"+f.kind, c, func() {
		client, backend := f.client(), f.backend()
		tc := tap.New(nil)
		crng := mrand.New(mrand.NewPCG(rng.Uint64(), 11))
		tc.Chunk = func(avail, want int) int {
			switch {
			case s.readChunk == 0:
				return avail
			case s.readChunk < 0:
				return 1 + crng.IntN(2000)
			default:
				return s.readChunk
			}
		}
		if s.cut >= 0 {
			tc.FailAt, tc.FailErr, tc.FailWithData = s.cut, s.cutErr, s.cutData
		}
		if s.wfail >= 0 {
			tc.WriteFailAfter, tc.WriteErr = s.wfail, tap.ErrInjected
		}
		gate := concurrent && len(f.second) > 0
		if gate {
			tc.Feed(client[:len(f.first)+len(f.pre)]) // the retried hello is sent only after the client saw the HRR
		} else {
			tc.Feed(client)
			tc.CloseInput(nil)
		}
		var opts []ech.Option
		if f.keys != nil {
			opts = append(opts, ech.WithKeys(f.keys))
		}
		conn, err := ech.NewConn(context.Background(), tc, opts...)
		cutAt := len(client)
		if s.cut >= 0 && s.cut < len(client) {
			cutAt = s.cut
		}
		if err != nil {
			if cutAt < len(f.first) {
				r.Count("cut_in_first_record", 1)
				return // tolerated: a cut inside the first record is a NewConn error with nothing delivered
			}
			r.Violate(work, idx, sig("newconn-error"), fmt.Sprintf("NewConn failed on a complete first record: %v", err), c)
			return
		}
		if cutAt < len(f.first) {
			r.Violate(work, idx, sig("newconn-accepted-truncated-hello"), "NewConn succeeded although the first record was cut", c)
			return
		}

		// writer: the backend's bytes in the scripted splits
		var wErr error
		writer := func() {
			defer func() {
				// whatever happens to the writer (error, panic), the client's remaining bytes must arrive
				if gate {
					gate = false
					tc.Feed(client[len(f.first)+len(f.pre):])
					tc.CloseInput(nil)
				}
			}()
			wrng := mrand.New(mrand.NewPCG(rng.Uint64(), 13))
			scratch := make([]byte, 0, 70000)
			for p := 0; p < len(backend); {
				q := len(backend)
				switch {
				case s.writeSplit > 0:
					q = min(q, p+s.writeSplit)
				case s.writeSplit < 0:
					q = min(q, p+1+wrng.IntN(3000))
				}
				// the caller owns its buffer: like io.Copy, reuse one scratch buffer and overwrite it after every Write
				scratch = append(scratch[:0], backend[p:q]...)
				n, err := conn.Write(scratch)
				for k := range scratch {
					scratch[k] = 0xEE
				}
				if err == nil && n != q-p {
					r.Violate(work, idx, sig("write-short-without-error"), fmt.Sprintf("Write returned n=%d for %d bytes with a nil error", n, q-p), c)
				}
				if n < 0 || n > q-p {
					r.Violate(work, idx, sig("write-bad-count"), fmt.Sprintf("Write returned n=%d for %d bytes", n, q-p), c)
				}
				if err != nil {
					wErr = err
					return
				}
				p = q
				if gate && p >= len(f.hrr) {
					gate = false
					tc.Feed(client[len(f.first)+len(f.pre):])
					tc.CloseInput(nil)
				}
			}
		}
		// reader: everything the backend can read
		var got []byte
		var rErr error
		reader := func() {
			buf := make([]byte, s.bufSize)
			idle := 0
			for {
				n, err := conn.Read(buf)
				got = append(got, buf[:n]...)
				if err != nil {
					rErr = err
					return
				}
				if n == 0 {
					if idle++; idle > 100 {
						rErr = errors.New("no progress: Read keeps returning (0, nil)")
						r.Violate(work, idx, sig("read-no-progress"), "Read returned (0, nil) 100 times in a row", c)
						return
					}
				} else {
					idle = 0
				}
			}
		}
		if concurrent {
			var wg sync.WaitGroup
			wg.Add(2)
			var pw, pr bool
			go func() { defer wg.Done(); pw = r.Guard(work, idx, "pipe:"+f.kind, c, writer) }()
			go func() { defer wg.Done(); pr = r.Guard(work, idx, "pipe:"+f.kind, c, reader) }()
			wg.Wait()
			if pw || pr {
				return // the panic is the violation; conservation cannot be judged on a dead half
			}
		} else {
			writer()
			reader()
		}

		// --- backend -> client conservation ---
		w := tc.Written()
		if !bytes.HasPrefix(backend, w) {
			c["written_len"] = len(w)
			r.Violate(work, idx, sig("downstream-not-a-prefix"), fmt.Sprintf("bytes written to the client are not a prefix of the backend's bytes (first difference at %d of %d)", firstDiff(w, backend), len(w)), c)
			return
		}
		if s.wfail < 0 {
			if wErr != nil {
				r.Violate(work, idx, sig("write-refused:"+errClass(wErr)), fmt.Sprintf("Write failed without a transport fault after %d of %d bytes: %v", len(w), len(backend), wErr), c)
				return
			}
			recs, rest := tlswire.SplitRecords(backend)
			_ = recs
			if lag := len(backend) - len(w); lag != len(rest) && !(lag == 0) {
				r.Violate(work, idx, sig("downstream-withheld"), fmt.Sprintf("%d backend bytes withheld although only %d belong to an incomplete record", lag, len(rest)), c)
				return
			} else if lag > maxLag {
				r.Violate(work, idx, sig("downstream-lag"), fmt.Sprintf("%d bytes withheld", lag), c)
			}
		} else if wErr == nil && len(w) < len(backend)-maxLag {
			r.Violate(work, idx, sig("write-error-swallowed"), "transport write failure was not reported", c)
		}

		// --- client -> backend conservation ---
		lo, hi := f.expectedUp(cutAt)
		if rErr == nil {
			r.Violate(work, idx, sig("read-no-error-at-end"), "reader stopped without an error", c)
			return
		}
		if wErr != nil && len(f.second) > 0 && cutAt == len(client) && len(w) < len(f.hrr) {
			// the transport failed before the whole HelloRetryRequest was written (the writer stopped there): the
			// Conn may or may not have seen enough of it to treat the next hello as a retry
			raw := append(append(append(append([]byte{}, f.firstImage...), f.pre...), f.second...), f.up...)
			if sameUp(got, raw, f) {
				r.Count("replays_ok", 1)
				r.Count("retry_not_armed_after_write_failure_inside_the_hrr", 1)
				return
			}
		}
		if !(sameUp(got, lo, f) || sameUp(got, hi, f)) {
			c["got_len"], c["want_len"] = len(got), len(lo)
			what := "upstream-mismatch"
			switch {
			case len(got) < len(lo) && sameUp(got, lo[:len(got)], f):
				what = "upstream-bytes-lost-before-error"
			case len(got) > len(hi) && sameUp(got[:len(hi)], hi, f):
				what = "upstream-extra-bytes"
			}
			r.Violate(work, idx, sig(what), fmt.Sprintf("backend read %d bytes, expected %d (cut at %d of %d, error %v); first difference at %d", len(got), len(lo), cutAt, len(client), rErr, firstDiff(got, lo)), c)
			return
		}
		r.Count("replays_ok", 1)
		if cutAt < len(client) {
			r.Count("cuts_ok", 1)
		}
	})
}

func errClass(err error) string {
	switch {
	case errors.Is(err, ech.ErrDecodeError):
		return "decode_error"
	case errors.Is(err, io.ErrShortWrite):
		return "short_write"
	}
	return "other"
}

func firstDiff(a, b []byte) int {
	for i := 0; i < len(a) && i < len(b); i++ {
		if a[i] != b[i] {
			return i
		}
	}
	return min(len(a), len(b))
}

func TestCheck(t *testing.T) {
	r := mon.Start(t, "C07", "fault_enumeration")
	defer r.Finish()
	r.SetRule("flows = {accepted ECH, accepted ECH + HelloRetryRequest + retried hello, plain pass-through} followed by record streams in both directions whose lengths cover 0..2^14+256 (protected) and 1..2^14 (plaintext types): " +
		"boundary lengths in every run, all lengths in the thorough tier. Each flow is replayed under transport read chunking {1, 2, 3, 7, 1460, whole, random}, caller buffers {1, 5, 6, 4096, 16384, 65536}, backend write splits {1 byte, 5, random, whole}; " +
		"real crypto/tls flights (accepted ECH with and without HelloRetryRequest, captured live) replayed under the same chunkings with the unfragmented replay as reference; " +
		"fault enumeration: transport EOF / unexpected EOF / error / error-with-data at EVERY byte offset of the client stream for small flows, and transport write failures at every 7th offset. " +
		"Oracle: conservation and order over the tap logs. distinct = distinct (flow kind, chunking, buffer, split, cut offset, error kind) replays executed")
	r.Assume("expected upstream bytes = generator's inner hello(s) + the client's other bytes; record-header version bytes of rewritten hellos are not compared",
		"tolerances: a cut inside the first record is a NewConn error; a cut inside a retried hello may deliver none or the raw bytes of that partial record")

	ca, err := tlspeer.NewCA()
	if err != nil {
		r.Inconclusive("fixture: %v", err)
		return
	}
	if err := echgen.SelfCheck(r.Rand("selfcheck", 0), 6, ca.MustLeaf(0, "public.example")); err != nil {
		r.Inconclusive("generator self-check failed: %v", err)
		return
	}
	keys := make([]echgen.KeyPair, 4)
	for i := range keys {
		keys[i] = echgen.NewKey(uint8(i*53+9), "public.example")
	}
	kinds := []string{"ech", "ech-retry", "plain"}
	chunks := []int{0, 1, 2, 3, 7, 1460, -1}
	bufs := []int{1, 5, 6, 4096, 16384, 65536}
	splits := []int{0, 1, 5, -1}

	// -- fragmentation sweep over streams with boundary record lengths --
	boundary := []int{0, 1, 2, 5, 16383, 16384, 16385, 16384 + 255, 16384 + 256}
	n := r.N(400, 20000)
	r.Parallel("fragment", n, func(i int, rng *mrand.Rand) {
		mk := func() []int {
			var l []int
			for j := 0; j < 1+rng.IntN(5); j++ {
				if rng.IntN(2) == 0 {
					l = append(l, boundary[rng.IntN(len(boundary))])
				} else {
					l = append(l, rng.IntN(600))
				}
			}
			return l
		}
		f := genFlow(rng, kinds[i%3], keys, mk(), mk())
		s := script{readChunk: chunks[(i/3)%len(chunks)], bufSize: bufs[(i/21)%len(bufs)], writeSplit: splits[i%len(splits)], cut: -1, wfail: -1}
		if s.readChunk == 1 && len(f.client()) > 40000 {
			s.readChunk = 7
		}
		if s.writeSplit == 1 && len(f.backend()) > 40000 {
			s.writeSplit = 5
		}
		replay(r, "fragment", i, rng, f, s, false)
		r.Eval(fmt.Sprintf("frag|%s|%d|%d|%d", f.kind, s.readChunk, s.bufSize, s.writeSplit))
		if i < 3 {
			r.Sample(map[string]any{"flow": f.kind, "script": s.String(), "client_len": len(f.client()), "backend_len": len(f.backend())})
		}
	})

	// -- every legal record length at least once (thorough: all; quick: a stride) --
	stride := r.N(97, 1)
	var lens []int
	for l := 0; l <= 16384+256; l += stride {
		lens = append(lens, l)
	}
	per := 24
	nb := (len(lens) + per - 1) / per
	r.Parallel("lengths", nb, func(i int, rng *mrand.Rand) {
		ls := lens[i*per : min(len(lens), (i+1)*per)]
		f := genFlow(rng, kinds[i%3], keys, ls, ls)
		replay(r, "lengths", i, rng, f, script{readChunk: []int{0, 1460, -1}[i%3], bufSize: bufs[i%len(bufs)], writeSplit: []int{0, -1}[i%2], cut: -1, wfail: -1}, false)
		r.Eval(fmt.Sprintf("len|%d", i))
		r.Count("record_lengths_covered", int64(len(ls)))
	})

	// -- fault enumeration: a cut at every byte offset of small flows --
	nf := r.N(6, 60)
	type cj struct{ f, off, kind int }
	var flows []*flow
	var jobs []cj
	frng := r.Rand("cutflows", 0)
	for i := 0; i < nf; i++ {
		f := genFlow(frng, kinds[i%3], keys, []int{0, 1, 40, 3, 200}, []int{0, 2, 60})
		flows = append(flows, f)
		for off := 0; off <= len(f.client()); off++ {
			jobs = append(jobs, cj{i, off, off % 4})
		}
	}
	cutErrs := []error{io.EOF, io.ErrUnexpectedEOF, tap.ErrInjected, tap.ErrInjected}
	r.Parallel("cuts", len(jobs), func(i int, rng *mrand.Rand) {
		j := jobs[i]
		kindsToRun := []int{j.kind}
		if r.Thorough() {
			kindsToRun = []int{0, 1, 2, 3}
		}
		for _, ek := range kindsToRun {
			s := script{readChunk: chunks[(i+ek)%len(chunks)], bufSize: bufs[(i/4)%len(bufs)], writeSplit: 0, cut: j.off, cutErr: cutErrs[ek], cutData: ek == 3, wfail: -1}
			replay(r, "cuts", i, rng, flows[j.f], s, false)
			r.Eval(fmt.Sprintf("cut|%d|%d|%d", j.f, j.off, ek))
		}
	})
	r.SetExhaustive(true)

	// -- transport write failures --
	var wjobs []cj
	for i, f := range flows {
		for off := 0; off < len(f.backend()); off += 7 {
			wjobs = append(wjobs, cj{i, off, 0})
		}
	}
	r.Parallel("wfail", len(wjobs), func(i int, rng *mrand.Rand) {
		j := wjobs[i]
		s := script{readChunk: 0, bufSize: 4096, writeSplit: splits[i%len(splits)], cut: -1, wfail: j.off}
		replay(r, "wfail", i, rng, flows[j.f], s, false)
		r.Eval(fmt.Sprintf("wfail|%d|%d", j.f, j.off))
	})

	// -- separate reader and writer goroutines (as a proxy does); under -race in the thorough tier --
	nc := r.N(200, 5000)
	r.Parallel("concurrent", nc, func(i int, rng *mrand.Rand) {
		f := genFlow(rng, kinds[i%3], keys, []int{0, 1, 700, 16384, 30}, []int{0, 5, 16384 + 256, 90})
		s := script{readChunk: chunks[i%len(chunks)], bufSize: bufs[i%len(bufs)], writeSplit: splits[i%len(splits)], cut: -1, wfail: -1}
		if s.readChunk == 1 || s.readChunk == 2 || s.readChunk == 3 {
			s.readChunk = 7
		}
		if s.writeSplit == 1 {
			s.writeSplit = 5
		}
		replay(r, "concurrent", i, rng, f, s, true)
		r.Eval(fmt.Sprintf("conc|%s|%d|%d|%d", f.kind, s.readChunk, s.bufSize, s.writeSplit))
	})

	// -- real crypto/tls flights (accepted ECH, with and without HelloRetryRequest) under fragmentation and cuts --
	capturedWorkload(r, ca)

	// -- ClientHellos that arrive as several handshake records: every split position --
	helloFragments(r, keys)

	r.Floor("replays_ok", int64(n/2))
	// a cut is judged either way: inside the first record (NewConn must fail) or behind it (conservation). How the
	// offsets divide between the two depends on the size of the drawn hellos, so the floor is on their sum.
	r.Count("cuts_judged", r.Counter("cuts_ok")+r.Counter("cut_in_first_record"))
	r.Floor("cuts_judged", int64(len(jobs))*9/10)
	r.Floor("cuts_ok", int64(len(jobs)/8))
	r.Floor("record_lengths_covered", int64(len(lens)))
}

// deframeHello strips the record framing of the first handshake message in got.
func deframeHello(got []byte) (msg, rest []byte, problem string) {
	off := 0
	for {
		if off+5 > len(got) {
			return msg, nil, "stream ends inside the hello"
		}
		l := int(got[off+3])<<8 | int(got[off+4])
		if got[off] != 22 {
			return msg, got[off:], fmt.Sprintf("record of type %d inside the hello", got[off])
		}
		if l == 0 || l > 16384 {
			return msg, got[off:], fmt.Sprintf("handshake fragment of %d bytes", l)
		}
		if off+5+l > len(got) {
			return msg, nil, "stream ends inside the hello"
		}
		msg = append(msg, got[off+5:off+5+l]...)
		off += 5 + l
		if len(msg) >= 4 {
			total := 4 + (int(msg[1])<<16 | int(msg[2])<<8 | int(msg[3]))
			if len(msg) > total {
				return msg, got[off:], "a record continues beyond the end of the hello"
			}
			if len(msg) == total {
				return msg, got[off:], ""
			}
		}
	}
}

// helloFragments sends hellos cut into 2 and 3 handshake records at every position (TLS
// allows a handshake message to be fragmented anywhere) followed by further client records.
// The backend must read the (rewritten) hello - whatever its framing - and then exactly the rest.
func helloFragments(r *mon.Run, keys []echgen.KeyPair) {
	type job struct {
		kind       string
		msg        []byte // hello message as the client sends it
		want       []byte // hello message the backend must read
		prefix     []byte // records before it (retry: none; they are fed separately)
		first, hrr []byte // retry: accepted first hello and the HelloRetryRequest
		ks         []ech.Key
		cuts       []int
		extra      int // bytes that follow the hello message inside its (last) record
	}
	var jobs []job
	grng := r.Rand("hellofrag-gen", 0)
	nh := r.N(2, 12)
	for h := 0; h < nh; h++ {
		for _, kind := range []string{"plain", "plain-keys", "ech", "ech-retry", "plain-big"} {
			k := keys[grng.IntN(len(keys))]
			j := job{kind: kind}
			switch kind {
			case "plain-big":
				// a hello larger than one record: the client has to fragment it and so has the Conn (1..16384 bytes per record)
				o := hellogen.RandomOpts(grng)
				o.ECH = hellogen.ECHNone
				o.TargetSize = []int{16385, 16384 + 200, 20000, 32768, 40000}[h%5]
				j.msg = hellogen.Plain(grng, o).Message()
				j.want = j.msg
				if h%2 == 0 {
					j.ks = []ech.Key{k.TLSKey()}
				}
				for _, c := range []int{16384, 1, len(j.msg) - 1, 16000, len(j.msg) - 16384} {
					if c > 0 && c < len(j.msg) && len(j.msg)-c <= 16384*3 {
						jj := j
						jj.cuts = []int{c}
						for next := c + 16384; next < len(j.msg); next += 16384 {
							jj.cuts = append(jj.cuts, next)
						}
						if c <= 16384 {
							jobs = append(jobs, jj)
						}
					}
				}
				continue
			case "plain", "plain-keys":
				o := hellogen.RandomOpts(grng)
				o.ECH = hellogen.ECHNone
				o.TargetSize = 0
				j.msg = hellogen.Plain(grng, o).Message()
				j.want = j.msg
				if kind == "plain-keys" {
					j.ks = []ech.Key{k.TLSKey()}
				}
			default:
				o := echgen.DefaultOpts()
				o.MaxExtra = 2
				o.Compress = grng.IntN(2) == 0
				of := echgen.Gen(grng, k, []uint16{hpkex.AES128GCM, hpkex.AES256GCM, hpkex.ChaCha20}[grng.IntN(3)], o)
				j.ks = []ech.Key{k.TLSKey()}
				j.msg, j.want = of.Outer.Message(), of.Inner.Message()
				if kind == "ech-retry" {
					re := of.Retry(grng, echgen.DefaultOpts())
					j.first, j.hrr = of.Record(), tlswire.HRRRecord(of.Outer.SessionID, 0x0017)
					j.msg, j.want = re.Outer.Message(), re.Inner.Message()
				}
			}
			// two records: every position; three records: a last fragment of 1..8 bytes after a PRNG-chosen first cut
			for c := 1; c < len(j.msg); c++ {
				jj := j
				jj.cuts = []int{c}
				jobs = append(jobs, jj)
			}
			for last := 1; last <= 8 && last+2 < len(j.msg); last++ {
				jj := j
				jj.cuts = []int{1 + grng.IntN(len(j.msg)-last-1), len(j.msg) - last}
				jobs = append(jobs, jj)
			}
			// bytes after the end of the hello message in the same record (whole and fragmented): they are client
			// bytes too - refused with the connection or delivered, but not silently dropped
			for _, extra := range []int{1, 3, 7, 40} {
				jj := j
				jj.extra = extra
				if extra == 7 {
					jj.cuts = []int{1 + grng.IntN(len(j.msg)-1)}
				}
				jobs = append(jobs, jj)
			}
		}
	}
	r.Parallel("hellofrag", len(jobs), func(i int, rng *mrand.Rand) {
		j := jobs[i]
		var wire []byte
		prev := 0
		sent := append([]byte{}, j.msg...)
		var extra []byte
		if j.extra > 0 {
			extra = hellogen.Bytes(rng, j.extra)
			extra[0] |= 1 // never all zeros
			sent = append(sent, extra...)
		}
		for _, c := range append(append([]int{}, j.cuts...), len(sent)) {
			wire = append(wire, tlswire.Record(22, 0x0301, sent[prev:c])...)
			prev = c
		}
		tail := append(tlswire.Record(20, 0x0303, []byte{1}), tlswire.Record(23, 0x0303, hellogen.Bytes(rng, 1+rng.IntN(60)))...)
		c := map[string]any{"kind": j.kind, "cuts": j.cuts, "hello_len": len(j.msg), "client_bytes": mon.Hex(append(append([]byte{}, wire...), tail...))}
		r.Guard("hellofrag", i, "hello-fragments", c, func() {
			var conn *ech.Conn
			if j.first != nil {
				flow, out := echrun.StartFlow(j.first, j.ks)
				if out.Err != nil || !out.Accepted {
					r.Inconclusive("first hello of a fragmented-retry case not accepted: %v", out.Err)
					return
				}
				if _, _, err := flow.Backend(j.hrr); err != nil {
					r.Inconclusive("HRR write failed: %v", err)
					return
				}
				flow.Tap.Feed(append(append([]byte{}, wire...), tail...))
				flow.Tap.CloseInput(io.EOF)
				conn = flow.Conn
			} else {
				tc := tap.FromBytes(append(append([]byte{}, wire...), tail...))
				var opts []ech.Option
				if j.ks != nil {
					opts = append(opts, ech.WithKeys(j.ks))
				}
				var err error
				conn, err = ech.NewConn(context.Background(), tc, opts...)
				if err != nil && j.extra > 0 {
					r.Count("bytes_after_hello_refused", 1)
					r.Eval(fmt.Sprintf("hellofrag|%s|extra%d|refused", j.kind, j.extra))
					return
				}
				if err != nil {
					r.Violate("hellofrag", i, "hello-fragments:newconn-error:"+j.kind, fmt.Sprintf("hello sent as %d handshake records (cuts %v of %d bytes) refused: %v", len(j.cuts)+1, j.cuts, len(j.msg), err), c)
					return
				}
			}
			got, err := io.ReadAll(conn)
			if err != nil && j.extra > 0 {
				r.Count("bytes_after_hello_refused", 1)
				r.Eval(fmt.Sprintf("hellofrag|%s|extra%d|refused", j.kind, j.extra))
				return
			}
			if j.extra > 0 {
				// accepted: then nothing the client sent may be missing
				c["got"] = mon.Hex(got)
				if !bytes.Contains(got, extra) {
					r.Violate("hellofrag", i, "hello-fragments:bytes-after-hello-dropped:"+j.kind, fmt.Sprintf("%d bytes that followed the ClientHello message in its record were neither refused nor delivered: the backend read %d bytes", j.extra, len(got)), c)
				} else {
					r.Count("bytes_after_hello_delivered", 1)
				}
				r.Eval(fmt.Sprintf("hellofrag|%s|extra%d|accepted", j.kind, j.extra))
				return
			}
			if err != nil {
				r.Violate("hellofrag", i, "hello-fragments:read-error:"+j.kind, fmt.Sprintf("reading the stream of a hello sent as %d handshake records (cuts %v of %d bytes): %v", len(j.cuts)+1, j.cuts, len(j.msg), err), c)
				return
			}
			msg, rest, problem := deframeHello(got)
			c["got"] = mon.Hex(got)
			switch {
			case problem != "":
				r.Violate("hellofrag", i, "hello-fragments:bad-framing:"+j.kind, problem, c)
			case !bytes.Equal(msg, j.want):
				r.Violate("hellofrag", i, "hello-fragments:hello-differs:"+j.kind, fmt.Sprintf("backend read a %d-byte hello, want %d bytes (first difference at %d)", len(msg), len(j.want), firstDiff(msg, j.want)), c)
			case !bytes.Equal(rest, tail):
				r.Violate("hellofrag", i, "hello-fragments:rest-differs:"+j.kind, fmt.Sprintf("after the hello the backend read %d bytes, the client sent %d (first difference at %d)", len(rest), len(tail), firstDiff(rest, tail)), c)
			default:
				r.Count("fragmented_hellos_ok", 1)
			}
			r.Eval(fmt.Sprintf("hellofrag|%s|%d|%v", j.kind, len(j.msg), j.cuts))
		})
	})
	r.Floor("fragmented_hellos_ok", int64(len(jobs)/2))
}
