package c07

import (
	"bytes"
	"context"
	"crypto/tls"
	"fmt"
	"io"
	mrand "math/rand/v2"
	"net"
	"sync"
	"time"

	"github.com/c2FmZQ/ech"

	"verif/harness/internal/echgen"
	"verif/harness/internal/hellogen"
	"verif/harness/internal/mon"
	"verif/harness/internal/tap"
	"verif/harness/internal/tlspeer"
	"verif/harness/internal/tlswire"
)

// recConn records both directions of the client-facing transport of a live handshake.
type recConn struct {
	net.Conn
	mu      sync.Mutex
	fromCli []byte
	toCli   []byte
}

func (c *recConn) Read(b []byte) (int, error) {
	n, err := c.Conn.Read(b)
	c.mu.Lock()
	c.fromCli = append(c.fromCli, b[:n]...)
	c.mu.Unlock()
	return n, err
}

func (c *recConn) Write(b []byte) (int, error) {
	n, err := c.Conn.Write(b)
	c.mu.Lock()
	c.toCli = append(c.toCli, b[:n]...)
	c.mu.Unlock()
	return n, err
}

// flight is a captured real connection: every byte the client sent and every byte the backend sent through the Conn.
type flight struct {
	name   string
	keys   []ech.Key
	client []byte
	server []byte
	hrr    bool
}

// capture runs a real crypto/tls client through ech.NewConn into a real crypto/tls backend and records the wire.
func capture(ca *tlspeer.CA, rng *mrand.Rand, hrr bool, chain int, up, down int) (*flight, error) {
	k := echgen.NewKey(uint8(rng.IntN(256)), "public.example")
	cli := &tls.Config{ServerName: "inner.example", RootCAs: ca.Pool, MinVersion: tls.VersionTLS13, NextProtos: []string{"h2"},
		EncryptedClientHelloConfigList: echgen.ConfigList(k.Config)}
	srv := &tls.Config{Certificates: []tls.Certificate{ca.MustLeaf(chain, "inner.example")}, MinVersion: tls.VersionTLS13, NextProtos: []string{"h2"}}
	if hrr {
		cli.CurvePreferences = []tls.CurveID{tls.X25519, tls.CurveP256}
		srv.CurvePreferences = []tls.CurveID{tls.CurveP256}
	}
	a, b := tlspeer.BufPipe()
	defer a.Close()
	defer b.Close()
	dl := time.Now().Add(20 * time.Second)
	a.SetDeadline(dl)
	b.SetDeadline(dl)
	rc := &recConn{Conn: b}
	upData, downData := hellogen.Bytes(rng, up), hellogen.Bytes(rng, down)
	errc := make(chan error, 1)
	go func() {
		conn, err := ech.NewConn(context.Background(), rc, ech.WithKeys([]ech.Key{k.TLSKey()}))
		if err != nil {
			errc <- err
			return
		}
		ts := tls.Server(conn, srv)
		buf := make([]byte, len(upData))
		if _, err := io.ReadFull(ts, buf); err != nil {
			errc <- err
			return
		}
		_, err = ts.Write(downData)
		errc <- err
	}()
	tc := tls.Client(a, cli)
	if _, err := tc.Write(upData); err != nil {
		return nil, fmt.Errorf("client: %w", err)
	}
	got := make([]byte, len(downData))
	if _, err := io.ReadFull(tc, got); err != nil {
		return nil, fmt.Errorf("client read: %w", err)
	}
	if err := <-errc; err != nil {
		return nil, fmt.Errorf("server: %w", err)
	}
	if !tc.ConnectionState().ECHAccepted {
		return nil, fmt.Errorf("ECH not accepted in the capture")
	}
	rc.mu.Lock()
	defer rc.mu.Unlock()
	f := &flight{name: fmt.Sprintf("cryptotls-hrr=%v-chain=%d", hrr, chain), keys: []ech.Key{k.TLSKey()}, client: append([]byte{}, rc.fromCli...), server: append([]byte{}, rc.toCli...), hrr: hrr}
	return f, nil
}

// runFlight replays a captured flight under a script and returns what the backend read and what the client received.
func runFlight(f *flight, s script, rng *mrand.Rand) (up []byte, upErr error, down []byte, newConnErr error, panicked any) {
	defer func() { panicked = recover() }()
	tc := tap.New(nil)
	crng := mrand.New(mrand.NewPCG(rng.Uint64(), 5))
	tc.Chunk = func(avail, want int) int {
		switch {
		case s.readChunk == 0:
			return avail
		case s.readChunk < 0:
			return 1 + crng.IntN(2000)
		default:
			return s.readChunk
		}
	}
	if s.cut >= 0 {
		tc.FailAt, tc.FailErr, tc.FailWithData = s.cut, s.cutErr, s.cutData
	}
	tc.Feed(f.client)
	tc.CloseInput(nil)
	conn, err := ech.NewConn(context.Background(), tc, ech.WithKeys(f.keys))
	if err != nil {
		return nil, nil, nil, err, nil
	}
	wrng := mrand.New(mrand.NewPCG(rng.Uint64(), 6))
	scratch := make([]byte, 0, 70000)
	for p := 0; p < len(f.server); {
		q := len(f.server)
		switch {
		case s.writeSplit > 0:
			q = min(q, p+s.writeSplit)
		case s.writeSplit < 0:
			q = min(q, p+1+wrng.IntN(3000))
		}
		scratch = append(scratch[:0], f.server[p:q]...)
		if _, err := conn.Write(scratch); err != nil {
			break
		}
		for k := range scratch {
			scratch[k] = 0xEE
		}
		p = q
	}
	buf := make([]byte, s.bufSize)
	for {
		n, err := conn.Read(buf)
		up = append(up, buf[:n]...)
		if err != nil {
			upErr = err
			break
		}
	}
	return up, upErr, tc.Written(), nil, nil
}

// capturedWorkload: fragmentation- and cut-invariance of real crypto/tls flights (with and without HelloRetryRequest).
// The reference is the unfragmented replay of the same bytes (whose correctness is C01's business).
func capturedWorkload(r *mon.Run, ca *tlspeer.CA) {
	frng := r.Rand("captured-flights", 0)
	var flights []*flight
	for i := 0; i < r.N(4, 16); i++ {
		f, err := capture(ca, frng, i%2 == 1, []int{0, 17000}[(i/2)%2], 3000, 20000)
		if err != nil {
			r.Inconclusive("capture of a live handshake failed: %v", err)
			return
		}
		flights = append(flights, f)
	}
	type ref struct {
		up       []byte
		cRecs    []tlswire.Rec
		uRecs    []tlswire.Rec
		rewrites int
	}
	refs := make([]*ref, len(flights))
	for i, f := range flights {
		up, _, down, nerr, p := runFlight(f, script{readChunk: 0, bufSize: 65536, writeSplit: 0, cut: -1, wfail: -1}, r.Rand("captured-ref", i))
		if nerr != nil || p != nil || !bytes.Equal(down, f.server) {
			r.Inconclusive("reference replay of %s failed (err=%v panic=%v, %d of %d bytes to the client)", f.name, nerr, p, len(down), len(f.server))
			return
		}
		cr, crest := tlswire.SplitRecords(f.client)
		ur, urest := tlswire.SplitRecords(up)
		if len(crest) != 0 || len(urest) != 0 || len(cr) != len(ur) {
			r.Inconclusive("reference replay of %s: %d client records vs %d delivered records", f.name, len(cr), len(ur))
			return
		}
		rf := &ref{up: up, cRecs: cr, uRecs: ur}
		for k := range cr {
			if !bytes.Equal(cr[k].Raw[3:], ur[k].Raw[3:]) {
				rf.rewrites++
			}
		}
		want := 1
		if f.hrr {
			want = 2
		}
		if rf.rewrites != want {
			r.Inconclusive("reference replay of %s rewrote %d records, expected %d", f.name, rf.rewrites, want)
			return
		}
		refs[i] = rf
		r.Count("captured_flights", 1)
		if f.hrr {
			r.Count("captured_flights_with_hrr", 1)
		}
	}
	chunks := []int{0, 1, 2, 7, 1460, -1}
	bufs := []int{1, 5, 4096, 65536}
	splits := []int{0, 1, 5, -1}
	// fragmentation sweep
	type fj struct{ f, c, b, s int }
	var fjobs []fj
	for fi := range flights {
		for ci := range chunks {
			for bi := range bufs {
				for si := range splits {
					if (chunks[ci] == 1 || chunks[ci] == 2) && bufs[bi] == 1 && !r.Thorough() {
						continue
					}
					fjobs = append(fjobs, fj{fi, ci, bi, si})
				}
			}
		}
	}
	r.Parallel("captured-fragment", len(fjobs), func(i int, rng *mrand.Rand) {
		j := fjobs[i]
		f, rf := flights[j.f], refs[j.f]
		s := script{readChunk: chunks[j.c], bufSize: bufs[j.b], writeSplit: splits[j.s], cut: -1, wfail: -1}
		if s.writeSplit == 1 && len(f.server) > 30000 {
			s.writeSplit = 5
		}
		c := map[string]any{"flight": f.name, "script": s.String(), "client_len": len(f.client), "server_len": len(f.server)}
		up, _, down, nerr, p := runFlight(f, s, rng)
		r.Eval(fmt.Sprintf("capfrag|%d|%d|%d|%d", j.f, s.readChunk, s.bufSize, s.writeSplit))
		switch {
		case p != nil:
			r.Violate("captured-fragment", i, "captured:panic", fmt.Sprintf("panic while replaying a real flight: %v", p), c)
		case nerr != nil:
			r.Violate("captured-fragment", i, "captured:newconn-error", nerr.Error(), c)
		case !bytes.Equal(up, rf.up):
			r.Violate("captured-fragment", i, "captured:upstream-depends-on-fragmentation", fmt.Sprintf("backend read %d bytes, the unfragmented replay gives %d (first difference at %d)", len(up), len(rf.up), firstDiff(up, rf.up)), c)
		case !bytes.Equal(down, f.server):
			r.Violate("captured-fragment", i, "captured:downstream-depends-on-fragmentation", fmt.Sprintf("client received %d bytes, the backend sent %d (first difference at %d)", len(down), len(f.server), firstDiff(down, f.server)), c)
		default:
			r.Count("captured_replays_ok", 1)
		}
	})
	// a cut at every byte offset of the client stream (stride in quick for the long application-data tail)
	type cj struct{ f, off int }
	var cjobs []cj
	for fi, f := range flights {
		if !r.Thorough() && fi >= 2 {
			break
		}
		for off := 0; off <= len(f.client); off++ {
			if off > 2500 && !r.Thorough() && off%13 != 0 {
				continue
			}
			cjobs = append(cjobs, cj{fi, off})
		}
	}
	r.Parallel("captured-cuts", len(cjobs), func(i int, rng *mrand.Rand) {
		j := cjobs[i]
		f, rf := flights[j.f], refs[j.f]
		ek := j.off % 3
		s := script{readChunk: chunks[i%len(chunks)], bufSize: bufs[(i/7)%len(bufs)], writeSplit: 0, cut: j.off, cutErr: []error{io.EOF, tap.ErrInjected, tap.ErrInjected}[ek], cutData: ek == 2, wfail: -1}
		if s.readChunk == 1 && s.bufSize == 1 {
			s.bufSize = 4096
		}
		c := map[string]any{"flight": f.name, "script": s.String(), "cut": j.off, "client_len": len(f.client)}
		up, upErr, _, nerr, p := runFlight(f, s, rng)
		r.Eval(fmt.Sprintf("capcut|%d|%d", j.f, j.off))
		if p != nil {
			r.Violate("captured-cuts", i, "captured:panic", fmt.Sprintf("panic while replaying a real flight cut at %d: %v", j.off, p), c)
			return
		}
		// expected delivery: the images of all complete client records before the cut, then the received part of the cut record
		// (a rewritten record that is cut may be delivered not at all or raw)
		var lo, hi []byte
		pos, k := 0, 0
		for ; k < len(rf.cRecs) && pos+len(rf.cRecs[k].Raw) <= j.off; k++ {
			lo = append(lo, rf.uRecs[k].Raw...)
			pos += len(rf.cRecs[k].Raw)
		}
		hi = append([]byte{}, lo...)
		if k < len(rf.cRecs) && j.off > pos {
			part := rf.cRecs[k].Raw[:j.off-pos]
			hi = append(hi, part...)
			if bytes.Equal(rf.cRecs[k].Raw[3:], rf.uRecs[k].Raw[3:]) {
				lo = append(lo, part...)
			}
		}
		if nerr != nil {
			if k == 0 {
				return // the cut is inside the first record: NewConn fails, nothing delivered
			}
			r.Violate("captured-cuts", i, "captured:newconn-error", nerr.Error(), c)
			return
		}
		eq := func(a, b []byte) bool {
			if len(a) != len(b) {
				return false
			}
			a = append([]byte{}, a...)
			if len(a) >= 3 && len(b) >= 3 {
				a[1], a[2] = b[1], b[2]
			}
			return bytes.Equal(a, b)
		}
		if upErr == nil || !(eq(up, lo) || eq(up, hi)) {
			r.Violate("captured-cuts", i, "captured:bytes-before-cut-not-delivered", fmt.Sprintf("cut at %d of %d: backend read %d bytes (err=%v), expected %d (or %d)", j.off, len(f.client), len(up), upErr, len(lo), len(hi)), c)
			return
		}
		r.Count("captured_cuts_ok", 1)
	})
	r.Floor("captured_flights_with_hrr", 1)
	r.Floor("captured_replays_ok", int64(len(fjobs)*9/10))
	r.Floor("captured_cuts_ok", int64(len(cjobs)/2))
}
