// C04 — illegal or malformed Encrypted Client Hellos are aborted with the mandated alert.
package c04

import (
	"bytes"
	"fmt"
	mrand "math/rand/v2"
	"strings"
	"testing"

	"github.com/c2FmZQ/ech"

	"verif/harness/internal/echgen"
	"verif/harness/internal/echrun"
	"verif/harness/internal/hellogen"
	"verif/harness/internal/hpkex"
	"verif/harness/internal/mon"
	"verif/harness/internal/tlspeer"
	"verif/harness/internal/tlswire"
)

var aeads = []uint16{hpkex.AES128GCM, hpkex.AES256GCM, hpkex.ChaCha20}

// plan is a (possibly faulty) ECH offer under construction.
type plan struct {
	key        echgen.KeyPair
	aead       uint16
	inner      *tlswire.ClientHello // true inner hello (session id filled later)
	start      int                  // compressed run
	n          int
	pad        []byte
	outer      *tlswire.ClientHello // outer hello without ECH
	marker     []byte               // custom ech_outer_extensions body (nil = derived from the run)
	marker2    bool                 // add a second marker
	echPos     int
	lastSender *hpkex.Sender // the context record() sealed with (first hellos)
	sender     *hpkex.Sender // set for a retried hello: sealed under the first hello's context with an empty enc
	emptyInner bool // the sealed plaintext is empty
	// outer-level faults applied after sealing
	post func(h *tlswire.ClientHello)
}

func newPlan(rng *mrand.Rand, key echgen.KeyPair, aead uint16, compress bool) *plan {
	o := echgen.DefaultOpts()
	o.MaxExtra = rng.IntN(6)
	inner := echgen.GenInner(rng, o)
	p := &plan{key: key, aead: aead, inner: inner, echPos: -1}
	if compress {
		echAt, sniAt := inner.Find(tlswire.ExtECH), inner.Find(tlswire.ExtSNI)
		for tries := 0; tries < 30; tries++ {
			s := rng.IntN(len(inner.Exts))
			l := 1 + rng.IntN(min(4, len(inner.Exts)-s))
			if (echAt >= s && echAt < s+l) || (sniAt >= s && sniAt < s+l) {
				continue
			}
			p.start, p.n = s, l
			break
		}
	}
	var copied []tlswire.Ext
	if p.n > 0 {
		copied = inner.Exts[p.start : p.start+p.n]
	}
	p.outer = echgen.GenOuterBase(rng, key.PublicName, copied, -1)
	p.pad = make([]byte, []int{0, 5, 31, 64}[rng.IntN(4)])
	return p
}

// record encodes, seals and serialises the plan.
func (p *plan) record() []byte {
	inner := p.inner.Clone()
	// faults that drop inner extensions can leave the run past the end: clamp (the run is only a layout choice)
	if p.start > len(inner.Exts) {
		p.start = len(inner.Exts)
	}
	if p.start+p.n > len(inner.Exts) {
		p.n = len(inner.Exts) - p.start
	}
	enc := inner.Clone()
	enc.SessionID = nil
	if p.n > 0 || p.marker != nil {
		var types []uint16
		for _, e := range inner.Exts[p.start : p.start+p.n] {
			types = append(types, e.Type)
		}
		m := tlswire.OuterExtensions(types)
		if p.marker != nil {
			m = tlswire.Ext{Type: tlswire.ExtOuterExtensions, Data: p.marker}
		}
		var exts []tlswire.Ext
		exts = append(exts, inner.Exts[:p.start]...)
		exts = append(exts, m)
		exts = append(exts, inner.Exts[p.start+p.n:]...)
		if p.marker2 {
			exts = append(exts, tlswire.OuterExtensions([]uint16{tlswire.ExtSupportedGroups}))
		}
		enc.Exts = exts
	}
	encoded := append(enc.Body(), p.pad...)
	if p.emptyInner {
		encoded = nil // an authentic payload that opens to nothing at all
	}
	outer := p.outer.Clone()
	if p.post != nil {
		// outer-level faults are part of the AAD: apply before sealing when they do not touch the ECH extension
		p.post(outer)
	}
	if p.sender != nil {
		p.sender.SetSeq(1)
		echgen.SealInto(outer, p.echPos, p.sender, p.aead, p.key.ID, nil, encoded)
		return outer.HelloRecord(0x0303)
	}
	s, err := hpkex.Setup(p.aead, p.key.Priv.PublicKey().Bytes(), echgen.Info(p.key.Config), nil)
	if err != nil {
		panic(err)
	}
	p.lastSender = s
	echgen.SealInto(outer, p.echPos, s, p.aead, p.key.ID, s.Enc, encoded)
	return outer.HelloRecord(0x0301)
}

type fault struct {
	rule    string
	allowed []string // allowed error classes
	apply   func(rng *mrand.Rand, p *plan) (param string, ok bool)
	needKey bool
	rawPost func(rng *mrand.Rand, rec []byte) ([]byte, string) // byte-level change after sealing (outer ECH type faults)
}

var illegal = []string{"illegal_parameter"}
var illegalOrDecode = []string{"illegal_parameter", "decode_error"}

func replaceExt(h *tlswire.ClientHello, t uint16, e *tlswire.Ext) bool {
	i := h.Find(t)
	if i < 0 {
		return false
	}
	if e == nil {
		h.Exts = append(h.Exts[:i], h.Exts[i+1:]...)
	} else {
		h.Exts[i] = *e
	}
	return true
}

func faults() []fault {
	return []fault{
		{rule: "R1:outer-has-ech_outer_extensions", allowed: illegal, apply: func(rng *mrand.Rand, p *plan) (string, bool) {
			pos := rng.IntN(len(p.outer.Exts) + 1)
			p.post = func(h *tlswire.ClientHello) {
				e := tlswire.OuterExtensions([]uint16{10})
				if rng.IntN(3) == 0 {
					e.Data = nil
				}
				h.Exts = append(h.Exts[:pos:pos], append([]tlswire.Ext{e}, h.Exts[pos:]...)...)
			}
			return fmt.Sprintf("pos=%d", pos), true
		}},
		{rule: "R2:outer-ech-type-inner-with-keys", allowed: illegal, needKey: true, rawPost: func(rng *mrand.Rand, rec []byte) ([]byte, string) {
			h, _ := tlswire.ParseClientHelloMessage(rec[5:])
			h.Exts[h.Find(tlswire.ExtECH)] = tlswire.ECHInner()
			// the rule does not depend on what else the hello offers: also without TLS 1.3
			param := "type=1"
			switch rng.IntN(4) {
			case 1:
				replaceExt(h, tlswire.ExtSupportedVersions, nil)
				param += ",no-supported_versions"
			case 2:
				e := tlswire.SupportedVersions(0x0303)
				replaceExt(h, tlswire.ExtSupportedVersions, &e)
				param += ",only-1.2"
			case 3:
				e := tlswire.SupportedVersions(0x0303, 0x0302)
				replaceExt(h, tlswire.ExtSupportedVersions, &e)
				param += ",1.2-1.1"
			}
			return h.HelloRecord(0x0301), param
		}},
		{rule: "R3:outer-ech-unknown-type", allowed: illegal, rawPost: func(rng *mrand.Rand, rec []byte) ([]byte, string) {
			h, _ := tlswire.ParseClientHelloMessage(rec[5:])
			i := h.Find(tlswire.ExtECH)
			t := byte(2 + rng.IntN(254))
			d := append([]byte{}, h.Exts[i].Data...)
			d[0] = t
			if rng.IntN(2) == 0 {
				d = []byte{t}
			}
			h.Exts[i].Data = d
			return h.HelloRecord(0x0301), fmt.Sprintf("type=%d", t)
		}},
		{rule: "R3:inner-ech-unknown-type", allowed: illegal, needKey: true, apply: func(rng *mrand.Rand, p *plan) (string, bool) {
			t := byte(2 + rng.IntN(254))
			return fmt.Sprintf("type=%d", t), replaceExt(p.inner, tlswire.ExtECH, &tlswire.Ext{Type: tlswire.ExtECH, Data: []byte{t}})
		}},
		{rule: "R4:outer-sni-not-public-name", allowed: illegal, needKey: true, apply: func(rng *mrand.Rand, p *plan) (string, bool) {
			switch rng.IntN(3) {
			case 0:
				e := tlswire.SNI("not-" + p.key.PublicName)
				return "different", replaceExt(p.outer, tlswire.ExtSNI, &e)
			case 1:
				e := tlswire.SNI(p.key.PublicName[:len(p.key.PublicName)-1])
				return "prefix", replaceExt(p.outer, tlswire.ExtSNI, &e)
			default:
				return "absent", replaceExt(p.outer, tlswire.ExtSNI, nil)
			}
		}},
		{rule: "R5:inner-lacks-ech-extension", allowed: illegal, needKey: true, apply: func(rng *mrand.Rand, p *plan) (string, bool) {
			i := p.inner.Find(tlswire.ExtECH)
			if p.n > 0 && i < p.start {
				p.start--
			}
			return "", replaceExt(p.inner, tlswire.ExtECH, nil)
		}},
		{rule: "R5:inner-ech-is-outer-type", allowed: illegal, needKey: true, apply: func(rng *mrand.Rand, p *plan) (string, bool) {
			// the inner hello carries a complete, well-formed OUTER-type ECH extension (a nested ECH offer) instead of the inner marker
			e := tlswire.ECHOuter(1, aeads[rng.IntN(3)], byte(rng.IntN(256)), hellogen.Bytes(rng, 32), hellogen.Bytes(rng, 40+rng.IntN(100)))
			return "nested-outer-ech", replaceExt(p.inner, tlswire.ExtECH, &e)
		}},
		{rule: "R5:authentic-payload-without-any-inner-hello", allowed: illegalOrDecode, needKey: true, apply: func(rng *mrand.Rand, p *plan) (string, bool) {
			// the payload opens under the held key (tag over the outer hello) but its plaintext has no bytes:
			// no inner hello, hence no inner-type ECH extension, no TLS 1.3 offer
			p.emptyInner = true
			return "plaintext=0", true
		}},
		{rule: "R5:inner-ech-marker-with-extra-bytes", allowed: illegalOrDecode, needKey: true, apply: func(rng *mrand.Rand, p *plan) (string, bool) {
			// ECHClientHello of type inner is the type byte and nothing else ("case inner: Empty")
			extra := hellogen.Bytes(rng, 1+rng.IntN(6))
			if rng.IntN(2) == 0 {
				extra = make([]byte, 1+rng.IntN(3))
			}
			e := tlswire.Ext{Type: tlswire.ExtECH, Data: append([]byte{1}, extra...)}
			return fmt.Sprintf("extra=%x", extra), replaceExt(p.inner, tlswire.ExtECH, &e)
		}},
		{rule: "R6:inner-not-tls13", allowed: illegal, needKey: true, apply: func(rng *mrand.Rand, p *plan) (string, bool) {
			i := p.inner.Find(tlswire.ExtSupportedVersions)
			if p.n > 0 && i >= p.start && i < p.start+p.n {
				return "", false // versions are compressed: the outer copy decides; skip this layout
			}
			switch rng.IntN(5) {
			case 4:
				// code points that are no TLS version at all: DTLS 1.2 / 1.0, a TLS 1.3 draft, all ones
				v := []uint16{0xfefd, 0xfeff, 0x7f1c, 0xffff}[rng.IntN(4)]
				e := tlswire.SupportedVersions(v, 0x0303)
				return fmt.Sprintf("%04x+1.2", v), replaceExt(p.inner, tlswire.ExtSupportedVersions, &e)
			case 0:
				e := tlswire.SupportedVersions(0x0303)
				return "only-1.2", replaceExt(p.inner, tlswire.ExtSupportedVersions, &e)
			case 3:
				// RFC 8701 reserved values are no protocol version at all: a list of GREASE
				// entries and TLS 1.2 does not offer TLS 1.3
				k := uint16(rng.IntN(16))<<4 | 0x0a
				g := k<<8 | k
				e := tlswire.SupportedVersions(g, 0x0303)
				if rng.IntN(2) == 0 {
					e = tlswire.SupportedVersions(0x0303, g, 0x0302)
				}
				return "grease+1.2", replaceExt(p.inner, tlswire.ExtSupportedVersions, &e)
			case 1:
				e := tlswire.SupportedVersions(0x0303, 0x0302, 0x0301)
				return "1.2-1.0", replaceExt(p.inner, tlswire.ExtSupportedVersions, &e)
			default:
				if p.n > 0 && i < p.start {
					p.start--
				}
				return "no-supported_versions", replaceExt(p.inner, tlswire.ExtSupportedVersions, nil)
			}
		}},
		{rule: "R7:non-zero-padding", allowed: illegal, needKey: true, apply: func(rng *mrand.Rand, p *plan) (string, bool) {
			if len(p.pad) == 0 {
				p.pad = make([]byte, 1+rng.IntN(40))
			}
			pos := rng.IntN(len(p.pad))
			p.pad[pos] = byte(1 + rng.IntN(255))
			// several non-zero bytes, also chosen so that they cancel out under addition or xor
			if len(p.pad) >= 2 && rng.IntN(2) == 0 {
				q := (pos + 1 + rng.IntN(len(p.pad)-1)) % len(p.pad)
				switch rng.IntN(3) {
				case 0:
					p.pad[q] = p.pad[pos] // xor of all bytes is zero
				case 1:
					p.pad[q] = byte(256 - int(p.pad[pos])) // sum of all bytes is zero mod 256
				default:
					p.pad[q] = byte(1 + rng.IntN(255))
				}
				return fmt.Sprintf("padlen=%d pos=%d,%d values=%02x,%02x", len(p.pad), pos, q, p.pad[pos], p.pad[q]), true
			}
			return fmt.Sprintf("padlen=%d pos=%d", len(p.pad), pos), true
		}},
		{rule: "R8:marker-length-prefix-exceeds-body", allowed: illegalOrDecode, needKey: true, apply: func(rng *mrand.Rand, p *plan) (string, bool) {
			if p.n == 0 {
				return "", false
			}
			d := tlswire.OuterExtensions(typesOf(p)).Data
			d[0] += byte(2 * (1 + rng.IntN(3)))
			p.marker = d
			return "", true
		}},
		{rule: "R8:marker-odd-length", allowed: illegalOrDecode, needKey: true, apply: func(rng *mrand.Rand, p *plan) (string, bool) {
			if p.n == 0 {
				return "", false
			}
			d := tlswire.OuterExtensions(typesOf(p)).Data
			d = append(d, 0x00)
			d[0]++
			p.marker = d
			return "", true
		}},
		{rule: "R8:marker-trailing-bytes", allowed: illegalOrDecode, needKey: true, apply: func(rng *mrand.Rand, p *plan) (string, bool) {
			if p.n == 0 {
				return "", false
			}
			d := tlswire.OuterExtensions(typesOf(p)).Data
			p.marker = append(d, hellogen.Bytes(rng, 1+rng.IntN(4))...)
			return "", true
		}},
		{rule: "R8:marker-empty-list", allowed: illegalOrDecode, needKey: true, apply: func(rng *mrand.Rand, p *plan) (string, bool) {
			// a marker that references nothing: OuterExtensions<2..254> forbids it
			p.n = 0
			p.start = rng.IntN(len(p.inner.Exts) + 1)
			p.marker = []byte{0}
			if rng.IntN(2) == 0 {
				p.marker = []byte{}
			}
			return fmt.Sprintf("bodylen=%d", len(p.marker)), true
		}},
		{rule: "R9:references-out-of-order", allowed: illegal, needKey: true, apply: func(rng *mrand.Rand, p *plan) (string, bool) {
			if p.n < 2 {
				return "", false
			}
			ts := typesOf(p)
			i := rng.IntN(len(ts) - 1)
			ts[i], ts[i+1] = ts[i+1], ts[i]
			p.marker = tlswire.OuterExtensions(ts).Data
			return "", true
		}},
		{rule: "R10:repeated-reference", allowed: illegal, needKey: true, apply: func(rng *mrand.Rand, p *plan) (string, bool) {
			if p.n == 0 {
				return "", false
			}
			ts := typesOf(p)
			i := rng.IntN(len(ts))
			ts = append(ts[:i+1], ts[i:]...)
			p.marker = tlswire.OuterExtensions(ts).Data
			return "", true
		}},
		{rule: "R10:repeated-reference-outer-repeats-too", allowed: illegalOrDecode, needKey: true, apply: func(rng *mrand.Rand, p *plan) (string, bool) {
			// the list names one type twice and the outer hello carries that extension twice as well, so that
			// every reference can be resolved in order: still a repeated reference
			if p.n == 0 {
				return "", false
			}
			ts := typesOf(p)
			i := rng.IntN(len(ts))
			t := ts[i]
			ts = append(ts[:i+1], ts[i:]...)
			p.marker = tlswire.OuterExtensions(ts).Data
			p.post = func(h *tlswire.ClientHello) {
				if j := h.Find(t); j >= 0 {
					e := tlswire.Ext{Type: t, Data: append([]byte{}, h.Exts[j].Data...)}
					h.Exts = append(h.Exts[:j+1:j+1], append([]tlswire.Ext{e}, h.Exts[j+1:]...)...)
				}
			}
			return fmt.Sprintf("type=%d", t), true
		}},
		{rule: "R11:reference-missing-from-outer", allowed: illegal, needKey: true, apply: func(rng *mrand.Rand, p *plan) (string, bool) {
			if p.n == 0 {
				// reference something the outer hello does not have
				p.start = rng.IntN(len(p.inner.Exts) + 1)
				p.marker = tlswire.OuterExtensions([]uint16{0x4242}).Data
				return "no-run", true
			}
			ts := typesOf(p)
			i := rng.IntN(len(ts) + 1)
			ts = append(ts[:i:i], append([]uint16{0x4243}, ts[i:]...)...)
			p.marker = tlswire.OuterExtensions(ts).Data
			return "extra-unknown", true
		}},
		{rule: "R12:reference-names-ech", allowed: illegal, needKey: true, apply: func(rng *mrand.Rand, p *plan) (string, bool) {
			bad := []uint16{tlswire.ExtECH, tlswire.ExtOuterExtensions}[rng.IntN(2)]
			if p.n == 0 {
				p.start = rng.IntN(len(p.inner.Exts) + 1)
				p.marker = tlswire.OuterExtensions([]uint16{bad}).Data
			} else {
				ts := typesOf(p)
				i := rng.IntN(len(ts) + 1)
				ts = append(ts[:i:i], append([]uint16{bad}, ts[i:]...)...)
				p.marker = tlswire.OuterExtensions(ts).Data
			}
			return fmt.Sprintf("type=%#x", bad), true
		}},
		{rule: "R13:two-markers", allowed: illegal, needKey: true, apply: func(rng *mrand.Rand, p *plan) (string, bool) {
			if p.n == 0 {
				return "", false
			}
			for _, e := range p.inner.Exts[p.start : p.start+p.n] {
				if e.Type == tlswire.ExtSupportedGroups {
					return "", false
				}
			}
			if p.outer.Find(tlswire.ExtSupportedGroups) < 0 {
				return "", false
			}
			p.marker2 = true
			return "", true
		}},
	}
}

// fragment re-frames a one-record hello as several handshake records: a first fragment of
// 1..8 bytes (shorter than the handshake header included) or a PRNG-chosen split, the rest in 1..3 pieces.
func fragment(rng *mrand.Rand, rec []byte) ([]byte, string) {
	msg := rec[5:]
	if len(msg) < 12 {
		return rec, "whole"
	}
	first := []int{1, 2, 3, 4, 5, 8, 1 + rng.IntN(len(msg)-1), len(msg) - 1 - rng.IntN(5)}[rng.IntN(8)]
	cuts := []int{first}
	for k := rng.IntN(3); k > 0 && cuts[len(cuts)-1] < len(msg)-1; k-- {
		last := cuts[len(cuts)-1]
		cuts = append(cuts, last+1+rng.IntN(len(msg)-last-1))
	}
	var out []byte
	prev := 0
	for _, c := range append(cuts, len(msg)) {
		if c > prev {
			out = append(out, tlswire.Record(22, uint16(rec[1])<<8|uint16(rec[2]), msg[prev:c])...)
			prev = c
		}
	}
	return out, fmt.Sprintf("first=%d,records=%d", first, len(cuts)+1)
}

func typesOf(p *plan) []uint16 {
	var ts []uint16
	for _, e := range p.inner.Exts[p.start : p.start+p.n] {
		ts = append(ts, e.Type)
	}
	return ts
}

func in(s string, l []string) bool {
	for _, x := range l {
		if x == s {
			return true
		}
	}
	return false
}

// judgeAbort checks the abort contract on one input.
func judgeAbort(r *mon.Run, work string, i int, rule string, allowed []string, rec []byte, keys []ech.Key, c map[string]any) bool {
	ok := true
	c["record"] = mon.Hex(rec)
	r.Guard(work, i, rule, c, func() {
		out := echrun.Run(rec, keys)
		if out.Err == nil {
			what := "passed through"
			if out.Accepted {
				what = "ACCEPTED and forwarded"
			}
			r.Violate(work, i, rule+":not-aborted", fmt.Sprintf("a hello breaking %s was %s instead of being aborted", rule, what), c)
			ok = false
			return
		}
		if !in(out.Class, allowed) {
			r.Violate(work, i, rule+":wrong-error-class:"+out.Class, fmt.Sprintf("error class %s (%v), allowed %v", out.Class, out.Err, allowed), c)
			ok = false
		}
		// nothing may be readable from a returned Conn
		if out.Conn != nil {
			buf := make([]byte, 64)
			if n, _ := out.Conn.Read(buf); n > 0 {
				r.Violate(work, i, rule+":bytes-forwarded-after-abort", fmt.Sprintf("%d bytes readable from the Conn after the abort", n), c)
				ok = false
			}
		}
		// the client must see exactly one fatal alert matching the error class, then end of stream
		w := out.Tap.Written()
		want := tlswire.Alert(2, echrun.AlertCode(out.Class))
		if !bytes.Equal(w, want) {
			c["written"] = mon.Hex(w)
			if len(w) == 0 {
				r.Violate(work, i, "alert:none-sent", fmt.Sprintf("NewConn returned %s but wrote no alert to the client", out.Class), c)
			} else {
				r.Violate(work, i, "alert:wrong-bytes", fmt.Sprintf("client received % x, want % x", w, want), c)
			}
			ok = false
		}
		if out.Tap.Closed() == 0 {
			r.Violate(work, i, "alert:transport-not-closed", "the client-side transport was not closed after the abort", c)
			ok = false
		}
	})
	return ok
}

func TestCheck(t *testing.T) {
	r := mon.Start(t, "C04", "exploration")
	defer r.Finish()
	r.SetRule("valid (inner, outer) ECH offers from the independent generator, then one catalogued rule violation (R1..R13, single-fault) or two (multi-fault) applied at a PRNG-chosen applicable position; " +
		"the same rules applied to the RETRIED hello after an accepted first hello and a HelloRetryRequest (workload retry); plus every truncation/inflation of the outer hello's length-prefixed vectors (R14, judged only for 'never accepted' and alert consistency). Each faulty offer is authentically sealed (so the server decrypts it) " +
		"and an unfaulted control of the same layout must be accepted. distinct = distinct (rule, parameter, layout: #inner exts, run, pad) cases that reached the rule (control accepted)")
	r.Assume("independent HPKE sender and generator (validated against crypto/tls at start of run)",
		"allowed error classes are kept as wide as the draft allows: illegal_parameter for R1-R7 and R9-R13, illegal_parameter or decode_error for R8 and R14")

	ca, err := tlspeer.NewCA()
	if err != nil {
		r.Inconclusive("fixture: %v", err)
		return
	}
	if err := echgen.SelfCheck(r.Rand("selfcheck", 0), 6, ca.MustLeaf(0, "public.example")); err != nil {
		r.Inconclusive("generator self-check failed: %v", err)
		return
	}
	keys := make([]echgen.KeyPair, 8)
	for i := range keys {
		keys[i] = echgen.NewKey(uint8(i*31+5), fmt.Sprintf("public%d.example", i))
	}
	fs := faults()

	n := r.N(4000, 400000)
	r.Parallel("single", n, func(i int, rng *mrand.Rand) {
		f := fs[i%len(fs)]
		key := keys[rng.IntN(len(keys))]
		aead := aeads[rng.IntN(3)]
		var p *plan
		var param string
		applied := false
		for attempt := 0; attempt < 8 && !applied; attempt++ {
			compress := rng.IntN(4) != 0 || attempt > 0
			p = newPlan(rng, key, aead, compress)
			// control: the same layout without the fault is accepted
			ctl := echrun.Run(p.record(), []ech.Key{key.TLSKey()})
			if ctl.Err != nil || !ctl.Accepted {
				r.Inconclusive("control offer not accepted (%v): fault results would be vacuous", ctl.Err)
				return
			}
			applied = true
			if f.apply != nil {
				param, applied = f.apply(rng, p)
			}
		}
		if !applied {
			r.Count("skipped_layout_not_applicable", 1)
			return
		}
		rec := p.record()
		if f.rawPost != nil {
			rec, param = f.rawPost(rng, rec)
		}
		ks := []ech.Key{key.TLSKey()}
		if !f.needKey && rng.IntN(2) == 0 {
			ks = nil // rules that do not depend on holding a key are also tried without keys
		}
		frag := "whole"
		if i%3 == 2 {
			rec, frag = fragment(rng, rec)
			r.Count("faulty_hellos_sent_fragmented", 1)
		}
		c := map[string]any{"rule": f.rule, "param": param, "aead": aead, "run_start": p.start, "run_len": p.n, "pad": len(p.pad), "keys": len(ks), "framing": frag}
		if judgeAbort(r, "single", i, f.rule, f.allowed, rec, ks, c) {
			r.Count("aborted_correctly", 1)
		}
		r.Count("rule_"+f.rule, 1)
		r.Eval(fmt.Sprintf("%s|%s|%d|%d|%d|%d", f.rule, param, len(p.inner.Exts), p.start, p.n, len(p.pad)))
		if i < len(fs) && i%4 == 0 {
			r.Sample(c)
		}
	})

	// multi-fault: two inner-level faults together
	nm := r.N(800, 60000)
	r.Parallel("multi", nm, func(i int, rng *mrand.Rand) {
		key := keys[rng.IntN(len(keys))]
		p := newPlan(rng, key, aeads[rng.IntN(3)], true)
		a, b := fs[rng.IntN(len(fs))], fs[rng.IntN(len(fs))]
		if a.apply == nil || b.apply == nil || a.rule == b.rule || !a.needKey || !b.needKey {
			return
		}
		// marker-rewriting faults overwrite each other: allow at most one of them
		isMarker := func(f fault) bool {
			return f.rule[:2] == "R8" || f.rule[:2] == "R9" || f.rule[:3] == "R10" || f.rule[:3] == "R11" || f.rule[:3] == "R12"
		}
		if isMarker(a) && isMarker(b) {
			return
		}
		pa, oka := a.apply(rng, p)
		pb, okb := b.apply(rng, p)
		if !oka || !okb {
			return
		}
		allowed := append(append([]string{}, a.allowed...), b.allowed...)
		c := map[string]any{"rules": []string{a.rule, b.rule}, "params": []string{pa, pb}}
		rule := "multi:" + a.rule[:3] + "+" + b.rule[:3]
		if judgeAbort(r, "multi", i, rule, allowed, p.record(), []ech.Key{key.TLSKey()}, c) {
			r.Count("aborted_correctly", 1)
		}
		r.Count("multi_fault_cases", 1)
		r.Eval(fmt.Sprintf("multi|%s|%s|%s|%s", a.rule, b.rule, pa, pb))
	})

	// the same rules on a RETRIED hello: accepted first hello, HelloRetryRequest, then a second hello that breaks one rule
	nr := r.N(1500, 100000)
	r.Parallel("retry", nr, func(i int, rng *mrand.Rand) {
		f := fs[i%len(fs)]
		if strings.HasPrefix(f.rule, "R1:") {
			return // covered on first hellos; on a retry the same parser path applies before any retry logic
		}
		key := keys[rng.IntN(len(keys))]
		aead := aeads[rng.IntN(3)]
		ks := []ech.Key{key.TLSKey()}
		p1 := newPlan(rng, key, aead, rng.IntN(2) == 0)
		flow, out := echrun.StartFlow(p1.record(), ks)
		if out.Err != nil || !out.Accepted {
			r.Inconclusive("first hello of a retry case not accepted (%v)", out.Err)
			return
		}
		if _, _, err := flow.Backend(tlswire.HRRRecord(p1.outer.SessionID, 0x0017)); err != nil {
			r.Inconclusive("HRR write failed: %v", err)
			return
		}
		var p2 *plan
		var param string
		applied := false
		for attempt := 0; attempt < 8 && !applied; attempt++ {
			p2 = newPlan(rng, key, aead, true)
			p2.outer.SessionID = append([]byte{}, p1.outer.SessionID...)
			p2.sender = p1.lastSender
			applied = true
			if f.apply != nil {
				param, applied = f.apply(rng, p2)
			}
		}
		if !applied {
			return
		}
		rec := p2.record()
		if f.rawPost != nil {
			rec, param = f.rawPost(rng, rec)
		}
		frag := "whole"
		if i%2 == 1 {
			rec, frag = fragment(rng, rec)
			r.Count("faulty_retried_hellos_sent_fragmented", 1)
		}
		// records a client may send between the HelloRetryRequest and its second hello: the compatibility
		// change_cipher_spec and warning alerts. Neither ends the inspection of the handshake.
		var prefix [][]byte
		switch (i / 2) % 4 {
		case 1:
			prefix = [][]byte{tlswire.Record(20, 0x0303, []byte{1})}
		case 2:
			prefix = [][]byte{tlswire.Record(21, 0x0303, []byte{1, 90})}
		case 3:
			prefix = [][]byte{tlswire.Record(20, 0x0303, []byte{1}), tlswire.Record(21, 0x0303, []byte{1, 90})}
		}
		c := map[string]any{"rule": f.rule, "param": param, "phase": "retry", "framing": frag, "second_record": mon.Hex(rec), "records_before_it": len(prefix)}
		r.Guard("retry", i, f.rule+":retry", c, func() {
			for _, pr := range prefix {
				if g, err := flow.Client(pr); err != nil || !bytes.Equal(g, pr) {
					r.Violate("retry", i, "retry:prefix-record-not-forwarded", fmt.Sprintf("record %x sent before the second hello: read %x, %v", pr, g, err), c)
					return
				}
			}
			if len(prefix) > 0 {
				r.Count("faulty_retried_hellos_after_ccs_or_alert", 1)
			}
			wOff := len(flow.Tap.Written())
			got, err := flow.Client(rec)
			cls := echrun.Class(err)
			r.Count("retry_rule_"+f.rule, 1)
			r.Eval(fmt.Sprintf("retry|%s|%s|%d|%d", f.rule, param, p2.start, p2.n))
			if err == nil {
				c["forwarded"] = mon.Hex(got)
				r.Violate("retry", i, f.rule+":retry:not-aborted", fmt.Sprintf("a retried hello breaking %s was forwarded instead of being aborted", f.rule), c)
				return
			}
			allowed := append([]string{}, f.allowed...)
			if !in(cls, allowed) {
				r.Violate("retry", i, f.rule+":retry:wrong-error-class:"+cls, fmt.Sprintf("error class %s (%v), allowed %v", cls, err, allowed), c)
			}
			w := flow.Tap.Written()[wOff:]
			if want := tlswire.Alert(2, echrun.AlertCode(cls)); !bytes.Equal(w, want) {
				c["written"] = mon.Hex(w)
				r.Violate("retry", i, "alert:retry:wrong-or-missing", fmt.Sprintf("client received % x after the aborted retry, want % x", w, want), c)
			}
			if flow.Tap.Closed() == 0 {
				r.Violate("retry", i, "alert:retry:transport-not-closed", "transport not closed after the aborted retry", c)
			}
			r.Count("retry_aborted_correctly", 1)
		})
	})
	r.Floor("retry_aborted_correctly", int64(nr/3))
	r.Floor("faulty_retried_hellos_sent_fragmented", int64(nr/4))
	r.Floor("faulty_hellos_sent_fragmented", int64(n/5))

	// R14: every truncation / inflation of every length-prefixed vector of the outer hello
	nt := r.N(6, 50)
	r.Parallel("truncate", nt, func(i int, rng *mrand.Rand) {
		key := keys[i%len(keys)]
		p := newPlan(rng, key, aeads[i%3], i%2 == 0)
		rec := p.record()
		msg := rec[5:]
		// offsets of every length field: handshake length(3), session id(1), suites(2), compression(1), extensions(2), each extension(2)
		type lf struct{ off, size int }
		var fields []lf
		fields = append(fields, lf{1, 3})
		q := 4 + 34
		fields = append(fields, lf{q, 1})
		q += 1 + int(msg[q])
		fields = append(fields, lf{q, 2})
		q += 2 + int(msg[q])<<8 | int(msg[q+1])
		fields = append(fields, lf{q, 1})
		q += 1 + int(msg[q])
		fields = append(fields, lf{q, 2})
		q += 2
		for q+4 <= len(msg) {
			fields = append(fields, lf{q + 2, 2})
			q += 4 + (int(msg[q+2])<<8 | int(msg[q+3]))
		}
		for fi, f := range fields {
			for _, delta := range []int{-3, -2, -1, 1, 2, 7} {
				m := append([]byte(nil), msg...)
				v := 0
				for k := 0; k < f.size; k++ {
					v = v<<8 | int(m[f.off+k])
				}
				v += delta
				if v < 0 || v >= 1<<(8*f.size) {
					continue
				}
				for k := f.size - 1; k >= 0; k-- {
					m[f.off+k] = byte(v)
					v >>= 8
				}
				judgeMalformed(r, i, fmt.Sprintf("field%d%+d", fi, delta), tlswire.Record(22, 0x0301, m), key)
			}
		}
		// every cut of the message with the record length adjusted
		for cut := 0; cut < len(msg); cut += 1 + rng.IntN(3) {
			judgeMalformed(r, i, fmt.Sprintf("cut%d", cut), tlswire.Record(22, 0x0301, msg[:cut]), key)
		}
	})

	r.Floor("aborted_correctly", int64(n/2))
	for _, f := range fs {
		r.Floor("rule_"+f.rule, int64(n/len(fs)/2))
	}
	r.Floor("multi_fault_cases", int64(nm/20))
	r.Floor("malformed_outer_cases", 500)
}

// judgeMalformed: a structurally damaged outer hello must never be accepted;
// if it is aborted the alert contract applies; silent pass-through of a
// damaged hello is counted but not judged (the statement lists specific rules).
func judgeMalformed(r *mon.Run, i int, what string, rec []byte, key echgen.KeyPair) {
	if _, err := tlswire.ParseClientHelloMessage(rec[5:]); err == nil {
		r.Count("malformed_discarded_still_valid", 1)
		return
	}
	c := map[string]any{"rule": "R14", "what": what, "record": mon.Hex(rec)}
	r.Guard("truncate", i, "R14", c, func() {
		out := echrun.Run(rec, []ech.Key{key.TLSKey()})
		r.Count("malformed_outer_cases", 1)
		r.Eval("R14|" + what)
		if out.Err == nil {
			if out.Accepted {
				r.Violate("truncate", i, "R14:accepted", "ECH accepted for a structurally damaged outer hello ("+what+")", c)
				return
			}
			r.Count("malformed_outer_forwarded_not_judged", 1)
			return
		}
		if !in(out.Class, []string{"decode_error", "illegal_parameter", "unexpected_message", "eof"}) {
			r.Violate("truncate", i, "R14:wrong-error-class:"+out.Class, fmt.Sprintf("error %v", out.Err), c)
		}
		if out.Class == "eof" {
			return // short record: transport-level end, no alert mandated
		}
		w := out.Tap.Written()
		if want := tlswire.Alert(2, echrun.AlertCode(out.Class)); !bytes.Equal(w, want) {
			c["written"] = mon.Hex(w)
			if len(w) == 0 {
				r.Violate("truncate", i, "alert:none-sent", fmt.Sprintf("NewConn returned %s but wrote no alert to the client", out.Class), c)
			} else {
				r.Violate("truncate", i, "alert:wrong-bytes", fmt.Sprintf("client received % x, want % x", w, want), c)
			}
		}
		if out.Tap.Closed() == 0 {
			r.Violate("truncate", i, "alert:transport-not-closed", "transport not closed after abort", c)
		}
	})
}
