//go:build race

package c18

// raceOn: the binary was built with -race (thorough "race" stage). The case
// list is shorter there because every scenario costs ~10x more.
const raceOn = true
