// Package c18 holds the runtime monitor of property C18 (Dialer.Dial attempt
// scheduling). The check itself needs testing/synctest and is therefore only
// compiled by go1.25+ toolchains (stage "go": "1.26" in bin/stages.json).
package c18
