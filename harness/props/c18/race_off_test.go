//go:build !race

package c18

const raceOn = false
