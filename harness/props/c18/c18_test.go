//go:build go1.25

// C18 — Dial attempts are ordered, bounded and leak-free; the first success wins.
//
// Every scenario (a scripted outcome per target x Dialer settings x caller
// cancellation) runs Dialer[*fakeConn].Dial inside its own testing/synctest
// bubble, so all durations are virtual and exact. The scripted DialFunc and
// fakeConn.Close append {start, finish, close} events to one mutex-protected
// log, the caller appends {return}; the log order is a linearisation that
// respects happens-before, the stamps are virtual time since the bubble
// started. After Dial returned the bubble sleeps one virtual hour so that
// every outstanding attempt, timer and worker drains, then the trace is judged
// by a specification written from the property statement (rules S1..S9 below).
package c18

import (
	"context"
	"crypto/tls"
	"errors"
	"fmt"
	mrand "math/rand/v2"
	"regexp"
	"runtime"
	"strings"
	"sync"
	"sync/atomic"
	"testing"
	"testing/synctest"
	"time"

	"github.com/c2FmZQ/ech"

	"verif/harness/internal/mon"
)

const ms = time.Millisecond

// ---- scenarios ----

type kind uint8

const (
	kSucc  kind = iota // S<d>: succeeds after d unless its context ends first (then returns ctx.Err())
	kFail              // F<d>: fails with its scripted error after d unless its context ends first
	kHang              // H: blocks until its context is done, returns ctx.Err()
	kSuccU             // SU<d>: ignores its context, returns a connection after d (a dial that cannot be interrupted)
	kFailU             // FU<d>: ignores its context, fails with its scripted error after d
)

// An outcome scripts every DialFunc invocation made for one target. Without Rej
// there is one invocation (K, D). With Rej == rejRetry the first invocation
// returns, after RD (or ctx.Err() if its context ends first), a
// *tls.ECHRejectionError that carries retry configs: dialOne must then call
// DialFunc once more for the same address, and that retry invocation behaves as
// (K, D) counted from its own start. With Rej == rejNoConfigs the rejection
// carries no retry configs: it is a plain failure and must not be retried.
type outcome struct {
	K   kind
	D   time.Duration
	Rej int
	RD  time.Duration
}

const (
	rejNone      = 0
	rejRetry     = 1
	rejNoConfigs = 2
)

func (o outcome) String() string {
	switch o.Rej {
	case rejRetry:
		return fmt.Sprintf("R%d>%s", o.RD/ms, outcome{K: o.K, D: o.D})
	case rejNoConfigs:
		return fmt.Sprintf("RN%d", o.RD/ms)
	}
	n := int64(o.D / ms)
	switch o.K {
	case kSucc:
		return fmt.Sprintf("S%d", n)
	case kFail:
		return fmt.Sprintf("F%d", n)
	case kHang:
		return "H"
	case kSuccU:
		return fmt.Sprintf("SU%d", n)
	default:
		return fmt.Sprintf("FU%d", n)
	}
}

const (
	cancelNever    = 0
	cancelFunc     = 1 // context.WithCancel, cancel() called at CancelAt (0: before Dial is called)
	cancelDeadline = 2 // context.WithDeadline(bubble start + CancelAt)
)

type scenario struct {
	Targets    []outcome
	Zero       bool          // the address list resolves to no target: IPv4 literals dialled on network "tcp6"
	MaxConc    int           // 0 = default (3)
	Delay      time.Duration // 0 = default (1 s)
	Timeout    time.Duration // 0 = default (30 s)
	CancelKind int
	CancelAt   time.Duration
}

func (sc *scenario) String() string {
	var b strings.Builder
	for i, o := range sc.Targets {
		if i > 0 {
			b.WriteByte(',')
		}
		b.WriteString(o.String())
	}
	fmt.Fprintf(&b, "|w%d|d%d|t%d", sc.MaxConc, sc.Delay/ms, sc.Timeout/ms)
	switch sc.CancelKind {
	case cancelFunc:
		fmt.Fprintf(&b, "|cancel@%d", sc.CancelAt/ms)
	case cancelDeadline:
		fmt.Fprintf(&b, "|deadline@%d", sc.CancelAt/ms)
	}
	if sc.Zero {
		b.WriteString("|zero-targets")
	}
	return b.String()
}

func (sc *scenario) addr() (network, addr string) {
	parts := make([]string, len(sc.Targets))
	for i := range parts {
		parts[i] = fmt.Sprintf("10.0.0.%d:443", i+1)
	}
	network = "tcp"
	if sc.Zero {
		network = "tcp6"
	}
	return network, strings.Join(parts, ",")
}

// The exhaustively enumerated sub-space: every assignment of gridAlpha to 0..3
// targets x MaxConcurrency 1..4 x ConcurrencyDelay {10,100} ms x Timeout
// {50,500} ms x caller cancel() at {never, 0, 5, 60, 600} ms.
var (
	gridAlpha = []outcome{{K: kSucc, D: 0}, {K: kSucc, D: 10 * ms}, {K: kSucc, D: 100 * ms}, {K: kFail, D: 0}, {K: kFail, D: 10 * ms}, {K: kFail, D: 100 * ms},
		{K: kHang, D: 0}, {K: kSuccU, D: 10 * ms}, {K: kSuccU, D: 100 * ms}, {K: kFailU, D: 100 * ms}}
	gridConc    = []int{1, 2, 3, 4}
	gridDelay   = []time.Duration{10 * ms, 100 * ms}
	gridTimeout = []time.Duration{50 * ms, 500 * ms}
	gridCancel  = []time.Duration{-1, 0, 5 * ms, 60 * ms, 600 * ms}
	fullD       = []time.Duration{0, 1 * ms, 10 * ms, 50 * ms, 100 * ms, 1000 * ms}
)

func gridShapes() int {
	a := len(gridAlpha)
	return 1 + a + a*a + a*a*a
}

func gridCfgs() int { return len(gridConc) * len(gridDelay) * len(gridTimeout) * len(gridCancel) }

func gridSize() int { return gridShapes() * gridCfgs() }

// The second exhaustively enumerated sub-space (workload retrygrid): 1 or 2
// targets drawn from gridAlpha + retryAlpha with at least one ECH-rejection
// letter, x the same settings as the grid.
var retryAlpha = []outcome{
	{K: kSucc, D: 10 * ms, Rej: rejRetry, RD: 10 * ms},   // R10>S10
	{K: kFail, D: 10 * ms, Rej: rejRetry, RD: 10 * ms},   // R10>F10
	{K: kHang, Rej: rejRetry, RD: 10 * ms},               // R10>H: the retry stalls until its context ends
	{K: kSuccU, D: 100 * ms, Rej: rejRetry, RD: 10 * ms}, // R10>SU100
	{K: kSucc, D: 10 * ms, Rej: rejRetry, RD: 100 * ms},  // R100>S10: with Timeout 50 the rejection never arrives
	{K: kFail, Rej: rejNoConfigs, RD: 10 * ms},           // RN10: rejection without retry configs
}

var retryShapes = func() [][]outcome {
	all := append(append([]outcome{}, gridAlpha...), retryAlpha...)
	var out [][]outcome
	for _, a := range retryAlpha {
		out = append(out, []outcome{a})
	}
	for _, a := range all {
		for _, b := range all {
			if a.Rej != rejNone || b.Rej != rejNone {
				out = append(out, []outcome{a, b})
			}
		}
	}
	return out
}()

func retryGridSize() int { return len(retryShapes) * gridCfgs() }

func retryGridScenario(i int) scenario {
	sc := gridSettings(i % gridCfgs())
	sc.Targets = retryShapes[i/gridCfgs()]
	return sc
}

func gridSettings(cfg int) scenario {
	var sc scenario
	sc.MaxConc = gridConc[cfg%len(gridConc)]
	cfg /= len(gridConc)
	sc.Delay = gridDelay[cfg%len(gridDelay)]
	cfg /= len(gridDelay)
	sc.Timeout = gridTimeout[cfg%len(gridTimeout)]
	cfg /= len(gridTimeout)
	if c := gridCancel[cfg]; c >= 0 {
		sc.CancelKind, sc.CancelAt = cancelFunc, c
	}
	return sc
}

func gridScenario(i int) scenario {
	shape := i / gridCfgs()
	sc := gridSettings(i % gridCfgs())
	n, cnt := 0, 1
	for shape >= cnt {
		shape -= cnt
		n++
		cnt *= len(gridAlpha)
	}
	for k := 0; k < n; k++ {
		sc.Targets = append(sc.Targets, gridAlpha[shape%len(gridAlpha)])
		shape /= len(gridAlpha)
	}
	if n == 0 {
		sc.Zero = true
		sc.Targets = []outcome{{K: kSucc, D: 0}} // one address that yields no target; must never be dialled
	}
	return sc
}

func randScenario(rng *mrand.Rand) scenario {
	var sc scenario
	n := 0
	switch p := rng.IntN(100); {
	case p < 2:
		sc.Zero = true
		n = 1 + rng.IntN(3)
	case p < 6:
		n = 1
	case p < 14:
		n = 2
	case p < 28:
		n = 3
	case p < 60:
		n = 4
	default:
		n = 5
	}
	for k := 0; k < n; k++ {
		o := outcome{D: fullD[rng.IntN(len(fullD))]}
		switch p := rng.IntN(100); {
		case p < 28:
			o.K = kSucc
		case p < 58:
			o.K = kFail
		case p < 74:
			o.K, o.D = kHang, 0
		case p < 90:
			o.K = kSuccU
		default:
			o.K = kFailU
		}
		switch p := rng.IntN(100); {
		case p < 10:
			o.Rej, o.RD = rejRetry, fullD[rng.IntN(len(fullD))]
		case p < 13:
			o = outcome{K: kFail, Rej: rejNoConfigs, RD: fullD[rng.IntN(len(fullD))]}
		}
		sc.Targets = append(sc.Targets, o)
	}
	if rng.IntN(20) > 0 {
		sc.MaxConc = 1 + rng.IntN(4)
	}
	sc.Delay = []time.Duration{10 * ms, 100 * ms}[rng.IntN(2)]
	if rng.IntN(25) == 0 {
		sc.Delay = 0
	}
	sc.Timeout = []time.Duration{50 * ms, 500 * ms}[rng.IntN(2)]
	if rng.IntN(25) == 0 {
		sc.Timeout = 0
	}
	switch p := rng.IntN(10); {
	case p < 4:
	case p < 8:
		sc.CancelKind = cancelFunc
	default:
		sc.CancelKind = cancelDeadline
	}
	if sc.CancelKind != cancelNever {
		sc.CancelAt = []time.Duration{0, 5 * ms, 60 * ms, 600 * ms}[rng.IntN(4)]
	}
	return sc
}

// ---- instrumentation ----

type event struct {
	Seq    int
	Kind   string // start | finish | close | return
	Target int    // target index (for return: index of the returned connection, -1 none, -2 foreign)
	Inv    int    // start/finish: how many DialFunc invocations this target had seen before (0 = first, 1 = ECH retry)
	At     time.Duration
	HasDL  bool          // start: ctx.Deadline() ok
	DL     time.Duration // start: ctx deadline relative to the bubble start
	CtxErr string        // start: ctx.Err() when DialFunc was entered ("" = live)
	OK     bool          // finish: returned a connection
	Retry  bool          // finish: returned an ECH rejection that carries retry configs (dialOne has to retry)
	Err    string        // finish/return: error text
}

type scriptErr struct{ target int }

func (e *scriptErr) Error() string { return fmt.Sprintf("scripted failure of target %d", e.target) }

type fakeConn struct {
	rec    *recorder
	target int
}

// Close implements io.Closer; Dial finds it with a type assertion on T.
func (c *fakeConn) Close() error {
	c.rec.add(event{Kind: "close", Target: c.target})
	return nil
}

// quicLikeConn has no Close method: like *quic.Conn it is ended with CloseWithError.
type quicLikeConn struct {
	addr   string
	closed atomic.Bool
}

func (c *quicLikeConn) CloseWithError(code uint64, reason string) error {
	c.closed.Store(true)
	return nil
}

type recorder struct {
	sc     *scenario
	mu     sync.Mutex
	t0     time.Time
	ev     []event
	finErr []error // error value the latest invocation for each target returned (nil: a connection)
	script []*scriptErr
	rej    []*tls.ECHRejectionError
	inv    []int // DialFunc invocations seen per target
	index  map[string]int
}

func (rec *recorder) add(e event) {
	rec.mu.Lock()
	e.Seq = len(rec.ev)
	e.At = time.Since(rec.t0)
	rec.ev = append(rec.ev, e)
	rec.mu.Unlock()
}

func (rec *recorder) dial(ctx context.Context, network, addr string, tc *tls.Config) (*fakeConn, error) {
	idx, ok := rec.index[addr]
	if !ok || rec.sc.Zero {
		idx = -1
	}
	// The context is sampled inside the critical section of the log: if the
	// "return" event is already in the log, Dial has returned, hence its
	// deferred cancel() happened before this read.
	rec.mu.Lock()
	inv := 0
	if idx >= 0 {
		inv = rec.inv[idx]
		rec.inv[idx]++
	}
	e := event{Kind: "start", Target: idx, Inv: inv, Seq: len(rec.ev), At: time.Since(rec.t0)}
	if err := ctx.Err(); err != nil {
		e.CtxErr = err.Error()
	}
	if dl, ok := ctx.Deadline(); ok {
		e.HasDL, e.DL = true, dl.Sub(rec.t0)
	}
	rec.ev = append(rec.ev, e)
	rec.mu.Unlock()
	if idx < 0 {
		err := fmt.Errorf("unexpected address %q on %q", addr, network)
		rec.add(event{Kind: "finish", Target: idx, Err: err.Error()})
		return nil, err
	}
	o := rec.sc.Targets[idx]
	rejecting := o.Rej != rejNone && inv == 0
	if rejecting {
		o.K, o.D = kFail, o.RD // honours its context; "fails" with the rejection
	}
	start := time.Now()
	var err error
	switch o.K {
	case kSuccU, kFailU:
		if o.D > 0 {
			time.Sleep(o.D)
		}
	case kHang:
		<-ctx.Done()
		err = ctx.Err()
	default:
		if e := ctx.Err(); e != nil {
			err = e
		} else if o.D > 0 {
			tm := time.NewTimer(o.D)
			select {
			case <-tm.C:
			case <-ctx.Done():
				// same virtual instant: the scripted outcome wins (deterministic tie-break)
				if time.Since(start) < o.D {
					err = ctx.Err()
				}
			}
			tm.Stop()
		}
	}
	retry := false
	if err == nil && rejecting {
		err = rec.rej[idx]
		retry = len(rec.rej[idx].RetryConfigList) > 0
	} else if err == nil && (o.K == kFail || o.K == kFailU) {
		err = rec.script[idx]
	}
	rec.mu.Lock()
	rec.finErr[idx] = err
	rec.mu.Unlock()
	if err != nil {
		rec.add(event{Kind: "finish", Target: idx, Inv: inv, Err: err.Error(), Retry: retry})
		return nil, err
	}
	c := &fakeConn{rec: rec, target: idx}
	rec.add(event{Kind: "finish", Target: idx, Inv: inv, OK: true})
	return c, nil
}

type leaked struct {
	State  string `json:"state"`
	Frame  string `json:"frame"` // first github.com/c2FmZQ/ech frame, "" if none
	Dialer bool   `json:"dialer"`
	Stack  string `json:"stack"`
}

type result struct {
	Events    []event
	Returned  bool
	Conn      *fakeConn
	Err       error
	Panic     string // panic out of Dial on the caller's goroutine
	PanicAt   string
	Bubble    string
	BubbleErr string   // recovered synctest deadlock panic
	Scanned   bool     // own goroutine scan done inside the bubble at quiescence
	Leaked    []leaked // goroutines of this bubble that are still alive after quiescence
	Early     []leaked // Dialer goroutines alive once Dial has returned and every started attempt has returned (no time passed)
	EarlyScan bool
	finErr    []error
	script    []*scriptErr
}

var bubbleRe = regexp.MustCompile(`synctest bubble (\d+)`)

func bubbleID() string {
	var b [160]byte
	n := runtime.Stack(b[:], false)
	hdr, _, _ := strings.Cut(string(b[:n]), "\n")
	if m := bubbleRe.FindStringSubmatch(hdr); m != nil {
		return m[1]
	}
	return ""
}

var stateRe = regexp.MustCompile(`^goroutine \d+ \[([^\],]*)`)

// scanBubble lists the goroutines of synctest bubble id other than the caller
// and the bubble's root (which only waits for the test function).
func scanBubble(id string) []leaked {
	if id == "" {
		return nil
	}
	buf := make([]byte, 1<<18)
	for {
		n := runtime.Stack(buf, true)
		if n < len(buf) {
			buf = buf[:n]
			break
		}
		buf = make([]byte, 2*len(buf))
	}
	var out []leaked
	tag := "synctest bubble " + id + "]"
	for _, blk := range strings.Split(string(buf), "\n\n") {
		hdr, body, _ := strings.Cut(blk, "\n")
		if !strings.Contains(hdr, tag) || strings.Contains(hdr, "[running") || strings.Contains(hdr, "[synctest.Run") {
			continue // not this bubble / the scanning goroutine / the goroutine that called synctest.Test
		}
		if strings.HasPrefix(body, "testing/synctest.testingSynctestTest") {
			continue
		}
		l := leaked{Stack: mon.Clip(blk, 1500)}
		if m := stateRe.FindStringSubmatch(hdr); m != nil {
			l.State = strings.TrimSuffix(m[1], " (durable)")
		}
		for _, line := range strings.Split(body, "\n") {
			if strings.HasPrefix(line, "github.com/c2FmZQ/ech.") {
				f := strings.TrimPrefix(line, "github.com/c2FmZQ/ech.")
				if i := strings.LastIndex(f, "("); i > 0 {
					f = f[:i]
				}
				f = strings.ReplaceAll(f, "[...]", "")
				if l.Frame == "" {
					l.Frame = f
				}
				if strings.Contains(f, "Dialer") {
					l.Dialer = true
				}
			}
		}
		out = append(out, l)
	}
	return out
}

// runScenario executes one scenario in a fresh bubble. scan requests the
// goroutine scan inside the bubble at quiescence; otherwise the scan is done
// only when the bubble reports that goroutines outlived it.
func runScenario(t *testing.T, sc *scenario, scan bool) *result {
	res := &result{}
	rec := &recorder{sc: sc, index: map[string]int{}, finErr: make([]error, len(sc.Targets)), inv: make([]int, len(sc.Targets))}
	for i, o := range sc.Targets {
		rec.index[fmt.Sprintf("10.0.0.%d:443", i+1)] = i
		rec.script = append(rec.script, &scriptErr{i})
		rj := &tls.ECHRejectionError{}
		if o.Rej == rejRetry {
			rj.RetryConfigList = []byte{0xfe, 0x0d, byte(i)} // opaque for Dial: only handed back to DialFunc in tc
		}
		rec.rej = append(rec.rej, rj)
	}
	network, addr := sc.addr()
	func() {
		// A bubble whose goroutines are all durably blocked, or whose test
		// function returned while goroutines remain, panics on the goroutine that
		// called synctest.Test: that is this one. It becomes a verdict below
		// instead of taking the process down.
		defer func() {
			if p := recover(); p != nil {
				res.BubbleErr = fmt.Sprint(p)
			}
		}()
		synctest.Test(t, func(t *testing.T) {
			res.Bubble = bubbleID()
			rec.t0 = time.Now()
			ctx, cancel := context.Background(), context.CancelFunc(func() {})
			switch sc.CancelKind {
			case cancelFunc:
				ctx, cancel = context.WithCancel(ctx)
				if sc.CancelAt == 0 {
					cancel()
				} else {
					tm := time.AfterFunc(sc.CancelAt, cancel)
					defer tm.Stop()
				}
			case cancelDeadline:
				ctx, cancel = context.WithDeadline(ctx, rec.t0.Add(sc.CancelAt))
			}
			d := &ech.Dialer[*fakeConn]{MaxConcurrency: sc.MaxConc, ConcurrencyDelay: sc.Delay, Timeout: sc.Timeout, DialFunc: rec.dial}
			func() {
				defer func() {
					if p := recover(); p != nil {
						res.Panic = fmt.Sprint(p)
						buf := make([]byte, 8192)
						res.PanicAt = mon.TopRepoFrame(buf[:runtime.Stack(buf, false)])
					}
				}()
				conn, err := d.Dial(ctx, network, addr, nil)
				e := event{Kind: "return", Target: -1}
				if conn != nil {
					e.Target = -2
					if conn.rec == rec {
						e.Target = conn.target
					}
				}
				if err != nil {
					e.Err = err.Error()
				}
				rec.add(e)
				res.Returned, res.Conn, res.Err = true, conn, err
			}()
			// quiescence: let every scripted duration, delay and timeout elapse
			synctest.Wait()
			if scan && res.Returned {
				// "leaves no goroutine behind once outstanding attempts have returned": at this very instant, when
				// no attempt is in flight any more, nothing of Dial may still be around (waiting out a delay, say)
				rec.mu.Lock()
				inflight := 0
				for _, e := range rec.ev {
					switch e.Kind {
					case "start":
						inflight++
					case "finish":
						inflight--
					}
				}
				rec.mu.Unlock()
				if inflight == 0 {
					res.EarlyScan = true
					for _, l := range scanBubble(res.Bubble) {
						if l.Dialer {
							res.Early = append(res.Early, l)
						}
					}
				}
			}
			time.Sleep(time.Hour)
			synctest.Wait()
			cancel()
			synctest.Wait()
			if scan {
				res.Leaked = scanBubble(res.Bubble)
				res.Scanned = true
			}
		})
	}()
	if res.BubbleErr != "" && !res.Scanned {
		res.Leaked = scanBubble(res.Bubble)
	}
	rec.mu.Lock()
	res.Events = append([]event(nil), rec.ev...)
	res.finErr = append([]error(nil), rec.finErr...)
	rec.mu.Unlock()
	res.script = rec.script
	return res
}

// ---- the trace specification ----

type finding struct{ sig, desc string }

type stats struct {
	winner, cancelled, joined, noAddress            bool
	lateClosed, timeouts, afterDecision             int
	maxInflight, wakeStarts, wakeOld                int
	cancelJoin                                      int
	attempts                                        int
	retries, rejNoCfg                               int // attempts with an ECH retry invocation; rejections without configs left alone
	retrySameDeadline, retryTimeouts                int // retry invocations under the attempt's own deadline; retries cut off at attempt start + Timeout
	boundShownByDeadline, boundNotVisibleInDeadline int // invocations whose ctx.Deadline() equals attempt start + Timeout / does not
}

func fmtD(d time.Duration) string { return fmt.Sprintf("%gms", float64(d)/1e6) }

// check judges one trace. Rules (virtual time; events at the same virtual
// instant may be ordered either way unless the log order itself proves the
// order):
//
//	S1 start times are non-decreasing in target order; started targets form a prefix; no target twice
//	S2 started-and-not-finished <= MaxConcurrency (default 3) at every point of the log
//	S3 start(k+1) >= start(k)+ConcurrencyDelay unless an earlier attempt failed at or before start(k+1),
//	   or the outcome was decided (LENIENT: any earlier failure excuses; the statement says
//	   "only after ConcurrencyDelay or an earlier failure" and wake-ups may be dropped, so only the lower bound is judged)
//	S4 every DialFunc invocation of an attempt (the first one and the ECH retry) that is entered with a live
//	   context has deadline == ATTEMPT start+Timeout (or the caller's earlier deadline); invocations that honour
//	   their context are back by then; a rejection without retry configs is not retried
//	S5 a success strictly before the return/cancellation => Dial returns that connection at that instant;
//	   the winner is never closed, every other established connection is closed by quiescence
//	S6 no success, no cancellation => every target attempted, error reaches every attempt's error via errors.Is;
//	   zero targets => "no address"
//	S7 undecided at the caller's cancellation instant c => Dial returns at c with a context error
//	S8 no goroutine of the bubble with a Dialer frame is alive at quiescence
//	S9 an attempt logged after Dial's return was entered with ctx.Err() != nil
func check(sc *scenario, res *result) (fs []finding, incon []string, st stats) {
	add := func(sig, f string, a ...any) { fs = append(fs, finding{sig, fmt.Sprintf(f, a...)}) }
	n := len(sc.Targets)
	if sc.Zero {
		n = 0
	}
	W, T, D := sc.MaxConc, sc.Timeout, sc.Delay
	if W <= 0 {
		W = 3
	}
	if T <= 0 {
		T = 30 * time.Second
	}
	if D <= 0 {
		D = time.Second
	}
	hasCancel := sc.CancelKind != cancelNever
	c := sc.CancelAt

	// An attempt is everything Dial does for one target: the first DialFunc
	// invocation and, after an ECH rejection with retry configs, the retry
	// invocation. S1-S3, S5, S6 judge attempts (start of the first invocation,
	// outcome and finish of the last); S4 and S9 judge every invocation.
	type invRec struct {
		finished, ok, retry bool
		sSeq, fSeq          int
		sAt, fAt            time.Duration
		hasDL               bool
		dl                  time.Duration
		ctxErr              string
	}
	type att struct {
		started, finished, ok bool
		sSeq, fSeq            int
		sAt, fAt              time.Duration
		closes                int
		inv                   []invRec
	}
	atts := make([]att, n)
	const never = int(^uint(0) >> 1)
	retSeq, retAt := never, time.Duration(1<<62)
	retTarget, retErr := -1, ""
	for _, e := range res.Events {
		switch e.Kind {
		case "start":
			if e.Target < 0 || e.Target >= n {
				add("targets:unexpected-attempt", "DialFunc called for an address that is not a target of this scenario (zero-target list or unknown address) at %s", fmtD(e.At))
				continue
			}
			a := &atts[e.Target]
			if len(a.inv) > 0 {
				first := &a.inv[0]
				switch {
				case len(a.inv) == 1 && first.finished && first.retry:
					// the ECH retry of the same target
				case len(a.inv) == 1 && first.finished && sc.Targets[e.Target].Rej == rejNoConfigs && !first.ok:
					add("retry:rejection-without-configs-retried", "target %d was dialled again at %s after an ECH rejection that carried no retry configs (a plain failure)", e.Target, fmtD(e.At))
					continue
				default:
					add("order:duplicate-start", "target %d dialled again at %s (first at %s) without a pending ECH retry", e.Target, fmtD(e.At), fmtD(a.sAt))
					continue
				}
			} else {
				a.started, a.sSeq, a.sAt = true, e.Seq, e.At
				st.attempts++
			}
			a.inv = append(a.inv, invRec{sSeq: e.Seq, sAt: e.At, hasDL: e.HasDL, dl: e.DL, ctxErr: e.CtxErr})
		case "finish":
			if e.Target >= 0 && e.Target < n && len(atts[e.Target].inv) > 0 {
				if iv := &atts[e.Target].inv[len(atts[e.Target].inv)-1]; !iv.finished {
					iv.finished, iv.ok, iv.retry, iv.fSeq, iv.fAt = true, e.OK, e.Retry, e.Seq, e.At
				}
			}
		case "close":
			if e.Target >= 0 && e.Target < n {
				atts[e.Target].closes++
			}
		case "return":
			retSeq, retAt, retTarget, retErr = e.Seq, e.At, e.Target, e.Err
		}
	}
	// The attempt's outcome is that of its last invocation. (A rejection with
	// retry configs that is NOT followed by a retry is judged as the failure it
	// is: the statement does not mention the retry, so its absence is no verdict.)
	delta := map[int]int{}
	for k := range atts {
		a := &atts[k]
		if !a.started {
			continue
		}
		last := &a.inv[len(a.inv)-1]
		a.finished, a.ok, a.fSeq, a.fAt = last.finished, last.ok, last.fSeq, last.fAt
		delta[a.sSeq]++
		if a.finished {
			delta[a.fSeq]--
		}
		if len(a.inv) > 1 {
			st.retries++
		}
		if sc.Targets[k].Rej == rejNoConfigs && len(a.inv) == 1 && a.finished && a.inv[0].fAt == a.sAt+sc.Targets[k].RD && !a.ok {
			var rj *tls.ECHRejectionError
			if errors.As(res.finErr[k], &rj) {
				st.rejNoCfg++
			}
		}
	}
	// in-flight attempts along the log (an attempt stays in flight between its rejection and its retry)
	inflight := 0
	for seq := range res.Events {
		inflight += delta[seq]
		if inflight > st.maxInflight {
			st.maxInflight = inflight
		}
	}

	// S1
	for j := 0; j < n; j++ {
		if !atts[j].started {
			continue
		}
		for i := 0; i < j; i++ {
			if !atts[i].started {
				add("order:skipped-target", "target %d was dialled (at %s) but the earlier target %d never was", j, fmtD(atts[j].sAt), i)
				break
			}
			if atts[i].sAt > atts[j].sAt {
				add("order:out-of-order", "target %d started at %s, before the earlier target %d (%s)", j, fmtD(atts[j].sAt), i, fmtD(atts[i].sAt))
				break
			}
		}
	}
	// S2
	if st.maxInflight > W {
		add("concurrency:exceeded", "%d attempts in flight with MaxConcurrency %d", st.maxInflight, W)
	}
	// S3
	usedFailure := map[int]bool{}
	for k := 1; k < n; k++ {
		p, a := &atts[k-1], &atts[k]
		if !p.started || !a.started {
			continue
		}
		if a.sSeq > retSeq || a.sAt >= retAt || (hasCancel && a.sAt >= c) {
			continue // outcome decided (or tied with the decision instant)
		}
		if a.sAt >= p.sAt+D {
			continue
		}
		// each failure wakes the feeder once, at the instant it happens, and wake-ups are not stored: an early start needs
		// its OWN failure (not used by an earlier early start) that happened since the previous start
		excused, recent := false, false
		for i := 0; i < k; i++ {
			if f := &atts[i]; f.finished && !f.ok && f.fAt <= a.sAt {
				excused = true
				if f.fAt >= p.sAt && !usedFailure[i] && !recent {
					recent = true
					usedFailure[i] = true
				}
			}
		}
		if !excused {
			add("delay:early-start", "target %d started at %s, only %s after target %d (%s) with ConcurrencyDelay %s, no earlier failure and the outcome undecided",
				k, fmtD(a.sAt), fmtD(a.sAt-p.sAt), k-1, fmtD(p.sAt), fmtD(D))
			continue
		}
		st.wakeStarts++
		if !recent {
			// A failure wakes the feeder at the instant it happens (the wake-up is not stored), so a start that comes
			// earlier than the delay must coincide with, or follow, a failure that happened SINCE the previous start.
			st.wakeOld++
			add("delay:early-start:no-failure-since-previous-start", "target %d started at %s, only %s after target %d (%s) with ConcurrencyDelay %s; the only earlier failures happened before target %d started",
				k, fmtD(a.sAt), fmtD(a.sAt-p.sAt), k-1, fmtD(p.sAt), fmtD(D), k-1)
		}
	}
	// S4, S9: every invocation
	for k := range atts {
		a := &atts[k]
		if !a.started {
			continue
		}
		want := a.sAt + T // one deadline for the whole attempt, counted from the attempt's start
		if sc.CancelKind == cancelDeadline && c < want {
			want = c
		}
		for j := range a.inv {
			iv := &a.inv[j]
			what := fmt.Sprintf("target %d", k)
			if j > 0 {
				what = fmt.Sprintf("the ECH retry of target %d (attempt started %s)", k, fmtD(a.sAt))
			}
			if iv.sSeq > retSeq {
				if j == 0 {
					st.afterDecision++
				}
				if iv.ctxErr == "" {
					add("late-attempt:live-context", "%s was dialled at %s, after Dial had returned at %s, with a context that was not cancelled", what, fmtD(iv.sAt), fmtD(retAt))
				}
			}
			if iv.ctxErr != "" {
				continue // already cancelled: trivially bounded
			}
			o := sc.Targets[k]
			honours := o.K == kSucc || o.K == kFail || o.K == kHang
			if j == 0 && o.Rej != rejNone {
				honours = true
			}
			// What ctx.Deadline() says can prove that the bound is in place (a deadline at start + Timeout) or that the
			// attempt will be cut short (an earlier one). It cannot refute the bound: an implementation may enforce
			// the Timeout with a timer that cancels the context, which then shows no deadline of its own or only the
			// caller's. Whether the bound holds is judged on the attempts that wait for their context to end (below).
			switch {
			case iv.hasDL && iv.dl < want:
				add("timeout:deadline-early", "%s dialled at %s with context deadline %s, want %s (Timeout %s)", what, fmtD(iv.sAt), fmtD(iv.dl), fmtD(want), fmtD(T))
			case iv.hasDL && iv.dl == want:
				st.boundShownByDeadline++
				if j > 0 {
					st.retrySameDeadline++
				}
			default:
				st.boundNotVisibleInDeadline++
				if j > 0 {
					st.retrySameDeadline++ // entered with a live context; whether the attempt's bound still applies shows below
				}
			}
			if honours {
				if !iv.finished {
					add("timeout:not-released", "%s (invocation started %s) never saw its context end", what, fmtD(iv.sAt))
				} else if iv.fAt > want && j > 0 {
					add("timeout:retry-deadline-restarted", "%s (invocation started %s) was released at %s; the attempt as a whole is bounded by its start + Timeout %s = %s",
						what, fmtD(iv.sAt), fmtD(iv.fAt), fmtD(T), fmtD(want))
				} else if iv.fAt > want {
					add("timeout:not-released", "%s (invocation started %s) was released at %s, after attempt start + Timeout = %s", what, fmtD(iv.sAt), fmtD(iv.fAt), fmtD(want))
				} else if j == len(a.inv)-1 && !iv.ok && iv.fAt == a.sAt+T { // cut off by the Timeout (whatever error value the context then reports)
					st.timeouts++
					if j > 0 {
						st.retryTimeouts++
					}
				}
			}
		}
	}

	// S5..S7: Dial's result
	switch {
	case res.Panic != "":
		add("panic@"+res.PanicAt, "Dial panicked: %s", res.Panic)
	case !res.Returned:
		// handled with the bubble verdict below
	default:
		if hasCancel && c < retAt {
			add("cancel:late-return", "the caller's context ended at %s but Dial returned at %s", fmtD(c), fmtD(retAt))
		}
		earliest := -1 // earliest success strictly before the return instant
		for k := range atts {
			if a := &atts[k]; a.finished && a.ok && a.fAt < retAt && (earliest < 0 || a.fAt < atts[earliest].fAt) {
				earliest = k
			}
		}
		if res.Err == nil {
			st.winner = true
			switch {
			case retTarget < 0 || retTarget >= n || !atts[retTarget].finished || !atts[retTarget].ok || atts[retTarget].fSeq > retSeq:
				add("winner:unknown-conn", "Dial returned a nil error with a connection (%d) that no finished attempt produced", retTarget)
				retTarget = -1
			default:
				w := &atts[retTarget]
				if earliest >= 0 && atts[earliest].fAt < w.fAt {
					add("winner:not-earliest", "Dial returned the connection of target %d (established %s) although target %d succeeded at %s", retTarget, fmtD(w.fAt), earliest, fmtD(atts[earliest].fAt))
				} else if w.fAt < retAt {
					add("winner:late-return", "target %d succeeded at %s but Dial returned only at %s", retTarget, fmtD(w.fAt), fmtD(retAt))
				}
				if w.closes > 0 {
					add("winner:closed", "the connection Dial returned (target %d) was closed by Dial", retTarget)
				}
			}
		} else {
			retTarget = -1
			isCtx := errors.Is(res.Err, context.Canceled) || errors.Is(res.Err, context.DeadlineExceeded)
			// the full join: every target attempted and finished before the return, every error reachable
			joinProblem := ""
			if n == 0 {
				if retErr != "no address" {
					joinProblem = fmt.Sprintf("zero targets but the error is %q, want \"no address\"", retErr)
				}
			} else {
				for k := range atts {
					a := &atts[k]
					if !a.started || !a.finished || a.fSeq > retSeq {
						joinProblem = fmt.Sprintf("target %d had not been attempted to completion when Dial returned %q at %s", k, retErr, fmtD(retAt))
						break
					}
					if !a.ok && !errors.Is(res.Err, res.finErr[k]) {
						joinProblem = fmt.Sprintf("the error %q does not contain the error of target %d (%v)", retErr, k, res.finErr[k])
						break
					}
				}
			}
			switch {
			case earliest >= 0 && (!hasCancel || atts[earliest].fAt < c):
				add("winner:missed", "target %d succeeded at %s but Dial returned the error %q at %s", earliest, fmtD(atts[earliest].fAt), retErr, fmtD(retAt))
			case hasCancel && c == retAt:
				// Cancellation instant. The statement only says "returns promptly on
				// cancellation" and is silent on the error value, so LENIENT: a context
				// error, the complete join, or a join of some of the attempts' errors
				// (the others were dropped because the context was done) all pass.
				// What does not pass is the text "no address" for a list that has
				// targets: that is the zero-target answer of S6 and is false here.
				switch {
				case isCtx:
					st.cancelled = true
				case joinProblem == "":
					st.cancelJoin++
				case retErr == "no address" && n > 0:
					add("cancel:no-address-despite-targets", "the caller's context ended at %s and Dial returned %q at that instant although the list has %d targets (%d were dialled); expected the context's error or the attempts' errors",
						fmtD(c), retErr, n, st.attempts)
				default:
					st.cancelJoin++
				}
			case hasCancel && c < retAt:
				// already reported as cancel:late-return
			default:
				if joinProblem == "" {
					if n == 0 {
						st.noAddress = true
					} else {
						st.joined = true
					}
				} else if n == 0 {
					add("error:not-no-address", "%s", joinProblem)
				} else if strings.HasPrefix(joinProblem, "target") {
					add("error:premature", "no attempt had succeeded and the caller had not cancelled: %s", joinProblem)
				} else {
					add("error:not-joined", "%s", joinProblem)
				}
			}
		}
		// every established connection other than the winner is closed by quiescence
		for k := range atts {
			a := &atts[k]
			if !a.finished || !a.ok || k == retTarget {
				continue
			}
			if a.closes == 0 {
				add("close:late-winner-leaked", "target %d established a connection at %s (Dial returned at %s, winner %d) that was never closed", k, fmtD(a.fAt), fmtD(retAt), retTarget)
			} else {
				st.lateClosed++
			}
		}
	}

	// S8 and the bubble's own verdict
	for _, l := range res.Early {
		add("leak:outlives-dial-and-its-attempts:"+l.State+"@"+l.Frame, "goroutine of Dial still alive although Dial has returned and no attempt is in flight: [%s] in %s", l.State, l.Frame)
	}
	nDialer := 0
	for _, l := range res.Leaked {
		if l.Dialer {
			nDialer++
			if res.Returned {
				add("leak:"+l.State+"@"+l.Frame, "goroutine still alive after all attempts returned and one virtual hour passed: [%s] in %s", l.State, l.Frame)
			}
		}
	}
	if !res.Returned && res.Panic == "" {
		if nDialer > 0 {
			l := res.Leaked[0]
			for _, x := range res.Leaked {
				if strings.Contains(x.Stack, ").Dial(") {
					l = x
				}
			}
			add("hang:dial-never-returned@"+l.State, "Dial never returned although no timer was left in the bubble (%s); blocked [%s] in %s", res.BubbleErr, l.State, l.Frame)
		} else {
			incon = append(incon, fmt.Sprintf("scenario %s: Dial did not return and no Dialer goroutine was found (bubble: %q)", sc, res.BubbleErr))
		}
	} else {
		if res.BubbleErr != "" && nDialer == 0 {
			incon = append(incon, fmt.Sprintf("scenario %s: synctest reported %q but the scan found no Dialer goroutine (%d others)", sc, res.BubbleErr, len(res.Leaked)))
		}
		if res.Scanned && res.BubbleErr == "" && len(res.Leaked) > 0 {
			incon = append(incon, fmt.Sprintf("scenario %s: the scan found %d live goroutines but the bubble ended cleanly", sc, len(res.Leaked)))
		}
	}
	return fs, incon, st
}

// ---- payloads ----

func evJSON(evs []event) []map[string]any {
	out := make([]map[string]any, 0, len(evs))
	for _, e := range evs {
		m := map[string]any{"seq": e.Seq, "kind": e.Kind, "target": e.Target, "at_ms": float64(e.At) / 1e6}
		if e.Kind == "start" || e.Kind == "finish" {
			m["invocation"] = e.Inv
		}
		if e.Retry {
			m["ech_rejection_with_retry_configs"] = true
		}
		switch e.Kind {
		case "start":
			m["ctx_err"] = e.CtxErr
			m["ctx_has_deadline"] = e.HasDL
			if e.HasDL {
				m["ctx_deadline_ms"] = float64(e.DL) / 1e6
			}
		case "finish":
			m["ok"] = e.OK
			m["err"] = e.Err
		case "return":
			m["err"] = e.Err
		}
		out = append(out, m)
	}
	return out
}

func payload(sc *scenario, res *result) map[string]any {
	var ts []string
	for _, o := range sc.Targets {
		ts = append(ts, o.String())
	}
	network, addr := sc.addr()
	m := map[string]any{
		"scenario": sc.String(),
		"legend": "S<ms> succeed after, F<ms> fail after (both stop early with ctx.Err() when the context ends), H hang until the context ends, SU/FU<ms> the same ignoring the context, " +
			"R<ms>>X first invocation returns a tls.ECHRejectionError with retry configs after <ms> and the retry invocation behaves as X, RN<ms> rejection without retry configs",
		"targets": ts, "network": network, "addr": addr,
		"max_concurrency": sc.MaxConc, "concurrency_delay_ms": float64(sc.Delay) / 1e6, "timeout_ms": float64(sc.Timeout) / 1e6,
		"cancel_kind": []string{"never", "cancel()", "deadline"}[sc.CancelKind], "cancel_at_ms": float64(sc.CancelAt) / 1e6,
		"events": evJSON(res.Events), "dial_returned": res.Returned,
	}
	if res.Err != nil {
		m["dial_err"] = res.Err.Error()
	}
	if res.BubbleErr != "" {
		m["bubble_panic"] = res.BubbleErr
	}
	if len(res.Leaked) > 0 {
		m["live_goroutines"] = res.Leaked
	}
	return m
}

// ---- the check ----

func TestCheck(t *testing.T) {
	r := mon.Start(t, "C18", "exploration")
	defer r.Finish()
	r.SetRule(fmt.Sprintf("scenario = per-target scripted outcome x Dialer settings x caller cancellation, each run in its own synctest bubble (virtual time). "+
		"EXHAUSTIVE sub-space (workload grid, %d scenarios, identical for every seed): every assignment of {S0,S10,S100,F0,F10,F100,H,SU10,SU100,FU100} "+
		"(S/F = succeed/fail after n ms or return ctx.Err() if the context ends first, H = hang until the context ends, SU/FU = ignore the context) to 0..3 targets "+
		"x MaxConcurrency 1..4 x ConcurrencyDelay {10,100} ms x Timeout {50,500} ms x caller cancel() at {never,0,5,60,600} ms. "+
		"SECOND EXHAUSTIVE sub-space (workload retrygrid, %d scenarios): 1..2 targets over those letters + {R10>S10,R10>F10,R10>H,R10>SU100,R100>S10,RN10} with at least one R letter "+
		"(R<a>>X = the first DialFunc invocation returns a tls.ECHRejectionError with retry configs after a ms and the retry invocation of the same target behaves as X; RN = rejection without retry configs), same settings. "+
		"Workload rand: seed-drawn scenarios, 1..5 targets (mostly 4-5; 2%% address lists without any target), durations {0,1,10,50,100,1000} ms, 13%% of the targets with an ECH rejection first, "+
		"MaxConcurrency 0(default)..4, delay {10,100,default 1 s}, timeout {50,500,default 30 s}, caller cancel()/deadline at {0,5,60,600} ms. "+
		"distinct = distinct scenario strings whose Dial call was executed and whose full event trace was judged", gridSize(), retryGridSize()))
	r.SetExhaustive(true)
	r.Assume("testing/synctest of the building toolchain (virtual clock, durable blocking, bubble deadlock detection)",
		"context and time of the standard library",
		"Resolver.Resolve answers IP literals without network and Targets keeps the list order (driven through the real code, not modelled)",
		"events at one virtual instant are unordered unless the mutex-ordered event log proves an order",
		"true parallel interleavings inside Dial are only exercised, not enumerated (the -race stage looks at them)")

	var (
		nScen, nWinner, nLateClosed, nCancel, nTimeouts, nAfter, nJoined, nNoAddr, nWake, nWakeOld, nAttempts, nScanned, nCancelJoin, nRetries, nRejNoCfg, nRetrySameDL, nRetryTimeouts atomic.Int64
		inflightSeen                                                                                                                                                                    [8]atomic.Int64
	)
	// A bubble that ends with blocked goroutines keeps them (and their memory)
	// for the rest of the process, and every such event costs a whole-process
	// stack dump. After maxBubbleFailures of them the verdict is settled; the
	// remaining scenarios are skipped (the floors then also report the gap).
	var nPreCancelledReps atomic.Int64
	const maxBubbleFailures = 64
	var nIncon, nBubbleFail, nSkipped atomic.Int64
	run := func(work string, i int, sc scenario) {
		if nBubbleFail.Load() >= maxBubbleFailures && !r.Replaying() {
			nSkipped.Add(1)
			return
		}
		scan := r.Replaying() || i%64 == 0
		res := runScenario(t, &sc, scan)
		if res.BubbleErr != "" {
			nBubbleFail.Add(1)
		}
		fs, incon, st := check(&sc, res)
		// A context that has already ended when Dial is called meets Dial's own start-up: which of several ready
		// channel operations wins is up to the scheduler. These scenarios end at once, so each is run several times.
		if sc.CancelKind == cancelFunc && sc.CancelAt == 0 && len(sc.Targets) > 0 && !r.Replaying() {
			for rep := 0; rep < 12 && len(fs) == 0 && res.BubbleErr == ""; rep++ {
				res2 := runScenario(t, &sc, false)
				if fs2, incon2, st2 := check(&sc, res2); len(fs2) > 0 {
					res, fs, incon, st = res2, fs2, incon2, st2
				}
				nPreCancelledReps.Add(1)
			}
		}
		if r.Replaying() && len(fs) == 0 {
			// Same-instant races inside Dial are scheduler dependent: when a single
			// case is replayed and does not refute at once, repeat it (case count,
			// not a time budget) on all cores until it does.
			var mu sync.Mutex
			var stop atomic.Bool
			var reps atomic.Int64
			var wg sync.WaitGroup
			for w := 0; w < runtime.GOMAXPROCS(0); w++ {
				wg.Add(1)
				go func() {
					defer wg.Done()
					for !stop.Load() && reps.Add(1) <= 400000 {
						res2 := runScenario(t, &sc, false)
						if fs2, incon2, st2 := check(&sc, res2); len(fs2) > 0 {
							mu.Lock()
							if !stop.Load() {
								stop.Store(true)
								res, fs, incon, st = res2, fs2, incon2, st2
							}
							mu.Unlock()
						}
					}
				}()
			}
			wg.Wait()
			r.Extra("replay_repetitions", reps.Load())
		}
		r.Eval(sc.String())
		nScen.Add(1)
		if res.Scanned {
			nScanned.Add(1)
		}
		if st.winner {
			nWinner.Add(1)
		}
		if st.cancelled {
			nCancel.Add(1)
		}
		if st.joined {
			nJoined.Add(1)
		}
		if st.noAddress {
			nNoAddr.Add(1)
		}
		nLateClosed.Add(int64(st.lateClosed))
		nTimeouts.Add(int64(st.timeouts))
		nAfter.Add(int64(st.afterDecision))
		nWake.Add(int64(st.wakeStarts))
		nWakeOld.Add(int64(st.wakeOld))
		nAttempts.Add(int64(st.attempts))
		if st.maxInflight < len(inflightSeen) {
			inflightSeen[st.maxInflight].Add(1)
		}
		nCancelJoin.Add(int64(st.cancelJoin))
		nRetries.Add(int64(st.retries))
		nRejNoCfg.Add(int64(st.rejNoCfg))
		nRetrySameDL.Add(int64(st.retrySameDeadline))
		nRetryTimeouts.Add(int64(st.retryTimeouts))
		for _, m := range incon {
			if nIncon.Add(1) <= 5 {
				r.Inconclusive("%s", m)
			}
		}
		if len(fs) > 0 {
			p := payload(&sc, res)
			for _, f := range fs {
				r.Violate(work, i, f.sig, f.desc+" — scenario "+sc.String(), p)
			}
		}
		if i < 3 {
			p := payload(&sc, res)
			p["workload"], p["index"] = work, i
			r.Sample(p)
		}
	}

	// Quick and thorough both run the complete grid; only the number of drawn scenarios differs.
	r.Parallel("grid", gridSize(), func(i int, _ *mrand.Rand) { run("grid", i, gridScenario(i)) })
	r.Parallel("retrygrid", retryGridSize(), func(i int, _ *mrand.Rand) { run("retrygrid", i, retryGridScenario(i)) })
	nRand := r.N(120000, 2000000)
	if raceOn {
		nRand = 150000
	}
	r.Parallel("rand", nRand, func(i int, rng *mrand.Rand) { run("rand", i, randScenario(rng)) })

	// Connection types without a Close() error method: ech/quic instantiates Dialer[*quic.Conn], whose only way to end
	// a connection is CloseWithError. Two targets succeed 1 ms apart; the one that loses is established after the outcome.
	{
		r.ParallelW("noclose", 4, 1, func(i int, _ *mrand.Rand) {
			var first, second *quicLikeConn
			var derr error
			bubbleErr := ""
			func() {
				defer func() {
					if p := recover(); p != nil {
						bubbleErr = fmt.Sprint(p)
					}
				}()
				synctest.Test(t, func(t *testing.T) {
					var mu sync.Mutex
					var made []*quicLikeConn
					d := &ech.Dialer[*quicLikeConn]{MaxConcurrency: 2 + i%2, ConcurrencyDelay: time.Millisecond, Timeout: time.Second,
						DialFunc: func(ctx context.Context, network, addr string, tc *tls.Config) (*quicLikeConn, error) {
							time.Sleep(10 * time.Millisecond) // established whether or not the outcome is decided meanwhile
							c := &quicLikeConn{addr: addr}
							mu.Lock()
							made = append(made, c)
							mu.Unlock()
							return c, nil
						}}
					first, derr = d.Dial(context.Background(), "tcp", "10.0.0.1:443,10.0.0.2:443", nil)
					synctest.Wait()
					time.Sleep(time.Hour)
					synctest.Wait()
					mu.Lock()
					for _, c := range made {
						if c != first {
							second = c
						}
					}
					mu.Unlock()
				})
			}()
			c := map[string]any{"connection_type": "has CloseWithError(code, reason) but no Close() error, like *quic.Conn", "bubble_error": bubbleErr}
			r.Eval(fmt.Sprintf("noclose|%d", i))
			switch {
			case bubbleErr != "" || derr != nil || first == nil:
				r.Inconclusive("noclose scenario did not run to its end: %v %s", derr, bubbleErr)
			case second == nil:
				r.Count("noclose_single_connection", 1)
			case !second.closed.Load():
				r.Violate("noclose", i, "leak:losing-connection-never-closed:type-without-Close-method", fmt.Sprintf("Dial returned the connection to %s; the connection to %s, established 1 ms later, was never closed (its type offers CloseWithError only)", first.addr, second.addr), c)
			default:
				r.Count("noclose_loser_closed", 1)
			}
		})
	}

	r.Count("scenarios", nScen.Load())
	if n := nSkipped.Load(); n > 0 {
		r.Count("scenarios_skipped_after_repeated_goroutine_leaks", n)
	}
	r.Count("repetitions_of_scenarios_with_an_already_ended_context", nPreCancelledReps.Load())
	r.Count("attempts_started", nAttempts.Load())
	r.Count("scenarios_with_winner", nWinner.Load())
	r.Count("late_winners_closed", nLateClosed.Load())
	r.Count("scenarios_cancelled_by_caller", nCancel.Load())
	r.Count("scenarios_all_failed_joined", nJoined.Load())
	r.Count("scenarios_attempt_errors_returned_at_cancellation_instant", nCancelJoin.Load())
	r.Count("scenarios_no_address", nNoAddr.Load())
	r.Count("attempt_timeouts_hit", nTimeouts.Load())
	r.Count("attempts_started_after_decision", nAfter.Load())
	r.Count("starts_advanced_by_failure", nWake.Load())
	r.Count("starts_advanced_by_failure_older_than_previous_start", nWakeOld.Load())
	r.Count("in_bubble_goroutine_scans", nScanned.Load())
	r.Count("attempts_with_ech_retry", nRetries.Load())
	r.Count("ech_retries_entered_live_under_the_attempt_deadline", nRetrySameDL.Load())
	r.Count("ech_retries_cut_off_at_attempt_start_plus_timeout", nRetryTimeouts.Load())
	r.Count("ech_rejections_without_retry_configs_not_retried", nRejNoCfg.Load())
	maxSeen := 0
	for k := range inflightSeen {
		if v := inflightSeen[k].Load(); v > 0 {
			r.Count(fmt.Sprintf("scenarios_max_in_flight_%d", k), v)
			maxSeen = k
		}
	}
	r.Extra("max_in_flight_seen", maxSeen)
	r.Extra("grid_scenarios", gridSize())
	r.Extra("retrygrid_scenarios", retryGridSize())

	// Floors: the seed-independent grid provides every class; the values are 5-20 times below what a quick run observes
	// (same-instant ties make the counters vary by a fraction of a percent between runs).
	r.Floor("scenarios", int64(gridSize()+retryGridSize()))
	r.Floor("attempts_with_ech_retry", 2000)
	r.Floor("ech_retries_entered_live_under_the_attempt_deadline", 2000)
	r.Floor("ech_retries_cut_off_at_attempt_start_plus_timeout", 200)
	r.Floor("ech_rejections_without_retry_configs_not_retried", 500)
	r.Floor("scenarios_with_winner", 20000)
	r.Floor("late_winners_closed", 10000)
	r.Floor("scenarios_cancelled_by_caller", 10000)
	r.Floor("scenarios_all_failed_joined", 3000)
	r.Floor("scenarios_no_address", 40)
	r.Floor("attempt_timeouts_hit", 5000)
	r.Floor("attempts_started_after_decision", 5000)
	r.Floor("starts_advanced_by_failure", 3000)
	r.Floor("scenarios_max_in_flight_3", 1000)
	r.Floor("in_bubble_goroutine_scans", 50)
}
