// C15 — Connection targets are a pure, rule-conforming function of the
// resolution result.
//
// Monitor: random ResolveResults (model first, then the real value built from
// the model with spare slice capacity filled with sentinels) are enumerated
// with the real ResolveResult.Targets for the six networks; the yielded
// sequence is compared with a reference enumeration written from the property
// statement; the whole result, including the hidden capacity region
// s[len(s):cap(s)] of every slice, is snapshotted before and after.
package c15

import (
	"bytes"
	"fmt"
	"iter"
	mrand "math/rand/v2"
	"net"
	"net/netip"
	"runtime/debug"
	"strings"
	"sync"
	"sync/atomic"
	"testing"

	"github.com/c2FmZQ/ech"
	"github.com/c2FmZQ/ech/dns"

	"verif/harness/internal/mon"
)

// ---- model of a resolution result (independent of the package's types) ----

type mRec struct {
	Priority  uint16
	Target    string
	Port      uint16
	V4, V6    [][]byte
	ALPN      []string
	ALPNSpare int // hidden capacity behind ALPN, filled with sentinels
	ShareOf   int // >=0: ALPN is a longer slice of record ShareOf's backing array
	NoDef     bool
	ECH       []byte // nil = absent
}

type mRes struct {
	Port    uint16
	Addr    [][]byte
	Recs    []mRec
	Add     map[string][][]byte // nil = nil map
	Spare   int                 // hidden capacity behind every other slice
	NilAddr bool                // Address is a nil slice (only when empty)
}

var networks = [6]string{"tcp", "tcp4", "tcp6", "udp", "udp4", "udp6"}

var v4pool = [][]byte{{192, 0, 2, 1}, {192, 0, 2, 2}, {198, 51, 100, 7}, {203, 0, 113, 9}, {10, 0, 0, 1}, {127, 0, 0, 1}}
var v6pool = func() [][]byte {
	var out [][]byte
	for _, s := range []string{"2001:db8::1", "2001:db8::2", "2001:db8:1::5", "fe80::1", "::1", "2606:4700::6810:84e5"} {
		a := netip.MustParseAddr(s).As16()
		out = append(out, a[:])
	}
	return out
}()
var alpnPool = []string{"h2", "h3", "http/1.1", "h2c", "spdy/3", "foo"}

// names that may be keys of Additional; "absent.example" never is.
// Additional is keyed by the exact spelling of the target in its record: two spellings that differ in case are two keys.
var namePool = []string{"a.example", "b.example.", "c.example.net", "MiXed.Example", "mixed.example", "absent.example"}

func pickIP(rng *mrand.Rand) []byte {
	if rng.IntN(5) < 3 {
		ip := v4pool[rng.IntN(len(v4pool))]
		if rng.IntN(4) == 0 {
			return net.IP(ip).To16() // the spelling net.ParseIP returns
		}
		return ip
	}
	return v6pool[rng.IntN(len(v6pool))]
}

func pickIPs(rng *mrand.Rand, n int) [][]byte {
	out := make([][]byte, 0, n)
	for j := 0; j < n; j++ {
		if j > 0 && rng.IntN(5) == 0 {
			out = append(out, out[rng.IntN(j)]) // explicit duplicate
			continue
		}
		out = append(out, pickIP(rng))
	}
	return out
}

func gen(rng *mrand.Rand, i int) *mRes {
	m := &mRes{Spare: rng.IntN(3)}
	switch i % 3 {
	case 0:
		m.Port = 443
	case 1:
		m.Port = 80
	default:
		m.Port = []uint16{8443, 8080, 1, 65535, uint16(1 + rng.IntN(65535))}[rng.IntN(5)]
		if m.Port == 80 || m.Port == 443 {
			m.Port = 8443
		}
	}
	if rng.IntN(10) >= 3 {
		m.Addr = pickIPs(rng, 1+rng.IntN(4))
	} else {
		m.NilAddr = rng.IntN(2) == 0
	}
	if rng.IntN(4) > 0 {
		m.Add = map[string][][]byte{}
		for _, n := range namePool[:len(namePool)-1] {
			switch rng.IntN(4) {
			case 0: // absent
			case 1:
				m.Add[n] = nil // present, no addresses
			default:
				m.Add[n] = pickIPs(rng, 1+rng.IntN(3))
			}
		}
	}
	nrec := rng.IntN(7)
	for j := 0; j < nrec; j++ {
		h := mRec{ShareOf: -1}
		if rng.IntN(5) > 0 {
			h.Priority = uint16(1 + rng.IntN(4))
			if rng.IntN(10) == 0 {
				h.Priority = uint16(1 + rng.IntN(65535))
			}
		}
		if rng.IntN(2) == 0 {
			h.Target = namePool[rng.IntN(len(namePool))]
		}
		if rng.IntN(5) >= 3 {
			h.Port = []uint16{443, 8443, 80, 4443, uint16(1 + rng.IntN(65535))}[rng.IntN(5)]
		}
		for k := rng.IntN(3); k > 0; k-- {
			h.V4 = append(h.V4, v4pool[rng.IntN(len(v4pool))])
		}
		for k := rng.IntN(3); k > 0; k-- {
			h.V6 = append(h.V6, v6pool[rng.IntN(len(v6pool))])
		}
		for k := rng.IntN(6); k > 0; k-- {
			h.ALPN = append(h.ALPN, alpnPool[rng.IntN(len(alpnPool))])
		}
		h.ALPNSpare = rng.IntN(4)
		if j%2 == 0 && i%2 == 0 && h.ALPNSpare == 0 {
			h.ALPNSpare = 1 // forced representatives of the spare-capacity class
		}
		h.NoDef = rng.IntN(10) < 3
		if rng.IntN(5) >= 2 {
			h.ECH = make([]byte, 1+rng.IntN(8))
			for k := range h.ECH {
				h.ECH[k] = byte(rng.IntN(256))
			}
		}
		m.Recs = append(m.Recs, h)
	}
	// rare class: two records whose ALPN slices are sub-slices of one backing
	// array (a legal Go value; e.g. a record list derived from another one).
	if nrec >= 2 && i%50 == 7 {
		a := rng.IntN(nrec - 1)
		b := a + 1 + rng.IntN(nrec-1-a)
		base := []string{"h3", "h2", "h2c", "foo"}
		na := rng.IntN(3)
		m.Recs[a].ALPN = base[:na]
		m.Recs[a].ALPNSpare = 4 - na + 1
		m.Recs[b].ALPN = base[:na+1+rng.IntN(4-na)]
		m.Recs[b].ShareOf = a
		m.Recs[b].ALPNSpare = 0
	}
	return m
}

func ipStrings(s [][]byte) []string {
	out := make([]string, len(s))
	for i, b := range s {
		out[i] = net.IP(b).String()
	}
	return out
}

func (m *mRes) JSON() map[string]any {
	recs := []any{}
	for _, h := range m.Recs {
		recs = append(recs, map[string]any{"priority": h.Priority, "target": h.Target, "port": h.Port,
			"ipv4hint": ipStrings(h.V4), "ipv6hint": ipStrings(h.V6), "alpn": h.ALPN, "alpn_len": len(h.ALPN),
			"alpn_spare_capacity": h.ALPNSpare, "alpn_shares_array_of_record": h.ShareOf, "no_default_alpn": h.NoDef,
			"ech": mon.Hex(h.ECH), "ech_nil": h.ECH == nil})
	}
	var add map[string][]string
	if m.Add != nil {
		add = map[string][]string{}
		for k, v := range m.Add {
			add[k] = ipStrings(v)
		}
	}
	return map[string]any{"port": m.Port, "address": ipStrings(m.Addr), "https": recs, "additional": add,
		"additional_nil": m.Add == nil, "other_slices_spare_capacity": m.Spare}
}

// ---- building the real value with sentinel-filled spare capacity ----

func mkIP(b []byte, spare int) net.IP {
	ip := make(net.IP, len(b), len(b)+spare)
	copy(ip, b)
	full := ip[:cap(ip)]
	for i := len(b); i < len(full); i++ {
		full[i] = 0xA5
	}
	return ip
}

func mkIPs(src [][]byte, spare int, nilOK bool) []net.IP {
	if len(src) == 0 && nilOK {
		return nil
	}
	out := make([]net.IP, len(src), len(src)+spare)
	full := out[:cap(out)]
	for i := range full {
		if i < len(src) {
			full[i] = mkIP(src[i], spare)
		} else {
			full[i] = net.IP{0xEE, 0xEE, 0xEE, byte(i)}
		}
	}
	return out
}

func sentinel(i int) string { return fmt.Sprintf("SENTINEL-%d", i) }

// build is a deterministic function of the model.
func build(m *mRes) ech.ResolveResult {
	r := ech.ResolveResult{Port: m.Port}
	r.Address = mkIPs(m.Addr, m.Spare, m.NilAddr)
	if m.Add != nil {
		r.Additional = make(map[string][]net.IP, len(m.Add))
		for k, v := range m.Add {
			r.Additional[k] = mkIPs(v, m.Spare, v == nil)
		}
	}
	if len(m.Recs) > 0 || m.Spare > 0 {
		r.HTTPS = make([]dns.HTTPS, len(m.Recs), len(m.Recs)+m.Spare)
	}
	full := r.HTTPS[:cap(r.HTTPS)]
	for i := range full {
		if i >= len(m.Recs) {
			full[i] = dns.HTTPS{Priority: 0xEEEE, Target: "SENTINEL-RECORD", Port: 0xEEEE}
			continue
		}
		h := &m.Recs[i]
		d := dns.HTTPS{Priority: h.Priority, Target: h.Target, Port: h.Port, NoDefaultALPN: h.NoDef}
		d.IPv4Hint = mkIPs(h.V4, m.Spare, true)
		d.IPv6Hint = mkIPs(h.V6, m.Spare, true)
		if h.ECH != nil {
			d.ECH = make([]byte, len(h.ECH), len(h.ECH)+m.Spare)
			copy(d.ECH, h.ECH)
			fe := d.ECH[:cap(d.ECH)]
			for k := len(h.ECH); k < len(fe); k++ {
				fe[k] = 0x5A
			}
		}
		if h.ShareOf >= 0 {
			base := full[h.ShareOf].ALPN
			d.ALPN = base[:len(h.ALPN)] // legal: len(h.ALPN) <= cap(base) by construction
			copy(d.ALPN[len(base):], h.ALPN[len(base):])
		} else if len(h.ALPN) > 0 || h.ALPNSpare > 0 {
			d.ALPN = make([]string, len(h.ALPN), len(h.ALPN)+h.ALPNSpare)
			copy(d.ALPN, h.ALPN)
			fa := d.ALPN[:cap(d.ALPN)]
			for k := len(h.ALPN); k < len(fa); k++ {
				fa[k] = sentinel(k)
			}
		}
		full[i] = d
	}
	return r
}

// ---- snapshot including hidden capacity ----

func snapIPs(b []byte, s []net.IP) []byte {
	nilf := byte(0)
	if s == nil {
		nilf = 1
	}
	b = append(b, nilf, byte(len(s)), byte(cap(s)))
	for _, ip := range s[:cap(s)] {
		b = append(b, byte(len(ip)), byte(cap(ip)))
		b = append(b, ip[:cap(ip)]...)
	}
	return b
}

func snapStr(b []byte, s string) []byte {
	b = append(b, byte(len(s)))
	return append(b, s...)
}

func snap(b []byte, r *ech.ResolveResult) []byte {
	b = append(b, byte(r.Port>>8), byte(r.Port))
	b = snapIPs(b, r.Address)
	b = append(b, byte(len(r.HTTPS)), byte(cap(r.HTTPS)))
	for i := range r.HTTPS[:cap(r.HTTPS)] {
		h := &r.HTTPS[:cap(r.HTTPS)][i]
		b = append(b, byte(h.Priority>>8), byte(h.Priority), byte(h.Port>>8), byte(h.Port))
		if h.NoDefaultALPN {
			b = append(b, 1)
		} else {
			b = append(b, 0)
		}
		b = snapStr(b, h.Target)
		b = append(b, byte(len(h.ALPN)), byte(cap(h.ALPN)))
		for _, a := range h.ALPN[:cap(h.ALPN)] {
			b = snapStr(b, a)
		}
		b = snapIPs(b, h.IPv4Hint)
		b = snapIPs(b, h.IPv6Hint)
		if h.ECH == nil {
			b = append(b, 1)
		} else {
			b = append(b, 0)
		}
		b = append(b, byte(len(h.ECH)), byte(cap(h.ECH)))
		b = append(b, h.ECH[:cap(h.ECH)]...)
	}
	if r.Additional == nil {
		b = append(b, 1, 0)
	} else {
		b = append(b, 0, byte(len(r.Additional)))
	}
	for _, k := range namePool {
		v, ok := r.Additional[k]
		if !ok {
			b = append(b, 0)
			continue
		}
		b = append(b, 1)
		b = snapIPs(b, v)
	}
	return b
}

func diffIPs(path string, a, b []net.IP) (string, string) {
	if len(a) != len(b) || cap(a) != cap(b) || (a == nil) != (b == nil) {
		return "slice-header", fmt.Sprintf("%s: len/cap %d/%d -> %d/%d", path, len(a), cap(a), len(b), cap(b))
	}
	fa, fb := a[:cap(a)], b[:cap(b)]
	for i := range fa {
		x, y := fa[i], fb[i]
		if len(x) != len(y) || cap(x) != cap(y) || !bytes.Equal(x[:cap(x)], y[:cap(y)]) {
			where := "visible"
			if i >= len(a) {
				where = "hidden capacity"
			}
			return "addresses", fmt.Sprintf("%s[%d] (%s): %x -> %x", path, i, where, []byte(x[:cap(x)]), []byte(y[:cap(y)]))
		}
	}
	return "", ""
}

// diff locates the first difference between the pristine value (a) and the
// value after enumeration (b). class is the narrow part of the signature.
func diff(a, b *ech.ResolveResult) (class, detail string) {
	if a.Port != b.Port {
		return "port", fmt.Sprintf("Port %d -> %d", a.Port, b.Port)
	}
	if c, d := diffIPs("Address", a.Address, b.Address); c != "" {
		return "address-list", d
	}
	if len(a.HTTPS) != len(b.HTTPS) || cap(a.HTTPS) != cap(b.HTTPS) {
		return "https-list", "HTTPS slice header changed"
	}
	fa, fb := a.HTTPS[:cap(a.HTTPS)], b.HTTPS[:cap(b.HTTPS)]
	for i := range fa {
		x, y := &fa[i], &fb[i]
		p := fmt.Sprintf("HTTPS[%d]", i)
		if x.Priority != y.Priority || x.Port != y.Port || x.Target != y.Target || x.NoDefaultALPN != y.NoDefaultALPN {
			return "https-record", p + " scalar field changed"
		}
		if len(x.ALPN) != len(y.ALPN) || cap(x.ALPN) != cap(y.ALPN) {
			return "alpn-slice-header", fmt.Sprintf("%s.ALPN len/cap %d/%d -> %d/%d", p, len(x.ALPN), cap(x.ALPN), len(y.ALPN), cap(y.ALPN))
		}
		xa, ya := x.ALPN[:cap(x.ALPN)], y.ALPN[:cap(y.ALPN)]
		for j := range xa {
			if xa[j] != ya[j] {
				if j >= len(x.ALPN) {
					return "alpn-backing-array", fmt.Sprintf("%s.ALPN (len %d, cap %d): element [%d] of the backing array, beyond len, changed %q -> %q",
						p, len(x.ALPN), cap(x.ALPN), j, xa[j], ya[j])
				}
				return "alpn-visible-element", fmt.Sprintf("%s.ALPN[%d] (visible element, len %d) changed %q -> %q", p, j, len(x.ALPN), xa[j], ya[j])
			}
		}
		if c, d := diffIPs(p+".IPv4Hint", x.IPv4Hint, y.IPv4Hint); c != "" {
			return "hints", d
		}
		if c, d := diffIPs(p+".IPv6Hint", x.IPv6Hint, y.IPv6Hint); c != "" {
			return "hints", d
		}
		if (x.ECH == nil) != (y.ECH == nil) || len(x.ECH) != len(y.ECH) || cap(x.ECH) != cap(y.ECH) || !bytes.Equal(x.ECH[:cap(x.ECH)], y.ECH[:cap(y.ECH)]) {
			return "ech", fmt.Sprintf("%s.ECH %x -> %x", p, x.ECH[:cap(x.ECH)], y.ECH[:cap(y.ECH)])
		}
	}
	if (a.Additional == nil) != (b.Additional == nil) || len(a.Additional) != len(b.Additional) {
		return "additional", "Additional map size changed"
	}
	for k, v := range a.Additional {
		w, ok := b.Additional[k]
		if !ok {
			return "additional", "Additional key removed: " + k
		}
		if c, d := diffIPs("Additional["+k+"]", v, w); c != "" {
			return "additional", d
		}
	}
	return "unknown", "snapshots differ but no field-level difference was located"
}

// ---- reference enumeration, written from the property statement ----

type expT struct {
	addr netip.AddrPort
	rec  int // index of the contributing HTTPS record, -1 = plain address
}

// toAddr: the address a net.IP denotes. net.IP holds an IPv4 address in 4 or in 16 bytes (net.ParseIP returns the
// long form); both spellings are the same IPv4 address (net.IP.To4), and that is what dialing "tcp4"/"tcp6" goes by.
func toAddr(ip []byte) netip.Addr {
	if len(ip) == 4 {
		return netip.AddrFrom4([4]byte(ip))
	}
	return netip.AddrFrom16([16]byte(ip)).Unmap()
}

// reference: service-mode records in order; each contributes the addresses of
// its own target name, or the origin's addresses, or its hints when the origin
// has none; own port (else the result's port, 80 upgraded to 443); family
// filter; no duplicate address/port pair (first occurrence wins, which is what
// "in order" implies); alias-mode records ignored; plain addresses (result
// port, no ECH, no ALPN) only when no record produced a target.
// Order inside one record's contribution follows the input lists (the
// statement is silent; see compare() for the lenient fall-back).
func reference(m *mRes, network string, out []expT) (res []expT, filtered, collapsed int) {
	fam := 0
	if strings.HasSuffix(network, "4") {
		fam = 4
	} else if strings.HasSuffix(network, "6") {
		fam = 16
	}
	add := func(ip []byte, port uint16, rec int) {
		if is4 := toAddr(ip).Is4(); fam == 4 && !is4 || fam == 16 && is4 {
			filtered++
			return
		}
		ap := netip.AddrPortFrom(toAddr(ip), port)
		for _, e := range out {
			if e.addr == ap {
				collapsed++
				return
			}
		}
		out = append(out, expT{ap, rec})
	}
	for i := range m.Recs {
		h := &m.Recs[i]
		if h.Priority == 0 {
			continue
		}
		port := h.Port
		if port == 0 {
			port = m.Port
			if port == 80 {
				port = 443
			}
		}
		switch {
		case h.Target != "":
			for _, ip := range m.Add[h.Target] {
				add(ip, port, i)
			}
		case len(m.Addr) > 0:
			for _, ip := range m.Addr {
				add(ip, port, i)
			}
		default:
			for _, ip := range h.V4 {
				add(ip, port, i)
			}
			for _, ip := range h.V6 {
				add(ip, port, i)
			}
		}
	}
	if len(out) == 0 {
		for _, ip := range m.Addr {
			add(ip, m.Port, -1)
		}
	}
	return out, filtered, collapsed
}

// ---- observation ----

type gotT struct {
	addr   netip.AddrPort
	ech    []byte
	echNil bool
	alpn   []string
}

type arena struct {
	strs  []string
	bytes []byte
}

// enumerate drives the iterator; stop>0: the consumer stops at the stop-th
// element. Everything is copied at the moment of the yield.
func enumerate(seq iter.Seq[ech.Target], stop int, out []gotT, ar *arena) (res []gotT, afterStop bool) {
	stopped := false
	seq(func(t ech.Target) bool {
		if stopped {
			afterStop = true
			return false
		}
		s0, b0 := len(ar.strs), len(ar.bytes)
		ar.strs = append(ar.strs, t.ALPN...)
		ar.bytes = append(ar.bytes, t.ECH...)
		out = append(out, gotT{addr: t.Address, ech: ar.bytes[b0:len(ar.bytes):len(ar.bytes)], echNil: t.ECH == nil,
			alpn: ar.strs[s0:len(ar.strs):len(ar.strs)]})
		if len(out) == stop {
			stopped = true
			return false
		}
		return true
	})
	return out, afterStop
}

func in(s []string, x string) bool {
	for _, y := range s {
		if x == y {
			return true
		}
	}
	return false
}

// alpnOK compares as a set: the record's own ALPN ids plus "http/1.1" unless
// no-default-alpn.
func alpnOK(got []string, h *mRec) bool {
	for _, g := range got {
		if !in(h.ALPN, g) && !(g == "http/1.1" && !h.NoDef) {
			return false
		}
	}
	for _, w := range h.ALPN {
		if !in(got, w) {
			return false
		}
	}
	if !h.NoDef && !in(got, "http/1.1") {
		return false
	}
	return true
}

func attrsOK(g *gotT, m *mRes, rec int) string {
	if rec < 0 {
		if len(g.ech) != 0 {
			return "ech"
		}
		if len(g.alpn) != 0 {
			return "alpn"
		}
		return ""
	}
	h := &m.Recs[rec]
	if !bytes.Equal(g.ech, h.ECH) {
		return "ech"
	}
	if !alpnOK(g.alpn, h) {
		return "alpn"
	}
	return ""
}

func fmtGot(g []gotT) []string {
	out := make([]string, len(g))
	for i, t := range g {
		out[i] = fmt.Sprintf("%s ech=%x alpn=%q", t.addr, t.ech, t.alpn)
	}
	return out
}

func fmtExp(e []expT, m *mRes) []string {
	out := make([]string, len(e))
	for i, t := range e {
		if t.rec < 0 {
			out[i] = fmt.Sprintf("%s plain (no ech, no alpn)", t.addr)
			continue
		}
		h := &m.Recs[t.rec]
		alpn := append([]string{}, h.ALPN...)
		if !h.NoDef {
			alpn = append(alpn, "http/1.1")
		}
		out[i] = fmt.Sprintf("%s ech=%x alpn-set=%q (HTTPS[%d])", t.addr, h.ECH, alpn, t.rec)
	}
	return out
}

// compare returns "" when got conforms, "order" when it conforms except for
// the order inside one record's contribution (not mandated by the statement),
// else the narrow class of the first failure.
func compare(got []gotT, exp []expT, m *mRes, network string, shared bool) (class, detail string) {
	// rules that do not depend on alignment
	fam4 := strings.HasSuffix(network, "4")
	fam6 := strings.HasSuffix(network, "6")
	for i := range got {
		a := got[i].addr.Addr()
		if (fam4 && !a.Is4()) || (fam6 && !a.Is6()) {
			return "family", fmt.Sprintf("element %d %s is outside the address family of %q", i, got[i].addr, network)
		}
		for j := 0; j < i; j++ {
			if got[j].addr == got[i].addr {
				return "duplicate", fmt.Sprintf("elements %d and %d are both %s", j, i, got[i].addr)
			}
		}
	}
	exact := len(got) == len(exp)
	n := min(len(got), len(exp))
	first, what := -1, ""
	for i := 0; i < n; i++ {
		if got[i].addr != exp[i].addr {
			first, what = i, "address"
			break
		}
		if w := attrsOK(&got[i], m, exp[i].rec); w != "" {
			first, what = i, w
			break
		}
	}
	if exact && first < 0 {
		return "", ""
	}
	// lenient: same records in order, each record's group a permutation
	if exact {
		ok := true
		for s := 0; s < len(exp) && ok; {
			e := s
			for e < len(exp) && exp[e].rec == exp[s].rec {
				e++
			}
			for i := s; i < e && ok; i++ {
				found := false
				for j := s; j < e; j++ {
					if got[j].addr == exp[i].addr {
						found = true
					}
				}
				if !found || attrsOK(&got[i], m, exp[s].rec) != "" {
					ok = false
				}
			}
			s = e
		}
		if ok {
			return "order", ""
		}
	}
	if first < 0 {
		if len(got) > len(exp) {
			g := &got[n]
			if len(exp) > 0 && exp[len(exp)-1].rec >= 0 && len(g.ech) == 0 && len(g.alpn) == 0 {
				return "plain-address-after-https-targets", fmt.Sprintf("element %d %s is a plain address although HTTPS records produced %d targets", n, g.addr, len(exp))
			}
			return "extra", fmt.Sprintf("%d elements yielded, %d expected; first extra %s", len(got), len(exp), g.addr)
		}
		return "missing", fmt.Sprintf("%d elements yielded, %d expected; first missing %s", len(got), len(exp), exp[n].addr)
	}
	g, e := &got[first], &exp[first]
	switch what {
	case "address":
		if g.addr.Addr() == e.addr.Addr() {
			return "port", fmt.Sprintf("element %d: %s, expected port %d", first, g.addr, e.addr.Port())
		}
		return "address", fmt.Sprintf("element %d: %s, expected %s", first, g.addr, e.addr)
	case "ech":
		return "ech", fmt.Sprintf("element %d %s: ech %x does not belong to its record", first, g.addr, g.ech)
	default:
		if shared {
			return "alpn:shared-backing-array", fmt.Sprintf("element %d %s: alpn %q is not the record's ALPN set", first, g.addr, g.alpn)
		}
		return "alpn", fmt.Sprintf("element %d %s: alpn %q is not the record's ALPN set", first, g.addr, g.alpn)
	}
}

func sameSeq(a, b []gotT) bool {
	if len(a) != len(b) {
		return false
	}
	for i := range a {
		if a[i].addr != b[i].addr || !bytes.Equal(a[i].ech, b[i].ech) || len(a[i].alpn) != len(b[i].alpn) {
			return false
		}
		for j := range a[i].alpn {
			if a[i].alpn[j] != b[i].alpn[j] {
				return false
			}
		}
	}
	return true
}

// ---- deterministic violation collector (min index per signature) ----

type vrec struct {
	idx   int
	desc  string
	c     any
	count int
}

type vcoll struct {
	mu sync.Mutex
	m  map[string]*vrec
}

func (v *vcoll) add(idx int, sig, desc string, payload func() any) {
	v.mu.Lock()
	defer v.mu.Unlock()
	if v.m == nil {
		v.m = map[string]*vrec{}
	}
	e := v.m[sig]
	if e == nil {
		v.m[sig] = &vrec{idx: idx, desc: desc, c: payload(), count: 1}
		return
	}
	e.count++
	if idx < e.idx {
		e.idx, e.desc, e.c = idx, desc, payload()
	}
}

func (v *vcoll) flush(r *mon.Run, work string) {
	for sig, e := range v.m {
		r.Violate(work, e.idx, sig, e.desc, e.c)
		for k := 1; k < e.count; k++ {
			r.Violate(work, e.idx, sig, "", nil)
		}
	}
}

// ---- counters ----

const (
	cCases = iota
	cEnums
	cTargets
	cSpareALPN
	cShared
	cAlias
	cEarly
	cHints
	cNamedPresent
	cNamedAbsent
	cCollapsed
	cFallback
	cFiltered
	cUpgrade
	cEmptySeq
	cOrderOnly
	cHTTPSTargets
	nCtr
)

var ctrName = [nCtr]string{"results", "enumerations", "targets_yielded", "results_with_spare_capacity_alpn", "results_with_shared_alpn_array",
	"results_with_alias_records", "early_terminations_before_end", "results_using_hints", "results_named_target_with_addresses",
	"results_named_target_without_addresses", "enumerations_with_collapsed_duplicates", "enumerations_plain_fallback",
	"enumerations_family_filtered", "results_port_80_upgraded", "enumerations_empty", "enumerations_order_only_difference",
	"enumerations_with_https_targets"}

func TestCheck(t *testing.T) {
	r := mon.Start(t, "C15", "exploration")
	defer r.Finish()
	r.SetRule("seed-determined ResolveResults in the resolver's canonical address form (4-byte IPv4, 16-byte IPv6): port 443/80/other by index, " +
		"0..4 origin addresses with duplicates (30% none), Additional nil / names with 0..3 addresses / names absent, 0..6 HTTPS records " +
		"(20% alias mode, target \"\" or one of 4 names, port 0/x, 0..2+0..2 hints, 0..5 ALPN ids with 0..3 elements of spare capacity filled with sentinels, " +
		"no-default-alpn 30%, ECH nil/1..8 bytes), every other slice with 0..2 elements of sentinel-filled spare capacity; 2% of results with two records whose ALPN slices share one array. " +
		"Each result: six networks x (full enumeration, second enumeration, consumer stopping at a random element). " +
		"distinct = distinct (port class, #records, #service-mode, origin-has-addresses, named targets, spare capacity, sequence lengths per family) classes")
	r.Assume("reference enumeration written from the statement (own model types, no code from /repo)",
		"ALPN is compared as a set: the record's ids plus http/1.1 unless no-default-alpn",
		"order inside one record's contribution is not mandated: a difference there is counted (enumerations_order_only_difference), not reported",
		"a named target contributes only the addresses stored under its name; hints are used only for the origin when it has no address at all",
		"the same address/port reached through two records is attributed to the first record")

	var ctr [nCtr]atomic.Int64
	var vc vcoll
	n := r.N(50000, 5000000)
	const work = "targets"
	r.Parallel(work, n, func(i int, rng *mrand.Rand) {
		var lc [nCtr]int64
		m := gen(rng, i)
		payload := func() any { return m.JSON() }
		res := build(m)
		lc[cCases]++
		shared := false
		spare := false
		hasAlias, hints, namedP, namedA, upg := false, false, false, false, false
		nsvc := 0
		for j := range m.Recs {
			h := &m.Recs[j]
			if h.Priority == 0 {
				hasAlias = true
				continue
			}
			nsvc++
			if h.ShareOf >= 0 {
				shared = true
			}
			if !h.NoDef && h.ALPNSpare > 0 {
				spare = true
			}
			if h.Target == "" && len(m.Addr) == 0 && len(h.V4)+len(h.V6) > 0 {
				hints = true
			}
			if h.Target != "" {
				if len(m.Add[h.Target]) > 0 {
					namedP = true
				} else {
					namedA = true
				}
			}
			if h.Port == 0 && m.Port == 80 {
				upg = true
			}
		}
		for k, b := range []bool{spare, shared, hasAlias, hints, namedP, namedA, upg} {
			if b {
				lc[[]int{cSpareALPN, cShared, cAlias, cHints, cNamedPresent, cNamedAbsent, cUpgrade}[k]]++
			}
		}

		var ar arena
		var s0, s1 []byte
		s0 = snap(s0, &res)
		impure := false
		var lens [6]int
		var expBuf []expT
		var g1, g2, g3 []gotT
		func() {
			defer func() {
				if p := recover(); p != nil {
					frame := mon.TopRepoFrame(debug.Stack())
					r.Violate(work, i, "targets:panic@"+frame, fmt.Sprintf("panic: %v at %s", p, frame), m.JSON())
				}
			}()
			for ni, network := range networks {
				exp, filtered, collapsed := reference(m, network, expBuf[:0])
				expBuf = exp
				ar.strs, ar.bytes = ar.strs[:0], ar.bytes[:0]
				seq := res.Targets(network)
				var after bool
				g1, after = enumerate(seq, 0, g1[:0], &ar)
				lc[cEnums]++
				lc[cTargets] += int64(len(g1))
				lens[ni] = len(g1)
				if filtered > 0 {
					lc[cFiltered]++
				}
				if collapsed > 0 {
					lc[cCollapsed]++
				}
				if len(exp) == 0 {
					lc[cEmptySeq]++
				} else if exp[0].rec < 0 {
					lc[cFallback]++
				} else {
					lc[cHTTPSTargets]++
				}
				class, detail := compare(g1, exp, m, network, shared)
				switch class {
				case "":
				case "order":
					lc[cOrderOnly]++
				default:
					vc.add(i, "targets:"+class, fmt.Sprintf("Targets(%q): %s. yielded %q; expected %q", network, detail, fmtGot(g1), fmtExp(exp, m)), payload)
				}
				// purity, including hidden capacity
				if !impure {
					s1 = snap(s1[:0], &res)
					if !bytes.Equal(s0, s1) {
						impure = true
						pristine := build(m)
						c, d := diff(&pristine, &res)
						vc.add(i, "purity:"+c, fmt.Sprintf("enumerating Targets(%q) modified the ResolveResult: %s", network, d), payload)
					}
				}
				// second enumeration of the same iterator value and of a fresh one
				g2, after = enumerate(seq, 0, g2[:0], &ar)
				lc[cEnums]++
				if !sameSeq(g1, g2) {
					vc.add(i, "repeat:differs", fmt.Sprintf("Targets(%q): two enumerations differ: %q then %q", network, fmtGot(g1), fmtGot(g2)), payload)
				}
				// early termination: stop at element k (1..len)
				if len(g1) > 0 {
					k := 1 + rng.IntN(len(g1))
					g3, after = enumerate(res.Targets(network), k, g3[:0], &ar)
					lc[cEnums]++
					if k < len(g1) {
						lc[cEarly]++
					}
					if after {
						vc.add(i, "early:yield-after-stop", fmt.Sprintf("Targets(%q): yield was called again after it returned false at element %d", network, k), payload)
					}
					if len(g3) != k || !sameSeq(g3, g1[:k]) {
						vc.add(i, "early:not-a-prefix", fmt.Sprintf("Targets(%q): stopping at element %d yielded %q, full sequence %q", network, k, fmtGot(g3), fmtGot(g1)), payload)
					}
				}
			}
			if !impure {
				s1 = snap(s1[:0], &res)
				if !bytes.Equal(s0, s1) {
					pristine := build(m)
					c, d := diff(&pristine, &res)
					vc.add(i, "purity:"+c, "enumerating Targets modified the ResolveResult: "+d, payload)
				}
			}
		}()
		pc := 2
		if m.Port == 443 {
			pc = 0
		} else if m.Port == 80 {
			pc = 1
		}
		r.Eval(fmt.Sprintf("%d|%d|%d|%v|%v%v|%v%v|%d.%d.%d", pc, len(m.Recs), nsvc, len(m.Addr) > 0, namedP, namedA, spare, shared, lens[0], lens[1], lens[2]))
		r.EvalN(lc[cEnums] - 1)
		for k := range lc {
			if lc[k] != 0 {
				ctr[k].Add(lc[k])
			}
		}
		if i < 4 {
			e, _, _ := reference(m, "tcp", nil)
			r.Sample(map[string]any{"index": i, "result": m.JSON(), "expected_tcp": fmtExp(e, m), "yielded_lengths_tcp_tcp4_tcp6": lens[:3]})
		}
	})
	vc.flush(r, work)
	for k := range ctr {
		r.Count(ctrName[k], ctr[k].Load())
	}
	// floors: every class of the quantifier must have been observed
	nn := int64(n)
	r.Floor("results", nn)
	r.Floor("results_with_spare_capacity_alpn", nn/4)
	r.Floor("results_with_shared_alpn_array", nn/200)
	r.Floor("results_with_alias_records", nn/10)
	r.Floor("early_terminations_before_end", nn/2)
	r.Floor("results_using_hints", nn/20)
	r.Floor("results_named_target_with_addresses", nn/10)
	r.Floor("results_named_target_without_addresses", nn/10)
	r.Floor("enumerations_with_collapsed_duplicates", nn/2)
	r.Floor("enumerations_plain_fallback", nn/4)
	r.Floor("enumerations_family_filtered", nn)
	r.Floor("results_port_80_upgraded", nn/10)
	r.Floor("enumerations_with_https_targets", nn)
}
