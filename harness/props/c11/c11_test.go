// C11 — ECH configs and config lists encode to the standard format and round-trip.
package c11

import (
	"bytes"
	"crypto/ecdh"
	"crypto/rand"
	"crypto/tls"
	"encoding/binary"
	"errors"
	"fmt"
	mrand "math/rand/v2"
	"net"
	"reflect"
	"strings"
	"testing"
	"time"

	"github.com/c2FmZQ/ech"

	"verif/harness/internal/mon"
	"verif/harness/internal/tlspeer"
)

// ---- independent draft-ietf-tls-esni section 4 parser (no code shared with /repo) ----

type refConfig struct {
	Version      uint16
	ID           uint8
	KEM          uint16
	PublicKey    []byte
	Suites       [][2]uint16
	MaxNameLen   uint8
	PublicName   []byte
	ExtBytes     []byte // raw extensions vector contents, nil when the field is absent
	HasExt       bool
	MandatoryExt bool // an extension with the high bit set in its type
	Raw          []byte
}

var errRef = errors.New("ref: malformed")

type rd struct {
	b []byte
}

func (r *rd) u8() (uint8, bool) {
	if len(r.b) < 1 {
		return 0, false
	}
	v := r.b[0]
	r.b = r.b[1:]
	return v, true
}
func (r *rd) u16() (uint16, bool) {
	if len(r.b) < 2 {
		return 0, false
	}
	v := binary.BigEndian.Uint16(r.b)
	r.b = r.b[2:]
	return v, true
}
func (r *rd) vec(n int) ([]byte, bool) {
	if n < 0 || len(r.b) < n {
		return nil, false
	}
	v := r.b[:n]
	r.b = r.b[n:]
	return v, true
}
func (r *rd) vec16() ([]byte, bool) {
	n, ok := r.u16()
	if !ok {
		return nil, false
	}
	return r.vec(int(n))
}
func (r *rd) vec8() ([]byte, bool) {
	n, ok := r.u8()
	if !ok {
		return nil, false
	}
	return r.vec(int(n))
}

// refParseConfig parses one ECHConfig from the front of r. strict demands the
// extensions field and nothing after it inside the contents.
func refParseConfig(r *rd, strict bool) (refConfig, error) {
	var c refConfig
	start := r.b
	var ok bool
	if c.Version, ok = r.u16(); !ok {
		return c, errRef
	}
	body, ok := r.vec16()
	if !ok {
		return c, errRef
	}
	c.Raw = start[:4+len(body)]
	if c.Version != 0xfe0d {
		return c, nil // opaque for other versions
	}
	in := &rd{body}
	if c.ID, ok = in.u8(); !ok {
		return c, errRef
	}
	if c.KEM, ok = in.u16(); !ok {
		return c, errRef
	}
	if c.PublicKey, ok = in.vec16(); !ok {
		return c, errRef
	}
	cs, ok := in.vec16()
	if !ok {
		return c, errRef
	}
	if len(cs)%4 != 0 {
		return c, errRef
	}
	for i := 0; i < len(cs); i += 4 {
		c.Suites = append(c.Suites, [2]uint16{binary.BigEndian.Uint16(cs[i:]), binary.BigEndian.Uint16(cs[i+2:])})
	}
	if c.MaxNameLen, ok = in.u8(); !ok {
		return c, errRef
	}
	if c.PublicName, ok = in.vec8(); !ok {
		return c, errRef
	}
	if strict {
		if c.ExtBytes, ok = in.vec16(); !ok {
			return c, errRef
		}
		c.HasExt = true
		if len(in.b) != 0 {
			return c, errRef
		}
		// the vector is a sequence of whole extensions: type(2) length(2) data
		for e := c.ExtBytes; len(e) > 0; {
			if len(e) < 4 || 4+(int(e[2])<<8|int(e[3])) > len(e) {
				return c, errRef
			}
			if e[0]&0x80 != 0 {
				c.MandatoryExt = true // a client that does not know it must ignore the whole config
			}
			e = e[4+(int(e[2])<<8|int(e[3])):]
		}
		if len(c.PublicKey) == 0 || len(c.Suites) == 0 || len(c.PublicName) == 0 {
			return c, errRef
		}
	}
	return c, nil
}

func refParseList(b []byte, strict bool) ([]refConfig, error) {
	r := &rd{b}
	body, ok := r.vec16()
	if !ok {
		return nil, errRef
	}
	if strict && len(r.b) != 0 {
		return nil, errRef
	}
	in := &rd{body}
	var out []refConfig
	for len(in.b) > 0 {
		c, err := refParseConfig(in, strict)
		if err != nil {
			return nil, err
		}
		out = append(out, c)
	}
	return out, nil
}

func sameSpec(s ech.ConfigSpec, c refConfig) string {
	if s.Version != c.Version {
		return fmt.Sprintf("version %x != %x", s.Version, c.Version)
	}
	if s.ID != c.ID {
		return fmt.Sprintf("id %d != %d", s.ID, c.ID)
	}
	if s.KEM != c.KEM {
		return fmt.Sprintf("kem %x != %x", s.KEM, c.KEM)
	}
	if !bytes.Equal(s.PublicKey, c.PublicKey) {
		return fmt.Sprintf("public key %x != %x", s.PublicKey, c.PublicKey)
	}
	if len(s.CipherSuites) != len(c.Suites) {
		return fmt.Sprintf("suites %v != %v", s.CipherSuites, c.Suites)
	}
	for i := range c.Suites {
		if s.CipherSuites[i].KDF != c.Suites[i][0] || s.CipherSuites[i].AEAD != c.Suites[i][1] {
			return fmt.Sprintf("suites %v != %v", s.CipherSuites, c.Suites)
		}
	}
	if s.MaximumNameLength != c.MaxNameLen {
		return fmt.Sprintf("max name len %d != %d", s.MaximumNameLength, c.MaxNameLen)
	}
	if !bytes.Equal(s.PublicName, c.PublicName) {
		return fmt.Sprintf("public name %q != %q", s.PublicName, c.PublicName)
	}
	return ""
}

// ---- generators ----

var suiteIDs = []ech.CipherSuite{{KDF: 1, AEAD: 1}, {KDF: 1, AEAD: 2}, {KDF: 1, AEAD: 3}}

func genName(rng *mrand.Rand, n int, ldh bool) []byte {
	b := make([]byte, n)
	if !ldh {
		for i := range b {
			b[i] = byte(rng.IntN(256))
		}
		return b
	}
	return []byte(DNSName(rng, n))
}

// DNSName builds a name of exactly n bytes (n>=3) accepted by crypto/tls'
// public-name validation: >=2 non-empty LDH labels of <=63 bytes, no leading
// or trailing hyphen.
// HostName is DNSName drawn again until it is a name every producer and parser has to take (strictName).
func HostName(rng *mrand.Rand, n int) string {
	for try := 0; ; try++ {
		if name := DNSName(rng, n); strictName([]byte(name)) || try > 50 {
			return name
		}
	}
}

func DNSName(rng *mrand.Rand, n int) string {
	const al = "abcdefghijklmnopqrstuvwxyz0123456789"
	if n < 3 {
		n = 3
	}
	b := make([]byte, n)
	for i := range b {
		b[i] = al[rng.IntN(len(al))]
	}
	// dots: first at 1..min(63,n-2), then every 2..64 bytes while a label of >=1 byte remains
	pos := 1 + rng.IntN(min(63, n-2))
	for pos <= n-2 {
		b[pos] = '.'
		pos += 2 + rng.IntN(63)
	}
	// the last label may still exceed 63 bytes: split it
	last := strings.LastIndexByte(string(b), '.')
	for n-1-last > 63 {
		last += 1 + 1 + rng.IntN(62)
		b[last] = '.'
	}
	// hyphens only strictly inside labels
	for i := 1; i < n-1; i++ {
		if b[i] != '.' && b[i-1] != '.' && b[i+1] != '.' && rng.IntN(12) == 0 {
			b[i] = '-'
		}
	}
	return string(b)
}

func validDNSName(name string) bool {
	if len(name) > 253 {
		return false
	}
	labels := strings.Split(name, ".")
	if len(labels) <= 1 {
		return false
	}
	for _, l := range labels {
		if len(l) == 0 || len(l) > 63 {
			return false
		}
		for i, r := range l {
			if r == '-' && (i == 0 || i == len(l)-1) {
				return false
			}
			if (r < '0' || r > '9') && (r < 'a' || r > 'z') && (r < 'A' || r > 'Z') && r != '-' {
				return false
			}
		}
	}
	return true
}

func genSpec(rng *mrand.Rand, i int) ech.ConfigSpec {
	s := ech.ConfigSpec{Version: 0xfe0d, ID: uint8(i), KEM: 0x0020}
	if rng.IntN(5) == 0 {
		s.KEM = uint16(rng.IntN(65536))
	}
	kl := 32
	if rng.IntN(2) == 0 {
		kl = rng.IntN(65)
	}
	s.PublicKey = make([]byte, kl)
	for j := range s.PublicKey {
		s.PublicKey[j] = byte(rng.IntN(256))
	}
	ns := rng.IntN(7)
	for j := 0; j < ns; j++ {
		if rng.IntN(4) == 0 {
			s.CipherSuites = append(s.CipherSuites, ech.CipherSuite{KDF: uint16(rng.IntN(65536)), AEAD: uint16(rng.IntN(65536))})
		} else {
			s.CipherSuites = append(s.CipherSuites, suiteIDs[rng.IntN(3)])
		}
	}
	if rng.IntN(12) == 0 {
		s.Version = []uint16{0, 0xfe0c, 0xfe0e, 0x0303, uint16(rng.IntN(65536))}[rng.IntN(5)]
	}
	nl := 1 + (i/256+i)%255
	s.PublicName = genName(rng, nl, rng.IntN(4) != 0 && nl >= 3)
	s.MaximumNameLength = uint8(rng.IntN(256)) // must be ignored: derived from the name
	return s
}

// strictName: a public name every client accepts - at least two LDH labels of 1..63 bytes, 253 bytes at most.
// The producers must encode such names; they may refuse any other (clients ignore configs with other names).
func strictName(name []byte) bool {
	if !validDNSName(string(name)) {
		return false
	}
	labels := strings.Split(string(name), ".")
	for _, l := range labels {
		if len(l) > 63 {
			return false
		}
	}
	// A last label of decimal digits, or "0x" and hexadecimal digits, may be read as an IPv4 literal: section 4 of
	// the draft tells clients to ignore such configs (SHOULD), so a producer may refuse the name. It need not.
	last := strings.ToLower(labels[len(labels)-1])
	if strings.Trim(last, "0123456789") == "" || strings.HasPrefix(last, "0x") && strings.Trim(last[2:], "0123456789abcdef") == "" {
		return false
	}
	return true
}

// refEncode is the harness' own encoder of an ECHConfig (used where the package refuses to produce one).
func refEncode(s ech.ConfigSpec) ech.Config {
	var body []byte
	body = append(body, s.ID, byte(s.KEM>>8), byte(s.KEM))
	body = append(body, byte(len(s.PublicKey)>>8), byte(len(s.PublicKey)))
	body = append(body, s.PublicKey...)
	body = append(body, byte(4*len(s.CipherSuites)>>8), byte(4*len(s.CipherSuites)))
	for _, cs := range s.CipherSuites {
		body = append(body, byte(cs.KDF>>8), byte(cs.KDF), byte(cs.AEAD>>8), byte(cs.AEAD))
	}
	body = append(body, byte(min(len(s.PublicName)+16, 255)), byte(len(s.PublicName)))
	body = append(body, s.PublicName...)
	body = append(body, 0, 0)
	out := []byte{byte(s.Version >> 8), byte(s.Version), byte(len(body) >> 8), byte(len(body))}
	return ech.Config(append(out, body...))
}

// encodeAny: the package's encoding when it produces one, else the harness' (foreign configs for the parser).
func encodeAny(s ech.ConfigSpec) ech.Config {
	if b, err := s.Bytes(); err == nil {
		return b
	}
	return refEncode(s)
}

func specJSON(s ech.ConfigSpec) map[string]any {
	return map[string]any{"id": s.ID, "kem": s.KEM, "public_key": mon.Hex(s.PublicKey), "suites": fmt.Sprint(s.CipherSuites),
		"public_name": mon.Hex(s.PublicName), "name_len": len(s.PublicName)}
}

// ---- the check ----

func TestCheck(t *testing.T) {
	r := mon.Start(t, "C11", "exploration")
	defer r.Finish()
	r.SetRule("seed-determined ConfigSpecs (all 256 ids, public-name lengths 1..255 cycled, key lengths 0..64, suite lists of 0..6 known/unknown suites), " +
		"config lists of 0..8, NewConfig outputs, every strict prefix and every single-byte mutation of sampled encodings, random bytes; " +
		"live crypto/tls client<->server ECH handshakes for DNS-valid names. distinct = distinct (workload, id, name length, key length, #suites | mutation position) classes that reached the codec")
	r.Assume("independent section-4 parser in the harness (explicit offset arithmetic, no code from /repo)",
		"crypto/tls of the building toolchain as conforming client and server",
		"public names outside the plain multi-label LDH shape (single label, underscore, empty label, leading/trailing hyphen or dot, over 253 bytes, non-ASCII ...): the producers may refuse them, but a config they do produce must be usable by crypto/tls like any other")

	ca, err := tlspeer.NewCA()
	if err != nil {
		r.Inconclusive("fixture: %v", err)
		return
	}

	// -- codec round trip --
	nCodec := r.N(3000, 1500000)
	r.Parallel("codec", nCodec, func(i int, rng *mrand.Rand) {
		spec := genSpec(rng, i)
		c := specJSON(spec)
		r.Guard("codec", i, "codec", c, func() {
			enc, err := spec.Bytes()
			if len(spec.PublicKey) == 0 || len(spec.CipherSuites) == 0 {
				// HpkePublicKey<1..2^16-1> and cipher_suites<4..2^16-4>: there is no well-formed encoding
				if err == nil {
					r.Violate("codec", i, "codec:empty-vector-encoded", fmt.Sprintf("ConfigSpec.Bytes produced a config with a %d-byte public key and %d cipher suites", len(spec.PublicKey), len(spec.CipherSuites)), c)
				} else {
					r.Count("codec_refused_empty_key_or_suites", 1)
				}
				r.Eval(fmt.Sprintf("codec|empty|%d|%d", len(spec.PublicKey), len(spec.CipherSuites)))
				return
			}
			if spec.KEM == 0x0020 && len(spec.PublicKey) != 32 && len(spec.PublicKey) != 0 && len(spec.CipherSuites) != 0 && spec.Version == 0xfe0d && strictName(spec.PublicName) {
				// an X25519 public key has 32 bytes: crypto/tls picks such a config and then fails the handshake
				if err == nil {
					r.Violate("codec", i, "codec:x25519-key-of-wrong-length-encoded", fmt.Sprintf("ConfigSpec.Bytes produced a DHKEM(X25519) config with a %d-byte public key", len(spec.PublicKey)), c)
				} else {
					r.Count("codec_refused_x25519_key_length", 1)
				}
				r.Eval(fmt.Sprintf("codec|keylen|%d", len(spec.PublicKey)))
				return
			}
			if spec.Version != 0xfe0d {
				// the only ECHConfig version there is: anything else is no config a client can use
				switch {
				case err != nil:
					r.Count("codec_refused_other_version", 1)
				case len(enc) >= 2 && enc[0] == 0xfe && enc[1] == 0x0d:
					r.Count("codec_other_version_encoded_as_fe0d", 1) // e.g. an unset Version taken as the default
				default:
					r.Violate("codec", i, "codec:other-version-encoded", fmt.Sprintf("ConfigSpec.Bytes produced a config of version 0x%04x", spec.Version), c)
				}
				r.Eval(fmt.Sprintf("codec|version|%04x", spec.Version))
				return
			}
			if err != nil && !strictName(spec.PublicName) {
				r.Count("codec_refused_name_no_client_would_accept", 1)
				r.Eval(fmt.Sprintf("codec|refused|%d", len(spec.PublicName)))
				return
			}
			if err != nil {
				r.Violate("codec", i, "codec:bytes-error", fmt.Sprintf("ConfigSpec.Bytes failed for a %d-byte name: %v", len(spec.PublicName), err), c)
				return
			}
			r.Count("codec_encoded", 1)
			r.Eval(fmt.Sprintf("codec|%d|%d|%d|%d", spec.ID, len(spec.PublicName), len(spec.PublicKey), len(spec.CipherSuites)))
			rc, err := refParseConfig(&rd{enc}, true)
			strictOK := err == nil
			if err != nil && (len(spec.PublicKey) == 0 || len(spec.CipherSuites) == 0) {
				// out-of-spec vector sizes requested by the caller: judge structure only
				rc, err = refParseConfig(&rd{enc}, false)
			}
			if err != nil || len(rc.Raw) != len(enc) {
				r.Violate("codec", i, "codec:not-wellformed", fmt.Sprintf("independent parser rejects Bytes() output (%v) consumed=%d of %d: %x", err, len(rc.Raw), len(enc), enc), c)
				return
			}
			want := spec
			// maximum_name_length is not among the fields the statement lists for the round trip (id, KEM, public key,
			// cipher suites, public name), and any octet is legal there: how the producer chooses it is left open
			want.MaximumNameLength = rc.MaxNameLen
			if d := sameSpec(want, rc); d != "" {
				r.Violate("codec", i, "codec:encode-mismatch", "independent parse of Bytes() differs from the spec: "+d, c)
				return
			}
			// "derived from the name": the same name gives the same octet, whatever else the spec holds (its own
			// MaximumNameLength field, the id)
			other := spec
			other.ID ^= 0x5a
			other.MaximumNameLength = ^spec.MaximumNameLength
			if enc2, err2 := other.Bytes(); err2 == nil {
				if rc2, err3 := refParseConfig(&rd{enc2}, false); err3 == nil && rc2.MaxNameLen != rc.MaxNameLen {
					r.Violate("codec", i, "codec:maximum-name-length-not-derived-from-the-name", fmt.Sprintf("two specs with the same %d-byte public name were encoded with maximum_name_length %d and %d", len(spec.PublicName), rc.MaxNameLen, rc2.MaxNameLen), c)
					return
				}
				r.Count("codec_maximum_name_length_compared_across_specs", 1)
			}
			// The vector must be there and well-formed (the strict parse above walked it). It need not be empty: an
			// encoder may add extensions that clients ignore (GREASE) - but none that a client has to understand.
			if strictOK && (!rc.HasExt || rc.MandatoryExt) {
				r.Violate("codec", i, "codec:extensions", "encoding lacks an extensions vector, or carries a mandatory extension (clients that do not know it ignore the config)", c)
			}
			got, err := ech.Config(enc).Spec()
			if err != nil {
				r.Violate("codec", i, "codec:spec-error", fmt.Sprintf("Config.Spec rejects Bytes() output: %v", err), c)
				return
			}
			if d := sameSpec(got, rc); d != "" {
				r.Violate("codec", i, "codec:roundtrip", "Spec(Bytes(spec)) differs: "+d, c)
			}
		})
		if i < 2 {
			r.Sample(map[string]any{"workload": "codec", "spec": c})
		}
	})

	// invalid name lengths must be refused, not mis-encoded
	for _, nl := range []int{0, 256, 300, 1000} {
		spec := ech.ConfigSpec{Version: 0xfe0d, KEM: 0x20, PublicKey: make([]byte, 32), CipherSuites: suiteIDs, PublicName: bytes.Repeat([]byte("a"), nl)}
		c := specJSON(spec)
		r.Guard("namelen", nl, "namelen", c, func() {
			enc, err := spec.Bytes()
			r.Eval(fmt.Sprintf("namelen|%d", nl))
			if err == nil {
				if rc, perr := refParseConfig(&rd{enc}, true); perr != nil || !bytes.Equal(rc.PublicName, spec.PublicName) {
					r.Violate("namelen", nl, "codec:bad-name-length-encoded", fmt.Sprintf("Bytes() accepted a %d-byte public name and produced a malformed config", nl), c)
				}
			}
			if _, _, err := ech.NewConfig(1, spec.PublicName); err == nil {
				r.Violate("namelen", nl, "newconfig:bad-name-length", fmt.Sprintf("NewConfig accepted a %d-byte public name", nl), c)
			}
		})
	}

	// -- lists --
	nList := r.N(600, 300000)
	r.Parallel("list", nList, func(i int, rng *mrand.Rand) {
		n := i % 9
		var cfgs []ech.Config
		var specs []ech.ConfigSpec
		outOfGrammar := false
		for j := 0; j < n; j++ {
			s := genSpec(rng, rng.IntN(1<<20))
			s.Version = 0xfe0d // ParseConfigList refuses lists that hold configs of other versions
			if len(s.PublicKey) == 0 {
				s.PublicKey = []byte{1}
			}
			b, err := s.Bytes()
			if err != nil && (!strictName(s.PublicName) || len(s.PublicKey) == 0 || len(s.CipherSuites) == 0 || s.Version != 0xfe0d || s.KEM == 0x0020 && len(s.PublicKey) != 32) {
				b, err = refEncode(s), nil // a foreign config: lists carry configs as opaque byte strings
			}
			if err != nil {
				r.Violate("list", i, "codec:bytes-error", err.Error(), specJSON(s))
				return
			}
			s.MaximumNameLength = uint8(min(len(s.PublicName)+16, 255))
			cfgs = append(cfgs, b)
			specs = append(specs, s)
			if len(s.PublicKey) == 0 || len(s.CipherSuites) == 0 || len(s.PublicName) == 0 || !strictName(s.PublicName) {
				// HpkePublicKey<1..>, cipher_suites<4..>, public_name<1..255> and "a valid host name" (clients ignore any
				// other config): a parser may refuse the element
				outOfGrammar = true
			}
		}
		c := map[string]any{"n": n}
		r.Guard("list", i, "list", c, func() {
			enc, err := ech.ConfigList(cfgs)
			if n == 0 {
				// ECHConfigList<4..2^16-1>: there is no empty list, and crypto/tls refuses 00 00 ("contains no valid configs")
				if err == nil {
					r.Violate("list", i, "list:empty-list-encoded", fmt.Sprintf("ConfigList of no configs returned %x", enc), c)
				} else {
					r.Count("empty_lists_refused", 1)
				}
				r.Eval("list|0|refused")
				return
			}
			if err != nil {
				r.Violate("list", i, "list:error", err.Error(), c)
				return
			}
			c["list"] = mon.Hex(enc)
			r.Eval(fmt.Sprintf("list|%d|%d", n, len(enc)))
			rl, err := refParseList(enc, false)
			if err != nil || len(rl) != n {
				r.Violate("list", i, "list:not-wellformed", fmt.Sprintf("independent parser: err=%v n=%d want %d", err, len(rl), n), c)
				return
			}
			if int(binary.BigEndian.Uint16(enc)) != len(enc)-2 {
				r.Violate("list", i, "list:length-prefix", "list length prefix does not cover the list", c)
			}
			got, err := ech.ParseConfigList(enc)
			if err != nil && outOfGrammar {
				// a hand-made element with an empty vector where the grammar wants at least one entry: refusing the
				// list is as good as parsing it (the statement speaks of what NewConfig / Bytes / ConfigList produce)
				r.Count("lists_with_out_of_grammar_element_refused", 1)
				return
			}
			if err != nil || len(got) != n {
				r.Violate("list", i, "list:parse", fmt.Sprintf("ParseConfigList: err=%v n=%d want %d", err, len(got), n), c)
				return
			}
			for j := range got {
				if d := sameSpec(got[j], rl[j]); d != "" {
					r.Violate("list", i, "list:roundtrip", fmt.Sprintf("config %d: %s", j, d), c)
				}
				sj := specs[j]
				sj.MaximumNameLength = rl[j].MaxNameLen // not a field of the round trip, see above
				if d := sameSpec(sj, rl[j]); d != "" {
					r.Violate("list", i, "list:encode-mismatch", fmt.Sprintf("config %d: %s", j, d), c)
				}
			}
		})
	})

	// -- lists beyond the 16-bit length prefix: refused, not wrapped --
	for _, nCfg := range []int{559, 560, 561, 562, 600, 1200} {
		_, one, err := ech.NewConfig(7, []byte("public.example.com"))
		if err != nil {
			r.Inconclusive("fixture: NewConfig: %v", err)
			break
		}
		cfgs := make([]ech.Config, nCfg)
		for j := range cfgs {
			cfgs[j] = one
		}
		c := map[string]any{"configs": nCfg, "config_len": len(one), "total": nCfg * len(one)}
		r.Guard("biglist", nCfg, "list:oversize", c, func() {
			enc, err := ech.ConfigList(cfgs)
			r.Eval(fmt.Sprintf("biglist|%d", nCfg))
			r.Count("oversize_lists", 1)
			if err != nil {
				if nCfg*len(one) <= 65535 {
					r.Violate("biglist", nCfg, "list:error", fmt.Sprintf("ConfigList refused %d bytes of configs: %v", nCfg*len(one), err), c)
				}
				return
			}
			rl, perr := refParseList(enc, false)
			if perr != nil || len(rl) != nCfg || int(binary.BigEndian.Uint16(enc)) != len(enc)-2 {
				r.Violate("biglist", nCfg, "list:length-prefix-wrapped", fmt.Sprintf("ConfigList returned %d bytes with length prefix %d for %d configs of %d bytes (independent parser: %d configs, %v)", len(enc), binary.BigEndian.Uint16(enc), nCfg, len(one), len(rl), perr), c)
			}
		})
	}

	// -- a config cut short INSIDE its length-prefixed contents (the config's and the list's length fields say so):
	// every such cut removes part of a field the structure requires, down to the extensions vector at its end --
	r.ParallelW("innercut", r.N(6, 60), 1, func(i int, rng *mrand.Rand) {
		_, cfg, err := ech.NewConfig(uint8(i), []byte(HostName(rng, 8+rng.IntN(40))))
		if err != nil {
			r.Inconclusive("fixture: NewConfig: %v", err)
			return
		}
		contents := cfg[4:]
		for cut := 1; cut < len(contents); cut++ {
			short := append([]byte{}, contents[:len(contents)-cut]...)
			one := append([]byte{cfg[0], cfg[1], byte(len(short) >> 8), byte(len(short))}, short...)
			list := append([]byte{byte(len(one) >> 8), byte(len(one))}, one...)
			c := map[string]any{"bytes_removed_from_the_end_of_the_contents": cut, "list": mon.Hex(list)}
			r.Guard("innercut", i, "robust:inner-truncation", c, func() {
				_, lerr := ech.ParseConfigList(list)
				_, serr := ech.Config(one).Spec()
				r.Eval(fmt.Sprintf("innercut|%d|%d", i, cut))
				r.Count("inner_truncations", 1)
				if lerr == nil || serr == nil {
					r.Violate("innercut", i, "robust:inner-truncation-accepted", fmt.Sprintf("a config whose contents lack their last %d bytes (lengths adjusted) was accepted: ParseConfigList err=%v, Spec err=%v", cut, lerr, serr), c)
				}
			})
		}
	})
	r.Floor("inner_truncations", 300)

	// -- a cipher_suites vector that does not consist of whole 4-byte suites (cut inside a suite, or 1..3 stray bytes
	// after the last one), every enclosing length consistent: HpkeSymmetricCipherSuite cipher_suites<4..2^16-4> --
	r.ParallelW("raggedsuites", r.N(8, 80), 1, func(i int, rng *mrand.Rand) {
		_, cfg0, err := ech.NewConfig(uint8(i), []byte(HostName(rng, 8+rng.IntN(40))))
		if err != nil {
			r.Inconclusive("fixture: NewConfig: %v", err)
			return
		}
		// the base is the HARNESS encoding of what NewConfig made (known layout, empty extensions vector last),
		// whatever the package's encoder appends there
		rc0, rerr := refParseConfig(&rd{cfg0}, true)
		if rerr != nil {
			r.Inconclusive("fixture: NewConfig output does not parse: %v", rerr)
			return
		}
		base := ech.ConfigSpec{Version: rc0.Version, ID: rc0.ID, KEM: rc0.KEM, PublicKey: rc0.PublicKey, PublicName: rc0.PublicName}
		for _, su := range rc0.Suites {
			base.CipherSuites = append(base.CipherSuites, ech.CipherSuite{KDF: su[0], AEAD: su[1]})
		}
		cfg := refEncode(base)
		contents := cfg[4:]
		pkLen := int(contents[3])<<8 | int(contents[4])
		csOff := 5 + pkLen // offset of the length prefix of cipher_suites
		csLen := int(contents[csOff])<<8 | int(contents[csOff+1])
		if csLen%4 != 0 || csOff+2+csLen > len(contents) {
			r.Inconclusive("fixture: NewConfig layout not understood (cipher_suites of %d bytes at %d)", csLen, csOff)
			return
		}
		suites, rest := contents[csOff+2:csOff+2+csLen], contents[csOff+2+csLen:]
		for n := 1; n <= csLen+3; n++ {
			if n%4 == 0 {
				continue
			}
			body := append([]byte{}, suites[:min(n, csLen)]...)
			for len(body) < n {
				body = append(body, byte(rng.IntN(256)))
			}
			nc := append(append([]byte{}, contents[:csOff]...), byte(n>>8), byte(n))
			nc = append(append(nc, body...), rest...)
			one := append([]byte{cfg[0], cfg[1], byte(len(nc) >> 8), byte(len(nc))}, nc...)
			list := append([]byte{byte(len(one) >> 8), byte(len(one))}, one...)
			c := map[string]any{"cipher_suites_bytes": n, "list": mon.Hex(list)}
			r.Guard("raggedsuites", i, "robust:ragged-cipher-suites", c, func() {
				_, lerr := ech.ParseConfigList(list)
				_, serr := ech.Config(one).Spec()
				r.Eval(fmt.Sprintf("raggedsuites|%d|%d", i, n))
				r.Count("ragged_cipher_suite_vectors", 1)
				if lerr == nil || serr == nil {
					r.Violate("raggedsuites", i, "robust:ragged-cipher-suites-accepted", fmt.Sprintf("a config whose cipher_suites vector has %d bytes (no whole number of 4-byte suites; every enclosing length consistent) was accepted: ParseConfigList err=%v, Spec err=%v", n, lerr, serr), c)
				}
			})
		}
	})
	r.Floor("ragged_cipher_suite_vectors", 60)

	// -- an extensions vector that does not consist of whole extensions (type(2) length(2) data): 1..3 stray bytes alone
	// or after whole extensions, or an extension whose data is cut short; every enclosing length consistent --
	r.ParallelW("raggedexts", r.N(8, 80), 1, func(i int, rng *mrand.Rand) {
		_, cfg0, err := ech.NewConfig(uint8(i), []byte(HostName(rng, 8+rng.IntN(40))))
		if err != nil {
			r.Inconclusive("fixture: NewConfig: %v", err)
			return
		}
		// the base is the HARNESS encoding of what NewConfig made (known layout, empty extensions vector last),
		// whatever the package's encoder appends there
		rc0, rerr := refParseConfig(&rd{cfg0}, true)
		if rerr != nil {
			r.Inconclusive("fixture: NewConfig output does not parse: %v", rerr)
			return
		}
		base := ech.ConfigSpec{Version: rc0.Version, ID: rc0.ID, KEM: rc0.KEM, PublicKey: rc0.PublicKey, PublicName: rc0.PublicName}
		for _, su := range rc0.Suites {
			base.CipherSuites = append(base.CipherSuites, ech.CipherSuite{KDF: su[0], AEAD: su[1]})
		}
		cfg := refEncode(base)
		contents := cfg[4:]
		if n := len(contents); n < 2 || contents[n-2] != 0 || contents[n-1] != 0 {
			r.Inconclusive("fixture: NewConfig no longer ends in an empty extensions vector")
			return
		}
		head := contents[:len(contents)-2]
		var whole []byte // 0..2 well-formed extensions
		for k := rng.IntN(3); k > 0; k-- {
			d := make([]byte, rng.IntN(6))
			for j := range d {
				d[j] = byte(rng.IntN(256))
			}
			whole = append(whole, byte(0x7a), byte(rng.IntN(256)), 0, byte(len(d))) // high bit clear: not a mandatory extension
			whole = append(whole, d...)
		}
		variants := map[string][]byte{
			"stray-1":  append(append([]byte{}, whole...), 0xfa),
			"stray-2":  append(append([]byte{}, whole...), 0xfa, 0x01),
			"stray-3":  append(append([]byte{}, whole...), 0xfa, 0x01, 0x00),
			"data-cut": append(append([]byte{}, whole...), 0xfa, 0x01, 0x00, 0x05, 1, 2),
		}
		if len(whole) > 0 {
			variants["control-whole-extensions"] = whole
		}
		for name, ext := range variants {
			nc := append(append([]byte{}, head...), byte(len(ext)>>8), byte(len(ext)))
			nc = append(nc, ext...)
			one := append([]byte{cfg[0], cfg[1], byte(len(nc) >> 8), byte(len(nc))}, nc...)
			list := append([]byte{byte(len(one) >> 8), byte(len(one))}, one...)
			c := map[string]any{"variant": name, "extensions": mon.Hex(ext), "list": mon.Hex(list)}
			r.Guard("raggedexts", i, "robust:ragged-extensions", c, func() {
				_, lerr := ech.ParseConfigList(list)
				_, serr := ech.Config(one).Spec()
				r.Eval(fmt.Sprintf("raggedexts|%d|%s|%d", i, name, len(whole)))
				if name == "control-whole-extensions" {
					r.Count("whole_extension_vectors_parsed", 1)
					if lerr != nil || serr != nil {
						r.Violate("raggedexts", i, "robust:well-formed-extensions-refused", fmt.Sprintf("a config with well-formed (unknown, non-mandatory) extensions was refused: ParseConfigList err=%v, Spec err=%v", lerr, serr), c)
					}
					return
				}
				r.Count("ragged_extension_vectors", 1)
				if lerr == nil || serr == nil {
					r.Violate("raggedexts", i, "robust:ragged-extensions-accepted", fmt.Sprintf("a config whose extensions vector is no sequence of whole extensions (%s; every enclosing length consistent) was accepted: ParseConfigList err=%v, Spec err=%v", name, lerr, serr), c)
				}
			})
		}
	})
	r.Floor("ragged_extension_vectors", 30)

	// -- NewConfig --
	nNew := r.N(512, 60000)
	r.Parallel("newconfig", nNew, func(i int, rng *mrand.Rand) {
		id := uint8(i)
		nl := 1 + (i*7+i/256)%255
		name := genName(rng, nl, nl >= 3 && rng.IntN(3) > 0)
		c := map[string]any{"id": id, "name": mon.Hex(name)}
		r.Guard("newconfig", i, "newconfig", c, func() {
			priv, cfg, err := ech.NewConfig(id, name)
			if err != nil && !strictName(name) {
				r.Count("newconfig_refused_name_no_client_would_accept", 1)
				r.Eval(fmt.Sprintf("newconfig|refused|%d", nl))
				return
			}
			if err != nil {
				r.Violate("newconfig", i, "newconfig:error", err.Error(), c)
				return
			}
			r.Eval(fmt.Sprintf("newconfig|%d|%d", id, nl))
			rc, err := refParseConfig(&rd{cfg}, true)
			if err != nil || len(rc.Raw) != len(cfg) {
				r.Violate("newconfig", i, "newconfig:not-wellformed", fmt.Sprintf("%v %x", err, cfg), c)
				return
			}
			want := ech.ConfigSpec{Version: 0xfe0d, ID: id, KEM: 0x20, PublicKey: priv.PublicKey().Bytes(),
				CipherSuites:      []ech.CipherSuite{{KDF: 1, AEAD: 3}, {KDF: 1, AEAD: 2}, {KDF: 1, AEAD: 1}},
				MaximumNameLength: uint8(min(nl+16, 255)), PublicName: name}
			if priv.Curve() != ecdh.X25519() {
				r.Violate("newconfig", i, "newconfig:curve", "private key is not X25519", c)
			}
			// the suite order is not mandated; compare as sets
			if len(rc.Suites) != 3 {
				r.Violate("newconfig", i, "newconfig:suites", fmt.Sprintf("suites %v", rc.Suites), c)
				return
			}
			seen := map[[2]uint16]bool{}
			for _, s := range rc.Suites {
				seen[s] = true
			}
			if !seen[[2]uint16{1, 1}] || !seen[[2]uint16{1, 2}] || !seen[[2]uint16{1, 3}] {
				r.Violate("newconfig", i, "newconfig:suites", fmt.Sprintf("suites %v", rc.Suites), c)
			}
			want.CipherSuites = nil
			for _, s := range rc.Suites {
				want.CipherSuites = append(want.CipherSuites, ech.CipherSuite{KDF: s[0], AEAD: s[1]})
			}
			want.MaximumNameLength = rc.MaxNameLen // not a field of the round trip, see above
			if d := sameSpec(want, rc); d != "" {
				r.Violate("newconfig", i, "newconfig:fields", d, c)
			}
			got, err := cfg.Spec()
			if err != nil {
				r.Violate("newconfig", i, "newconfig:spec-error", err.Error(), c)
				return
			}
			if d := sameSpec(got, rc); d != "" {
				r.Violate("newconfig", i, "newconfig:roundtrip", d, c)
			}
		})
	})

	// -- live crypto/tls handshakes --
	nHS := r.N(300, 40000)
	r.Parallel("handshake", nHS, func(i int, rng *mrand.Rand) {
		// name lengths 3..253 all covered in quick (251 values), forced edge values first
		nl := 3 + i%251
		pub := DNSName(rng, nl)
		if !validDNSName(pub) || len(pub) != nl {
			r.Inconclusive("generator produced an invalid DNS name %q (want len %d)", pub, nl)
			return
		}
		// every fifth case: a name that is NOT a plain multi-label LDH name. The producers may refuse it; a config
		// they do produce must work with crypto/tls like any other ("produced => accepted")
		odd := i%5 == 4
		if odd {
			base := DNSName(rng, 3+rng.IntN(40))
			pub = []string{"localhost", "under_score." + base, "-" + base, strings.Replace(base, ".", "-.", 1), base + ".", "." + base,
				strings.Replace(base, ".", "..", 1), DNSName(rng, 254), DNSName(rng, 255), "sp ace." + base, strings.ToUpper(base), "192.0.2.1", "xn--bcher-kva." + base,
				strings.Repeat("a", 64) + "." + base, "a", "é." + base,
				base + "\r", base + "\n", "a\x10b." + base, "a\x19." + base, base[:1] + "\x00" + base[1:], "\x7f" + base, base + "\x2e\x0d"}[(i/5)%23]
		}
		id := uint8(rng.IntN(256))
		mode := i % 4 // 0: NewConfig, 1..3: ConfigSpec.Bytes with a single AEAD
		c := map[string]any{"id": id, "public_name": pub, "mode": mode}
		r.Guard("handshake", i, "handshake", c, func() {
			var priv *ecdh.PrivateKey
			var cfg ech.Config
			var err error
			if mode == 0 {
				priv, cfg, err = ech.NewConfig(id, []byte(pub))
			} else {
				priv, err = ecdh.X25519().GenerateKey(rand.Reader)
				if err == nil {
					cfg, err = ech.ConfigSpec{Version: 0xfe0d, ID: id, KEM: 0x20, PublicKey: priv.PublicKey().Bytes(),
						CipherSuites: []ech.CipherSuite{suiteIDs[mode-1]}, PublicName: []byte(pub)}.Bytes()
				}
			}
			if err != nil && !strictName([]byte(pub)) { // an odd name, or a plain one whose last label reads like a number
				r.Count("odd_names_refused_by_the_producer", 1)
				r.Eval(fmt.Sprintf("handshake|odd-refused|%d", (i/5)%23))
				return
			}
			if err != nil {
				r.Violate("handshake", i, "handshake:config-error", err.Error(), c)
				return
			}
			if odd {
				r.Count("odd_names_produced", 1)
			}
			// lists of 1..3 configs, target first (crypto/tls picks the first usable)
			cfgs := []ech.Config{cfg}
			for k := rng.IntN(3); k > 0; k-- {
				_, other, _ := ech.NewConfig(uint8(rng.IntN(256)), []byte("other.example"))
				cfgs = append(cfgs, other)
			}
			list, err := ech.ConfigList(cfgs)
			if err != nil {
				r.Violate("handshake", i, "handshake:list-error", err.Error(), c)
				return
			}
			c["list"] = mon.Hex(list)
			inner := "inner.example"
			srvCert := ca.MustLeaf(0, inner, "public.example")
			if odd {
				c["name_shape"] = (i / 5) % 23
			}
			srvConf := &tls.Config{
				Certificates:             []tls.Certificate{srvCert},
				MinVersion:               tls.VersionTLS13,
				EncryptedClientHelloKeys: []tls.EncryptedClientHelloKey{{Config: cfg, PrivateKey: priv.Bytes(), SendAsRetry: true}},
			}
			cliConf := &tls.Config{ServerName: inner, RootCAs: ca.Pool, MinVersion: tls.VersionTLS13, EncryptedClientHelloConfigList: list}
			cs, ss, err := handshake(cliConf, srvConf)
			r.Eval(fmt.Sprintf("handshake|%d|%d|%d", mode, nl, id))
			r.Count("handshakes", 1)
			if err != nil && odd {
				r.Violate("handshake", i, "handshake:produced-config-unusable:odd-public-name", fmt.Sprintf("a config was produced for the public name %q but crypto/tls cannot use it: %v", pub, err), c)
				return
			}
			if err != nil {
				r.Violate("handshake", i, fmt.Sprintf("handshake:failed:mode%d", mode), fmt.Sprintf("crypto/tls handshake with the produced config failed: %v", err), c)
				return
			}
			if !cs.ECHAccepted || !ss.ECHAccepted {
				r.Violate("handshake", i, fmt.Sprintf("handshake:not-accepted:mode%d", mode), fmt.Sprintf("ECHAccepted client=%v server=%v", cs.ECHAccepted, ss.ECHAccepted), c)
				return
			}
			r.Count("handshakes_ech_accepted", 1)
			if ss.ServerName != inner {
				r.Violate("handshake", i, "handshake:sni", "server saw SNI "+ss.ServerName, c)
			}
		})
		if i < 2 {
			r.Sample(map[string]any{"workload": "handshake", "case": c})
		}
	})
	r.Floor("handshakes_ech_accepted", int64(nHS)*6/10)

	// -- parser robustness: truncations, mutations, trailing bytes, random --
	nRob := r.N(60, 6000)
	r.Parallel("robust", nRob, func(i int, rng *mrand.Rand) {
		n := 1 + i%4
		var cfgs []ech.Config
		for j := 0; j < n; j++ {
			s := genSpec(rng, rng.IntN(1<<20))
			s.Version = 0xfe0d
			if len(s.PublicKey) == 0 {
				s.PublicKey = []byte{9}
			}
			if len(s.CipherSuites) == 0 {
				s.CipherSuites = suiteIDs[:1]
			}
			if j == 0 && len(s.PublicName) > 40 {
				s.PublicName = s.PublicName[:40]
			}
			if !strictName(s.PublicName) {
				// the baseline is a list every parser has to take: host names only (a parser may refuse a config whose
				// public_name is none, as clients do)
				s.PublicName = []byte(HostName(rng, max(4, min(len(s.PublicName), 60))))
			}
			cfgs = append(cfgs, encodeAny(s))
		}
		list, _ := ech.ConfigList(cfgs)
		base, err := ech.ParseConfigList(list)
		if err != nil {
			r.Violate("robust", i, "robust:baseline", err.Error(), map[string]any{"list": mon.Hex(list)})
			return
		}
		// every strict prefix must be rejected
		for cut := 0; cut < len(list); cut++ {
			in := list[:cut]
			c := map[string]any{"kind": "prefix-of-list", "cut": cut, "input": mon.Hex(in)}
			r.Guard("robust", i, "robust:prefix", c, func() {
				_, err := ech.ParseConfigList(in)
				r.Eval(fmt.Sprintf("prefix|%d|%d", i, cut))
				if err == nil {
					r.Violate("robust", i, "robust:prefix-accepted:list", fmt.Sprintf("ParseConfigList accepted a %d-byte strict prefix of a %d-byte list", cut, len(list)), c)
				}
			})
		}
		one := []byte(cfgs[0])
		for cut := 0; cut < len(one); cut++ {
			in := one[:cut]
			c := map[string]any{"kind": "prefix-of-config", "cut": cut, "input": mon.Hex(in)}
			r.Guard("robust", i, "robust:prefix", c, func() {
				_, err := ech.Config(in).Spec()
				r.Eval(fmt.Sprintf("cprefix|%d|%d", i, cut))
				if err == nil {
					r.Violate("robust", i, "robust:prefix-accepted:config", fmt.Sprintf("Config.Spec accepted a %d-byte strict prefix of a %d-byte config", cut, len(one)), c)
				}
			})
		}
		// trailing bytes outside the declared length must not influence the result
		for k := 0; k < 8; k++ {
			extra := make([]byte, 1+rng.IntN(40))
			for j := range extra {
				extra[j] = byte(rng.IntN(256))
			}
			in := append(append([]byte{}, list...), extra...)
			c := map[string]any{"kind": "trailing", "input": mon.Hex(in), "extra": len(extra)}
			r.Guard("robust", i, "robust:trailing", c, func() {
				got, err := ech.ParseConfigList(in)
				r.Eval(fmt.Sprintf("trailing|%d|%d", i, k))
				if err == nil && !reflect.DeepEqual(got, base) {
					r.Violate("robust", i, "robust:trailing-influences", "bytes after the declared list length changed the parse result", c)
				}
			})
		}
		// every single-byte mutation (3 values per position): no panic; accepted => agrees with the lax reference
		for pos := 0; pos < len(list); pos++ {
			for _, delta := range []byte{1, 0x80, byte(1 + rng.IntN(255))} {
				in := append([]byte{}, list...)
				in[pos] ^= delta
				judge(r, "robust", i, fmt.Sprintf("mut|%d|%d|%d", i, pos, delta), in)
			}
		}
		// random byte strings
		for k := 0; k < 50; k++ {
			in := make([]byte, rng.IntN(80))
			for j := range in {
				in[j] = byte(rng.IntN(256))
			}
			if len(in) >= 2 && rng.IntN(2) == 0 {
				binary.BigEndian.PutUint16(in, uint16(len(in)-2))
				if len(in) >= 6 {
					in[2], in[3] = 0xfe, 0x0d
					binary.BigEndian.PutUint16(in[4:], uint16(len(in)-6))
				}
			}
			judge(r, "robust", i, fmt.Sprintf("rand|%d|%d", i, k), in)
		}
		if i == 0 {
			r.Sample(map[string]any{"workload": "robust", "base_list": mon.Hex(list), "prefixes": len(list), "mutations": 3 * len(list)})
		}
	})
}

// judge feeds arbitrary bytes to both parsers: no panic; if the package
// accepts, the lax independent parser (extensions opaque) must accept too and
// extract the same fields (i.e. nothing was read across a declared length);
// if the input is strictly valid the package must accept it.
func judge(r *mon.Run, work string, i int, fp string, in []byte) {
	c := map[string]any{"kind": "arbitrary", "input": mon.Hex(in)}
	r.Guard(work, i, "robust:arbitrary", c, func() {
		got, err := ech.ParseConfigList(in)
		r.Eval(fp)
		ref, rerr := refParseList(in, false)
		if err == nil {
			allKnown := true
			for _, c := range ref {
				if c.Version != 0xfe0d {
					allKnown = false
				}
			}
			if rerr != nil {
				r.Violate(work, i, "robust:accepted-malformed", "ParseConfigList accepted bytes whose declared lengths do not nest", c)
				return
			}
			if allKnown {
				if len(got) != len(ref) {
					r.Violate(work, i, "robust:count-mismatch", fmt.Sprintf("%d configs vs %d by the independent parser", len(got), len(ref)), c)
					return
				}
				for j := range got {
					if d := sameSpec(got[j], ref[j]); d != "" {
						r.Violate(work, i, "robust:field-mismatch", d, c)
					}
				}
			}
			return
		}
		if sref, serr := refParseList(in, true); serr == nil {
			ok := true
			for _, c := range sref {
				if c.Version != 0xfe0d || !strictName(c.PublicName) || c.MandatoryExt {
					ok = false // other versions, a public_name that is no host name, mandatory extensions: may be refused
				}
			}
			if ok {
				r.Violate(work, i, "robust:valid-rejected", fmt.Sprintf("a strictly valid list was rejected: %v", err), c)
			}
		}
	})
}

// handshake runs a client and a server over an in-memory pipe.
func handshake(cli, srv *tls.Config) (tls.ConnectionState, tls.ConnectionState, error) {
	a, b := net.Pipe()
	defer a.Close()
	defer b.Close()
	dl := time.Now().Add(30 * time.Second) // watchdog only; never a verdict
	a.SetDeadline(dl)
	b.SetDeadline(dl)
	c := tls.Client(a, cli)
	s := tls.Server(b, srv)
	errc := make(chan error, 1)
	go func() {
		err := s.Handshake()
		if err == nil {
			// complete the client's read of the server flight
			_, err = s.Write([]byte("x"))
		}
		errc <- err
	}()
	if err := c.Handshake(); err != nil {
		a.Close()
		<-errc
		return tls.ConnectionState{}, tls.ConnectionState{}, fmt.Errorf("client: %w", err)
	}
	buf := make([]byte, 1)
	if _, err := c.Read(buf); err != nil {
		<-errc
		return tls.ConnectionState{}, tls.ConnectionState{}, fmt.Errorf("client read: %w", err)
	}
	if err := <-errc; err != nil {
		return tls.ConnectionState{}, tls.ConnectionState{}, fmt.Errorf("server: %w", err)
	}
	return c.ConnectionState(), s.ConnectionState(), nil
}
