// C14 — Resolve follows RFC 9460 and uses only answers that belong to the name asked.
//
// Every case is a PRNG-generated DNS universe served by internal/dohfake plus
// one name form. The oracle is relational: it is computed from the universe
// (dohfake.Zone.Lookup = what the zone says) and from the server's query log,
// never from the resolver's own intermediate results.
package c14

import (
	"context"
	"errors"
	"fmt"
	"io"
	"log"
	mrand "math/rand/v2"
	"net"
	"net/netip"
	"net/url"
	"runtime"
	"sort"
	"strings"
	"sync/atomic"
	"testing"
	"time"

	"github.com/c2FmZQ/ech"
	"github.com/c2FmZQ/ech/dns"

	"verif/harness/internal/dohfake"
	"verif/harness/internal/mon"
)

// ---- universe generator ----

var (
	pool = []string{"a.zz", "b.zz", "c.zz", "d.zz", "e.zz", "f.zz", "g.zz", "k.zz", "s.zz", "j.zz", "w.a.zz", "w.b.zz"}
	evil = []string{"evil.zz", "bad.evil.zz"}
)

const (
	evilECH    = "EVIL:"
	maxQueries = 64 // Q2
)

// genuine addresses: 10.1/16, fd00:1::/32; hints: 10.9/16, fd00:9::/32; attacker: 203.0.113/24, 2001:db8:bad::/48
func goodAddr(rng *mrand.Rand, v6 bool) netip.Addr {
	if v6 {
		return netip.AddrFrom16([16]byte{0xfd, 0, 0, 1, 12: byte(rng.IntN(256)), 13: byte(rng.IntN(256)), 14: byte(rng.IntN(256)), 15: byte(1 + rng.IntN(255))})
	}
	return netip.AddrFrom4([4]byte{10, 1, byte(rng.IntN(256)), byte(1 + rng.IntN(255))})
}
func hintAddr(rng *mrand.Rand, v6 bool) netip.Addr {
	if v6 {
		return netip.AddrFrom16([16]byte{0xfd, 0, 0, 9, 15: byte(1 + rng.IntN(255))})
	}
	return netip.AddrFrom4([4]byte{10, 9, byte(rng.IntN(256)), byte(1 + rng.IntN(255))})
}
func evilAddr(rng *mrand.Rand, v6 bool) netip.Addr {
	if v6 {
		return netip.AddrFrom16([16]byte{0x20, 0x01, 0x0d, 0xb8, 0x0b, 0xad, 15: byte(1 + rng.IntN(255))})
	}
	return netip.AddrFrom4([4]byte{203, 0, 113, byte(1 + rng.IntN(255))})
}
func isEvilAddr(a netip.Addr) bool {
	if a.Is4() {
		b := a.As4()
		return b[0] == 203 && b[1] == 0 && b[2] == 113
	}
	b := a.As16()
	return b[0] == 0x20 && b[1] == 0x01 && b[4] == 0x0b && b[5] == 0xad
}

func letters(rng *mrand.Rand, n int) string {
	b := make([]byte, n)
	for i := range b {
		b[i] = byte('a' + rng.IntN(26))
	}
	return string(b)
}

// longHost builds a host of exactly total bytes from labels of at most maxLabel bytes, ending in ".zz".
func longHost(rng *mrand.Rand, total, maxLabel int) string {
	rest := total - 3 // ".zz"
	var labels []string
	for rest > 0 {
		n := min(rest, maxLabel)
		if rest-n == 1 { // would leave a lone dot
			n--
		}
		labels = append(labels, letters(rng, n))
		rest -= n + 1
	}
	return strings.Join(labels, ".") + ".zz"
}

type special struct {
	hostTotal, hostLabel int // 0 = pool host
	schemeLen            int // 0 = ordinary scheme
	port                 int // -1 = none
}

// forced representatives of the boundary classes; cases 0..len(specials)-1 use them in order.
var specials = func() []special {
	var s []special
	for _, p := range []int{-1, 8443} {
		s = append(s, special{66, 63, 0, p}, special{67, 64, 0, p})
		for _, t := range []int{253, 254, 255, 256, 300} {
			s = append(s, special{t, 63, 0, p})
		}
		for _, l := range []int{62, 63, 64, 254, 255, 300} {
			s = append(s, special{0, 0, l, p})
		}
	}
	return s
}()

type input struct {
	Host      string `json:"host"`
	Scheme    string `json:"scheme"`           // "" = none given
	Port      int    `json:"port"`             // -1 = none given
	Arg       string `json:"arg"`              // what Resolve receives
	Svcb      string `json:"svcb"`             // RFC 9460 2.3 query name expected by the oracle
	Class     string `json:"class"`            // normal | host-illegal | svcb-illegal
	Dotted    bool   `json:"dotted,omitempty"` // the host is written with a trailing dot
	MixedCase bool   `json:"mixed_case,omitempty"`
	DotScheme bool   `json:"scheme_with_dot,omitempty"` // RFC 3986 allows "." in a scheme (z39.50s, iris.beep): its RFC 9460 label is "_z39.50s", ONE label
}

func legalName(n string) bool {
	if len(n) > 253 || n == "" {
		return false
	}
	for _, l := range strings.Split(n, ".") {
		if len(l) == 0 || len(l) > 63 {
			return false
		}
	}
	return true
}

// svcbName is the query-name rule of Resolve's doc comment (RFC 9460 section 2.3).
func svcbName(host, scheme string, port int) string {
	s := strings.ToLower(scheme)
	if s == "" || s == "http" {
		s = "https"
	}
	if port <= 0 {
		port = 443
	}
	if port != 80 && port != 443 {
		return fmt.Sprintf("_%d._%s.%s", port, s, host)
	}
	if s != "https" {
		return "_" + s + "." + host
	}
	return host
}

func genInput(rng *mrand.Rand, i int) input {
	var in input
	in.Port = -1
	sp, isSp := special{port: -1}, false
	if i < len(specials) {
		sp, isSp = specials[i], true
	} else if rng.IntN(8) == 0 {
		sp, isSp = specials[rng.IntN(len(specials))], true
	}
	in.Host = pool[rng.IntN(len(pool))]
	form := rng.IntN(4) // 0 host, 1 host:port, 2 scheme://host/p, 3 scheme://host:port/p
	if isSp {
		if sp.hostTotal > 0 {
			in.Host = longHost(rng, sp.hostTotal, sp.hostLabel)
		}
		form = rng.IntN(2) * 2
		if sp.schemeLen > 0 {
			form = 2
		}
		if sp.port >= 0 {
			form |= 1
		}
	}
	if form&1 == 1 {
		in.Port = []int{0, 80, 443, 8443, 65535}[rng.IntN(5)]
		if isSp {
			in.Port = sp.port
		}
	}
	if form >= 2 {
		in.Scheme = []string{"https", "http", "foo", "HTTPS", "Http", "wss"}[rng.IntN(6)]
		if sp.schemeLen > 0 {
			in.Scheme = letters(rng, sp.schemeLen)
		} else if !isSp && rng.IntN(25) == 0 {
			in.Scheme = []string{"z39.50s", "iris.beep", "soap.beep.s"}[rng.IntN(3)]
			in.DotScheme = true
		}
	}
	in.Arg = in.Host
	// DNS names compare without regard to case: another spelling of the same host gets the same answers
	// (the server answers with the owner names as they are stored, in lower case)
	if !isSp && rng.IntN(9) == 0 {
		b := []byte(in.Arg)
		for k := range b {
			if b[k] >= 'a' && b[k] <= 'z' && rng.IntN(2) == 0 {
				b[k] -= 'a' - 'A'
			}
		}
		in.Arg = string(b)
		in.MixedCase = true
	}
	// the FQDN spelling of the same host: the same queries, the same answers
	if !isSp && rng.IntN(7) == 0 && !strings.HasSuffix(in.Host, ".") {
		in.Arg += "."
		in.Dotted = true
	}
	if in.Port >= 0 {
		in.Arg += fmt.Sprintf(":%d", in.Port)
	}
	if in.Scheme != "" {
		in.Arg = in.Scheme + "://" + in.Arg + []string{"", "/", "/p", "/a/b?q=1"}[rng.IntN(4)]
	}
	in.Svcb = svcbName(in.Host, in.Scheme, in.Port)
	switch {
	case !legalName(in.Host):
		in.Class = "host-illegal"
	case !legalName(in.Svcb):
		in.Class = "svcb-illegal"
	default:
		in.Class = "normal"
	}
	return in
}

func genService(rng *mrand.Rand, owner string, names []string) dohfake.HTTPS {
	h := dohfake.HTTPS{Priority: uint16(1 + rng.IntN(5))}
	if rng.IntN(10) == 0 {
		h.Priority = uint16(1 + rng.IntN(65535))
	}
	if rng.IntN(5) < 2 {
		h.Target = names[rng.IntN(len(names))]
		// DNS names compare without regard to case: the target may be spelled with capitals in the record
		if rng.IntN(4) == 0 {
			b := []byte(h.Target)
			for k := range b {
				if b[k] >= 'a' && b[k] <= 'z' && (k == 0 || rng.IntN(2) == 0) {
					b[k] -= 'a' - 'A'
				}
			}
			h.TargetWire = string(b)
			mixedCaseTargets.Add(1)
		}
	}
	if rng.IntN(2) == 0 {
		h.Port = []uint16{443, 8443, 80, uint16(1 + rng.IntN(65535))}[rng.IntN(4)]
	}
	for _, a := range []string{"h2", "h3", "http/1.1", "x"} {
		if rng.IntN(3) == 0 {
			h.ALPN = append(h.ALPN, a)
		}
	}
	h.NoDefaultALPN = len(h.ALPN) > 0 && rng.IntN(4) == 0
	if rng.IntN(3) > 0 {
		h.ECH = []byte("ok:" + owner + ":" + letters(rng, 1+rng.IntN(30)))
	}
	for k := rng.IntN(3); k > 0 && rng.IntN(2) == 0; k-- {
		h.IPv4Hint = append(h.IPv4Hint, hintAddr(rng, false))
	}
	for k := rng.IntN(3); k > 0 && rng.IntN(2) == 0; k-- {
		h.IPv6Hint = append(h.IPv6Hint, hintAddr(rng, true))
	}
	return h
}

func ttl(rng *mrand.Rand) uint32 { return uint32(rng.IntN(4) * rng.IntN(300)) }

func genRecords(rng *mrand.Rand, z *dohfake.Zone, owner string, names []string) {
	if rng.IntN(100) < 12 {
		z.Add(dohfake.CNAME(owner, names[rng.IntN(len(names))], ttl(rng)))
		return
	}
	for k := rng.IntN(4); k > 0; k-- {
		z.Add(dohfake.Addr(owner, goodAddr(rng, false), ttl(rng)))
	}
	for k := rng.IntN(4); k > 0; k-- {
		z.Add(dohfake.Addr(owner, goodAddr(rng, true), ttl(rng)))
	}
	switch p := rng.IntN(100); {
	case p < 40:
	case p < 55:
		t := names[rng.IntN(len(names))]
		if rng.IntN(8) == 0 {
			t = "."
		}
		z.Add(dohfake.Svc(owner, dohfake.HTTPS{Target: t}, ttl(rng)))
	default:
		for k := 1 + rng.IntN(4); k > 0; k-- {
			z.Add(dohfake.Svc(owner, genService(rng, owner, names), ttl(rng)))
		}
	}
}

// setHTTPS replaces the CNAME and HTTPS records of owner.
func setHTTPS(z *dohfake.Zone, owner string, rrs ...dohfake.RR) {
	var keep []dohfake.RR
	for _, rr := range z.RRs[owner] {
		if rr.Type != dohfake.TypeCNAME && rr.Type != dohfake.TypeHTTPS {
			keep = append(keep, rr)
		}
	}
	z.RRs[owner] = append(keep, rrs...)
}

// cnameChain lists name and every in-zone CNAME target reachable from it.
func cnameChain(z *dohfake.Zone, name string) map[string]bool {
	seen := map[string]bool{}
	for !seen[name] {
		seen[name] = true
		for _, rr := range z.RRs[name] {
			if rr.Type == dohfake.TypeCNAME {
				name = rr.Target
				break
			}
		}
	}
	return seen
}

var foldPoison, mixedCaseTargets atomic.Int64

func foldVariant(name string) string {
	for i := 0; i < len(name); i++ {
		switch name[i] {
		case 'k':
			return name[:i] + "\u212a" + name[i+1:]
		case 's':
			return name[:i] + "\u017f" + name[i+1:]
		case '.':
			return "" // first label only
		}
	}
	return ""
}

func genPoisonRR(rng *mrand.Rand, owner string, qtype uint16) dohfake.RR {
	kind := rng.IntN(5)
	if rng.IntN(10) < 7 {
		switch qtype {
		case dohfake.TypeA:
			kind = 0
		case dohfake.TypeAAAA:
			kind = 1
		default:
			kind = 2 + rng.IntN(2)
		}
	}
	switch kind {
	case 0:
		return dohfake.Addr(owner, evilAddr(rng, false), 300)
	case 1:
		return dohfake.Addr(owner, evilAddr(rng, true), 300)
	case 2:
		h := dohfake.HTTPS{Priority: uint16(1 + rng.IntN(2)), ECH: []byte(evilECH + letters(rng, 8)), ALPN: []string{"h2"}}
		if rng.IntN(2) == 0 {
			h.Target = evil[rng.IntN(len(evil))]
		}
		return dohfake.Svc(owner, h, 300)
	case 3:
		return dohfake.Svc(owner, dohfake.HTTPS{Target: evil[rng.IntN(len(evil))]}, 300)
	default:
		return dohfake.CNAME(owner, evil[rng.IntN(len(evil))], 300)
	}
}

func genZone(rng *mrand.Rand, in input) *dohfake.Zone {
	z := dohfake.NewZone()
	z.NXUnknown = rng.IntN(2) == 0
	z.Compress = rng.IntN(2) == 0
	names := append([]string{}, pool...)
	if in.Class != "host-illegal" && len(in.Host) > 10 {
		names = append(names, in.Host)
	}
	if in.Class == "normal" && in.Svcb != in.Host {
		names = append(names, in.Svcb)
	}
	for _, n := range names {
		if rng.IntN(10) > 0 {
			genRecords(rng, z, n, names)
		}
	}
	// the attacker's own names resolve to attacker data
	for _, e := range evil {
		z.Add(dohfake.Addr(e, evilAddr(rng, false), 300), dohfake.Addr(e, evilAddr(rng, true), 300),
			dohfake.Svc(e, dohfake.HTTPS{Priority: 1, ECH: []byte(evilECH + "zone"), ALPN: []string{"h2"}}, 300))
	}
	// explicit alias chain of 0..8 hops from the SVCB query name
	chain := []string{in.Svcb}
	if in.Class == "normal" && rng.IntN(10) < 6 {
		hops := rng.IntN(9)
		for _, k := range rng.Perm(len(pool)) {
			if len(chain) > hops {
				break
			}
			if pool[k] != in.Svcb {
				chain = append(chain, pool[k])
			}
		}
		for k := 0; k+1 < len(chain); k++ {
			alias := dohfake.Svc(chain[k], dohfake.HTTPS{Target: chain[k+1]}, ttl(rng))
			// RFC 9460 section 2.4.1: an RRSet that holds an AliasMode record is an alias, whatever else it holds and
			// in whatever order the answer lists the records
			switch rng.IntN(8) {
			case 0:
				setHTTPS(z, chain[k], dohfake.Svc(chain[k], genService(rng, chain[k], names), ttl(rng)), alias)
			case 1:
				setHTTPS(z, chain[k], alias, dohfake.Svc(chain[k], genService(rng, chain[k], names), ttl(rng)))
			case 2:
				setHTTPS(z, chain[k], dohfake.Svc(chain[k], genService(rng, chain[k], names), ttl(rng)), alias, dohfake.Svc(chain[k], genService(rng, chain[k], names), ttl(rng)))
			default:
				setHTTPS(z, chain[k], alias)
			}
		}
		end := chain[len(chain)-1]
		switch p := rng.IntN(100); {
		case p < 40:
			var rrs []dohfake.RR
			for k := 1 + rng.IntN(4); k > 0; k-- {
				rrs = append(rrs, dohfake.Svc(end, genService(rng, end, names), ttl(rng)))
			}
			setHTTPS(z, end, rrs...)
		case p < 50:
			setHTTPS(z, end)
		case p < 60:
			z.Rcode[dohfake.Key{Name: end, Type: dohfake.TypeHTTPS}] = dohfake.NXDomain
		case p < 80: // loop back, including a self alias
			setHTTPS(z, end, dohfake.Svc(end, dohfake.HTTPS{Target: chain[rng.IntN(len(chain))]}, ttl(rng)))
		case p < 85:
			setHTTPS(z, end, dohfake.Svc(end, dohfake.HTTPS{Target: "."}, ttl(rng)))
		}
	}
	anyName := func() string {
		switch rng.IntN(4) {
		case 0:
			return in.Host
		case 1:
			return in.Svcb
		case 2:
			return chain[rng.IntN(len(chain))]
		}
		return names[rng.IntN(len(names))]
	}
	anyType := func() uint16 {
		return []uint16{dohfake.TypeHTTPS, dohfake.TypeA, dohfake.TypeAAAA}[rng.IntN(3)]
	}
	if rng.IntN(10) < 3 {
		k := dohfake.Key{Name: anyName()}
		if rng.IntN(4) > 0 {
			k.Type = anyType()
		}
		z.Rcode[k] = 1 + rng.IntN(5)
		if rng.IntN(4) == 0 {
			z.Rcode[k] = []int{16, 19, 22, 23, 256, 272, 3841, 4095}[rng.IntN(8)] // extended RCODEs: upper bits in the OPT record, header nibble 0, 3, 6, 7
		}
	}
	if rng.IntN(2) == 0 {
		for n := 1 + rng.IntN(4); n > 0; n-- {
			k := dohfake.Key{Name: anyName(), Type: anyType()}
			if !legalName(k.Name) {
				continue
			}
			related := cnameChain(z, k.Name)
			var others []string
			for _, o := range append(append([]string{}, names...), evil...) {
				if !related[o] {
					others = append(others, o)
				}
			}
			var p dohfake.Poison
			for c := rng.IntN(3); c > 0; c-- {
				p.Before = append(p.Before, genPoisonRR(rng, others[rng.IntN(len(others))], k.Type))
			}
			for c := rng.IntN(3); c > 0 || len(p.Before)+len(p.After) == 0; c-- {
				p.After = append(p.After, genPoisonRR(rng, others[rng.IntN(len(others))], k.Type))
			}
			// a name that Unicode case folding (not DNS: RFC 4343 folds ASCII letters only) maps onto the name asked:
			// KELVIN SIGN for k, LONG S for s. It is another name (other octets, other length) like any unrelated owner.
			if fv := foldVariant(k.Name); fv != "" && legalName(fv) && rng.IntN(2) == 0 { // legalName: it must still fit into a DNS message
				p.Before = append(p.Before, genPoisonRR(rng, fv, k.Type))
				foldPoison.Add(1)
			}
			z.Poison[k] = p
		}
	}
	// partial failure on a service target: the A lookup of a named TargetName of the records at the end of the
	// alias chain succeeds with addresses, its AAAA lookup alone fails ("authoritative server chokes on AAAA")
	if in.Class == "normal" && rng.IntN(10) < 6 {
		var named []*dohfake.HTTPS
		e := walk(z, in.Svcb)
		for _, h := range e.svc { // not the names whose own address lookup decides the call
			if !isRoot(h.Target) && h.Target != in.Host && h.Target != e.Chain[len(e.Chain)-1] {
				named = append(named, h)
			}
		}
		if len(named) > 0 {
			h := named[rng.IntN(len(named))]
			a, rc := addrsOf(z, h.Target, dohfake.TypeA)
			if rc == 0 && len(a) == 0 && len(cnameChain(z, h.Target)) == 1 {
				z.Add(dohfake.Addr(h.Target, goodAddr(rng, false), ttl(rng)))
				a, rc = addrsOf(z, h.Target, dohfake.TypeA)
			}
			if rc == 0 && len(a) > 0 {
				if len(h.ECH) == 0 {
					h.ECH = []byte("ok:partial:" + letters(rng, 6))
				}
				z.Rcode[dohfake.Key{Name: h.Target, Type: dohfake.TypeAAAA}] = 1 + rng.IntN(5)
			}
		}
	}
	// the order of the records inside the answer section carries no meaning: every third universe serves them in
	// another order than "CNAME chain first"
	if rng.IntN(3) == 0 {
		z.Order = 1 + rng.IntN(3)
	}
	// nor does the way the HTTP layer frames the response: every eighth universe is served without a Content-Length
	// header (chunked transfer coding, what net/http does by itself for bodies over 2 KB or streamed ones)
	z.Chunked = rng.IntN(8) == 0
	return z
}

// ---- what the universe says (oracle side) ----

// addrsOf: the addresses of one family the zone gives for name (through its CNAME chain) and the response code.
func addrsOf(z *dohfake.Zone, name string, qtype uint16) (ips []netip.Addr, rc int) {
	rrs, rc := z.Lookup(name, qtype, 0)
	for _, rr := range rrs {
		if rr.Type == qtype {
			ips = append(ips, rr.Addr)
		}
	}
	return ips, rc
}

func httpsAt(z *dohfake.Zone, name string) (recs []*dohfake.HTTPS, rc int) {
	rrs, rc := z.Lookup(name, dohfake.TypeHTTPS, 0)
	for _, rr := range rrs {
		if rr.Type == dohfake.TypeHTTPS {
			recs = append(recs, rr.HTTPS)
		}
	}
	return recs, rc
}

// addrsAt: A and AAAA addresses of name (through its CNAME chain) and the two response codes.
func addrsAt(z *dohfake.Zone, name string) (ips []netip.Addr, rcA, rcAAAA int) {
	a, rcA := z.Lookup(name, dohfake.TypeA, 0)
	aaaa, rcAAAA := z.Lookup(name, dohfake.TypeAAAA, 0)
	for _, rr := range append(a, aaaa...) {
		if rr.Type == dohfake.TypeA || rr.Type == dohfake.TypeAAAA {
			ips = append(ips, rr.Addr)
		}
	}
	return ips, rcA, rcAAAA
}

func isRoot(t string) bool { return t == "" || t == "." }

type expectation struct {
	Chain   []string // names whose HTTPS RRSet is consulted, in order; Chain[0] = SVCB query name
	Loop    bool
	EndKind string // service | none | alias-dot | rcode | loop
	Mixed   bool   // an RRSet on the chain held service-mode records next to its alias
	svc     []*dohfake.HTTPS
}

func walk(z *dohfake.Zone, start string) expectation {
	e := expectation{Chain: []string{start}}
	seen := map[string]bool{start: true}
	cur := start
	for {
		recs, rc := httpsAt(z, cur)
		switch {
		case rc != 0 && rc != dohfake.NXDomain:
			e.EndKind = "rcode"
		case rc == dohfake.NXDomain || len(recs) == 0:
			e.EndKind = "none"
		case aliasOf(recs) != nil && isRoot(aliasOf(recs).Target):
			e.EndKind = "alias-dot"
		case aliasOf(recs) != nil:
			a := aliasOf(recs)
			if len(recs) > 1 {
				e.Mixed = true
			}
			if seen[a.Target] {
				e.Loop, e.EndKind = true, "loop"
				return e
			}
			cur = a.Target
			seen[cur] = true
			e.Chain = append(e.Chain, cur)
			continue
		default:
			e.EndKind, e.svc = "service", recs
		}
		return e
	}
}

// aliasOf returns the AliasMode record of an RRSet, if it has one (at any position).
func aliasOf(recs []*dohfake.HTTPS) *dohfake.HTTPS {
	for _, h := range recs {
		if h.Priority == 0 {
			return h
		}
	}
	return nil
}

func ipKey(ips []netip.Addr) string {
	s := make([]string, len(ips))
	for i, a := range ips {
		s[i] = a.String()
	}
	sort.Strings(s)
	return strings.Join(s, ",")
}

func fromNet(ips []net.IP) []netip.Addr {
	out := make([]netip.Addr, 0, len(ips))
	for _, ip := range ips {
		a, _ := netip.AddrFromSlice(ip)
		out = append(out, a) // length 4 stays IPv4, 16 stays IPv6 (no unmapping: the family must match too)
	}
	return out
}

func recKey(prio uint16, target string, alpn []string, nda bool, port uint16, v4, v6 []netip.Addr, echb []byte) string {
	if isRoot(target) {
		target = ""
	}
	return fmt.Sprintf("%d|%s|%q|%v|%d|%s|%s|%x", prio, strings.ToLower(target), alpn, nda, port, ipKey(v4), ipKey(v6), echb)
}
func zoneKey(h *dohfake.HTTPS) string {
	return recKey(h.Priority, h.Target, h.ALPN, h.NoDefaultALPN, h.Port, h.IPv4Hint, h.IPv6Hint, h.ECH)
}
func resKey(h dns.HTTPS) string {
	return recKey(h.Priority, h.Target, h.ALPN, h.NoDefaultALPN, h.Port, fromNet(h.IPv4Hint), fromNet(h.IPv6Hint), h.ECH)
}

func dumpZone(z *dohfake.Zone) []string {
	var out []string
	rr := func(r dohfake.RR) string {
		switch r.Type {
		case dohfake.TypeCNAME:
			return fmt.Sprintf("%s %d CNAME %s", r.Owner, r.TTL, r.Target)
		case dohfake.TypeHTTPS:
			return fmt.Sprintf("%s %d HTTPS %s", r.Owner, r.TTL, zoneKey(r.HTTPS))
		}
		return fmt.Sprintf("%s %d ADDR %s", r.Owner, r.TTL, r.Addr)
	}
	for _, rrs := range z.RRs {
		for _, r := range rrs {
			out = append(out, rr(r))
		}
	}
	for k, rc := range z.Rcode {
		out = append(out, fmt.Sprintf("RCODE %s type=%d -> %d", k.Name, k.Type, rc))
	}
	for k, p := range z.Poison {
		for _, r := range p.Before {
			out = append(out, fmt.Sprintf("POISON-BEFORE (%s,%d): %s", k.Name, k.Type, rr(r)))
		}
		for _, r := range p.After {
			out = append(out, fmt.Sprintf("POISON-AFTER (%s,%d): %s", k.Name, k.Type, rr(r)))
		}
	}
	sort.Strings(out)
	return append(out, fmt.Sprintf("nx-unknown=%v compress=%v answer-order=%d chunked=%v", z.NXUnknown, z.Compress, z.Order, z.Chunked))
}

var rcodeErr = map[int]error{1: ech.ErrFormatError, 2: ech.ErrServerFailure, 3: ech.ErrNonExistentDomain, 4: ech.ErrNotImplemented, 5: ech.ErrQueryRefused}

// ---- the check ----

func TestCheck(t *testing.T) {
	log.SetOutput(io.Discard) // Resolve reports alias loops through the standard logger
	r := mon.Start(t, "C14", "exploration")
	defer r.Finish()
	r.SetRule("seed-determined DNS universes over 12 short names + 2 attacker names (A/AAAA 0..3, CNAMEs incl. loops, HTTPS alias chains of 0..8 hops ending in service records / nothing / NXDOMAIN / a loop / a self alias / alias to '.', " +
		"service records with priorities, '.'/named targets, ports, alpn, ech, hints; forced rcodes 1..5 per (name, qtype); service targets whose A lookup succeeds while their AAAA lookup alone fails; poisoned answers owned by unrelated names before/after the genuine ones; NXDOMAIN or no-data for unknown names; name compression on/off) " +
		"x name forms host, host:port, scheme://host[:port]/path, ports {0,80,443,8443,65535}, schemes {https,http,foo,wss,mixed case, 62/63/64/254/255/300 letters}, hosts with 63/64-byte labels and totals 253/254/255/256/300. " +
		"Every fourth case runs on a Resolver with a history: it resolved the same name in another universe, then the virtual clock jumped beyond every TTL and the universe was replaced. " +
		"distinct = distinct (input class, form, port class, scheme class, alias hops, chain end kind, rcodes served, poisoned) classes that reached Resolve")
	r.Assume("internal/dohfake: responses built with x/net dnsmessage.Builder and an own RFC 9460 RDATA encoder, queries judged by a literal label walk and dnsmessage.Parser",
		"the universe (Zone.Lookup) answers like a recursive resolver: CNAME RRs first, then the RRSet at the end of the chain",
		"an RRSet that holds an alias-mode record is read as an alias wherever the record stands in the answer (RFC 9460 section 2.4.1: the service-mode records of such a set are ignored)",
		"address order inside an RRSet is not judged; ties in priority may come in any order",
		"port 0 is treated as 'no port given'; an rcode other than NXDOMAIN on an HTTPS lookup may be reported as an error or ignored, errors on lookups of service targets may be ignored",
		"'together with their targets' addresses': for a target whose A and AAAA lookups both succeed, exactly the zone's addresses; when one family's lookup fails, what the other family delivered is either all in Additional[target] or the target is given up (the statement does not say which) - never a part of it, and nothing the zone does not give may appear")

	// One listener per worker for the whole run (a listener per case exhausts the loopback port space).
	workers := runtime.GOMAXPROCS(0)
	servers := make(chan *dohfake.Server, workers)
	for w := 0; w < workers; w++ {
		srv := dohfake.NewServer(dohfake.NewZone())
		defer srv.Close()
		if !strings.HasPrefix(srv.URL, "http://127.0.0.1:") {
			r.Inconclusive("fixture: no listener on 127.0.0.1 (%s)", srv.URL)
			return
		}
		servers <- srv
	}
	// Every fourth case uses a Resolver with a history: it has resolved the same name against ANOTHER universe, then
	// the (virtual) clock moves far beyond every TTL and the universe is replaced. Nothing of the old one may show.
	var clockOffset atomic.Int64
	clockBase := time.Date(2030, 1, 1, 0, 0, 0, 0, time.UTC)
	// time.Unix, not clockBase.Add(seconds*time.Second): the offset grows by 10^6 s per history case and a Duration
	// overflows after 9.2*10^9 s, which made the clock jump BACK once every 18446 such cases (thorough tier only).
	restoreClock := ech.VerifSetClock(func() time.Time { return time.Unix(clockBase.Unix()+clockOffset.Load(), 0) })
	defer restoreClock()
	n := r.N(3000, 150000)
	r.Parallel("resolve", n, func(i int, rng *mrand.Rand) {
		in := genInput(rng, i)
		var z0 *dohfake.Zone
		if i%4 == 3 && in.Class == "normal" {
			z0 = genZone(rng, in)
		}
		z := genZone(rng, in)
		c := map[string]any{"input": in, "zone": dumpZone(z)}
		if z0 != nil {
			c["earlier_zone"] = dumpZone(z0)
		}
		if i < 2 || i == len(specials) {
			r.Sample(c)
		}
		if z.Chunked {
			r.Count("universes_served_without_content_length", 1)
		}
		srv := <-servers // exclusive use for this case
		defer func() { servers <- srv }()
		srv.Reset(z)
		resolver, err := ech.NewResolver(srv.URL)
		if err != nil {
			r.Inconclusive("fixture: NewResolver(%q): %v", srv.URL, err)
			return
		}
		ctx, cancel := context.WithTimeout(context.Background(), 2*time.Minute) // watchdog only
		defer cancel()
		if z0 == nil {
			resolver.SetCacheSize(0)
		} else {
			srv.Reset(z0)
			var warmErr error
			if r.Guard("resolve", i, "resolve:earlier-universe", c, func() { _, warmErr = resolver.Resolve(ctx, in.Arg) }) {
				return
			}
			c["earlier_result_error"] = fmt.Sprint(warmErr)
			clockOffset.Add(1_000_000) // all TTLs are below 1000 s
			srv.Reset(z)
			r.Count("cases_with_resolver_history", 1)
		}
		// Q2 is a count, not a deadline: the 65th query cancels the call so that an unbounded chase ends.
		var overrun atomic.Bool
		srv.OnQuery(func(q dohfake.Query) {
			if q.Seq > maxQueries {
				overrun.Store(true)
				cancel()
			}
		})
		var res ech.ResolveResult
		rule := "resolve"
		if in.Class != "normal" {
			rule = "Q6"
			r.Count("overlong_inputs", 1)
		}
		panicked := r.Guard("resolve", i, rule, c, func() { res, err = resolver.Resolve(ctx, in.Arg) })
		qlog := srv.Log()
		c["queries"] = qlog
		if panicked {
			r.Eval("panic|" + in.Class)
			return
		}
		if err != nil {
			c["error"] = err.Error()
		} else {
			c["result"] = fmt.Sprintf("%+v", res)
		}
		if overrun.Load() {
			r.Eval("overrun|" + in.Class)
			r.Violate("resolve", i, "Q2:too-many-queries", fmt.Sprintf("Resolve(%s) sent more than %d queries (cancelled at #%d); last names asked: %s", mon.Clip(in.Arg, 60), maxQueries, len(qlog), lastNames(qlog)), c)
			return
		}
		if ctx.Err() != nil {
			r.Inconclusive("watchdog: Resolve(%q) did not return within 2 minutes", mon.Clip(in.Arg, 80))
			return
		}
		var ue *url.Error
		var ne net.Error
		if errors.As(err, &ue) || errors.As(err, &ne) {
			r.Inconclusive("fixture: transport error %v", err)
			return
		}
		viol := func(sig, f string, a ...any) { r.Violate("resolve", i, sig, fmt.Sprintf(f, a...), c) }
		r.Count("queries", int64(len(qlog)))

		// port 0: the statement is silent; accept "_0._scheme.host" as the SVCB name if that is what was asked
		start := in.Svcb
		if in.Port == 0 {
			s := strings.ToLower(in.Scheme)
			if s == "" || s == "http" {
				s = "https"
			}
			alt := "_0._" + s + "." + in.Host
			for _, q := range qlog {
				if q.Name == alt {
					start = alt
				}
			}
		}
		exp := walk(z, start)
		c["expected_chain"] = exp

		// Q2: bounded number of queries
		if len(qlog) > maxQueries {
			viol("Q2:too-many-queries", "%d queries for one Resolve", len(qlog))
		}

		// Q1: legality and provenance of every query name
		allowed := map[string]bool{}
		for _, nm := range append([]string{in.Host, start}, exp.Chain...) {
			for k := range cnameChain(z, nm) {
				allowed[k] = true
			}
		}
		if recs, _ := httpsAt(z, exp.Chain[len(exp.Chain)-1]); aliasOf(recs) != nil {
			allowed[aliasOf(recs).Target] = true // loop-closing target (already on the chain)
		}
		for _, h := range exp.svc {
			if !isRoot(h.Target) {
				for k := range cnameChain(z, h.Target) {
					allowed[k] = true
				}
			}
		}
		poisonNames := map[string]bool{}
		for _, e := range evil {
			poisonNames[e] = true
		}
		malformed := false
		var served []dohfake.Query // queries answered with a non-zero rcode
		hopsSeen, poisonedServed := 0, 0
		for _, q := range qlog {
			if q.Poisoned {
				poisonedServed++
			}
			if q.Unordered {
				r.Count("answers_with_cname_after_its_target", 1)
			}
			if !q.Legal || !q.Parsed {
				malformed = true
				// signature = which name is illegal (the origin itself, or only its RFC 9460 prefixed form) and why
				what, bad := "svcb", in.Svcb
				if in.Class == "host-illegal" {
					what, bad = "host", in.Host
				} else if in.Class == "normal" {
					what, bad = "other", q.Name
				}
				why := "len>255" // text length; 254..255 is the window a "len(name) > 255" test lets through
				if len(bad) <= 255 {
					why = "len254-255"
				}
				if longest(strings.Split(bad, ".")) > 63 {
					why = "label>63"
				}
				if len(q.Labels) == 0 {
					why = "empty"
				}
				viol("Q1:malformed-qname:"+what+":"+why, "query #%d carries an illegal QNAME (labels %d, longest %d, parsed=%v) for Resolve(%s)", q.Seq, len(q.Labels), longest(q.Labels), q.Parsed, mon.Clip(in.Arg, 60))
				continue
			}
			if in.DotScheme {
				// the scheme label must be on the wire as ONE label; the joined text of a name whose scheme was split
				// on its dots reads the same, so the labels decide
				whole := "_" + strings.ToLower(in.Scheme)
				for _, l := range q.Labels {
					if l != whole && strings.HasPrefix(whole, l+".") {
						viol("Q1:malformed-qname:scheme-split-over-labels", "query #%d for Resolve(%s) carries the labels %q: the scheme label %q is spread over several labels, which is the RFC 9460 name of another scheme on another host", q.Seq, mon.Clip(in.Arg, 60), q.Labels, whole)
						break
					}
				}
			}
			if q.Type != dohfake.TypeA && q.Type != dohfake.TypeAAAA && q.Type != dohfake.TypeHTTPS {
				viol("Q1:qtype", "query #%d has qtype %d", q.Seq, q.Type)
			}
			if !allowed[q.Name] {
				switch {
				case poisonNames[q.Name]:
					viol("Q1:qname-from-poison", "query #%d asks for %s, a name that only unrelated (poison) records mention", q.Seq, q.Name)
				case strings.HasPrefix(q.Name, "_") && strings.HasSuffix(q.Name, "."+in.Host), q.Name == in.Host:
					viol("Q1:wrong-svcb-qname", "query #%d asks for %s; RFC 9460 2.3 name for %s is %s", q.Seq, q.Name, mon.Clip(in.Arg, 60), start)
				default:
					viol("Q1:unrelated-qname", "query #%d asks for %s which is neither the origin, its SVCB name, an alias target on the chain %v nor a target of its service records", q.Seq, q.Name, exp.Chain)
				}
			}
			if q.Rcode != 0 {
				served = append(served, q)
			}
			if q.Type == dohfake.TypeHTTPS && len(exp.Chain) > 1 {
				for _, nm := range exp.Chain[1:] {
					if q.Name == nm {
						hopsSeen++
						break
					}
				}
			}
		}
		r.Count("alias_hops_followed", int64(hopsSeen))
		r.Count("poisoned_answers_served", int64(poisonedServed))
		if exp.Loop {
			r.Count("loops_generated", 1)
		}
		if len(cnameChain(z, in.Host)) > 1 || len(cnameChain(z, start)) > 1 {
			r.Count("cname_cases", 1) // the answer used was reached through an in-answer CNAME chain
		}
		rcs := ""
		for _, q := range served {
			rcs += fmt.Sprintf("%d/%d,", q.Type, q.Rcode)
		}
		if len(served) > 0 {
			r.Count("error_rcode_cases", 1)
		}
		r.Eval(fmt.Sprintf("%s|arg%d|port%d|scheme%s|hops%d|%s|rc%s|poison%v|err%v", in.Class, strings.Count(in.Arg, ":"), in.Port,
			mon.Clip(strings.ToLower(in.Scheme), 6), len(exp.Chain)-1, exp.EndKind, rcs, poisonedServed > 0, err != nil))
		if malformed {
			return // the server answered FORMERR: nothing further can be attributed
		}

		// Q6: over-long input is refused with an error (no panic, no malformed query: judged above)
		if in.Class == "host-illegal" {
			if err == nil {
				viol("Q6:no-error", "Resolve accepted a host of %d bytes (longest label %d)", len(in.Host), longest(strings.Split(in.Host, ".")))
			}
			return
		}
		checkPoison := func() {
			for _, a := range fromNet(res.Address) {
				if isEvilAddr(a) {
					viol("Q4:poison-address", "result address %s comes from a record owned by an unrelated name", a)
				}
			}
			for _, ips := range res.Additional {
				for _, a := range fromNet(ips) {
					if isEvilAddr(a) {
						viol("Q4:poison-address", "additional address %s comes from a record owned by an unrelated name", a)
					}
				}
			}
			for _, h := range res.HTTPS {
				if strings.HasPrefix(string(h.ECH), evilECH) {
					viol("Q3:poison-ech", "result carries the ECH config list of a record owned by an unrelated name: %s", h)
				}
			}
		}

		// Q5: error mapping
		if in.DotScheme {
			r.Count("inputs_with_a_dot_in_the_scheme", 1)
		}
		if err != nil {
			if in.Class == "svcb-illegal" {
				return // refusing is one of the two acceptable outcomes
			}
			if in.DotScheme && len(qlog) == 0 {
				r.Count("dotted_schemes_refused_without_a_query", 1)
				return // a codec that cannot put a dot into a label may refuse the name
			}
			onlyNXHTTPS, justified := len(served) > 0, false
			for _, q := range served {
				if q.Type == dohfake.TypeHTTPS && q.Rcode == dohfake.NXDomain {
					continue
				}
				onlyNXHTTPS = false
				if e := rcodeErr[q.Rcode]; e != nil && errors.Is(err, e) {
					justified = true
				}
				if q.Rcode > 5 {
					justified = true // no documented error for this code: any error is the right answer
					r.Count("extended_rcode_errors", 1)
				}
			}
			switch {
			case justified:
				r.Count("errors_mapped", 1)
			case len(served) == 0:
				viol("Q5:unexpected-error", "Resolve(%s) failed with %q although every query was answered NOERROR", mon.Clip(in.Arg, 60), err)
			case onlyNXHTTPS:
				viol("Q5:nxdomain-on-https-is-failure", "Resolve(%s) failed with %q; the only non-zero rcode was NXDOMAIN on HTTPS lookups", mon.Clip(in.Arg, 60), err)
			default:
				viol("Q5:wrong-error:rcode"+distinctRcodes(served), "Resolve(%s) failed with %q which is not the documented error of any rcode served (qtype/rcode: %s)", mon.Clip(in.Arg, 60), err, rcs)
			}
			return
		}
		checkPoison()
		if in.Class == "svcb-illegal" {
			return // not sending the prefixed query is acceptable; the statement does not say what the result is then
		}

		// Q3: service records of the end of the alias chain, by priority
		strict := len(exp.Chain)-1 <= 2 && !exp.Loop && exp.EndKind != "rcode"
		want := map[string]int{}
		for _, h := range exp.svc {
			want[zoneKey(h)]++
		}
		foreign := false
		for k, h := range res.HTTPS {
			if k > 0 && res.HTTPS[k-1].Priority > h.Priority {
				viol("Q3:not-sorted", "priorities %d before %d", res.HTTPS[k-1].Priority, h.Priority)
			}
			if key := resKey(h); want[key] > 0 {
				want[key]--
			} else if !strings.HasPrefix(string(h.ECH), evilECH) {
				foreign = true
				viol("Q3:foreign-record", "result record {%s} is not a service-mode record of %s (end of the alias chain %v)", h, exp.Chain[len(exp.Chain)-1], exp.Chain)
			} else {
				foreign = true
			}
		}
		if len(res.HTTPS) > 0 {
			r.Count("results_with_https", 1)
		}
		if strict && len(res.HTTPS) < len(exp.svc) && !foreign {
			viol("Q3:missing-record", "%d of %d service records of %s returned (alias hops: %d)", len(res.HTTPS), len(exp.svc), exp.Chain[len(exp.Chain)-1], len(exp.Chain)-1)
		}
		if strict && len(exp.svc) > 0 {
			r.Count("strict_equality_checks", 1)
		}

		// Q4: addresses of the name the chain ends at (origin when there is no alias)
		end := exp.Chain[len(exp.Chain)-1]
		if len(exp.Chain) == 1 {
			end = in.Host
		}
		cands := []string{end}
		if !strict && len(res.HTTPS) == 0 { // abandoned chain: origin or any name on the chain
			cands = append([]string{in.Host}, exp.Chain[1:]...)
		}
		got := ipKey(fromNet(res.Address))
		matched, matchedFailed := false, ""
		for _, x := range cands {
			ips, rcA, rcAAAA := addrsAt(z, x)
			if ipKey(ips) != got {
				continue
			}
			if rcA == 0 && rcAAAA == 0 {
				matched = true
				break
			}
			matchedFailed = fmt.Sprintf("%s (A rcode %d, AAAA rcode %d)", x, rcA, rcAAAA)
		}
		switch {
		case matched:
			r.Count("addresses_checked", int64(len(res.Address)))
		case matchedFailed != "":
			viol("Q5:rcode-ignored", "Resolve(%s) succeeded although the address lookup of %s failed", mon.Clip(in.Arg, 60), matchedFailed)
		default:
			ips, _, _ := addrsAt(z, end)
			viol("Q4:address-mismatch", "addresses [%s], the zone gives [%s] for %s (candidates %v)", got, ipKey(ips), end, cands)
		}
		targets, partialDone := map[string]bool{}, map[string]bool{}
		answeredOK, answeredFail := map[dohfake.Key]bool{}, map[dohfake.Key]bool{}
		for _, q := range qlog {
			if q.Status == 200 && q.Rcode == 0 {
				answeredOK[dohfake.Key{Name: q.Name, Type: q.Type}] = true
			} else {
				answeredFail[dohfake.Key{Name: q.Name, Type: q.Type}] = true
			}
		}
		for _, h := range res.HTTPS {
			if h.Target == "" {
				continue
			}
			targets[h.Target] = true
			ips, rcA, rcAAAA := addrsAt(z, h.Target)
			have := ipKey(fromNet(res.Additional[h.Target]))
			if rcA == 0 && rcAAAA == 0 && have != ipKey(ips) {
				viol("Q4:additional-mismatch", "Additional[%s] = [%s], the zone gives [%s]", h.Target, have, ipKey(ips))
			} else if have != "" {
				r.Count("additional_checked", 1)
			}
			if partialDone[h.Target] || (rcA == 0 && rcAAAA == 0) {
				continue
			}
			// One family failed. "together with their targets' addresses" = every address the resolver was
			// actually given for the target of a returned record: what a query answered NOERROR (server log)
			// delivered must be there, whatever happened to the other family. A family whose own query failed
			// or was never sent is not demanded.
			partialDone[h.Target] = true
			hs := "," + have + ","
			for _, typ := range []uint16{dohfake.TypeA, dohfake.TypeAAAA} {
				given, _ := addrsOf(z, h.Target, typ)
				if !answeredOK[dohfake.Key{Name: strings.ToLower(h.Target), Type: typ}] || len(given) == 0 {
					continue
				}
				other := dohfake.Key{Name: strings.ToLower(h.Target), Type: dohfake.TypeA + dohfake.TypeAAAA - typ}
				if answeredFail[other] {
					r.Count("target_partial_failures", 1)
				}
				// What the resolver was given for one family while the other family's lookup failed is either all there
				// or not there at all. The statement does not say which ("together with their targets' addresses" is
				// silent about a target whose lookup half fails): an implementation that asks for both families at
				// once and gives the target up when either fails satisfies it as well as one that keeps the half it
				// got. (This rule used to demand the half; two independent property-preserving changes - equiv/q4-e1
				// and r4-e1 - showed that demand to be the monitor's, not the statement's.) A half-kept family, i.e.
				// some but not all of its addresses, is still a defect.
				kept := 0
				for _, a := range given {
					if strings.Contains(hs, ","+a.String()+",") {
						kept++
					}
				}
				switch {
				case kept == len(given):
					r.Count("target_partial_failures_half_kept", 1)
				case kept == 0:
					r.Count("target_partial_failures_target_given_up", 1)
				default:
					viol("Q4:target-addresses-partly-dropped-after-partial-failure", "the type %d query for %s, target of the returned record {%s}, was answered NOERROR with [%s] but Additional[%s] = [%s] holds only %d of them (A rcode %d, AAAA rcode %d)",
						typ, h.Target, h, ipKey(given), h.Target, have, kept, rcA, rcAAAA)
				}
			}
		}
		for tname, ips := range res.Additional {
			if !targets[tname] && len(ips) > 0 {
				viol("Q4:additional-unrelated", "Additional carries %s which is not a target of a returned record", tname)
			}
			zips, _, _ := addrsAt(z, tname)
			zs := "," + ipKey(zips) + ","
			for _, a := range fromNet(ips) {
				if !strings.Contains(zs, ","+a.String()+",") && !isEvilAddr(a) {
					viol("Q4:additional-mismatch", "Additional[%s] has %s which the zone does not give", tname, a)
				}
			}
		}
	})
	// -- name forms for which no conformant query name exists: IP literals in every spelling (answered without DNS)
	// and names with an empty label (refused, or at least never put on the wire) --
	type lit struct {
		arg  string
		ip   string
		port uint16
	}
	var lits []lit
	for _, ip := range []string{"192.0.2.7", "2001:db8::7", "::1", "::ffff:192.0.2.9"} {
		v6 := strings.Contains(ip, ":")
		b := ip
		if v6 {
			b = "[" + ip + "]"
			lits = append(lits, lit{ip, ip, 0}, lit{b, ip, 0})
		} else {
			lits = append(lits, lit{ip, ip, 0})
		}
		lits = append(lits, lit{b + ":443", ip, 443}, lit{b + ":8443", ip, 8443},
			lit{"https://" + b, ip, 0}, lit{"https://" + b + "/x?y=1", ip, 0}, lit{"https://" + b + ":8443/x", ip, 8443}, lit{"foo://" + b + "/", ip, 0})
	}
	var empties []string
	for _, h := range []string{"a..zz", ".a.zz", "a.zz..", "..", ".", "a...b.zz", "www..zz"} {
		empties = append(empties, h, h+":8443", "https://"+h+"/p")
	}
	// a port that is no port: the name must not go on the wire with the colon in it
	badPorts := []string{"a.zz:70000", "a.zz:65536", "a.zz:-1", "a.zz:abc", "a.zz:44x", "https://a.zz:70000/p", "a.zz:8443:1"}
	// an empty port is the default port (RFC 3986 section 3.2.3)
	emptyPorts := []string{"https://a.zz:/p", "https://a.zz:", "a.zz:"}
	r.ParallelW("forms", len(lits)+len(empties)+len(badPorts)+len(emptyPorts), 1, func(i int, rng *mrand.Rand) {
		srv := <-servers
		defer func() { servers <- srv }()
		z := dohfake.NewZone()
		z.Add(dohfake.Addr("a.zz", netip.MustParseAddr("10.1.2.3"), 60))
		z.NXUnknown = i%2 == 0
		srv.Reset(z)
		resolver, err := ech.NewResolver(srv.URL)
		if err != nil {
			r.Inconclusive("fixture: NewResolver(%q): %v", srv.URL, err)
			return
		}
		ctx, cancel := context.WithTimeout(context.Background(), 2*time.Minute) // watchdog only
		defer cancel()
		arg := ""
		kind := "literal"
		switch {
		case i < len(lits):
			arg = lits[i].arg
		case i < len(lits)+len(empties):
			arg, kind = empties[i-len(lits)], "empty-label"
		case i < len(lits)+len(empties)+len(badPorts):
			arg, kind = badPorts[i-len(lits)-len(empties)], "bad-port"
		default:
			arg, kind = emptyPorts[i-len(lits)-len(empties)-len(badPorts)], "empty-port"
		}
		c := map[string]any{"arg": arg}
		var res ech.ResolveResult
		if r.Guard("forms", i, "forms", c, func() { res, err = resolver.Resolve(ctx, arg) }) {
			return
		}
		qlog := srv.Log()
		c["queries"], c["error"], c["result"] = qlog, fmt.Sprint(err), fmt.Sprintf("%+v", res)
		r.Eval("forms|" + arg)
		if i < len(lits) {
			l := lits[i]
			r.Count("ip_literal_forms", 1)
			want := netip.MustParseAddr(l.ip).Unmap()
			switch got := fromNet(res.Address); {
			case len(qlog) > 0:
				r.Violate("forms", i, "Q1:query-for-an-ip-literal", fmt.Sprintf("Resolve(%q) sent %d DNS queries (first for %q): an IP literal has no query name", arg, len(qlog), qlog[0].Name), c)
			case err != nil:
				r.Violate("forms", i, "literal:error", fmt.Sprintf("Resolve(%q) failed: %v", arg, err), c)
			case len(got) != 1 || got[0].Unmap() != want || len(res.HTTPS) != 0:
				r.Violate("forms", i, "literal:wrong-result", fmt.Sprintf("Resolve(%q) = addresses %v, %d HTTPS records; want exactly [%s]", arg, got, len(res.HTTPS), want), c)
			case l.port != 0 && res.Port != l.port:
				r.Violate("forms", i, "literal:wrong-port", fmt.Sprintf("Resolve(%q) reports port %d, want %d", arg, res.Port, l.port), c)
			}
			return
		}
		if kind == "bad-port" || kind == "empty-port" {
			r.Count("odd_port_forms", 1)
			for _, q := range qlog {
				if strings.Contains(q.Name, ":") || q.Name != "a.zz" && !strings.HasSuffix(q.Name, ".a.zz") {
					r.Violate("forms", i, "Q1:malformed-qname:port-in-name", fmt.Sprintf("Resolve(%q) asked for %q", arg, q.Name), c)
					return
				}
			}
			if kind == "empty-port" {
				if got := fromNet(res.Address); err != nil || len(got) != 1 || got[0] != netip.MustParseAddr("10.1.2.3") {
					r.Violate("forms", i, "forms:empty-port-not-the-default-port", fmt.Sprintf("Resolve(%q) = %v, %v; an empty port means the default port, a.zz has address 10.1.2.3", arg, got, err), c)
				}
			}
			return
		}
		r.Count("empty_label_forms", 1)
		if len(qlog) > 0 {
			r.Violate("forms", i, "Q1:malformed-qname:empty-label", fmt.Sprintf("Resolve(%q) put %d queries on the wire (first QNAME %q, parsed=%v): a name with an empty label has no wire form", arg, len(qlog), qlog[0].Name, qlog[0].Parsed), c)
		}
	})
	r.Floor("ip_literal_forms", int64(len(lits)))
	r.Floor("empty_label_forms", int64(len(empties)))
	r.Floor("queries", int64(n)*2)
	r.Floor("cases_with_resolver_history", int64(n)/6)
	r.Floor("answers_with_cname_after_its_target", int64(n)/100)
	r.Floor("universes_served_without_content_length", int64(n)/16)
	r.Floor("inputs_with_a_dot_in_the_scheme", int64(n)/200)
	r.Count("service_targets_spelled_with_capitals", mixedCaseTargets.Load())
	r.Floor("service_targets_spelled_with_capitals", int64(n)/50)
	r.Count("poison_records_owned_by_unicode_fold_variant_of_the_name", foldPoison.Load())
	r.Floor("poison_records_owned_by_unicode_fold_variant_of_the_name", int64(n)/200)
	r.Floor("alias_hops_followed", int64(n)/10)
	r.Floor("loops_generated", int64(n)/100)
	r.Floor("cname_cases", int64(n)/30)
	r.Floor("poisoned_answers_served", int64(n)/20)
	r.Floor("error_rcode_cases", int64(n)/20)
	r.Floor("overlong_inputs", int64(len(specials)))
	r.Floor("strict_equality_checks", int64(n)/20)
	r.Floor("results_with_https", int64(n)/20)
	r.Floor("target_partial_failures", int64(n)/50)
}

// distinctRcodes: sorted distinct rcodes served, NXDOMAIN on HTTPS lookups left out.
func distinctRcodes(q []dohfake.Query) string {
	var seen [16]bool
	for _, e := range q {
		if e.Rcode > 0 && e.Rcode < 16 && !(e.Type == dohfake.TypeHTTPS && e.Rcode == dohfake.NXDomain) {
			seen[e.Rcode] = true
		}
	}
	s := ""
	for rc, ok := range seen {
		if ok {
			s += fmt.Sprintf("+%d", rc)
		}
	}
	return strings.TrimPrefix(s, "+")
}

func lastNames(q []dohfake.Query) string {
	var s []string
	for _, e := range q[max(0, len(q)-6):] {
		s = append(s, fmt.Sprintf("%s/%d", mon.Clip(e.Name, 40), e.Type))
	}
	return strings.Join(s, " ")
}

func longest(labels []string) int {
	m := 0
	for _, l := range labels {
		m = max(m, len(l))
	}
	return m
}
