// C17 — Dial never weakens the caller's ECH or server-name requirements.
//
// Every scenario is a PRNG-generated DNS universe served by internal/dohfake,
// an address string (host, host:port, comma list), Dialer settings, a caller
// tls.Config and a script of per-attempt outcomes. Dialer[*fakeConn].Dial runs
// with a recording DialFunc; every invocation is logged with a deep snapshot of
// the *tls.Config it received. The oracle works on that log only. What the
// zone says (which HTTPS record produces which address, with which ech) comes
// from an own reference of the RFC 9460 / Targets rules over
// dohfake.Zone.Lookup, never from Resolve or Targets.
//
// MaxConcurrency is 1, so invocations are sequential and the log order is the
// order in which Dial made them; no verdict depends on time.
package c17

import (
	"bytes"
	"context"
	"crypto/tls"
	"encoding/binary"
	"errors"
	"fmt"
	"hash/fnv"
	"io"
	"log"
	mrand "math/rand/v2"
	"net/netip"
	"reflect"
	"runtime"
	"sort"
	"strconv"
	"strings"
	"sync"
	"testing"
	"time"

	"github.com/c2FmZQ/ech"

	"verif/harness/internal/dohfake"
	"verif/harness/internal/mon"
)

// ---- names of the universe ----

var (
	originPool = []string{"a.zz", "b.zz", "c.zz", "d.zz"}
	svcPool    = []string{"t1.zz", "t2.zz", "t3.zz"}
	aliasPool  = []string{"al1.zz", "al2.zz"}
	cnamePool  = []string{"cn1.zz", "cn2.zz", "cn3.zz", "cn4.zz"} // cnN is the CNAME target of the N-th origin
	svcCname   = "cnt.zz"                                         // CNAME target of a service target
)

const (
	callerName = "caller.example"
	publicName = "public.example"
)

func nameClass(n string) string {
	in := func(p []string) bool {
		for _, x := range p {
			if x == n {
				return true
			}
		}
		return false
	}
	switch {
	case n == "":
		return "empty"
	case in(originPool):
		return "other-origin"
	case in(svcPool) || n == svcCname:
		return "svcb-target"
	case in(aliasPool):
		return "alias-target"
	case in(cnamePool):
		return "cname-target"
	case n == callerName:
		return "caller-name"
	case n == publicName:
		return "public-name"
	case strings.HasPrefix(n, "_"):
		return "svcb-query-name"
	case strings.Contains(n, ":"):
		if _, err := netip.ParseAddrPort(n); err == nil {
			return "ip-port"
		}
		if _, err := netip.ParseAddr(n); err == nil {
			return "ip"
		}
		return "host-with-port"
	}
	if _, err := netip.ParseAddr(n); err == nil {
		return "ip"
	}
	return "other"
}

// ---- scenario ----

type part struct {
	Arg  string `json:"arg"`  // what the caller wrote (trimmed)
	Host string `json:"host"` // the host the caller named
	Port int    `json:"port"` // -1 none
	URI  bool   `json:"uri,omitempty"`
}

type scenario struct {
	Addr       string `json:"addr"`
	Parts      []part `json:"parts"`
	Network    string `json:"network"`
	RequireECH bool   `json:"require_ech"`
	emptyECH   int
	PublicName string `json:"public_name"`
	Caller     string `json:"caller_config"` // nil | empty | list | sn | both | emptylist | emptylist+sn
	Profile    string `json:"outcome_profile"`
	AliasZone  bool   `json:"alias_zone"`
	CnameZone  bool   `json:"cname_zone"`
	scriptSeed uint64
	callerList []byte // nil = none supplied
	callerSN   string
	zone       *dohfake.Zone
	zoneECH    map[string]string // ech bytes -> owner (for classification)
}

func letters(rng *mrand.Rand, n int) string {
	b := make([]byte, n)
	for i := range b {
		b[i] = byte('a' + rng.IntN(26))
	}
	return string(b)
}

type zoneGen struct {
	rng  *mrand.Rand
	z    *dohfake.Zone
	done map[string]bool
	n4   int
	n6   int
	nh   int
	nech int
	ech  map[string]string

	emptyECH int // records with "ech=" of zero bytes
}

func (g *zoneGen) v4() netip.Addr {
	g.n4++
	return netip.AddrFrom4([4]byte{10, 1, byte(g.n4 >> 8), byte(g.n4)})
}
func (g *zoneGen) v6() netip.Addr {
	g.n6++
	return netip.AddrFrom16([16]byte{0xfd, 0, 0, 1, 14: byte(g.n6 >> 8), 15: byte(g.n6)})
}
func (g *zoneGen) hint(v6 bool) netip.Addr {
	g.nh++
	if v6 {
		return netip.AddrFrom16([16]byte{0xfd, 0, 0, 9, 14: byte(g.nh >> 8), 15: byte(g.nh)})
	}
	return netip.AddrFrom4([4]byte{10, 9, byte(g.nh >> 8), byte(g.nh)})
}

// newECH returns a list that occurs nowhere else in the scenario: mostly an opaque
// byte string (Dial treats lists as opaque), sometimes a genuine ECHConfigList.
func (g *zoneGen) newECH(owner string) []byte {
	g.nech++
	var b []byte
	if g.rng.IntN(6) == 0 {
		if _, c, err := ech.NewConfig(uint8(g.nech), []byte("pub-"+owner)); err == nil {
			b, _ = ech.ConfigList([]ech.Config{c})
		}
	}
	if b == nil {
		b = []byte(fmt.Sprintf("ECH|%s|%d|%s", owner, g.nech, letters(g.rng, 1+g.rng.IntN(12))))
	}
	g.ech[string(b)] = owner
	return b
}

func (g *zoneGen) addrs(name string, n4, n6 int) {
	for ; n4 > 0; n4-- {
		g.z.Add(dohfake.Addr(name, g.v4(), 60))
	}
	for ; n6 > 0; n6-- {
		g.z.Add(dohfake.Addr(name, g.v6(), 60))
	}
}

// svcTarget makes sure the named service target has its own records.
func (g *zoneGen) svcTarget(name string) {
	if g.done[name] {
		return
	}
	g.done[name] = true
	switch p := g.rng.IntN(100); {
	case p < 10: // no address at all
	case p < 22 && !g.done[svcCname]: // reached through a CNAME
		g.done[svcCname] = true
		g.z.Add(dohfake.CNAME(name, svcCname, 60))
		g.addrs(svcCname, 1+g.rng.IntN(2), g.rng.IntN(2))
	default:
		n4, n6 := g.rng.IntN(3), g.rng.IntN(3)
		if n4+n6 == 0 {
			n4 = 1
		}
		g.addrs(name, n4, n6)
	}
}

// services puts 1..3 service-mode records at owner.
func (g *zoneGen) services(owner string) {
	k := 1 + g.rng.IntN(3)
	prios := g.rng.Perm(k)
	echMode := g.rng.IntN(4) // 0: none, 1: all, 2,3: some records only
	for i := 0; i < k; i++ {
		h := dohfake.HTTPS{Priority: uint16(1 + prios[i])}
		if g.rng.IntN(7) == 0 {
			h.Priority = uint16(1 + g.rng.IntN(2)) // ties happen
		}
		if g.rng.IntN(100) < 45 {
			h.Target = svcPool[g.rng.IntN(len(svcPool))]
			g.svcTarget(h.Target)
		} else if g.rng.IntN(2) == 0 {
			h.Target = "."
		}
		if g.rng.IntN(100) < 40 {
			h.Port = []uint16{443, 8443, 4443}[g.rng.IntN(3)]
		}
		for _, a := range []string{"h2", "h3", "x"} {
			if g.rng.IntN(3) == 0 {
				h.ALPN = append(h.ALPN, a)
			}
		}
		h.NoDefaultALPN = len(h.ALPN) > 0 && g.rng.IntN(4) == 0
		if echMode == 1 || (echMode >= 2 && g.rng.IntN(2) == 0) {
			h.ECH = g.newECH(owner)
		} else if g.rng.IntN(5) == 0 {
			h.ECHEmpty = true // "ech=" with a value of zero bytes: well-formed SvcParam framing, no config list
			g.emptyECH++
		}
		if g.rng.IntN(100) < 35 {
			h.IPv4Hint = append(h.IPv4Hint, g.hint(false))
		}
		if g.rng.IntN(100) < 25 {
			h.IPv6Hint = append(h.IPv6Hint, g.hint(true))
		}
		g.z.Add(dohfake.Svc(owner, h, 60))
	}
}

// httpsAtOwner decides what the HTTPS RRSet of owner is: nothing, service records or an alias.
func (g *zoneGen) httpsAtOwner(sc *scenario, owner string, depth int) {
	if g.done["https:"+owner] {
		return
	}
	g.done["https:"+owner] = true
	switch p := g.rng.IntN(100); {
	case p < 22:
	case p < 70 || depth >= 2:
		g.services(owner)
	case p < 74:
		sc.AliasZone = true
		g.z.Add(dohfake.Svc(owner, dohfake.HTTPS{Target: "."}, 60))
	default:
		sc.AliasZone = true
		t := aliasPool[depth]
		g.z.Add(dohfake.Svc(owner, dohfake.HTTPS{Target: t}, 60))
		if !g.done[t] {
			g.done[t] = true
			g.addrs(t, g.rng.IntN(3), g.rng.IntN(3))
		}
		g.httpsAtOwner(sc, t, depth+1)
	}
}

func svcbName(host string, port int) string {
	if port <= 0 {
		port = 443
	}
	if port != 80 && port != 443 {
		return fmt.Sprintf("_%d._https.%s", port, host)
	}
	return host
}

func genScenario(rng *mrand.Rand, i int) *scenario {
	sc := &scenario{scriptSeed: rng.Uint64()}
	g := &zoneGen{rng: rng, z: dohfake.NewZone(), done: map[string]bool{}, ech: map[string]string{}}
	g.z.NXUnknown = rng.IntN(2) == 0
	g.z.Compress = rng.IntN(2) == 0

	// address string
	np := 1
	if p := rng.IntN(100); p >= 85 {
		np = 3
	} else if p >= 55 {
		np = 2
	}
	perm := rng.Perm(len(originPool))
	for k := 0; k < np; k++ {
		var pt part
		pt.Port = -1
		switch p := rng.IntN(100); {
		case p < 4:
			pt.Host = fmt.Sprintf("192.0.2.%d", 1+rng.IntN(250))
			pt.Arg = pt.Host
			if rng.IntN(2) == 0 {
				pt.Port = 8443
				pt.Arg += ":8443"
			}
		case p < 7:
			pt.Host = fmt.Sprintf("2001:db8::%x", 1+rng.IntN(250))
			switch rng.IntN(4) {
			case 0:
				pt.Port = 443
				pt.Arg = "[" + pt.Host + "]:443"
			case 1:
				pt.Arg = "[" + pt.Host + "]" // the bracketed literal without a port
			case 2:
				pt.Arg = "https://[" + pt.Host + "]/x"
				pt.URI = true
			default:
				pt.Port = 8443
				pt.Arg = "https://[" + pt.Host + "]:8443"
				pt.URI = true
			}
		default:
			pt.Host = originPool[perm[k]]
			if k > 0 && rng.IntN(10) == 0 && !strings.Contains(sc.Parts[0].Host, ":") {
				pt.Host = sc.Parts[0].Host // the same host named twice (mostly with another port); not an IPv6 literal, which would need brackets
			}
			switch q := rng.IntN(100); {
			case q < 40:
			case q < 62:
				pt.Port = 443
			case q < 90:
				pt.Port = 8443
			default:
				pt.Port = 80
			}
			pt.Arg = pt.Host
			if pt.Port >= 0 {
				pt.Arg += ":" + strconv.Itoa(pt.Port)
			}
			// the URI form of the package's own ExampleDial_uri: same host, same port, same lookups
			if rng.IntN(7) == 0 {
				pt.Arg = "https://" + pt.Arg + []string{"", "/", "/some/path?q=1"}[rng.IntN(3)]
				pt.URI = true
			}
		}
		sc.Parts = append(sc.Parts, pt)
	}
	for k, pt := range sc.Parts {
		if k > 0 {
			sc.Addr += []string{",", ",", ",", ", "}[rng.IntN(4)]
		}
		sc.Addr += pt.Arg
	}
	sc.Network = []string{"tcp", "tcp", "tcp", "tcp", "tcp", "tcp", "tcp", "tcp4", "tcp4", "tcp6"}[rng.IntN(10)]

	// universe
	for _, pt := range sc.Parts {
		if _, err := netip.ParseAddr(pt.Host); err == nil {
			continue
		}
		owner := pt.Host
		if !g.done[pt.Host] {
			g.done[pt.Host] = true
			n4, n6 := rng.IntN(3), rng.IntN(3)
			if rng.IntN(8) == 0 {
				n4, n6 = 0, 0 // no address: hints and named targets only
			}
			if rng.IntN(100) < 18 {
				sc.CnameZone = true
				for k, o := range originPool {
					if o == pt.Host {
						owner = cnamePool[k]
					}
				}
				g.z.Add(dohfake.CNAME(pt.Host, owner, 60))
				g.done["cname:"+pt.Host] = true
			}
			g.addrs(owner, n4, n6)
		} else if g.done["cname:"+pt.Host] {
			for k, o := range originPool {
				if o == pt.Host {
					owner = cnamePool[k]
				}
			}
		}
		q := svcbName(pt.Host, pt.Port)
		if q == pt.Host {
			q = owner // the HTTPS RRSet of a CNAME'd origin lives at the canonical name
		}
		g.httpsAtOwner(sc, q, 0)
	}
	sc.zone, sc.zoneECH, sc.emptyECH = g.z, g.ech, g.emptyECH

	// dialer and caller
	sc.RequireECH = rng.IntN(2) == 0
	if rng.IntN(2) == 0 {
		sc.PublicName = publicName
	}
	switch p := rng.IntN(100); {
	case p < 22:
		sc.Caller = "nil"
	case p < 40:
		sc.Caller = "empty"
	case p < 60:
		sc.Caller = "list"
	case p < 78:
		sc.Caller = "sn"
	case p < 95:
		sc.Caller = "both"
	case p < 98:
		sc.Caller = "emptylist"
	default:
		sc.Caller = "emptylist+sn"
	}
	if strings.HasSuffix(sc.Caller, "sn") || sc.Caller == "both" {
		sc.callerSN = callerName
	}
	switch {
	case sc.Caller == "list" || sc.Caller == "both":
		if rng.IntN(4) == 0 {
			if _, c, err := ech.NewConfig(200, []byte("caller-public.example")); err == nil {
				sc.callerList, _ = ech.ConfigList([]ech.Config{c})
			}
		}
		if sc.callerList == nil {
			sc.callerList = []byte("CALLER|" + letters(rng, 4+rng.IntN(12)))
		}
	case strings.HasPrefix(sc.Caller, "emptylist"):
		sc.callerList = []byte{}
	}
	sc.Profile = []string{"fail-all", "retry-heavy", "mixed", "ok-first", "retry-then-ok"}[rng.IntN(5)]
	if i%16 == 0 {
		sc.Profile = "fail-all" // every target is visited, Dial returns after its workers: a complete log
	}
	return sc
}

// callerConfig builds the caller's tls.Config; slices get spare capacity filled with sentinels.
func (sc *scenario) callerConfig() *tls.Config {
	if sc.Caller == "nil" {
		return nil
	}
	tc := &tls.Config{ServerName: sc.callerSN}
	if sc.callerList != nil {
		buf := make([]byte, len(sc.callerList), len(sc.callerList)+8)
		copy(buf, sc.callerList)
		copy(buf[len(buf):cap(buf)], "SENTINEL")
		tc.EncryptedClientHelloConfigList = buf
	}
	if sc.Caller != "empty" {
		np := make([]string, 2, 4)
		np[0], np[1] = "sentinel-proto", "h2"
		copy(np[2:4], []string{"spare-1", "spare-2"})
		tc.NextProtos = np
		tc.MinVersion, tc.MaxVersion = tls.VersionTLS13, tls.VersionTLS13
		tc.InsecureSkipVerify = true
		cs := make([]uint16, 1, 3)
		cs[0] = tls.TLS_CHACHA20_POLY1305_SHA256
		copy(cs[1:3], []uint16{0xdead, 0xbeef})
		tc.CipherSuites = cs
		tc.SessionTicketsDisabled = true
	}
	return tc
}

type deepCfg struct {
	Nil                    bool
	ServerName             string
	ECH                    []byte // whole capacity region
	ECHLen                 int
	ECHNil                 bool
	NextProtos             []string // whole capacity region
	NextProtosLen          int
	MinVersion, MaxVersion uint16
	InsecureSkipVerify     bool
	CipherSuites           []uint16
	CipherSuitesLen        int
	SessionTicketsDisabled bool
	NilFuncs               bool // every callback / pointer field the caller left unset is still unset
}

func deepSnap(tc *tls.Config) deepCfg {
	if tc == nil {
		return deepCfg{Nil: true}
	}
	d := deepCfg{ServerName: tc.ServerName, ECHNil: tc.EncryptedClientHelloConfigList == nil, ECHLen: len(tc.EncryptedClientHelloConfigList),
		NextProtosLen: len(tc.NextProtos), MinVersion: tc.MinVersion, MaxVersion: tc.MaxVersion, InsecureSkipVerify: tc.InsecureSkipVerify,
		CipherSuitesLen: len(tc.CipherSuites), SessionTicketsDisabled: tc.SessionTicketsDisabled}
	d.ECH = append([]byte{}, tc.EncryptedClientHelloConfigList[:cap(tc.EncryptedClientHelloConfigList)]...)
	d.NextProtos = append([]string{}, tc.NextProtos[:cap(tc.NextProtos)]...)
	d.CipherSuites = append([]uint16{}, tc.CipherSuites[:cap(tc.CipherSuites)]...)
	d.NilFuncs = tc.GetCertificate == nil && tc.GetClientCertificate == nil && tc.GetConfigForClient == nil && tc.VerifyPeerCertificate == nil &&
		tc.VerifyConnection == nil && tc.RootCAs == nil && tc.ClientCAs == nil && tc.ClientSessionCache == nil && tc.KeyLogWriter == nil &&
		tc.EncryptedClientHelloRejectionVerify == nil && len(tc.Certificates) == 0 && len(tc.EncryptedClientHelloKeys) == 0 && len(tc.CurvePreferences) == 0 &&
		tc.Rand == nil && tc.Time == nil
	return d
}

func diffCfg(a, b deepCfg) string {
	va, vb := reflect.ValueOf(a), reflect.ValueOf(b)
	for i := 0; i < va.NumField(); i++ {
		if !reflect.DeepEqual(va.Field(i).Interface(), vb.Field(i).Interface()) {
			return va.Type().Field(i).Name
		}
	}
	return ""
}

// ---- what the universe says (oracle side) ----

func httpsAt(z *dohfake.Zone, name string) (recs []*dohfake.HTTPS, rc int) {
	rrs, rc := z.Lookup(name, dohfake.TypeHTTPS, 0)
	for _, rr := range rrs {
		if rr.Type == dohfake.TypeHTTPS {
			recs = append(recs, rr.HTTPS)
		}
	}
	return recs, rc
}

func addrsAt(z *dohfake.Zone, name string) (ips []netip.Addr, rc int) {
	a, rcA := z.Lookup(name, dohfake.TypeA, 0)
	aaaa, rcAAAA := z.Lookup(name, dohfake.TypeAAAA, 0)
	if rcA != 0 {
		return nil, rcA
	}
	if rcAAAA != 0 {
		return nil, rcAAAA
	}
	for _, rr := range append(a, aaaa...) {
		if rr.Type == dohfake.TypeA || rr.Type == dohfake.TypeAAAA {
			ips = append(ips, rr.Addr)
		}
	}
	return ips, 0
}

func isRoot(t string) bool { return t == "" || t == "." }

// expectation: one target the zone gives for one part of the address string.
type expectation struct {
	Addr   string   `json:"addr"`
	Part   int      `json:"part"`
	SN     string   `json:"server_name"`
	Source string   `json:"source"` // origin | named-target | hint | fallback | literal
	Record string   `json:"record"`
	Lists  []string `json:"ech"` // printable forms of lists
	prio   uint16
	lists  [][]byte // acceptable lists from DNS; a nil element = the producing record has no ech (or there is no record)
}

// refTargets is the reference of the statement's rules: service-mode records of the
// end of the alias chain in priority order, each contributing the addresses of its
// target (named) or of the origin (hints when the origin has none), on the record's
// port or the requested one (80 upgraded to 443); an address belongs to the first
// record that produces it; plain addresses only when no record produced anything.
func refTargets(z *dohfake.Zone, pi int, pt part, network string) (out []*expectation, failed string) {
	port := 443
	if pt.Port > 0 {
		port = pt.Port
	}
	famOK := func(ip netip.Addr) bool {
		switch network {
		case "tcp4":
			return ip.Is4()
		case "tcp6":
			return !ip.Is4()
		}
		return true
	}
	if ip, err := netip.ParseAddr(pt.Host); err == nil {
		if famOK(ip) {
			out = append(out, &expectation{Addr: netip.AddrPortFrom(ip, uint16(port)).String(), Part: pi, SN: pt.Host, Source: "literal", lists: [][]byte{nil}})
		}
		return out, ""
	}
	svcb := svcbName(pt.Host, pt.Port)
	cur := svcb
	var svc []*dohfake.HTTPS
	for hops := 0; ; hops++ {
		recs, rc := httpsAt(z, cur)
		if rc != 0 && rc != dohfake.NXDomain {
			return nil, fmt.Sprintf("HTTPS lookup of %s: rcode %d", cur, rc)
		}
		if rc == 0 && len(recs) > 0 && recs[0].Priority == 0 {
			if isRoot(recs[0].Target) || hops >= 3 {
				break
			}
			cur = recs[0].Target
			continue
		}
		if rc == 0 {
			svc = recs
		}
		break
	}
	want := cur
	if want == svcb {
		want = pt.Host
	}
	origin, rc := addrsAt(z, want)
	if rc != 0 {
		return nil, fmt.Sprintf("address lookup of %s: rcode %d", want, rc)
	}
	sorted := append([]*dohfake.HTTPS{}, svc...)
	sort.SliceStable(sorted, func(i, j int) bool { return sorted[i].Priority < sorted[j].Priority })
	seen := map[string]*expectation{}
	for _, h := range sorted {
		if h.Priority == 0 {
			continue
		}
		p := port
		if p == 80 {
			p = 443
		}
		if h.Port > 0 {
			p = int(h.Port)
		}
		var ips []netip.Addr
		src := "origin"
		if !isRoot(h.Target) {
			src = "named-target"
			ips, _ = addrsAt(z, h.Target) // a failed lookup of a target contributes nothing
		} else if len(origin) > 0 {
			ips = origin
		} else {
			src = "hint"
			ips = append(append(ips, h.IPv4Hint...), h.IPv6Hint...)
		}
		for _, ip := range ips {
			if !famOK(ip) {
				continue
			}
			key := netip.AddrPortFrom(ip, uint16(p)).String()
			if e := seen[key]; e != nil {
				if e.prio == h.Priority { // a tie: either record may come first
					e.lists = append(e.lists, h.ECH)
				}
				continue
			}
			e := &expectation{Addr: key, Part: pi, SN: pt.Host, Source: src, prio: h.Priority, lists: [][]byte{h.ECH},
				Record: fmt.Sprintf("prio=%d target=%q port=%d", h.Priority, h.Target, h.Port)}
			seen[key] = e
			out = append(out, e)
		}
	}
	if len(out) == 0 {
		for _, ip := range origin {
			if !famOK(ip) {
				continue
			}
			key := netip.AddrPortFrom(ip, uint16(port)).String()
			if seen[key] == nil {
				e := &expectation{Addr: key, Part: pi, SN: pt.Host, Source: "fallback", lists: [][]byte{nil}}
				seen[key] = e
				out = append(out, e)
			}
		}
	}
	return out, ""
}

func show(b []byte) string {
	if b == nil {
		return "<nil>"
	}
	if len(b) == 0 {
		return "<empty>"
	}
	for _, c := range b {
		if c < 0x20 || c > 0x7e {
			return "hex:" + mon.Clip(mon.Hex(b), 48)
		}
	}
	return string(b)
}

// bootstrapName parses an ECHConfigList that holds exactly one draft-ietf-tls-esni
// config (version 0xfe0d) and returns its public name. Own parser.
func bootstrapName(list []byte) (string, bool) {
	u16 := func(b []byte) int { return int(binary.BigEndian.Uint16(b)) }
	if len(list) < 2 || u16(list) != len(list)-2 {
		return "", false
	}
	b := list[2:]
	if len(b) < 4 || u16(b) != 0xfe0d || u16(b[2:]) != len(b)-4 {
		return "", false
	}
	c := b[4:]
	if len(c) < 5 { // id, kem, public key length
		return "", false
	}
	c = c[3:]
	if n := u16(c); len(c) < 2+n+2 {
		return "", false
	} else {
		c = c[2+n:]
	}
	if n := u16(c); len(c) < 2+n+2 {
		return "", false
	} else {
		c = c[2+n:]
	}
	c = c[1:] // maximum_name_length
	n := int(c[0])
	if len(c) < 1+n+2 {
		return "", false
	}
	name := string(c[1 : 1+n])
	c = c[1+n:]
	if u16(c) != len(c)-2 {
		return "", false
	}
	return name, true
}

func dumpZone(z *dohfake.Zone) []string {
	var out []string
	for _, rrs := range z.RRs {
		for _, r := range rrs {
			switch r.Type {
			case dohfake.TypeCNAME:
				out = append(out, fmt.Sprintf("%s CNAME %s", r.Owner, r.Target))
			case dohfake.TypeHTTPS:
				h := r.HTTPS
				out = append(out, fmt.Sprintf("%s HTTPS prio=%d target=%q port=%d alpn=%v nda=%v v4hint=%v v6hint=%v ech=%s", r.Owner, h.Priority, h.Target, h.Port, h.ALPN, h.NoDefaultALPN, h.IPv4Hint, h.IPv6Hint, map[bool]string{false: show(h.ECH), true: "<present, zero bytes>"}[h.ECHEmpty]))
			default:
				out = append(out, fmt.Sprintf("%s ADDR %s", r.Owner, r.Addr))
			}
		}
	}
	sort.Strings(out)
	return append(out, fmt.Sprintf("nx-unknown=%v compress=%v", z.NXUnknown, z.Compress))
}

// ---- the DialFunc tap ----

type fakeConn struct {
	id     int
	mu     sync.Mutex
	closed int
}

func (c *fakeConn) Close() error { c.mu.Lock(); c.closed++; c.mu.Unlock(); return nil }

type invocation struct {
	Seq        int      `json:"seq"`
	Network    string   `json:"network"`
	Addr       string   `json:"addr"`
	K          int      `json:"nth_for_addr"`
	CtxDone    bool     `json:"ctx_done_at_entry"`
	NilConfig  bool     `json:"nil_config,omitempty"`
	ServerName string   `json:"server_name"`
	List       string   `json:"ech"`
	ListNil    bool     `json:"ech_nil"`
	NextProtos []string `json:"next_protos"`
	MinVersion uint16   `json:"min_version"`
	MaxVersion uint16   `json:"max_version"`
	Insecure   bool     `json:"insecure_skip_verify"`
	Outcome    string   `json:"outcome"` // ok | error | reject-retry | reject-none
	Retry      string   `json:"retry_configs,omitempty"`
	list       []byte
	retry      []byte
	cfgPtr     *tls.Config
	conn       *fakeConn
}

type tap struct {
	mu    sync.Mutex
	sc    *scenario
	log   []*invocation
	perK  map[string]int
	conns int
}

var errScripted = errors.New("scripted connection failure")

func (t *tap) outcome(addr string, k int) string {
	h := fnv.New64a()
	h.Write([]byte(addr))
	rng := mrand.New(mrand.NewPCG(t.sc.scriptSeed, h.Sum64()+uint64(k)*0x9e3779b97f4a7c15))
	var w [4]int // ok, error, reject-retry, reject-none
	switch t.sc.Profile {
	case "fail-all":
		w = [4]int{0, 35, 45, 20}
	case "retry-heavy":
		w = [4]int{10, 15, 60, 15}
	case "mixed":
		w = [4]int{25, 25, 30, 20}
	case "ok-first":
		w = [4]int{80, 10, 5, 5}
	default: // retry-then-ok
		if k == 0 {
			w = [4]int{0, 15, 70, 15}
		} else {
			w = [4]int{60, 10, 20, 10}
		}
	}
	p := rng.IntN(w[0] + w[1] + w[2] + w[3])
	for i, n := range []string{"ok", "error", "reject-retry", "reject-none"} {
		if p < w[i] {
			return n
		}
		p -= w[i]
	}
	return "error"
}

func (t *tap) dial(ctx context.Context, network, addr string, tc *tls.Config) (*fakeConn, error) {
	t.mu.Lock()
	defer t.mu.Unlock()
	inv := &invocation{Seq: len(t.log), Network: network, Addr: addr, K: t.perK[addr], CtxDone: ctx.Err() != nil, cfgPtr: tc}
	t.perK[addr]++
	if tc == nil {
		inv.NilConfig, inv.ListNil, inv.List = true, true, "<nil>"
	} else {
		inv.ServerName = tc.ServerName
		inv.ListNil = tc.EncryptedClientHelloConfigList == nil
		if !inv.ListNil {
			inv.list = append([]byte{}, tc.EncryptedClientHelloConfigList...)
		}
		inv.List = show(inv.list)
		inv.NextProtos = append([]string(nil), tc.NextProtos...)
		inv.MinVersion, inv.MaxVersion, inv.Insecure = tc.MinVersion, tc.MaxVersion, tc.InsecureSkipVerify
	}
	inv.Outcome = t.outcome(addr, inv.K)
	t.log = append(t.log, inv)
	switch inv.Outcome {
	case "ok":
		t.conns++
		inv.conn = &fakeConn{id: t.conns}
		return inv.conn, nil
	case "reject-retry":
		inv.retry = []byte(fmt.Sprintf("RETRY|%s|%d", addr, inv.K))
		inv.Retry = string(inv.retry)
		return nil, wrapRejection(inv.Seq, &tls.ECHRejectionError{RetryConfigList: append([]byte{}, inv.retry...)})
	case "reject-none":
		return nil, wrapRejection(inv.Seq, &tls.ECHRejectionError{})
	}
	return nil, fmt.Errorf("%w #%d", errScripted, inv.Seq)
}

// transportError is how a dialer other than tls.Dialer hands on the error of its handshake (quic-go wraps it).
type transportError struct{ err error }

func (e *transportError) Error() string { return "transport: " + e.err.Error() }
func (e *transportError) Unwrap() error { return e.err }

// wrapRejection returns the rejection bare (tls.Dialer), wrapped with %w, or inside an error type with Unwrap.
func wrapRejection(seq int, rej *tls.ECHRejectionError) error {
	switch seq % 3 {
	case 1:
		return fmt.Errorf("handshake with the server failed: %w", rej)
	case 2:
		return &transportError{rej}
	}
	return rej
}

func (t *tap) snapshot() []*invocation {
	t.mu.Lock()
	defer t.mu.Unlock()
	return append([]*invocation{}, t.log...)
}

// ---- the check ----

func TestCheck(t *testing.T) {
	log.SetOutput(io.Discard)
	r := mon.Start(t, "C17", "exploration")
	defer r.Finish()
	r.SetRule("seed-determined DNS universes (origins with 0..4 A/AAAA, optionally behind a CNAME; HTTPS RRSets at the RFC 9460 query name: none, 1..3 service records with distinct or tied priorities, '.'/named targets with own addresses (or none, or behind a CNAME), ports, hints, ech on all/some/no records and every list unique, alias chains of 1..2 hops ending in service records/nothing, alias to '.') " +
		"x address forms host, host:443, host:8443, host:80, https://host[:port][/path] URIs, IP literals, comma lists of 1..3 parts (same host twice included) x network tcp/tcp4/tcp6 x RequireECH x PublicName {'', public.example} x caller tls.Config {nil, zero, ECH list, ServerName, both, empty non-nil list; sentinel NextProtos/MinVersion/MaxVersion/CipherSuites with spare capacity} " +
		"x per-(address, attempt) scripted outcomes {ok, error, ECH rejection with unique retry configs, rejection without} under 5 outcome profiles. " +
		"distinct = distinct (parts, forms, network, RequireECH, PublicName, caller config, zone shape, outcome sequence class, result) classes that reached Dial")
	r.Assume("internal/dohfake serves the universe; Zone.Lookup is what the zone says",
		"expected address -> (server name, ech) map: own reference of the RFC 9460 / Targets rules over Zone.Lookup; with tied priorities the list of any tied record producing the address is accepted",
		"MaxConcurrency=1: invocations are sequential, log order = order in which Dial made them; the order of targets itself is not judged (C18, C15)",
		"a missing retry is judged only up to Dial's return (log complete there); invocations made after Dial returned are judged for their configs only",
		"a non-nil empty ECH list is counted, not judged (crypto/tls fails closed on it); fields other than ServerName and the ECH list are compared only between a rejected attempt and its retry",
		"RFC 9460 mixed RRSets, alias loops and error rcodes are not generated (C14)")

	workers := runtime.GOMAXPROCS(0)
	servers := make(chan *dohfake.Server, workers)
	for w := 0; w < workers; w++ {
		srv := dohfake.NewServer(dohfake.NewZone())
		defer srv.Close()
		if !strings.HasPrefix(srv.URL, "http://127.0.0.1:") {
			r.Inconclusive("fixture: no listener on 127.0.0.1 (%s)", srv.URL)
			return
		}
		servers <- srv
	}
	n := r.N(1200, 100000)
	r.Parallel("dial", n, func(i int, rng *mrand.Rand) {
		sc := genScenario(rng, i)
		srv := <-servers
		defer func() { servers <- srv }()
		srv.Reset(sc.zone)
		runScenario(r, i, sc, srv.URL)
	})
	r.Floor("invocations", int64(n))
	r.Floor("scenarios_require_ech", int64(n)/3)
	r.Floor("scenarios_caller_list", int64(n)/5)
	r.Floor("scenarios_caller_servername", int64(n)/5)
	r.Floor("scenarios_public_name", int64(n)/3)
	r.Floor("scenarios_comma_list", int64(n)/4)
	r.Floor("scenarios_alias_zone", int64(n)/10)
	r.Floor("scenarios_cname_zone", int64(n)/10)
	r.Floor("scenarios_complete_log", int64(n)/5)
	r.Floor("retries_observed", int64(n)/5)
	r.Floor("retries_rejected_again", int64(n)/25)
	r.Floor("rejections_without_configs", int64(n)/8)
	r.Floor("invocations_named_target", int64(n)/20)
	r.Floor("invocations_hint_address", int64(n)/100)
	r.Floor("invocations_with_dns_ech", int64(n)/8)
	r.Floor("invocations_with_bootstrap_list", int64(n)/20)
	r.Floor("invocations_with_caller_list", int64(n)/5)
	r.Floor("invocations_without_ech", int64(n)/20)
	r.Floor("targets_skipped_for_missing_ech", int64(n)/50)
	r.Floor("zone_records_with_empty_ech_value", int64(n)/20)
	r.Floor("caller_configs_compared", int64(n)/2)
	r.Floor("dial_returned_conn", int64(n)/8)
	r.Floor("dial_returned_error", int64(n)/8)
}

func runScenario(r *mon.Run, i int, sc *scenario, url string) {
	// expectations
	model := map[string][]*expectation{}
	var all []*expectation
	var failedParts []string
	for pi, pt := range sc.Parts {
		exps, failed := refTargets(sc.zone, pi, pt, sc.Network)
		if failed != "" {
			failedParts = append(failedParts, fmt.Sprintf("part %d (%s): %s", pi, pt.Arg, failed))
		}
		for _, e := range exps {
			for _, l := range e.lists {
				e.Lists = append(e.Lists, show(l))
			}
			model[e.Addr] = append(model[e.Addr], e)
			all = append(all, e)
		}
	}
	c := map[string]any{"scenario": sc, "zone": dumpZone(sc.zone), "expected_targets": all, "unresolvable_parts": failedParts}
	if i < 3 {
		r.Sample(c)
	}

	resolver, err := ech.NewResolver(url)
	if err != nil {
		r.Inconclusive("fixture: NewResolver(%q): %v", url, err)
		return
	}
	resolver.SetCacheSize(0)
	tp := &tap{sc: sc, perK: map[string]int{}}
	d := &ech.Dialer[*fakeConn]{
		RequireECH:       sc.RequireECH,
		Resolver:         resolver,
		PublicName:       sc.PublicName,
		MaxConcurrency:   1,
		ConcurrencyDelay: time.Millisecond,
		Timeout:          time.Minute,
		DialFunc:         tp.dial,
	}
	caller := sc.callerConfig()
	before := deepSnap(caller)
	ctx, cancel := context.WithTimeout(context.Background(), 2*time.Minute) // watchdog only
	defer cancel()
	var conn *fakeConn
	var derr error
	if r.Guard("dial", i, "dial", c, func() { conn, derr = d.Dial(ctx, sc.Network, sc.Addr, caller) }) {
		r.Eval("panic")
		return
	}
	if ctx.Err() != nil {
		r.Inconclusive("watchdog: Dial(%q) did not return within 2 minutes", sc.Addr)
		return
	}
	// Invocations made after Dial returned: wait until the log is quiet. This only
	// decides how much of the tail is seen, never a verdict (see the tail rule below).
	entries := tp.snapshot()
	if derr == nil {
		quiet := 0
		for spins := 0; quiet < 8 && spins < 2000; spins++ {
			time.Sleep(250 * time.Microsecond)
			if now := tp.snapshot(); len(now) != len(entries) {
				entries, quiet = now, 0
			} else {
				quiet++
			}
		}
	}
	after := deepSnap(caller)
	c["invocations"] = entries
	if derr != nil {
		c["dial_error"] = derr.Error()
	} else if conn != nil {
		c["dial_conn"] = conn.id
	}
	viol := func(sig, f string, a ...any) { r.Violate("dial", i, sig, fmt.Sprintf(f, a...), c) }

	// the transport of the fake DoH server must have worked: an unreachable fixture is not a verdict
	if derr != nil && (strings.Contains(derr.Error(), "connection refused") || strings.Contains(derr.Error(), "context deadline")) {
		r.Inconclusive("fixture: transport error %v", derr)
		return
	}

	// counters
	r.Count("invocations", int64(len(entries)))
	if sc.RequireECH {
		r.Count("scenarios_require_ech", 1)
	}
	r.Count("zone_records_with_empty_ech_value", int64(sc.emptyECH))
	if len(sc.callerList) > 0 {
		r.Count("scenarios_caller_list", 1)
	}
	if sc.callerSN != "" {
		r.Count("scenarios_caller_servername", 1)
	}
	if sc.PublicName != "" {
		r.Count("scenarios_public_name", 1)
	}
	if len(sc.Parts) > 1 {
		r.Count("scenarios_comma_list", 1)
	}
	if sc.AliasZone {
		r.Count("scenarios_alias_zone", 1)
	}
	if sc.CnameZone {
		r.Count("scenarios_cname_zone", 1)
	}

	// I6: the caller's config is untouched
	if caller != nil {
		r.Count("caller_configs_compared", 1)
		if f := diffCfg(before, after); f != "" {
			viol("I6:caller-config-mutated:"+f, "the caller's tls.Config changed during Dial: field %s before %+v after %+v", f, before, after)
		}
	}

	// pre-return region: everything up to the first successful attempt when Dial returned a connection, else the whole log
	firstOK := -1
	for j, e := range entries {
		if e.Outcome == "ok" {
			firstOK = j
			break
		}
	}
	preEnd := len(entries)
	if derr == nil && firstOK >= 0 {
		preEnd = firstOK + 1
	}

	// Dial's return against the log
	switch {
	case derr == nil && conn == nil:
		viol("ret:nil-conn-nil-error", "Dial returned (nil, nil)")
	case derr == nil:
		r.Count("dial_returned_conn", 1)
		from := false
		for _, e := range entries {
			if e.conn == conn {
				from = true
			}
		}
		if !from {
			viol("ret:conn-not-from-an-attempt", "Dial returned a connection that no DialFunc invocation produced")
		}
		conn.mu.Lock()
		closed := conn.closed
		conn.mu.Unlock()
		if closed > 0 {
			r.Count("returned_conn_closed", 1) // C18 judges it
		}
	default:
		r.Count("dial_returned_error", 1)
		r.Count("scenarios_complete_log", 1)
		if firstOK >= 0 {
			viol("ret:error-although-an-attempt-succeeded", "Dial returned %q although invocation #%d returned a connection", mon.Clip(derr.Error(), 120), firstOK)
		}
	}

	retryLists := map[string]int{} // every retry list handed out so far -> invocation
	groups := map[string]int{}     // fresh attempts per address
	classOfList := func(l []byte, isNil bool, addr string) string {
		switch {
		case isNil:
			return "nil"
		case len(l) == 0:
			return "empty"
		case len(sc.callerList) > 0 && bytes.Equal(l, sc.callerList):
			return "caller"
		}
		if _, ok := retryLists[string(l)]; ok {
			return "retry-list"
		}
		if _, ok := sc.zoneECH[string(l)]; ok {
			for _, e := range model[addr] {
				for _, x := range e.lists {
					if x != nil && bytes.Equal(x, l) {
						return "dns"
					}
				}
			}
			return "dns-of-other-record"
		}
		if name, ok := bootstrapName(l); ok {
			if name == sc.PublicName {
				return "bootstrap"
			}
			return "generated-other-name"
		}
		return "unknown"
	}
	sameOther := func(a, b *invocation) string {
		switch {
		case a.ServerName != b.ServerName:
			return "ServerName"
		case !reflect.DeepEqual(a.NextProtos, b.NextProtos):
			return "NextProtos"
		case a.MinVersion != b.MinVersion || a.MaxVersion != b.MaxVersion:
			return "Version"
		case a.Insecure != b.Insecure:
			return "InsecureSkipVerify"
		case a.Network != b.Network:
			return "network"
		}
		return ""
	}

	var seqClass []string
	short := map[string]string{"ok": "o", "error": "e", "reject-retry": "r", "reject-none": "n"}
	visited := map[*expectation]bool{}
	var prev *invocation
	prevIsRetry := false
	for j, e := range entries {
		isRetry := false
		if prev != nil && prev.retry != nil {
			retryLists[string(prev.retry)] = j - 1
		}
		usesPrevRetry := prev != nil && prev.retry != nil && !e.ListNil && bytes.Equal(e.list, prev.retry)
		// no further target of the zone has this address: another attempt for it cannot be a fresh one
		exhausted := groups[e.Addr] >= len(model[e.Addr])
		switch {
		case prev == nil:
		case prev.Outcome == "reject-retry" && !prevIsRetry:
			// I5: this invocation has to be the one retry
			switch {
			case e.Addr == prev.Addr && usesPrevRetry:
				isRetry = true
				if f := sameOther(prev, e); f != "" {
					viol("I5:retry-config-differs:"+f, "retry #%d for %s differs from the rejected attempt #%d in %s", j, e.Addr, j-1, f)
				}
			case e.Addr != prev.Addr && usesPrevRetry:
				isRetry = true
				viol("I5:retry-to-different-address", "the retry configs of #%d (%s) were used for an attempt to %s", j-1, prev.Addr, e.Addr)
			case e.Addr == prev.Addr && exhausted:
				isRetry = true
				viol("I5:retry-wrong-list:"+classOfList(e.list, e.ListNil, e.Addr), "after the rejection of #%d with retry configs %q the next attempt for %s used %s", j-1, prev.Retry, e.Addr, e.List)
			case j-1 < preEnd: // the rejected attempt was made before Dial returned: the log is complete here
				viol("I5:no-retry", "attempt #%d for %s was rejected with retry configs %q; the next invocation is #%d for %s with %s", j-1, prev.Addr, prev.Retry, j, e.Addr, e.List)
			}
		case prev.Outcome == "reject-retry" && prevIsRetry && usesPrevRetry:
			isRetry = true
			viol("I5:second-retry", "retry #%d for %s was rejected again; #%d (%s) retries once more with the new configs", j-1, prev.Addr, j, e.Addr)
		case prev.Outcome == "reject-none" && e.Addr == prev.Addr && exhausted && len(model[e.Addr]) > 0:
			isRetry = true
			viol("I5:retry-after-rejection-without-configs", "attempt #%d for %s was rejected without retry configs; #%d tries the same address again (the zone gives %d target(s) with it)", j-1, e.Addr, j, len(model[e.Addr]))
		case prev.Outcome == "reject-retry" && prevIsRetry && e.Addr == prev.Addr && exhausted && len(model[e.Addr]) > 0:
			isRetry = true
			viol("I5:second-retry", "retry #%d for %s was rejected again; #%d tries the same address once more with %s", j-1, prev.Addr, j, e.List)
		}
		if isRetry {
			r.Count("retries_observed", 1)
			if e.Outcome == "reject-retry" || e.Outcome == "reject-none" {
				r.Count("retries_rejected_again", 1)
			}
			seqClass = append(seqClass, "R"+short[e.Outcome])
		} else {
			groups[e.Addr]++
			seqClass = append(seqClass, "F"+short[e.Outcome])
		}
		if e.Outcome == "reject-none" {
			r.Count("rejections_without_configs", 1)
		}
		if j >= preEnd {
			r.Count("invocations_after_return", 1)
		}
		if !e.ListNil && len(e.list) == 0 {
			r.Count("invocations_with_empty_nonnil_list", 1)
		}

		// I1
		if sc.RequireECH && e.ListNil {
			viol("I1:no-ech-list-with-RequireECH", "invocation #%d (%s, server name %q) has no ECH config list although RequireECH is set", j, e.Addr, e.ServerName)
		}
		// a list of zero bytes holds no config: it is no ECH config list either (an "ech=" parameter without value in
		// the zone, or an empty slice in the caller's config)
		if sc.RequireECH && !e.ListNil && len(e.list) == 0 {
			viol("I1:empty-ech-list-with-RequireECH", "invocation #%d (%s, server name %q) has an ECH config list of zero bytes although RequireECH is set", j, e.Addr, e.ServerName)
		}
		// I3 with a caller-supplied name
		if sc.callerSN != "" && e.ServerName != sc.callerSN {
			viol("I3:caller-servername-replaced:"+nameClass(e.ServerName), "invocation #%d has ServerName %q, the caller supplied %q", j, e.ServerName, sc.callerSN)
		}
		if isRetry {
			prev, prevIsRetry = e, true
			continue
		}

		// fresh attempt: I2 / I3 / I4 against the zone
		exps := model[e.Addr]
		if len(exps) == 0 {
			viol("I4:address-not-produced-by-the-zone", "invocation #%d dials %s, which no record of the zone (and no part of %q) produces", j, e.Addr, sc.Addr)
		}
		leak := func() {
			viol("leak:retry-list-used-for-next-target", "invocation #%d (%s) uses %s, the retry configs the server sent in answer to attempt #%d (%s)", j, e.Addr, e.List, retryLists[string(e.list)], entries[retryLists[string(e.list)]].Addr)
		}
		if len(sc.callerList) > 0 {
			// I2
			if e.ListNil || !bytes.Equal(e.list, sc.callerList) {
				if got := classOfList(e.list, e.ListNil, e.Addr); got == "retry-list" {
					leak()
				} else {
					viol("I2:caller-list-replaced:by-"+got, "invocation #%d (%s) uses %s, the caller supplied %s", j, e.Addr, e.List, show(sc.callerList))
				}
			} else {
				r.Count("invocations_with_caller_list", 1)
			}
		}
		// listOK: does the list of this invocation fit expectation x; kind = what x asks for
		listOK := func(x *expectation) (bool, string) {
			if len(sc.callerList) > 0 {
				return true, "caller" // judged above
			}
			if sc.callerList != nil && !e.ListNil && len(e.list) == 0 {
				// the caller's config holds an empty non-nil slice: whether that is "a list supplied by the caller"
				// the statement does not say; keeping it and treating it as no list are both accepted (I1 judges
				// the RequireECH side)
				return true, "caller-empty"
			}
			want := ""
			for _, l := range x.lists {
				switch {
				case l != nil:
					want = "dns"
					if !e.ListNil && bytes.Equal(e.list, l) {
						return true, "dns"
					}
				case sc.PublicName != "":
					want = "bootstrap"
					if name, ok := bootstrapName(e.list); ok && name == sc.PublicName {
						return true, "bootstrap"
					}
				default:
					want = "nil"
					if len(e.list) == 0 { // nil; an empty non-nil list is tolerated (counted above)
						return true, "nil"
					}
				}
			}
			return false, want
		}
		// I3 without a caller-supplied name: the host of the part that produces this address
		cands := exps
		if sc.callerSN == "" && len(exps) > 0 {
			cands = nil
			var hosts []string
			for _, x := range exps {
				hosts = append(hosts, x.SN)
				if e.ServerName == x.SN {
					cands = append(cands, x)
				}
			}
			if len(cands) == 0 {
				viol("I3:servername-not-the-callers-host:"+nameClass(e.ServerName), "invocation #%d (%s) has ServerName %q; the caller named %v for this address", j, e.Addr, e.ServerName, hosts)
				cands = exps
			}
		}
		var hit *expectation
		hitKind, wantList := "", ""
		for _, x := range cands {
			ok, kind := listOK(x)
			if wantList == "" {
				wantList = kind
			}
			if ok && (hit == nil || visited[hit]) {
				hit, hitKind = x, kind
			}
		}
		switch {
		case hit != nil:
			visited[hit] = true
			switch hit.Source {
			case "named-target":
				r.Count("invocations_named_target", 1)
			case "hint":
				r.Count("invocations_hint_address", 1)
			}
			switch hitKind {
			case "dns":
				r.Count("invocations_with_dns_ech", 1)
			case "bootstrap":
				r.Count("invocations_with_bootstrap_list", 1)
			case "nil":
				r.Count("invocations_without_ech", 1)
			}
		case len(cands) > 0:
			// I4
			got := classOfList(e.list, e.ListNil, e.Addr)
			if got == "dns" {
				got = "dns-of-other-part" // a list the zone has for this address, but under another part of the address string
			}
			if got == "retry-list" {
				leak()
			} else {
				viol("I4:wrong-list:want-"+wantList+":got-"+got, "invocation #%d (%s, server name %q) uses %s; the zone gives %v for this address (PublicName %q)", j, e.Addr, e.ServerName, e.List, listsOf(cands), sc.PublicName)
			}
		}
		prev, prevIsRetry = e, false
	}
	// a rejection with retry configs as the very last invocation: judged only when the log is complete
	if prev != nil && prev.Outcome == "reject-retry" && !prevIsRetry && derr != nil {
		viol("I5:no-retry", "attempt #%d for %s was rejected with retry configs %q and nothing followed", len(entries)-1, prev.Addr, prev.Retry)
	}

	// targets that could not be attempted for lack of a list
	if sc.RequireECH && len(sc.callerList) == 0 && sc.PublicName == "" {
		for _, x := range all {
			noList := true
			for _, l := range x.lists {
				if l != nil {
					noList = false
				}
			}
			if noList && !visited[x] && derr != nil {
				r.Count("targets_skipped_for_missing_ech", 1)
			}
		}
		if derr != nil && strings.Contains(derr.Error(), "ECH") {
			r.Count("errors_mentioning_ech", 1)
		}
	}

	res := "err"
	if derr == nil {
		res = "conn"
	}
	forms := ""
	for _, pt := range sc.Parts {
		forms += fmt.Sprintf("p%d", pt.Port)
		if pt.URI {
			forms += "u"
		}
	}
	if len(seqClass) > 8 {
		seqClass = seqClass[:8]
	}
	r.Eval(fmt.Sprintf("%s|%s|req%v|pub%v|%s|alias%v|cname%v|targets%d|%s|%s", forms, sc.Network, sc.RequireECH, sc.PublicName != "", sc.Caller, sc.AliasZone, sc.CnameZone, min(len(all), 6), strings.Join(seqClass, ""), res))
}

func listsOf(exps []*expectation) []string {
	var out []string
	for _, x := range exps {
		out = append(out, fmt.Sprintf("part %d (%s, %s): %v", x.Part, x.SN, x.Source, x.Lists))
	}
	return out
}

