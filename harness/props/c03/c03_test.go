// C03 — an accepted inner hello is reconstructed byte-exactly.
package c03

import (
	"bytes"
	"context"
	"fmt"
	"io"
	mrand "math/rand/v2"
	"slices"
	"strings"
	"testing"

	"github.com/c2FmZQ/ech"

	"verif/harness/internal/echgen"
	"verif/harness/internal/echrun"
	"verif/harness/internal/hpkex"
	"verif/harness/internal/mon"
	"verif/harness/internal/tap"
	"verif/harness/internal/tlspeer"
	"verif/harness/internal/tlswire"
)

var aeads = []uint16{hpkex.AES128GCM, hpkex.AES256GCM, hpkex.ChaCha20}

func randName(rng *mrand.Rand) string {
	n := 1 + rng.IntN(253)
	if rng.IntN(3) == 0 {
		n = []int{1, 2, 63, 64, 200, 252, 253}[rng.IntN(7)]
	}
	const al = "abcdefghijklmnopqrstuvwxyz0123456789-"
	var sb strings.Builder
	for sb.Len() < n {
		if sb.Len() > 0 && rng.IntN(10) == 0 && sb.Len() < n-1 {
			sb.WriteByte('.')
			continue
		}
		sb.WriteByte(al[rng.IntN(len(al))])
	}
	return sb.String()
}

func randALPN(rng *mrand.Rand) []string {
	n := 1 + rng.IntN(6)
	out := make([]string, n)
	for i := range out {
		l := 1 + rng.IntN(12)
		if rng.IntN(10) == 0 {
			l = 255
		}
		b := make([]byte, l)
		for j := range b {
			b[j] = byte(0x21 + rng.IntN(0x5e))
		}
		out[i] = string(b)
	}
	return out
}

// judge compares what NewConn produced with what the generator committed to.
func judge(r *mon.Run, work string, i int, of *echgen.Offer, extra string) bool {
	c := of.Describe()
	c["variant"] = extra
	ok := true
	r.Guard(work, i, "reconstruct", c, func() {
		out := echrun.Run(of.Record(), []ech.Key{of.Key.TLSKey()})
		if out.Err != nil {
			r.Violate(work, i, "reconstruct:error:"+out.Class, fmt.Sprintf("NewConn failed on a valid offer (%s): %v", extra, out.Err), c)
			ok = false
			return
		}
		if !out.Accepted {
			r.Violate(work, i, "reconstruct:not-accepted", "valid offer sealed to the held key was not accepted ("+extra+")", c)
			ok = false
			return
		}
		want := of.Inner.Message()
		if out.FirstErr != nil || len(out.First) < 5 {
			r.Violate(work, i, "reconstruct:no-record", fmt.Sprintf("no complete first record: %v", out.FirstErr), c)
			ok = false
			return
		}
		if out.First[0] != 22 || int(out.First[3])<<8|int(out.First[4]) != len(out.First)-5 {
			r.Violate(work, i, "reconstruct:record-header", fmt.Sprintf("bad record header % x", out.First[:5]), c)
			ok = false
		}
		if got := out.First[5:]; !bytes.Equal(got, want) {
			c["got"] = mon.Hex(got)
			c["want"] = mon.Hex(want)
			r.Violate(work, i, "reconstruct:bytes-differ:"+diffClass(got, want, of), fmt.Sprintf("forwarded hello differs from ClientHelloInner (%s): got %d bytes want %d, first difference at %d", extra, len(got), len(want), firstDiff(got, want)), c)
			ok = false
		}
		if out.SNI != of.InnerName {
			r.Violate(work, i, "accessor:server-name", fmt.Sprintf("ServerName()=%q want inner %q", out.SNI, of.InnerName), c)
			ok = false
		}
		if !slices.Equal(out.ALPN, of.InnerALPN) {
			r.Violate(work, i, "accessor:alpn", fmt.Sprintf("ALPNProtos()=%q want inner %q", out.ALPN, of.InnerALPN), c)
			ok = false
		}
	})
	return ok
}

func firstDiffClass(got, want []byte) string {
	if len(got) != len(want) {
		return "length"
	}
	return "content"
}

func firstDiff(a, b []byte) int {
	for i := 0; i < len(a) && i < len(b); i++ {
		if a[i] != b[i] {
			return i
		}
	}
	return min(len(a), len(b))
}

// diffClass names where the reconstruction went wrong (for narrow signatures).
func diffClass(got, want []byte, of *echgen.Offer) string {
	h, err := tlswire.ParseClientHelloMessage(got)
	if err != nil {
		return "unparseable"
	}
	w := of.Inner
	switch {
	case !bytes.Equal(h.SessionID, w.SessionID):
		return "session-id"
	case !bytes.Equal(h.Random, w.Random) || h.LegacyVersion != w.LegacyVersion:
		return "random-or-version"
	case !bytes.Equal(h.CipherSuites, w.CipherSuites) || !bytes.Equal(h.Compression, w.Compression):
		return "suites-or-compression"
	case len(h.Exts) != len(w.Exts):
		if len(h.Exts) < len(w.Exts) {
			return "extension-dropped"
		}
		return "extension-added"
	}
	for i := range h.Exts {
		if h.Exts[i].Type != w.Exts[i].Type {
			return "extension-order"
		}
		if !bytes.Equal(h.Exts[i].Data, w.Exts[i].Data) {
			return "extension-data"
		}
	}
	return "framing"
}

func TestCheck(t *testing.T) {
	r := mon.Start(t, "C03", "exploration")
	defer r.Finish()
	r.SetRule("generator draws ClientHelloInner first (3..30 extensions incl. SNI, ALPN, supported_versions, key_share up to 1.2 KB, GREASE/unknown types, inner ECH at any position), " +
		"then ClientHelloOuter (own random, session id 0..32, public-name SNI, ECH at any position), compresses a contiguous run via ech_outer_extensions, pads, seals with an independent RFC 9180 sender; " +
		"sub-space 'runs' enumerates every (run start, run length) for inner lists of <=7 extensions; 'large' steers the outer record up to exactly 16384 bytes; 'boundary' builds inner hellos of 16383..40000 bytes (exact multiples of 16384 included) whose outer hello the client fragments. distinct = distinct (#inner exts, run start, run len, pad class, session-id length, AEAD, ECH position class) among ACCEPTED offers")
	r.Assume("independent HPKE sender validated against RFC 9180 vectors; generator validated against a plain crypto/tls ECH server (self-check at start of every run)",
		"expected bytes are the generator's own ClientHelloInner with legacy_session_id := outer.session_id; the reconstruction is never re-implemented")

	ca, err := tlspeer.NewCA()
	if err != nil {
		r.Inconclusive("fixture: %v", err)
		return
	}
	if err := echgen.SelfCheck(r.Rand("selfcheck", 0), 30, ca.MustLeaf(0, "public.example")); err != nil {
		r.Inconclusive("generator self-check failed: %v", err)
		return
	}
	keys := make([]echgen.KeyPair, 32)
	for i := range keys {
		keys[i] = echgen.NewKey(uint8(i*37), fmt.Sprintf("public%d.example", i))
	}

	// -- random layouts --
	n := r.N(3000, 300000)
	r.Parallel("gen", n, func(i int, rng *mrand.Rand) {
		o := echgen.DefaultOpts()
		o.InnerName = randName(rng)
		o.InnerALPN = randALPN(rng)
		o.NoALPN = rng.IntN(8) == 0
		o.MaxExtra = []int{0, 3, 8, 22}[rng.IntN(4)]
		o.Compress = i%3 != 0
		o.BigKeyShare = rng.IntN(6) == 0
		aead := aeads[i%3]
		of := echgen.Gen(rng, keys[rng.IntN(len(keys))], aead, o)
		if judge(r, "gen", i, of, "random") {
			padc := "0"
			if of.PadLen > 0 {
				padc = "n"
			}
			r.Eval(fmt.Sprintf("gen|%d|%d|%d|%s|%d|%d|%d", len(of.Inner.Exts), of.RunStart, of.RunLen, padc, len(of.Outer.SessionID), aead, of.Outer.Find(tlswire.ExtECH)*4/max(1, len(of.Outer.Exts))))
			r.Count("accepted", 1)
			if of.RunLen > 0 {
				r.Count("accepted_compressed", 1)
			}
		} else {
			r.Eval("")
		}
		if i < 3 {
			r.Sample(of.Describe())
		}
	})

	// -- exhaustive run positions for short extension lists --
	type rc struct{ extra, start, length, echPos int }
	var cases []rc
	for extra := 0; extra < r.N(3, 50); extra++ { // repetitions with different shuffles of the 7-entry list
		// base list: SNI, ALPN, versions, key_share, groups, sigalgs, psk modes + ECH inner = 8 entries; trim via NoALPN below
		for echPos := 0; echPos <= 7; echPos++ {
			for start := 0; start < 8; start++ {
				for length := 1; start+length <= 8; length++ {
					cases = append(cases, rc{extra, start, length, echPos})
				}
			}
		}
	}
	r.Parallel("runs", len(cases), func(i int, rng *mrand.Rand) {
		cs := cases[i]
		o := echgen.DefaultOpts()
		o.MaxExtra = 0
		o.NoALPN = true // 6 regular extensions + ECH inner = 7
		o.InnerECHPos = cs.echPos % 7
		inner := echgen.GenInner(rng, o)
		if cs.start+cs.length > len(inner.Exts) {
			return
		}
		bad := false
		for _, e := range inner.Exts[cs.start : cs.start+cs.length] {
			if e.Type == tlswire.ExtECH || e.Type == tlswire.ExtSNI {
				bad = true
			}
		}
		if bad {
			return
		}
		// rebuild the same inner through Gen with the explicit run (same rng stream => regenerate deterministically)
		rng2 := r.Rand("runs", i)
		o.RunStart, o.RunLen = cs.start, cs.length
		of := echgen.Gen(rng2, keys[i%len(keys)], aeads[i%3], o)
		if judge(r, "runs", i, of, fmt.Sprintf("run %d+%d ech@%d", cs.start, cs.length, cs.echPos)) {
			r.Eval(fmt.Sprintf("runs|%d|%d|%d", cs.start, cs.length, of.Inner.Find(tlswire.ExtECH)))
			r.Count("accepted", 1)
			r.Count("accepted_compressed", 1)
			r.Count("runs_enumerated", 1)
		}
	})

	// -- encoded inner hellos that still carry a session id: whatever the server makes of them,
	// a forwarded hello carries the OUTER hello's legacy_session_id --
	r.Parallel("encsid", r.N(240, 6000), func(i int, rng *mrand.Rand) {
		k := keys[i%len(keys)]
		aead := aeads[i%3]
		o := echgen.DefaultOpts()
		o.MaxExtra = []int{0, 2, 6}[rng.IntN(3)]
		inner := echgen.GenInner(rng, o)
		outer := echgen.GenOuterBase(rng, k.PublicName, nil, []int{0, 0, 1, 31, 32}[i%5])
		inner.SessionID = append([]byte{}, outer.SessionID...)
		sid := hellogenBytes(rng, []int{1, 4, 32, 1 + rng.IntN(32)}[rng.IntN(4)])
		s, err := hpkex.Setup(aead, k.Priv.PublicKey().Bytes(), echgen.Info(k.Config), nil)
		if err != nil {
			r.Inconclusive("hpke setup: %v", err)
			return
		}
		echgen.SealInto(outer, -1, s, aead, k.ID, s.Enc, echgen.EncodeInnerSID(inner, 0, 0, rng.IntN(20), sid))
		c := map[string]any{"outer_session_id": mon.Hex(outer.SessionID), "encoded_inner_session_id": mon.Hex(sid), "aead": aead}
		r.Guard("encsid", i, "reconstruct", c, func() {
			out := echrun.Run(outer.HelloRecord(0x0301), []ech.Key{k.TLSKey()})
			if out.Err != nil || !out.Accepted {
				r.Count("encsid_refused_or_passed_through", 1)
				r.Eval(fmt.Sprintf("encsid|refused|%d|%d", len(outer.SessionID), len(sid)))
				return
			}
			if out.FirstErr != nil || len(out.First) < 5 {
				r.Violate("encsid", i, "reconstruct:no-record", fmt.Sprintf("no complete first record: %v", out.FirstErr), c)
				return
			}
			h, err := tlswire.ParseClientHelloMessage(out.First[5:])
			if err != nil {
				r.Violate("encsid", i, "reconstruct:bytes-differ:unparseable", "forwarded hello does not parse: "+err.Error(), c)
				return
			}
			if !bytes.Equal(h.SessionID, outer.SessionID) {
				c["forwarded_session_id"] = mon.Hex(h.SessionID)
				r.Violate("encsid", i, "reconstruct:session-id-not-the-outers", fmt.Sprintf("accepted hello forwarded with legacy_session_id %x, the outer hello's is %x (the encoded inner carried %x)", h.SessionID, outer.SessionID, sid), c)
				return
			}
			if want := inner.Message(); !bytes.Equal(out.First[5:], want) {
				r.Violate("encsid", i, "reconstruct:bytes-differ:"+firstDiffClass(out.First[5:], want), "forwarded hello differs from ClientHelloInner with the outer session id", c)
				return
			}
			r.Count("encsid_substituted", 1)
			r.Eval(fmt.Sprintf("encsid|substituted|%d|%d", len(outer.SessionID), len(sid)))
		})
	})

	// -- sizes up to the record limit --
	nBig := r.N(120, 4000)
	r.Parallel("large", nBig, func(i int, rng *mrand.Rand) {
		o := echgen.DefaultOpts()
		o.MaxExtra = 2
		o.Compress = i%2 == 0
		o.PadLen = 0
		o.SessionID = 32
		k := keys[i%len(keys)]
		// grow one inner filler extension until the outer record is as large as requested
		target := []int{16384, 16383, 16000 + rng.IntN(384), 4000 + rng.IntN(12385), 8192}[i%5]
		inner := echgen.GenInner(rng, o)
		fill := tlswire.Ext{Type: 0x5a5b, Data: nil}
		inner.Exts = append(inner.Exts, fill)
		outer := echgen.GenOuterBase(rng, k.PublicName, nil, 32)
		inner.SessionID = append([]byte{}, outer.SessionID...)
		base := len(outer.HelloRecord(0x0301)) - 5 + len(echgen.EncodeInner(inner, 0, 0, 0)) + 16 + 4 + 10 // ECH ext header+fields
		grow := target - base - 32                                                                         // enc
		if grow < 0 {
			grow = 0
		}
		inner.Exts[len(inner.Exts)-1].Data = make([]byte, grow)
		for j := range inner.Exts[len(inner.Exts)-1].Data {
			inner.Exts[len(inner.Exts)-1].Data[j] = byte(rng.IntN(256))
		}
		s, err := hpkex.Setup(aeads[i%3], k.Priv.PublicKey().Bytes(), echgen.Info(k.Config), nil)
		if err != nil {
			r.Inconclusive("hpke setup: %v", err)
			return
		}
		enc := echgen.EncodeInner(inner, 0, 0, 0)
		echgen.SealInto(outer, -1, s, aeads[i%3], k.ID, s.Enc, enc)
		of := &echgen.Offer{Key: k, AEAD: aeads[i%3], Inner: inner, Outer: outer, Encoded: enc, RunStart: -1, Sender: s, InnerName: o.InnerName, InnerALPN: o.InnerALPN, RecVer: 0x0301}
		rl := len(of.Record()) - 5
		if rl > 16384 {
			return // over the record limit: not a legal single-record hello
		}
		if judge(r, "large", i, of, fmt.Sprintf("record payload %d", rl)) {
			r.Eval(fmt.Sprintf("large|%d", rl))
			r.Count("accepted", 1)
			if rl >= 16000 {
				r.Count("accepted_near_limit", 1)
			}
			if rl == 16384 {
				r.Count("accepted_at_limit", 1)
			}
		}
	})

	// -- reconstructed inner hellos at and beyond the record limit (the outer hello is then fragmented by the client) --
	sizes := []int{16383, 16384, 16385, 20000, 32767, 32768, 32769, 40000}
	nBd := r.N(len(sizes)*3, len(sizes)*60)
	r.Parallel("boundary", nBd, func(i int, rng *mrand.Rand) {
		target := sizes[i%len(sizes)]
		k := keys[i%len(keys)]
		aead := aeads[i%3]
		o := echgen.DefaultOpts()
		o.MaxExtra = 2
		inner := echgen.GenInner(rng, o)
		outer := echgen.GenOuterBase(rng, k.PublicName, nil, 32)
		inner.SessionID = append([]byte{}, outer.SessionID...)
		inner.Exts = append(inner.Exts, tlswire.Ext{Type: 0x5a5c})
		grow := target - len(inner.Message())
		if grow < 0 {
			return
		}
		inner.Exts[len(inner.Exts)-1].Data = hellogenBytes(rng, grow)
		if len(inner.Message()) != target {
			r.Inconclusive("boundary generator missed its size: %d != %d", len(inner.Message()), target)
			return
		}
		s, err := hpkex.Setup(aead, k.Priv.PublicKey().Bytes(), echgen.Info(k.Config), nil)
		if err != nil {
			r.Inconclusive("hpke setup: %v", err)
			return
		}
		echgen.SealInto(outer, -1, s, aead, k.ID, s.Enc, echgen.EncodeInner(inner, 0, 0, 0))
		msg := outer.Message()
		var wire []byte
		for m := msg; len(m) > 0; {
			n := min(len(m), 16384)
			wire = append(wire, tlswire.Record(22, 0x0301, m[:n])...)
			m = m[n:]
		}
		c := map[string]any{"inner_message_len": target, "outer_message_len": len(msg), "aead": aead, "client_records": (len(msg) + 16383) / 16384}
		r.Guard("boundary", i, "reconstruct", c, func() {
			tc := tap.FromBytes(wire)
			conn, err := ech.NewConn(context.Background(), tc, ech.WithKeys([]ech.Key{k.TLSKey()}))
			if err != nil || !conn.ECHAccepted() {
				r.Violate("boundary", i, "reconstruct:not-accepted:fragmented-outer", fmt.Sprintf("valid offer with a %d-byte inner hello not accepted: %v", target, err), c)
				return
			}
			all, rerr := io.ReadAll(conn)
			if rerr != nil {
				r.Violate("boundary", i, "reconstruct:read-error", rerr.Error(), c)
				return
			}
			recs, rest := tlswire.SplitRecords(all)
			var got []byte
			for ri, rec := range recs {
				if rec.Type != 22 || len(rec.Payload) == 0 || len(rec.Payload) > 16384 {
					c["record_index"], c["record_header"] = ri, mon.Hex(rec.Raw[:5])
					r.Violate("boundary", i, "reconstruct:illegal-record-framing", fmt.Sprintf("record %d of the forwarded hello has type %d and %d payload bytes (handshake fragments must be 1..16384 bytes)", ri, rec.Type, len(rec.Payload)), c)
					return
				}
				got = append(got, rec.Payload...)
			}
			if len(rest) != 0 || !bytes.Equal(got, inner.Message()) {
				r.Violate("boundary", i, "reconstruct:bytes-differ:large-inner", fmt.Sprintf("forwarded %d message bytes in %d records (+%d stray bytes), want %d", len(got), len(recs), len(rest), target), c)
				return
			}
			r.Count("accepted", 1)
			r.Count("accepted_inner_at_or_over_record_limit", 1)
			r.Eval(fmt.Sprintf("boundary|%d|%d", target, aead))
		})
	})
	r.Floor("accepted_inner_at_or_over_record_limit", int64(nBd*3/4))

	r.Floor("accepted", int64(n)*9/10)
	r.Floor("accepted_compressed", int64(n)/3)
	r.Floor("runs_enumerated", 150)
	r.Floor("accepted_near_limit", 10)
	r.Floor("accepted_at_limit", 1)
	r.SetExhaustive(true)
}

func hellogenBytes(rng *mrand.Rand, n int) []byte {
	b := make([]byte, n)
	for i := range b {
		b[i] = byte(rng.IntN(256))
	}
	return b
}
