// C06 — only a HelloRetryRequest re-arms ECH processing, under the retry rules.
package c06

import (
	"bytes"
	"fmt"
	mrand "math/rand/v2"
	"strings"
	"testing"

	"github.com/c2FmZQ/ech"

	"verif/harness/internal/echgen"
	"verif/harness/internal/echrun"
	"verif/harness/internal/hellogen"
	"verif/harness/internal/hpkex"
	"verif/harness/internal/mon"
	"verif/harness/internal/tlspeer"
	"verif/harness/internal/tlswire"
)

// step kinds. Client kinds start with 'c', backend kinds with 'b'.
var clientKinds = []string{
	"c:retry-ok", "c:retry-no-ech", "c:retry-other-config-id", "c:retry-other-suite", "c:retry-nonempty-enc", "c:retry-fresh-context",
	"c:retry-replayed-seq0", "c:retry-sni-changed", "c:retry-alpn-changed", "c:retry-inner-without-ech", "c:retry-outer-sni-not-public-name", "c:retry-outer-not-tls13", "c:retry-ok-fragmented", "c:retry-trailing-bytes",
	"c:ccs", "c:handshake-other", "c:appdata", "c:alert",
}
var backendKinds = []string{"b:server-hello", "b:hrr", "b:ccs", "b:appdata", "b:alert", "b:hrr-fragmented", "b:server-hello-fragmented", "b:server-hello-no-extensions"}

func helloLike(k string) bool { return strings.HasPrefix(k, "c:retry") }

// expectation of the reference model for one client step.
type expect struct {
	kind  string // "verbatim" | "inner" | "abort"
	class string // for abort
}

// model is the reference state machine written from the property statement.
type model struct {
	readInterp, writeInterp bool
	hrr                     int
	dead                    bool
}

func (m *model) client(k string) expect {
	if !m.readInterp {
		return expect{kind: "verbatim"}
	}
	switch {
	case k == "c:appdata":
		m.readInterp = false
		return expect{kind: "verbatim"}
	case helloLike(k):
		if m.hrr != 1 {
			return expect{kind: "verbatim"} // no HelloRetryRequest seen: never decrypted, forwarded as is
		}
		switch k {
		case "c:retry-ok", "c:retry-ok-fragmented":
			m.readInterp = false // at most one retry is processed
			return expect{kind: "inner"}
		case "c:retry-trailing-bytes":
			// bytes after the extensions of the second outer hello: not the hello the payload was sealed for
			m.dead = true
			return expect{"abort", "decode_error|illegal_parameter|decrypt_error"}
		case "c:retry-no-ech":
			m.dead = true
			return expect{"abort", "missing_extension"}
		case "c:retry-other-config-id", "c:retry-other-suite", "c:retry-nonempty-enc", "c:retry-sni-changed", "c:retry-alpn-changed", "c:retry-inner-without-ech", "c:retry-outer-sni-not-public-name":
			m.dead = true
			return expect{"abort", "illegal_parameter"}
		case "c:retry-fresh-context", "c:retry-replayed-seq0":
			m.dead = true
			return expect{"abort", "decrypt_error"}
		case "c:retry-outer-not-tls13":
			// cannot be handled as a retried ECH hello: it must be refused (the statement does not fix the class)
			m.dead = true
			return expect{"abort", "illegal_parameter|decrypt_error|missing_extension"}
		}
	}
	return expect{kind: "verbatim"}
}

func (m *model) backend(k string) {
	if !m.writeInterp {
		return
	}
	// The backend's first handshake message - a ServerHello or a HelloRetryRequest, in one record or several -
	// is its answer; nothing it sends afterwards is interpreted.
	switch k {
	case "b:appdata", "b:server-hello", "b:server-hello-fragmented", "b:server-hello-no-extensions":
		m.writeInterp = false
	case "b:hrr", "b:hrr-fragmented":
		m.hrr++
		m.writeInterp = false
	}
}

// refragment cuts the handshake message of a one-record flight into 2..4 handshake records (RFC 8446 section 5.1),
// the first of 1..40 bytes.
func refragment(rng *mrand.Rand, rec []byte) []byte {
	msg := rec[5:]
	var out []byte
	first := 1 + rng.IntN(min(40, len(msg)-1))
	cuts := []int{first}
	for k := rng.IntN(3); k > 0 && cuts[len(cuts)-1] < len(msg)-1; k-- {
		last := cuts[len(cuts)-1]
		cuts = append(cuts, last+1+rng.IntN(len(msg)-last-1))
	}
	prev := 0
	for _, c := range append(cuts, len(msg)) {
		out = append(out, tlswire.Record(22, 0x0303, msg[prev:c])...)
		prev = c
	}
	return out
}

// fixture holds one accepted first hello and what is needed to build retries.
type fixture struct {
	key    echgen.KeyPair
	aead   uint16
	first  *echgen.Offer
	cert   []byte
	first0 []byte // payload of the first hello (for the replay case)
}

// build produces the record for a step kind plus (for retry-ok) the expected inner hello.
func (fx *fixture) build(rng *mrand.Rand, k string) (rec []byte, inner *tlswire.ClientHello) {
	switch k {
	case "c:ccs":
		return tlswire.Record(20, 0x0303, []byte{1}), nil
	case "c:handshake-other":
		return tlswire.Record(22, 0x0303, append([]byte{20, 0, 0, 32}, hellogen.Bytes(rng, 32)...)), nil
	case "c:appdata":
		return tlswire.Record(23, 0x0303, hellogen.Bytes(rng, 1+rng.IntN(300))), nil
	case "c:alert":
		return tlswire.Record(21, 0x0303, []byte{1, 0}), nil
	case "b:server-hello":
		return tlswire.ServerHelloRecord(hellogen.Bytes(rng, 32), fx.first.Outer.SessionID), nil
	case "b:hrr":
		return tlswire.HRRRecord(fx.first.Outer.SessionID, 0x0017), nil
	case "b:hrr-fragmented":
		return refragment(rng, tlswire.HRRRecord(fx.first.Outer.SessionID, 0x0017)), nil
	case "b:server-hello-fragmented":
		return refragment(rng, tlswire.ServerHelloRecord(hellogen.Bytes(rng, 32), fx.first.Outer.SessionID)), nil
	case "b:server-hello-no-extensions":
		// what a TLS 1.2 backend may answer: the message ends after compression_method
		body := append([]byte{0x03, 0x03}, hellogen.Bytes(rng, 32)...)
		body = append(append(body, byte(len(fx.first.Outer.SessionID))), fx.first.Outer.SessionID...)
		body = append(body, 0xc0, 0x2f, 0x00)
		return tlswire.Record(22, 0x0303, append([]byte{2, 0, 0, byte(len(body))}, body...)), nil
	case "b:ccs":
		return tlswire.Record(20, 0x0303, []byte{1}), nil
	case "b:appdata":
		return tlswire.Record(23, 0x0303, hellogen.Bytes(rng, 1+rng.IntN(300))), nil
	case "b:alert":
		return tlswire.Record(21, 0x0303, []byte{1, 0}), nil
	}
	// hello-like: a second ClientHello
	op := echgen.DefaultOpts()
	op.MaxExtra = 2
	op.InnerName, op.InnerALPN = fx.first.InnerName, fx.first.InnerALPN
	switch k {
	case "c:retry-sni-changed":
		op.InnerName = "changed." + fx.first.InnerName
	case "c:retry-alpn-changed":
		op.InnerALPN = append([]string{"changed"}, fx.first.InnerALPN...)
	}
	in := echgen.GenInner(rng, op)
	if k == "c:retry-inner-without-ech" {
		i := in.Find(tlswire.ExtECH)
		in.Exts = append(in.Exts[:i], in.Exts[i+1:]...)
	}
	outerName := fx.key.PublicName
	if k == "c:retry-outer-sni-not-public-name" {
		// an authentic retry whose outer hello no longer names the config's public name (the rule of the first hello applies to the retry too)
		outerName = "not-" + fx.key.PublicName
	}
	outer := echgen.GenOuterBase(rng, outerName, nil, 0)
	outer.SessionID = append([]byte{}, fx.first.Outer.SessionID...)
	in.SessionID = append([]byte{}, outer.SessionID...)
	if k == "c:retry-no-ech" {
		return outer.HelloRecord(0x0303), nil
	}
	encoded := echgen.EncodeInner(in, 0, 0, 0)
	s := fx.first.Sender
	s.SetSeq(1) // the next sequence number of the context that sealed the first hello
	id, aead, enc := fx.key.ID, fx.aead, []byte(nil)
	switch k {
	case "c:retry-other-config-id":
		id++
	case "c:retry-other-suite":
		aead = hpkex.AES128GCM + (fx.aead % 3) // another of the three suites
		if aead == fx.aead {
			aead = hpkex.AES128GCM + ((fx.aead + 1) % 3)
		}
	case "c:retry-nonempty-enc":
		enc = hellogen.Bytes(rng, 32)
	case "c:retry-fresh-context":
		s, _ = hpkex.Setup(fx.aead, fx.key.Priv.PublicKey().Bytes(), echgen.Info(fx.key.Config), nil)
	case "c:retry-replayed-seq0":
		s.SetSeq(0)
	}
	if k == "c:retry-outer-not-tls13" {
		if vi := outer.Find(tlswire.ExtSupportedVersions); vi >= 0 {
			if rng.IntN(2) == 0 {
				outer.Exts = append(outer.Exts[:vi], outer.Exts[vi+1:]...)
			} else {
				outer.Exts[vi] = tlswire.SupportedVersions(0x0303, 0x0302)
			}
		}
	}
	echgen.SealInto(outer, -1, s, aead, id, enc, encoded)
	if k == "c:retry-ok" {
		return outer.HelloRecord(0x0303), in
	}
	if k == "c:retry-ok-fragmented" {
		// the same well-formed retry, split across two or three handshake records
		msg := outer.Message()
		var recs []byte
		for len(msg) > 0 {
			n := len(msg)
			if len(recs) < 20 {
				n = 1 + rng.IntN(len(msg))
			}
			recs = append(recs, tlswire.Record(22, 0x0303, msg[:n])...)
			msg = msg[n:]
		}
		return recs, in
	}
	if k == "c:retry-trailing-bytes" {
		outer.Trailing = hellogen.Bytes(rng, 1+rng.IntN(9))
		return outer.HelloRecord(0x0303), nil
	}
	return outer.HelloRecord(0x0303), nil
}

// runHistory executes one history on the real Conn and compares every step with the model.
// heldKeys is the key list the server is given: the offer's key at a PRNG-chosen position among
// 0..3 other keys (distinct config ids, sometimes one sharing the target's id). The retry rules
// must not depend on where in the list the accepting key sits.
func heldKeys(rng *mrand.Rand, keys []echgen.KeyPair, key echgen.KeyPair) []ech.Key {
	var others []ech.Key
	for _, j := range rng.Perm(len(keys))[:rng.IntN(4)] {
		if keys[j].ID != key.ID {
			others = append(others, keys[j].TLSKey())
		}
	}
	if rng.IntN(4) == 0 {
		others = append(others, echgen.NewKey(key.ID, key.PublicName).TLSKey())
	}
	pos := rng.IntN(len(others) + 1)
	out := append([]ech.Key{}, others[:pos]...)
	out = append(out, key.TLSKey())
	return append(out, others[pos:]...)
}

func runHistory(r *mon.Run, work string, idx int, rng *mrand.Rand, keys []echgen.KeyPair, hist []string) {
	key := keys[rng.IntN(len(keys))]
	aead := []uint16{hpkex.AES128GCM, hpkex.AES256GCM, hpkex.ChaCha20}[rng.IntN(3)]
	o := echgen.DefaultOpts()
	o.MaxExtra = 2
	o.Compress = rng.IntN(2) == 0
	fx := &fixture{key: key, aead: aead}
	fx.first = echgen.Gen(rng, key, aead, o)
	c := map[string]any{"history": hist, "first": fx.first.Describe()}
	r.Guard(work, idx, "history", c, func() {
		flow, out := echrun.StartFlow(fx.first.Record(), heldKeys(rng, keys, key))
		if out.Err != nil || !out.Accepted || !bytes.Equal(out.First[5:], fx.first.Inner.Message()) {
			r.Inconclusive("first hello of a history was not accepted (%v)", out.Err)
			return
		}
		// what the accessors return belongs to the caller: a router may sort or rewrite the list it got.
		// That must not reach the state the retry rules compare against.
		if idx%2 == 0 {
			for i := range out.ALPN {
				out.ALPN[i] = "scribbled-by-the-caller"
			}
			if a := flow.Conn.ALPNProtos(); len(a) > 0 {
				a[0] = "zz"
				a = append(a[:0], "h9")
				_ = a
			}
			r.Count("histories_with_accessor_results_overwritten", 1)
		}
		m := &model{readInterp: true, writeInterp: true}
		var trace []string
		// every third history hands consecutive backend records to ONE Write call: what the Conn makes of the
		// backend's records must not depend on how its output is split across Write calls
		coalesce := rng.IntN(3) == 0
		var pending []byte
		for si, k := range hist {
			rec, inner := fx.build(rng, k)
			if strings.HasPrefix(k, "b:") {
				if coalesce && si+1 < len(hist) && strings.HasPrefix(hist[si+1], "b:") {
					pending = append(pending, rec...)
					m.backend(k)
					trace = append(trace, k+"=>held-for-one-write")
					continue
				}
				if len(pending) > 0 {
					rec = append(pending, rec...)
					pending = nil
					r.Count("backend_records_coalesced_into_one_write", 1)
				}
				delivered, n, err := flow.Backend(rec)
				m.backend(k)
				if err != nil || n != len(rec) || !bytes.Equal(delivered, rec) {
					c["step"] = si
					c["trace"] = trace
					r.Violate(work, idx, "backend-record-not-forwarded:"+k, fmt.Sprintf("step %d (%s): backend record not delivered unchanged (n=%d err=%v, %d bytes delivered of %d)", si, k, n, err, len(delivered), len(rec)), c)
					return
				}
				trace = append(trace, k+"=>forwarded")
				continue
			}
			exp := m.client(k)
			wOff := len(flow.Tap.Written())
			got, err := flow.Client(rec)
			cls := echrun.Class(err)
			var obs string
			switch {
			case err != nil:
				obs = "abort:" + cls
			case bytes.Equal(got, rec):
				obs = "verbatim"
			case k == "c:retry-ok-fragmented" && bytes.HasPrefix(rec, got) && len(got) > 0:
				// not interpreted: the first fragment comes out as it went in; drain the other fragments
				obs = "verbatim"
				rest := rec[len(got):]
				for len(rest) > 0 && err == nil {
					var more []byte
					more, err = echrun.ReadRecord(flow.Conn)
					if !bytes.HasPrefix(rest, more) || len(more) == 0 {
						obs = "other-bytes"
						break
					}
					rest = rest[len(more):]
				}
			case inner != nil && len(got) > 5 && bytes.Equal(got[5:], inner.Message()):
				obs = "inner"
			default:
				obs = "other-bytes"
			}
			trace = append(trace, k+"=>"+obs)
			want := exp.kind
			if exp.kind == "abort" {
				want = "abort:" + exp.class
			}
			r.Count("steps_"+exp.kind, 1)
			if exp.kind == "abort" && strings.Contains(exp.class, "|") && err != nil && strings.Contains("|"+exp.class+"|", "|"+cls+"|") {
				want, exp.class = obs, cls
			}
			if obs != want {
				c["step"] = si
				c["trace"] = trace
				state := fmt.Sprintf("hrr=%d", m.hrr)
				r.Violate(work, idx, fmt.Sprintf("divergence:%s:expected-%s:observed-%s", k, want, obs),
					fmt.Sprintf("step %d (%s, model %s): expected %s, observed %s (err=%v)", si, k, state, want, obs, err), c)
				return
			}
			if exp.kind == "abort" {
				// the client must receive the matching fatal alert, then end of stream
				w := flow.Tap.Written()[wOff:]
				if wantA := tlswire.Alert(2, echrun.AlertCode(exp.class)); !bytes.Equal(w, wantA) {
					c["written"] = mon.Hex(w)
					r.Violate(work, idx, "abort:alert-bytes:"+exp.class, fmt.Sprintf("client received % x after the abort, want % x", w, wantA), c)
				}
				if flow.Tap.Closed() == 0 {
					r.Violate(work, idx, "abort:transport-not-closed", "transport not closed after the abort", c)
				}
				if n, err2 := flow.Conn.Read(make([]byte, 16)); err2 == nil || n > 0 {
					r.Violate(work, idx, "abort:readable-after-abort", fmt.Sprintf("Read after an abort returned n=%d err=%v", n, err2), c)
				}
				r.Count("aborts_checked", 1)
				break
			}
			if obs == "inner" {
				r.Count("retries_rewritten", 1)
			}
		}
		r.Count("histories", 1)
	})
}

func TestCheck(t *testing.T) {
	r := mon.Start(t, "C06", "exploration")
	defer r.Finish()
	r.SetRule("histories = accepted first hello followed by an interleaving of client records {well-formed retry (next sequence number), retry without ECH, outer SNI not the public name, other config id, other suite, non-empty enc, fresh HPKE context, " +
		"first-sequence-number replay, changed inner SNI, changed inner ALPN, inner without ECH ext, change_cipher_spec, other handshake, application data, alert} and backend records {ServerHello, HelloRetryRequest, " +
		"change_cipher_spec, application data, alert}; ALL histories up to length 3 (quick) / 4 (thorough) are enumerated, longer ones (up to 14) PRNG-drawn. One driver alternates feed+Read and Write, so call order is the history. " +
		"Oracle: a reference state machine written from the statement gives, per client record, forwarded-verbatim / replaced-by-reconstructed-inner / abort(class+alert); backend records must always be forwarded unchanged. " +
		"distinct = distinct histories executed")
	r.Assume("second hellos are sealed by the independent HPKE sender at an explicit sequence number; the expected inner hello is the generator's own",
		"backend records are well-formed; the backend's first handshake message (ServerHello or HelloRetryRequest, whole, split over several records, or without an extensions block) is its answer: only a HelloRetryRequest there arms the one retry")

	ca, err := tlspeer.NewCA()
	if err != nil {
		r.Inconclusive("fixture: %v", err)
		return
	}
	if err := echgen.SelfCheck(r.Rand("selfcheck", 0), 6, ca.MustLeaf(0, "public.example")); err != nil {
		r.Inconclusive("generator self-check failed: %v", err)
		return
	}
	keys := make([]echgen.KeyPair, 8)
	for i := range keys {
		keys[i] = echgen.NewKey(uint8(i*29+3), "public.example")
	}
	all := append(append([]string{}, clientKinds...), backendKinds...)

	// exhaustive enumeration up to the bound
	maxLen := r.N(3, 4)
	var hists [][]string
	var rec func(cur []string)
	rec = func(cur []string) {
		if len(cur) > 0 {
			hists = append(hists, append([]string{}, cur...))
		}
		if len(cur) == maxLen {
			return
		}
		nh := 0
		for _, k := range cur {
			if helloLike(k) {
				nh++
			}
		}
		for _, k := range all {
			if helloLike(k) && nh >= 3 {
				continue
			}
			rec(append(cur, k))
		}
	}
	rec(nil)
	r.Extra("enumerated_histories", len(hists))
	r.Extra("enumeration_bound", maxLen)
	r.SetExhaustive(true)
	r.Parallel("enum", len(hists), func(i int, rng *mrand.Rand) {
		runHistory(r, "enum", i, rng, keys, hists[i])
		r.Eval("enum|" + strings.Join(hists[i], ","))
		if i%(len(hists)/4+1) == 7 {
			r.Sample(map[string]any{"history": hists[i]})
		}
	})

	// longer random histories, biased towards the interesting prefix "… hrr … retry"
	n := r.N(6000, 500000)
	r.Parallel("random", n, func(i int, rng *mrand.Rand) {
		l := 4 + rng.IntN(11)
		h := make([]string, l)
		for j := range h {
			switch rng.IntN(6) {
			case 0:
				h[j] = "b:hrr"
			case 1:
				h[j] = "c:retry-ok"
			default:
				h[j] = all[rng.IntN(len(all))]
			}
		}
		runHistory(r, "random", i, rng, keys, h)
		r.Eval("rand|" + strings.Join(h, ","))
	})
	// the client's reply to a HelloRetryRequest can reach the reader goroutine before the writer goroutine's Write call
	// has returned: the transport hands the HRR to the client, the client answers at once, the reader consumes the answer.
	nc := r.N(300, 20000)
	r.Parallel("reply-before-write-returns", nc, func(i int, rng *mrand.Rand) {
		key := keys[rng.IntN(len(keys))]
		aead := []uint16{hpkex.AES128GCM, hpkex.AES256GCM, hpkex.ChaCha20}[rng.IntN(3)]
		o := echgen.DefaultOpts()
		o.MaxExtra = 2
		fx := &fixture{key: key, aead: aead}
		fx.first = echgen.Gen(rng, key, aead, o)
		c := map[string]any{"first": fx.first.Describe(), "schedule": "second hello read while Write(HRR) is still in progress"}
		r.Guard("reply-before-write-returns", i, "concurrent", c, func() {
			flow, out := echrun.StartFlow(fx.first.Record(), heldKeys(rng, keys, key))
			if out.Err != nil || !out.Accepted {
				r.Inconclusive("first hello not accepted (%v)", out.Err)
				return
			}
			pre := []string{"", "c:ccs"}[rng.IntN(2)]
			kind := []string{"c:retry-ok", "c:retry-ok", "c:retry-sni-changed", "c:retry-no-ech"}[i%4]
			c["second"] = kind
			second, inner := fx.build(rng, kind)
			hrr, _ := fx.build(rng, "b:hrr")
			type rd struct {
				recs [][]byte
				err  error
			}
			got := make(chan rd, 1)
			consumed := make(chan struct{})
			fired := false
			flow.Tap.OnWrite = func(b []byte) {
				if fired || !bytes.Equal(b, hrr) {
					return
				}
				fired = true
				if pre != "" {
					ccs, _ := fx.build(rng, pre)
					flow.Tap.Feed(ccs)
				}
				flow.Tap.Feed(second)
				<-consumed // the writer resumes only after the reader has the client's answer
			}
			go func() {
				var x rd
				n := 1
				if pre != "" {
					n = 2
				}
				for j := 0; j < n && x.err == nil; j++ {
					var rec []byte
					rec, x.err = echrun.ReadRecord(flow.Conn)
					x.recs = append(x.recs, rec)
				}
				close(consumed)
				got <- x
			}()
			if _, _, err := flow.Backend(hrr); err != nil {
				r.Violate("reply-before-write-returns", i, "concurrent:hrr-write-failed", err.Error(), c)
				return
			}
			x := <-got
			r.Count("concurrent_replies", 1)
			r.Eval(fmt.Sprintf("conc|%d|%s|%d", aead, pre, len(fx.first.Inner.Exts)))
			last := x.recs[len(x.recs)-1]
			switch {
			case kind != "c:retry-ok" && x.err != nil:
				r.Count("concurrent_ill_formed_retries_aborted", 1) // aborted while the writer is still inside Write
			case kind != "c:retry-ok":
				r.Violate("reply-before-write-returns", i, "concurrent:ill-formed-retry-not-aborted", "an ill-formed second hello ("+kind+") read while Write(HRR) was in progress was not aborted", c)
			case x.err != nil:
				r.Violate("reply-before-write-returns", i, "concurrent:retry-aborted:"+echrun.Class(x.err), fmt.Sprintf("a well-formed retry read while Write(HRR) was in progress was aborted: %v", x.err), c)
			case bytes.Equal(last, second):
				r.Violate("reply-before-write-returns", i, "concurrent:retry-forwarded-undecrypted", "the client's second hello, read while the Write of the HelloRetryRequest had not returned yet, was forwarded verbatim instead of being handled as a retried ECH hello", c)
			case len(last) < 5 || !bytes.Equal(last[5:], inner.Message()):
				r.Violate("reply-before-write-returns", i, "concurrent:retry-wrong-bytes", "the retried hello was replaced by something other than its inner hello", c)
			default:
				r.Count("concurrent_retries_rewritten", 1)
			}
		})
	})
	r.Floor("concurrent_retries_rewritten", int64(nc*4/10))
	r.Floor("concurrent_ill_formed_retries_aborted", int64(nc*4/10))
	// the schedule every proxy produces: the client-to-backend goroutine is already blocked in Read when the backend's
	// HelloRetryRequest goes through Write; the client then answers (with or without a compatibility change_cipher_spec)
	np := r.N(300, 20000)
	r.Parallel("read-pending-when-hrr-is-written", np, func(i int, rng *mrand.Rand) {
		key := keys[rng.IntN(len(keys))]
		aead := []uint16{hpkex.AES128GCM, hpkex.AES256GCM, hpkex.ChaCha20}[rng.IntN(3)]
		o := echgen.DefaultOpts()
		o.MaxExtra = 2
		fx := &fixture{key: key, aead: aead}
		fx.first = echgen.Gen(rng, key, aead, o)
		kind := []string{"c:retry-ok", "c:retry-ok-fragmented", "c:retry-no-ech", "c:retry-sni-changed"}[i%4]
		withCCS := rng.IntN(2) == 0
		c := map[string]any{"first": fx.first.Describe(), "schedule": "Read pending on the transport while Write(HRR) runs", "second": kind, "ccs_first": withCCS}
		r.Guard("read-pending-when-hrr-is-written", i, "concurrent", c, func() {
			flow, out := echrun.StartFlow(fx.first.Record(), heldKeys(rng, keys, key))
			if out.Err != nil || !out.Accepted {
				r.Inconclusive("first hello not accepted (%v)", out.Err)
				return
			}
			second, inner := fx.build(rng, kind)
			hrr, _ := fx.build(rng, "b:hrr")
			type rd struct {
				recs [][]byte
				err  error
			}
			got := make(chan rd, 1)
			select { // drop a stale token from NewConn's own reads
			case <-flow.Tap.Blocked:
			default:
			}
			go func() {
				var x rd
				n := 1
				if withCCS {
					n = 2
				}
				for j := 0; j < n && x.err == nil; j++ {
					var rec []byte
					rec, x.err = echrun.ReadRecord(flow.Conn)
					x.recs = append(x.recs, rec)
				}
				got <- x
			}()
			<-flow.Tap.Blocked // the reader is now waiting inside the transport's Read
			if _, _, err := flow.Backend(hrr); err != nil {
				r.Violate("read-pending-when-hrr-is-written", i, "concurrent:hrr-write-failed", err.Error(), c)
				flow.Tap.CloseInput(nil)
				<-got
				return
			}
			if withCCS {
				ccs, _ := fx.build(rng, "c:ccs")
				flow.Tap.Feed(ccs)
			}
			flow.Tap.Feed(second)
			x := <-got
			r.Count("pending_read_cases", 1)
			r.Eval(fmt.Sprintf("pending|%d|%s|%v", aead, kind, withCCS))
			last := x.recs[len(x.recs)-1]
			wantInner := kind == "c:retry-ok" || kind == "c:retry-ok-fragmented"
			switch {
			case wantInner && x.err != nil:
				r.Violate("read-pending-when-hrr-is-written", i, "pending-read:retry-aborted:"+echrun.Class(x.err), fmt.Sprintf("a well-formed retry was aborted: %v", x.err), c)
			case x.err == nil && (bytes.Equal(last, second) || bytes.HasPrefix(second, last)):
				r.Violate("read-pending-when-hrr-is-written", i, "pending-read:second-hello-forwarded-unchecked", "the Read that was pending when the HelloRetryRequest was written forwarded the client's second hello verbatim: it was neither decrypted nor checked against the retry rules", c)
			case wantInner && (len(last) < 5 || !bytes.Equal(last[5:], inner.Message())):
				r.Violate("read-pending-when-hrr-is-written", i, "pending-read:retry-wrong-bytes", "the retried hello was replaced by something other than its inner hello", c)
			case !wantInner && x.err == nil:
				r.Violate("read-pending-when-hrr-is-written", i, "pending-read:ill-formed-retry-not-aborted", "an ill-formed second hello ("+kind+") was not aborted", c)
			default:
				r.Count("pending_read_ok", 1)
			}
		})
	})
	r.Floor("pending_read_ok", int64(np*9/10))

	r.Floor("histories", int64(len(hists)+n)*9/10)
	r.Floor("retries_rewritten", 200)
	r.Floor("aborts_checked", 500)
	r.Floor("steps_verbatim", 5000)
}
