//go:build go1.25

package c10

import (
	"context"
	"fmt"
	"testing"
	"testing/synctest"
	"time"

	"github.com/c2FmZQ/ech"

	"verif/harness/internal/echgen"
	"verif/harness/internal/hpkex"
	"verif/harness/internal/mon"
	"verif/harness/internal/tap"
	"verif/harness/internal/tlswire"
)

// virtualCheck: part (b) of the property in virtual time. The client stalls
// after o bytes; the context is cancelled (or expires) at virtual time c;
// NewConn must fail at exactly that instant ("promptly"), and a context that
// ends AFTER a successful return must leave the transport's deadline alone.
var fragmented bool

func virtualCheck(t *testing.T) {
	r := mon.Start(t, "C10", "exploration")
	defer r.Finish()
	r.SetRule("virtual-time stage: (b) stall after o bytes for every 7th offset o, cancel via CancelFunc or deadline at c in {0, 1ms, 50ms}: NewConn must return an error at virtual time == c; " +
		"(c) input that makes NewConn fail on its own (non-handshake record, other handshake message, hello cut short) on a transport whose writes block: NewConn must be back by virtual time c; " +
		"(a') full hello delivered at virtual time 10ms, context ends at {before, same instant, after}: no SetDeadline after a successful return. distinct = (offset, cancel kind, time) cells")
	k := echgen.NewKey(9, "public.example")
	o := echgen.DefaultOpts()
	o.MaxExtra = 1
	hello := echgen.Gen(r.Rand("fixtures", 0), k, hpkex.AES128GCM, o).Record()
	keys := []ech.Key{k.TLSKey()}
	// the same hello split across three records: the context must bound the WHOLE first ClientHello
	{
		msg := hello[5:]
		var fr []byte
		for _, part := range [][]byte{msg[:len(msg)/3], msg[len(msg)/3 : 2*len(msg)/3], msg[2*len(msg)/3:]} {
			fr = append(fr, tlswire.Record(22, 0x0301, part)...)
		}
		hello = append(append([]byte{}, fr...), 0)[:len(fr)]
		fragmented = true
	}
	idx := 0
	for off := 0; off < len(hello); off += 7 {
		for _, kind := range []string{"cancel", "deadline", "cancel-before-own-deadline"} {
			for _, c := range []time.Duration{0, time.Millisecond, 50 * time.Millisecond} {
				idx++
				cs := map[string]any{"offset": off, "kind": kind, "at": c.String(), "transport_writes_block": idx%2 == 0}
				var elapsed time.Duration
				var err error
				done := false
				deadlock := ""
				ok := t.Run(fmt.Sprintf("v%d", idx), func(t *testing.T) {
					// a deadlocked bubble (NewConn blocked for ever) panics on this goroutine: that is a verdict, not a crash
			defer func() {
				if p := recover(); p != nil {
					deadlock = fmt.Sprint(p)
				}
			}()
			synctest.Test(t, func(t *testing.T) {
						tc := tap.New(nil)
						tc.Feed(hello[:off])
						// every other cell: a synchronous transport (net.Pipe like) whose stalled peer does not read either,
						// so that a Write - the alert - only ends at its write deadline
						tc.BlockWrites = idx%2 == 0
						var ctx context.Context
						var cancel context.CancelFunc
						if kind == "deadline" {
							ctx, cancel = context.WithTimeout(context.Background(), c)
						} else if kind == "cancel-before-own-deadline" {
							// the usual server shape: a per-connection timeout under a parent that is cancelled at shutdown
							parent, pcancel := context.WithCancel(context.Background())
							defer pcancel()
							time.AfterFunc(c, pcancel)
							ctx, cancel = context.WithTimeout(parent, 30*time.Second)
						} else {
							ctx, cancel = context.WithCancel(context.Background())
							time.AfterFunc(c, cancel)
						}
						defer cancel()
						start := time.Now()
						_, err = ech.NewConn(ctx, tc, ech.WithKeys(keys))
						elapsed = time.Since(start)
						done = true
						synctest.Wait()
					})
				})
				r.Eval(fmt.Sprintf("stall|%d|%s|%v|%v", off, kind, c, idx%2 == 0))
				switch {
				case deadlock != "" || !ok || !done:
					r.Violate("virtual", idx, "blocked:newconn-did-not-return", "NewConn stayed blocked after its context ended ("+deadlock+")", cs)
				case err == nil:
					r.Violate("virtual", idx, "blocked:no-error", "NewConn succeeded on an incomplete hello", cs)
				case elapsed != c:
					r.Violate("virtual", idx, "blocked:not-prompt", fmt.Sprintf("context ended at %v, NewConn returned at %v (virtual)", c, elapsed), cs)
				default:
					r.Count("prompt_failures", 1)
				}
			}
		}
	}
	// (a') completion and context end at chosen virtual instants
	for _, ctxEnd := range []time.Duration{5 * time.Millisecond, 10 * time.Millisecond, 15 * time.Millisecond} {
		for rep := 0; rep < r.N(50, 2000); rep++ {
			idx++
			cs := map[string]any{"hello_at": "10ms", "context_ends_at": ctxEnd.String()}
			var err error
			var lateDeadline bool
			var ioErr error
			deadlock := ""
			ok := t.Run(fmt.Sprintf("a%d", idx), func(t *testing.T) {
				// a deadlocked bubble (NewConn blocked for ever) panics on this goroutine: that is a verdict, not a crash
			defer func() {
				if p := recover(); p != nil {
					deadlock = fmt.Sprint(p)
				}
			}()
			synctest.Test(t, func(t *testing.T) {
					tc := tap.New(nil)
					time.AfterFunc(10*time.Millisecond, func() { tc.Feed(hello) })
					ctx, cancel := context.WithTimeout(context.Background(), ctxEnd)
					defer cancel()
					var conn *ech.Conn
					conn, err = ech.NewConn(ctx, tc, ech.WithKeys(keys))
					nEvents := len(tc.Snapshot())
					time.Sleep(20 * time.Millisecond) // the context is over by now in every variant
					synctest.Wait()
					if err == nil {
						for _, e := range tc.Snapshot()[nEvents:] {
							if e.Kind == "deadline" {
								lateDeadline = true
							}
						}
						buf := make([]byte, 8)
						_, ioErr = conn.Read(buf)
					}
				})
			})
			r.Eval(fmt.Sprintf("complete|%v|%d", ctxEnd, rep%4))
			switch {
			case deadlock != "" || !ok:
				r.Violate("virtual", idx, "bubble-failed", "bubble did not complete: "+deadlock, cs)
			case err != nil && ctxEnd > 10*time.Millisecond:
				r.Violate("virtual", idx, "newconn-error-with-live-context", fmt.Sprintf("the hello arrived at 10ms, the context ends at %v, NewConn failed: %v", ctxEnd, err), cs)
			case err == nil && ctxEnd < 10*time.Millisecond:
				r.Violate("virtual", idx, "newconn-ignored-context", "the context ended before the hello arrived but NewConn succeeded", cs)
			case err == nil && lateDeadline:
				r.Violate("virtual", idx, "deadline-set-after-return", "SetDeadline on the transport after a successful return", cs)
			case err == nil && ioErr != nil:
				r.Violate("virtual", idx, "io-fails-after-return:read", fmt.Sprintf("Read after return failed: %v", ioErr), cs)
			default:
				r.Count("completion_cases_ok", 1)
			}
		}
	}
	// (c) NewConn blocked in its own farewell: the input makes it fail (an alert is due) but the peer does not
	// read and the transport's writes block. The context still has to bound the call.
	bad := map[string][]byte{
		"application-data-record": tlswire.Record(23, 0x0303, []byte("x")),
		"handshake-not-a-hello":   tlswire.Record(22, 0x0301, []byte{11, 0, 0, 1, 0}),
		"hello-cut-short":         tlswire.Record(22, 0x0301, hello[5:5+40]),
		"alert-record":            tlswire.Record(21, 0x0303, []byte{1, 0}),
	}
	for name, in := range bad {
		for _, kind := range []string{"cancel", "deadline"} {
			for _, c := range []time.Duration{time.Millisecond, 50 * time.Millisecond} {
				idx++
				cs := map[string]any{"input": name, "kind": kind, "at": c.String(), "transport_writes_block": true}
				var elapsed time.Duration
				var err error
				done := false
				deadlock := ""
				ok := t.Run(fmt.Sprintf("c%d", idx), func(t *testing.T) {
					defer func() {
						if p := recover(); p != nil {
							deadlock = fmt.Sprint(p)
						}
					}()
					synctest.Test(t, func(t *testing.T) {
						tc := tap.New(nil)
						tc.Feed(in)
						tc.BlockWrites = true
						var ctx context.Context
						var cancel context.CancelFunc
						if kind == "deadline" {
							ctx, cancel = context.WithTimeout(context.Background(), c)
						} else {
							ctx, cancel = context.WithCancel(context.Background())
							time.AfterFunc(c, cancel)
						}
						defer cancel()
						start := time.Now()
						_, err = ech.NewConn(ctx, tc, ech.WithKeys(keys))
						elapsed = time.Since(start)
						done = true
						synctest.Wait()
					})
				})
				r.Eval(fmt.Sprintf("farewell|%s|%s|%v", name, kind, c))
				switch {
				case deadlock != "" || !ok || !done:
					r.Violate("virtual", idx, "blocked:newconn-did-not-return:writing-its-alert", "NewConn stayed blocked in the write of its alert after its context ended ("+deadlock+")", cs)
				case err == nil:
					r.Violate("virtual", idx, "blocked:no-error", "NewConn succeeded on input that is no ClientHello", cs)
				case elapsed > c:
					r.Violate("virtual", idx, "blocked:not-prompt", fmt.Sprintf("context ended at %v, NewConn returned at %v (virtual)", c, elapsed), cs)
				default:
					r.Count("prompt_failures_while_writing_the_alert", 1)
				}
			}
		}
	}
	r.Floor("prompt_failures_while_writing_the_alert", 8)
	r.Floor("prompt_failures", 50)
	r.Floor("completion_cases_ok", 100)
	r.Sample(map[string]any{"hello_len": len(hello)})
	_ = mon.Hex
}
