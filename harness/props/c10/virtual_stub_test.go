//go:build !go1.25

package c10

import "testing"

func virtualCheck(t *testing.T) {
	t.Fatal("the virtual-time stage needs testing/synctest (go1.25+): build it with the go1.26.8 toolchain")
}
