// C10 — the NewConn context governs only the initial read.
package c10

import (
	"bytes"
	"context"
	"fmt"
	"io"
	mrand "math/rand/v2"
	"os"
	"runtime"
	"strings"
	"sync"
	"sync/atomic"
	"testing"
	"time"

	"github.com/c2FmZQ/ech"

	"verif/harness/internal/echgen"
	"verif/harness/internal/hellogen"
	"verif/harness/internal/hpkex"
	"verif/harness/internal/mon"
	"verif/harness/internal/tap"
	"verif/harness/internal/tlswire"
)

// ctxTap logs (with the shared sequence counter) the first time somebody asks
// for the context's Done channel: that is the moment NewConn's watcher
// goroutine reaches its select. No source hook is needed for this.
type ctxTap struct {
	context.Context
	seq     *atomic.Int64
	doneSeq atomic.Int64
}

func (c *ctxTap) Done() <-chan struct{} {
	c.doneSeq.CompareAndSwap(0, c.seq.Add(1))
	return c.Context.Done()
}

var helloModes = []string{"buffered", "late-goroutine", "two-halves"}
var cancelModes = []string{"immediately", "after-gosched", "racing-goroutine", "deadline-expiry", "never"}

// watchersAlive counts goroutines that still have a frame of NewConn's closure.
var stackBuf = sync.Pool{New: func() any { b := make([]byte, 256<<10); return &b }}

func watchersAlive() int {
	bp := stackBuf.Get().(*[]byte)
	defer stackBuf.Put(bp)
	n := runtime.Stack(*bp, true)
	return bytes.Count((*bp)[:n], []byte("ech.NewConn.func"))
}

func TestCheck(t *testing.T) {
	if os.Getenv("VERIF_C10_PART") == "virtual" {
		virtualCheck(t)
		return
	}
	r := mon.Start(t, "C10", "exploration")
	defer r.Finish()
	r.SetRule("trials = GOMAXPROCS {1,2,4,8,16} x hello {fully buffered before the call, delivered by another goroutine after a yield, delivered in two halves} x cancel {immediately after return (the 'defer cancel()' idiom), " +
		"after Gosched, from another goroutine racing the return, deadline expiry, never} x background load {idle, spinning goroutines}; orderings are produced by the Go scheduler, not enumerated. " +
		"Observation: a transport tap logs every SetDeadline with a global sequence number, a context wrapper logs when the watcher goroutine first evaluates ctx.Done(); after quiescence (no goroutine with a NewConn frame) " +
		"the Conn must still read and write, including a HelloRetryRequest exchange with a retried hello long after the context ended. distinct = distinct (GOMAXPROCS, hello mode, cancel mode, load, interleaving class) combinations observed")
	r.Assume("only schedules the Go runtime produces under these settings are covered; the evidence lists how many trials fell into each interleaving class",
		"the dangerous schedule is 'the watcher goroutine gets to run only after NewConn's work is done and the context has ended'; late_watcher_* counters say how often the scheduler produced it")

	k := echgen.NewKey(9, "public.example")
	gr := r.Rand("fixtures", 0)
	o := echgen.DefaultOpts()
	o.MaxExtra = 1
	offer := echgen.Gen(gr, k, hpkex.AES128GCM, o)
	hello := offer.Record()
	app := tlswire.Record(23, 0x0303, []byte("ping-after-newconn"))
	keys := []ech.Key{k.TLSKey()}

	per := r.N(60, 1500) // trials per (procs, hello, cancel, load) cell
	procsList := []int{1, 2, 4, 8, 16}
	if os.Getenv("VERIF_C10_PART") == "race" {
		per = r.N(40, 400)
	}
	defer runtime.GOMAXPROCS(runtime.GOMAXPROCS(0))
	classCount := map[string]int64{}
	var cmu sync.Mutex
	idx := 0
	for _, procs := range procsList {
		runtime.GOMAXPROCS(procs)
		for _, load := range []bool{false, true} {
			stop := make(chan struct{})
			var lw sync.WaitGroup
			if load {
				for i := 0; i < 2*procs; i++ {
					lw.Add(1)
					go func() {
						defer lw.Done()
						x := 0
						for {
							select {
							case <-stop:
								return
							default:
								x++
								if x%1000 == 0 {
									runtime.Gosched()
								}
							}
						}
					}()
				}
			}
			for hm := range helloModes {
				for cm := range cancelModes {
					for rep := 0; rep < per; rep++ {
						idx++
						if r.Replaying() {
							continue
						}
						class := trial(r, idx, procs, hm, cm, load, hello, app, keys, offer)
						if class != "" {
							cmu.Lock()
							classCount[class]++
							cmu.Unlock()
							r.Eval(fmt.Sprintf("%d|%s|%s|%v|%s", procs, helloModes[hm], cancelModes[cm], load, class))
						}
					}
				}
			}
			close(stop)
			lw.Wait()
		}
	}
	r.Extra("interleaving_classes", classCount)
	var dangerous int64
	for c, n := range classCount {
		if strings.HasPrefix(c, "R<C<W") {
			dangerous += n
		}
	}
	r.Count("watcher_after_return_and_cancel_trials", dangerous) // only possible when NewConn does not wait for its watcher
	// The floor on the dangerous schedule only makes sense for an implementation that HAS that schedule: one whose
	// first look at ctx.Done() can come after the hello was read (a watcher goroutine that is scheduled late). An
	// implementation that registers for the context's end synchronously on entry (context.AfterFunc, for instance)
	// never shows a single such trial; then the behavioural rules (a)-(c) are all there is to judge, and they were.
	if r.Counter("late_watcher_trials")*20 >= r.Counter("trials_completed") { // a third of the trials on the code at hand, next to none on designs without such a watcher
		r.Floor("late_watcher_and_context_ended_trials", 200)
	} else {
		r.Extra("late_watcher_schedule", "(almost) never observed: this implementation does not look at ctx.Done() late from a goroutine of its own; the schedule-coverage floor does not apply")
	}
	r.Floor("trials_completed", int64(idx/2))
	r.Floor("trials_with_retry_after_context_end", int64(idx/5))
	r.Sample(map[string]any{"hello_len": len(hello), "post_return_record": mon.Hex(app), "classes": classCount})
}

// trial runs one NewConn under one schedule recipe and judges it. It returns
// the interleaving class: the order of W (watcher evaluated ctx.Done()),
// R (NewConn returned) and C (context ended), e.g. "R<C<W".
func trial(r *mon.Run, idx, procs, hm, cm int, load bool, hello, app []byte, keys []ech.Key, offer *echgen.Offer) string {
	c := map[string]any{"gomaxprocs": procs, "hello": helloModes[hm], "cancel": cancelModes[cm], "load": load}
	seq := new(atomic.Int64)
	tc := tap.New(seq)
	base, cancel := context.WithCancel(context.Background())
	if cm == 3 {
		base, cancel = context.WithTimeout(context.Background(), time.Duration(50+idx%400)*time.Microsecond)
	}
	defer cancel()
	ctx := &ctxTap{Context: base, seq: seq}
	var cancelSeq atomic.Int64
	doCancel := func() {
		cancelSeq.CompareAndSwap(0, seq.Add(1))
		cancel()
	}
	switch hm {
	case 0:
		tc.Feed(hello)
	case 1:
		go func() { runtime.Gosched(); tc.Feed(hello) }()
	case 2:
		tc.Feed(hello[:len(hello)/2])
		go func() { runtime.Gosched(); tc.Feed(hello[len(hello)/2:]) }()
	}
	var returned atomic.Bool
	racerDone := make(chan struct{})
	if cm == 2 {
		go func() {
			defer close(racerDone)
			for !returned.Load() {
				runtime.Gosched()
			}
			doCancel()
		}()
	}
	conn, err := ech.NewConn(ctx, tc, ech.WithKeys(keys))
	retSeq := seq.Add(1)
	returned.Store(true)
	switch cm {
	case 0:
		doCancel()
	case 1:
		runtime.Gosched()
		doCancel()
	}
	if err != nil {
		if cm == 3 {
			r.Count("expired_before_return", 1)
			return "" // the context ended while NewConn was still reading: an error is the specified outcome
		}
		r.Violate("trial", idx, "newconn-error", fmt.Sprintf("NewConn failed although the hello arrived and the context was alive: %v", err), c)
		return ""
	}
	// wait for quiescence: the watcher goroutine is gone (bounded polling; a miss is inconclusive, not a verdict)
	// first wait (blocking, on the harness' own goroutines/timers) until the context has really ended
	switch cm {
	case 2:
		<-racerDone
	case 3:
		<-base.Done()
	}
	quiet := false
	for i := 0; i < 400; i++ {
		if watchersAlive() == 0 {
			quiet = true
			break
		}
		runtime.Gosched()
		if i > 20 {
			time.Sleep(100 * time.Microsecond)
		}
	}
	if !quiet {
		r.Inconclusive("trial %d: watcher goroutine still alive after polling (%v)", idx, c)
		return ""
	}
	if cm == 3 {
		cancelSeq.CompareAndSwap(0, seq.Add(1)) // expiry happened some time before this point, after the return
	}
	// interleaving class
	w, cs := ctx.doneSeq.Load(), cancelSeq.Load()
	type ev struct {
		n string
		s int64
	}
	evs := []ev{{"R", retSeq}}
	if w != 0 {
		evs = append(evs, ev{"W", w})
	}
	if cs != 0 {
		evs = append(evs, ev{"C", cs})
	}
	for i := range evs {
		for j := i + 1; j < len(evs); j++ {
			if evs[j].s < evs[i].s {
				evs[i], evs[j] = evs[j], evs[i]
			}
		}
	}
	var names []string
	for _, e := range evs {
		names = append(names, e.n)
	}
	class := strings.Join(names, "<")
	c["class"] = class

	// schedule coverage that is meaningful on correct code too: the watcher reached its select only after
	// the whole hello had been read from the transport, i.e. it was scheduled when NewConn's work was done.
	var lastRead int64
	for _, e := range tc.Snapshot() {
		if e.Kind == "read" && e.Seq < retSeq {
			lastRead = e.Seq
		}
	}
	if w > lastRead {
		r.Count("late_watcher_trials", 1)
		if cs != 0 {
			r.Count("late_watcher_and_context_ended_trials", 1)
		}
	}
	// (a) no deadline may be set on the transport after a successful return
	for _, e := range tc.Snapshot() {
		if (e.Kind == "deadline" || e.Kind == "rdeadline" || e.Kind == "wdeadline") && e.Seq > retSeq {
			c["event_seq"], c["return_seq"] = e.Seq, retSeq
			r.Violate("trial", idx, "deadline-set-after-return", fmt.Sprintf("SetDeadline was called on the transport after NewConn had returned successfully (interleaving %s)", class), c)
			return class
		}
	}
	// every other trial: the handshake goes on with a HelloRetryRequest and a retried hello, long after the context ended
	if idx%2 == 0 {
		rrng := mrand.New(mrand.NewPCG(uint64(idx), 99))
		offer.Sender.SetSeq(1) // the fixture offer is shared by all (sequential) trials: every retry is the second message of its context
		re := offer.Retry(rrng, echgen.DefaultOpts())
		if _, err := conn.Write(tlswire.HRRRecord(offer.Outer.SessionID, 23)); err != nil {
			r.Violate("trial", idx, "io-fails-after-return:write", fmt.Sprintf("Write of the HelloRetryRequest failed after NewConn returned and the context ended: %v (interleaving %s)", err, class), c)
			return class
		}
		first := make([]byte, len(offer.Inner.Message())+5)
		if _, err := io.ReadFull(conn, first); err != nil {
			r.Violate("trial", idx, "io-fails-after-return:read", fmt.Sprintf("Read through the Conn failed after NewConn returned and the context ended: %v (interleaving %s)", err, class), c)
			return class
		}
		tc.Feed(re.Record())
		second := make([]byte, len(re.Inner.Message())+5)
		if _, err := io.ReadFull(conn, second); err != nil {
			r.Violate("trial", idx, "io-fails-after-return:retried-hello", fmt.Sprintf("reading the retried ClientHello failed after the NewConn context had ended: %v (interleaving %s)", err, class), c)
			return class
		}
		if !bytes.Equal(second[5:], re.Inner.Message()) {
			r.Violate("trial", idx, "io-wrong-bytes-after-return", "the retried hello read after the return is not its inner hello", c)
			return class
		}
		for _, e := range tc.Snapshot() {
			if (e.Kind == "deadline" || e.Kind == "rdeadline" || e.Kind == "wdeadline") && e.Seq > retSeq {
				r.Violate("trial", idx, "deadline-set-after-return", fmt.Sprintf("SetDeadline was called on the transport while the retried hello was read, long after NewConn had returned (interleaving %s)", class), c)
				return class
			}
		}
		r.Count("trials_completed", 1)
		r.Count("trials_with_retry_after_context_end", 1)
		return class
	}
	// a deadline set BEFORE the return must not be left armed either
	tc.Feed(app)
	got := make([]byte, len(offer.Inner.Message())+5+len(app))
	n := 0
	for n < len(got) {
		k, err := conn.Read(got[n:])
		n += k
		if err != nil {
			r.Violate("trial", idx, "io-fails-after-return:read", fmt.Sprintf("Read through the Conn failed after NewConn returned and the context ended: %v (interleaving %s)", err, class), c)
			return class
		}
	}
	if !bytes.HasSuffix(got, app) {
		r.Violate("trial", idx, "io-wrong-bytes-after-return", "bytes read after the return differ", c)
		return class
	}
	if _, err := conn.Write(app); err != nil {
		r.Violate("trial", idx, "io-fails-after-return:write", fmt.Sprintf("Write through the Conn failed after NewConn returned and the context ended: %v (interleaving %s)", err, class), c)
		return class
	}
	r.Count("trials_completed", 1)
	_ = hellogen.Bytes
	return class
}
