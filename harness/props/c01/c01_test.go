// C01 — split-mode ECH handshake completes end to end and routes on the inner hello.
package c01

import (
	"bytes"
	"context"
	"crypto/tls"
	"errors"
	"fmt"
	"io"
	mrand "math/rand/v2"
	"net"
	"os"
	"slices"
	"strings"
	"sync"
	"testing"
	"time"

	"github.com/c2FmZQ/ech"

	"verif/harness/internal/echgen"
	"verif/harness/internal/hellogen"
	"verif/harness/internal/hpkex"
	"verif/harness/internal/mon"
	"verif/harness/internal/tlspeer"
	"verif/harness/internal/tlswire"
)

const publicName = "public.example"

var aeads = []uint16{hpkex.AES128GCM, hpkex.AES256GCM, hpkex.ChaCha20}

// wireTap records both directions of the client-facing transport and limits
// the size of reads (transport chunking).
type wireTap struct {
	net.Conn
	mu       sync.Mutex
	fromCli  []byte
	toCli    []byte
	maxChunk int
	// lateReturn: the first writes towards the client return this long after their bytes were delivered (a transport
	// whose Write returns late, e.g. one that waits for an acknowledgement): the client's answer to a
	// HelloRetryRequest can then be read by the proxy's other goroutine while Write(HRR) is still in progress
	lateReturn time.Duration
	lateLeft   int
}

func (w *wireTap) Read(b []byte) (int, error) {
	if w.maxChunk > 0 && len(b) > w.maxChunk {
		b = b[:w.maxChunk]
	}
	n, err := w.Conn.Read(b)
	w.mu.Lock()
	w.fromCli = append(w.fromCli, b[:n]...)
	w.mu.Unlock()
	return n, err
}

func (w *wireTap) Write(b []byte) (int, error) {
	n, err := w.Conn.Write(b)
	w.mu.Lock()
	w.toCli = append(w.toCli, b[:n]...)
	late := w.lateReturn > 0 && w.lateLeft > 0
	if late {
		w.lateLeft--
	}
	w.mu.Unlock()
	if late {
		time.Sleep(w.lateReturn) // an injected delay, never a verdict
	}
	return n, err
}

type scenario struct {
	ClientCurves  string
	BackendCurves string
	WantHRR       bool
	ALPN          []string
	BackendALPN   []string
	ServerName    string
	Resume        bool
	ResumeBurst   int // further resumed connections on the same session cache (each resumed hello carries a fresh PSK binder: bytes that no generator chooses)
	ClientCert    int // 0 none, else pad bytes
	BackendChain  int // pad bytes of the backend certificate
	NKeys         int
	KeyPos        int
	AEAD          uint16
	Stale         string // "", "same-id", "other-id"
	Up, Down      int    // payload sizes
	Chunk         int    // transport read chunk (0 = whole)
	TCP           bool
	// Proxy > 0: the split-mode topology of the package documentation - the backend TLS server
	// sits behind its own connection and two copy loops with a Proxy-byte buffer move bytes
	// between it and the Conn, so Conn.Write receives arbitrary chunks, not whole records.
	Proxy int
	// KeySet shapes the keys the server holds besides the target: "" distinct ids and the same
	// public name, "same-id" / "same-id-other-name" share the target's config id, "other-name"
	// / "same-id-other-name" are configs for another public name.
	KeySet string
}

const otherPublic = "front2.example.net"

var curveSets = map[string][]tls.CurveID{
	"x25519":      {tls.X25519},
	"p256":        {tls.CurveP256},
	"p384":        {tls.CurveP384},
	"mlkem":       {tls.X25519MLKEM768, tls.X25519},
	"default":     nil,
	"x-then-p256": {tls.X25519, tls.CurveP256},
	"p256-then-x": {tls.CurveP256, tls.X25519},
}

func dnsName(rng *mrand.Rand, n int) string {
	const al = "abcdefghijklmnopqrstuvwxyz0123456789"
	if n < 1 {
		n = 1
	}
	b := make([]byte, n)
	for i := range b {
		b[i] = al[rng.IntN(len(al))]
	}
	// dots so that no label exceeds 63 bytes; names of >= 4 bytes get at least two labels
	last := -1
	for i := 1; i < n-1; i++ {
		if i-last > 63 || (i-last > 1 && rng.IntN(14) == 0) {
			b[i] = '.'
			last = i
		}
	}
	if n >= 4 && !bytes.Contains(b, []byte(".")) {
		b[n/2] = '.'
	}
	if n-1-last > 63 {
		b[last+1+62] = '.'
	}
	return string(b)
}

func alpnList(rng *mrand.Rand, n int) []string {
	out := make([]string, n)
	for i := range out {
		l := 1 + rng.IntN(10)
		if rng.IntN(10) == 0 {
			l = 255
		}
		s := make([]byte, l)
		for j := range s {
			s[j] = byte('a' + rng.IntN(26))
		}
		out[i] = string(s)
	}
	return out
}

// base covering list: every value of every dimension and the listed pairs at least once.
func covering() []scenario {
	d := scenario{ClientCurves: "default", BackendCurves: "default", ServerName: "inner.example", NKeys: 1, AEAD: hpkex.AES128GCM, Up: 100, Down: 100, BackendChain: 0}
	var out []scenario
	add := func(f func(s *scenario)) { s := d; f(&s); out = append(out, s) }
	for _, cc := range []string{"x25519", "p256", "p384", "mlkem", "default"} {
		add(func(s *scenario) { s.ClientCurves = cc })
	}
	// share mismatch => HelloRetryRequest
	add(func(s *scenario) { s.ClientCurves, s.BackendCurves, s.WantHRR = "x-then-p256", "p256", true })
	add(func(s *scenario) { s.ClientCurves, s.BackendCurves = "p256-then-x", "x25519" }) // crypto/tls ignores the order of CurvePreferences: no HRR expected here
	add(func(s *scenario) { s.ClientCurves, s.BackendCurves, s.WantHRR = "x25519", "default", false })
	add(func(s *scenario) { s.ClientCurves, s.BackendCurves, s.WantHRR = "mlkem", "p256", false }) // falls to... see run(): judged by observation
	add(func(s *scenario) {
		s.ClientCurves, s.BackendCurves, s.WantHRR, s.Resume = "x-then-p256", "p256", true, true
	}) // HRR x resumption
	for _, a := range aeads {
		add(func(s *scenario) { s.AEAD = a })
		add(func(s *scenario) { s.AEAD, s.BackendChain = a, 17000 }) // big chain x each AEAD
	}
	for _, ch := range []int{500, 4000, 15000, 17000, 40000} {
		add(func(s *scenario) { s.BackendChain = ch })
	}
	for _, cc := range []int{1, 20000} {
		add(func(s *scenario) { s.ClientCert = cc })
		add(func(s *scenario) { s.ClientCert, s.Resume = cc, true })
	}
	for nk := 1; nk <= 4; nk++ {
		for pos := 0; pos < nk; pos++ {
			add(func(s *scenario) { s.NKeys, s.KeyPos = nk, pos })
		}
	}
	for _, st := range []string{"same-id", "other-id"} {
		for nk := 1; nk <= 3; nk++ {
			add(func(s *scenario) { s.Stale, s.NKeys = st, nk })
		}
		add(func(s *scenario) { s.Stale, s.ClientCurves, s.BackendCurves = st, "x-then-p256", "p256" })
	}
	add(func(s *scenario) { s.Resume = true })
	add(func(s *scenario) { s.Resume, s.ResumeBurst = true, resumeBurst })
	add(func(s *scenario) { s.Resume, s.ClientCurves = true, "mlkem" })
	for _, sz := range []int{1, 16384, 16385, 100000} {
		add(func(s *scenario) { s.Up, s.Down = sz, sz })
	}
	for _, ch := range []int{1, 1460} {
		add(func(s *scenario) { s.Chunk = ch })
		add(func(s *scenario) { s.Chunk, s.BackendChain = ch, 17000 })
	}
	// split-mode proxy in front of a separate backend connection: copy buffers x first-flight sizes
	for _, px := range []int{1, 7, 512, 4096, 32768} {
		for _, ch := range []int{0, 6000, 40000} {
			if px == 1 && ch > 6000 {
				continue
			}
			add(func(s *scenario) { s.Proxy, s.BackendChain = px, ch })
		}
	}
	add(func(s *scenario) {
		s.Proxy, s.ClientCurves, s.BackendCurves, s.WantHRR, s.BackendChain = 4096, "x-then-p256", "p256", true, 6000
	})
	add(func(s *scenario) { s.Proxy, s.Resume, s.BackendChain = 4096, true, 6000 })
	// key sets with shared config ids and configs for another public name
	for _, ks := range []string{"same-id", "other-name", "same-id-other-name"} {
		for nk := 2; nk <= 3; nk++ {
			for pos := 0; pos < nk; pos++ {
				add(func(s *scenario) { s.KeySet, s.NKeys, s.KeyPos = ks, nk, pos })
			}
		}
		add(func(s *scenario) { s.KeySet, s.NKeys, s.KeyPos, s.Stale = ks, 2, 1, "same-id" })
		add(func(s *scenario) { s.KeySet, s.NKeys, s.KeyPos, s.Stale = ks, 2, 0, "same-id-other-name" })
	}
	add(func(s *scenario) { s.Stale = "same-id-other-name" })
	return out
}

type fixtures struct {
	ca      *tlspeer.CA
	keyPool []echgen.KeyPair // per AEAD index: pool of keys
}

// run executes one scenario and judges it.
// resumeBurst: set by TestCheck from the tier.
var resumeBurst = 1200

func run(r *mon.Run, work string, idx int, rng *mrand.Rand, fx *fixtures, s scenario) {
	c := map[string]any{"scenario": s}
	// keys held by the client-facing server
	var held []echgen.KeyPair
	ids := rng.Perm(200)
	tpos := s.KeyPos % s.NKeys
	for i := 0; i < s.NKeys; i++ {
		id, name := uint8(ids[i]), publicName
		if i != tpos {
			if s.KeySet == "same-id" || s.KeySet == "same-id-other-name" {
				id = uint8(ids[tpos])
			}
			if s.KeySet == "other-name" || s.KeySet == "same-id-other-name" {
				name = otherPublic
			}
		}
		held = append(held, echgen.NewKey(id, name, s.AEAD))
	}
	target := held[tpos]
	clientKey := target
	switch s.Stale {
	case "same-id":
		clientKey = echgen.NewKey(target.ID, publicName, s.AEAD)
	case "same-id-other-name":
		// the client's stale config names another front end than the held key with that id
		clientKey = echgen.NewKey(target.ID, otherPublic, s.AEAD)
	case "other-id":
		clientKey = echgen.NewKey(uint8(ids[len(ids)-1]), publicName, s.AEAD)
	}
	var echKeys []ech.Key
	var heldConfigs [][]byte
	for _, k := range held {
		echKeys = append(echKeys, k.TLSKey())
		heldConfigs = append(heldConfigs, k.Config)
	}
	// backend for the inner name: NO ECH keys
	var seenSNI string
	var seenALPN []string
	var seenMu sync.Mutex
	backendCert := fx.ca.MustLeaf(s.BackendChain, s.ServerName)
	backend := &tls.Config{
		Certificates:     []tls.Certificate{backendCert},
		MinVersion:       tls.VersionTLS13,
		NextProtos:       s.BackendALPN,
		CurvePreferences: curveSets[s.BackendCurves],
		GetConfigForClient: func(chi *tls.ClientHelloInfo) (*tls.Config, error) {
			seenMu.Lock()
			seenSNI, seenALPN = chi.ServerName, slices.Clone(chi.SupportedProtos)
			seenMu.Unlock()
			return nil, nil
		},
	}
	if s.ClientCert > 0 {
		backend.ClientAuth = tls.RequireAndVerifyClientCert
		backend.ClientCAs = fx.ca.Pool
	}
	// the public-name server holds the ECH keys (it answers stale configs with retry configs)
	public := &tls.Config{
		Certificates:             []tls.Certificate{fx.ca.MustLeaf(0, publicName, otherPublic)},
		MinVersion:               tls.VersionTLS13,
		EncryptedClientHelloKeys: echKeys,
		CurvePreferences:         curveSets[s.BackendCurves],
	}
	client := &tls.Config{
		ServerName:                     s.ServerName,
		RootCAs:                        fx.ca.Pool,
		MinVersion:                     tls.VersionTLS13,
		NextProtos:                     s.ALPN,
		CurvePreferences:               curveSets[s.ClientCurves],
		EncryptedClientHelloConfigList: echgen.ConfigList(clientKey.Config),
	}
	if s.ClientCert > 0 {
		client.Certificates = []tls.Certificate{fx.ca.MustLeaf(s.ClientCert, "client.example")}
	}
	if s.Resume {
		client.ClientSessionCache = tls.NewLRUClientSessionCache(4)
	}
	rounds := 1
	if s.Resume {
		rounds = 2 + s.ResumeBurst
	}
	for round := 0; round < rounds; round++ {
		ok := false
		for attempt := 0; ; attempt++ {
			stalled := false
			ok = oneConnection(r, work, idx, rng, fx, s, c, round, client, backend, public, echKeys, heldConfigs, &seenMu, &seenSNI, &seenALPN, &stalled)
			if !stalled {
				break
			}
			// the watchdog fired: on a loaded machine a 40 KB handshake can take that long. The connection is
			// tried again (twice); only a scenario that stalls every time is reported (as inconclusive).
			r.Count("stalled_connections_retried", 1)
			if attempt == 2 {
				if r.Counter("stalled") < 3 {
					r.Inconclusive("scenario %d stalled until the watchdog three times in a row (%+v)", idx, s)
				}
				r.Count("stalled", 1)
				return
			}
		}
		if !ok {
			return
		}
	}
	r.Count("scenarios_ok", 1)
}

func oneConnection(r *mon.Run, work string, idx int, rng *mrand.Rand, fx *fixtures, s scenario, c map[string]any, round int,
	client, backend, public *tls.Config, echKeys []ech.Key, heldConfigs [][]byte, seenMu *sync.Mutex, seenSNI *string, seenALPN *[]string, stalled *bool) bool {
	var cliSide, srvSide net.Conn
	if s.TCP {
		ln, err := net.Listen("tcp", "127.0.0.1:0")
		if err != nil {
			r.Inconclusive("listen: %v", err)
			return false
		}
		defer ln.Close()
		acc := make(chan net.Conn, 1)
		go func() { cn, _ := ln.Accept(); acc <- cn }()
		cliSide, err = net.Dial("tcp", ln.Addr().String())
		if err != nil {
			r.Inconclusive("dial: %v", err)
			return false
		}
		srvSide = <-acc
	} else {
		cliSide, srvSide = tlspeer.BufPipe()
	}
	defer cliSide.Close()
	defer srvSide.Close()
	dl := time.Now().Add(30 * time.Second) // watchdog only: its firing is never a verdict (retried, then inconclusive)
	cliSide.SetDeadline(dl)
	srvSide.SetDeadline(dl)
	tapc := &wireTap{Conn: srvSide, maxChunk: s.Chunk}
	if s.Proxy > 0 && idx%2 == 0 {
		tapc.lateReturn, tapc.lateLeft = 15*time.Millisecond, 3
	}

	type serverResult struct {
		err       error
		stage     string
		accepted  bool
		sni       string
		alpn      []string
		state     tls.ConnectionState
		routedPub bool
	}
	srvDone := make(chan serverResult, 1)
	upData := hellogen.Bytes(rng, s.Up)
	downData := hellogen.Bytes(rng, s.Down)
	go func() {
		var res serverResult
		defer func() {
			if res.err != nil {
				srvSide.Close() // a failed server side hangs up, as a real proxy would; the client then fails promptly instead of waiting for the watchdog
			}
			srvDone <- res
		}()
		conn, err := ech.NewConn(context.Background(), tapc, ech.WithKeys(echKeys))
		if err != nil {
			res.err, res.stage = err, "NewConn"
			return
		}
		res.accepted, res.sni, res.alpn = conn.ECHAccepted(), conn.ServerName(), conn.ALPNProtos()
		cfg := backend
		if conn.ServerName() == publicName || conn.ServerName() == otherPublic {
			cfg, res.routedPub = public, true
		}
		var bconn net.Conn = conn
		b2cDone := make(chan struct{})
		if s.Proxy > 0 {
			near, far := tlspeer.BufPipe()
			near.SetDeadline(dl)
			far.SetDeadline(dl)
			defer near.Close()
			defer far.Close()
			go func() { // client -> backend
				buf := make([]byte, s.Proxy)
				for {
					n, err := conn.Read(buf)
					if n > 0 {
						near.Write(buf[:n])
					}
					if err != nil {
						near.Close()
						return
					}
				}
			}()
			go func() { // backend -> client, in whatever chunks the buffer yields
				defer close(b2cDone)
				buf := make([]byte, s.Proxy)
				for {
					n, err := near.Read(buf)
					if n > 0 {
						if _, werr := conn.Write(buf[:n]); werr != nil {
							near.Close()
							srvSide.Close()
							return
						}
					}
					if err != nil {
						return
					}
				}
			}()
			bconn = far
		}
		ts := tls.Server(bconn, cfg)
		if err := ts.Handshake(); err != nil {
			res.err, res.stage = err, "backend-handshake"
			return
		}
		res.state = ts.ConnectionState()
		// application data: read Up bytes, write Down bytes
		got := make([]byte, len(upData))
		if _, err := io.ReadFull(ts, got); err != nil {
			res.err, res.stage = err, "backend-read"
			return
		}
		if !bytes.Equal(got, upData) {
			res.err, res.stage = errors.New("payload differs"), "backend-read"
			return
		}
		if _, err := ts.Write(downData); err != nil {
			res.err, res.stage = err, "backend-write"
			return
		}
		ts.Close()
		if s.Proxy > 0 {
			<-b2cDone // the copy loop drains what the backend wrote before the proxy hangs up
		}
	}()

	tc := tls.Client(cliSide, client)
	herr := tc.Handshake()
	var cliErr error
	var cliStage string
	var got []byte
	if herr == nil {
		if _, err := tc.Write(upData); err != nil {
			cliErr, cliStage = err, "client-write"
		} else {
			got = make([]byte, len(downData))
			if _, err := io.ReadFull(tc, got); err != nil {
				cliErr, cliStage = err, "client-read"
			}
		}
	}
	cs := tc.ConnectionState()
	if herr != nil || cliErr != nil {
		cliSide.Close()
	}
	res := <-srvDone
	r.Count("handshakes", 1)
	c["round"] = round

	// what the wire tap saw
	tapc.mu.Lock()
	fromCli, toCli := tapc.fromCli, tapc.toCli
	tapc.mu.Unlock()
	nHello, sawHRR := 0, false
	tapLate := tapc.lateReturn > 0
	recsC, _ := tlswire.SplitRecords(fromCli)
	for _, rec := range recsC {
		if rec.Type == 22 && len(rec.Payload) > 0 && rec.Payload[0] == 1 {
			nHello++
		}
	}
	recsS, _ := tlswire.SplitRecords(toCli)
	maxRec := 0
	for _, rec := range recsS {
		maxRec = max(maxRec, len(rec.Payload))
		if rec.Type == 22 && len(rec.Payload) > 4 && rec.Payload[0] == 2 {
			if sh, err := tlswire.ParseServerHelloMessage(rec.Payload); err == nil && sh.IsHRR() {
				sawHRR = true
			}
		}
	}
	for _, rec := range recsC {
		maxRec = max(maxRec, len(rec.Payload))
	}
	if sawHRR {
		r.Count("observed_hrr", 1)
	}
	if maxRec > 16384 {
		r.Count("observed_record_over_16384", 1)
	}
	c["observed"] = map[string]any{"client_hellos": nHello, "hrr": sawHRR, "max_record": maxRec, "client_err": fmt.Sprint(herr), "server_err": fmt.Sprint(res.err), "server_stage": res.stage}

	isTimeout := func(err error) bool {
		var ne net.Error
		return errors.As(err, &ne) && ne.Timeout() || errors.Is(err, os.ErrDeadlineExceeded)
	}
	if isTimeout(herr) || isTimeout(res.err) || isTimeout(cliErr) {
		*stalled = true
		c["stall"] = fmt.Sprintf("client=%v server=%s:%v", herr, res.stage, res.err)
		return false
	}

	if s.Stale != "" {
		// stale config: the hello must reach the public-name server untouched, which answers with authenticated retry configs
		var rej *tls.ECHRejectionError
		if !errors.As(herr, &rej) {
			r.Violate(work, idx, "stale:no-ech-rejection:"+s.Stale, fmt.Sprintf("client with a stale config ended with %v (server: %s %v), want *tls.ECHRejectionError", herr, res.stage, res.err), c)
			return false
		}
		want := echgen.ConfigList(heldConfigs...)
		if !bytes.Equal(rej.RetryConfigList, want) {
			r.Violate(work, idx, "stale:wrong-retry-configs", fmt.Sprintf("retry config list %x, want the public-name server's %x", rej.RetryConfigList, want), c)
			return false
		}
		if res.stage == "NewConn" {
			r.Violate(work, idx, "stale:newconn-error", fmt.Sprintf("NewConn failed on a stale-config hello: %v", res.err), c)
			return false
		}
		if res.accepted || !res.routedPub {
			r.Violate(work, idx, "stale:not-routed-to-public-name", fmt.Sprintf("accepted=%v ServerName()=%q", res.accepted, res.sni), c)
			return false
		}
		r.Count("stale_rejections_with_retry_configs", 1)
		r.Eval(fmt.Sprintf("stale|%s|%d|%s|%s|%s", s.Stale, s.NKeys, s.KeySet, s.ClientCurves, s.BackendCurves))
		return true
	}

	if herr != nil || res.err != nil || cliErr != nil {
		stage := res.stage
		if stage == "" {
			stage = cliStage
		}
		if stage == "" {
			stage = "client-handshake"
		}
		r.Violate(work, idx, "handshake-failed:"+stage+":"+errKind(res.err, herr, cliErr),
			fmt.Sprintf("conforming client could not complete through NewConn + backend: client=%v/%v server=%s:%v", herr, cliErr, res.stage, res.err), c)
		return false
	}
	if !cs.ECHAccepted {
		r.Violate(work, idx, "client-ech-not-accepted", "handshake completed but the client reports ECHAccepted=false", c)
		return false
	}
	if !res.accepted || res.routedPub {
		r.Violate(work, idx, "conn-not-accepted", fmt.Sprintf("Conn.ECHAccepted()=%v routed to public=%v", res.accepted, res.routedPub), c)
		return false
	}
	seenMu.Lock()
	bSNI, bALPN := *seenSNI, slices.Clone(*seenALPN)
	seenMu.Unlock()
	if res.sni != s.ServerName || bSNI != s.ServerName {
		r.Violate(work, idx, "server-name-mismatch", fmt.Sprintf("client asked %q, Conn.ServerName()=%q, backend saw %q", s.ServerName, res.sni, bSNI), c)
		return false
	}
	if !slices.Equal(res.alpn, s.ALPN) && !(len(res.alpn) == 0 && len(s.ALPN) == 0) || !slices.Equal(bALPN, res.alpn) && !(len(bALPN) == 0 && len(res.alpn) == 0) {
		r.Violate(work, idx, "alpn-mismatch", fmt.Sprintf("client offered %q, Conn.ALPNProtos()=%q, backend saw %q", s.ALPN, res.alpn, bALPN), c)
		return false
	}
	if !bytes.Equal(got, downData) {
		r.Violate(work, idx, "payload-differs", "application data received by the client differs from what the backend sent", c)
		return false
	}
	if cs.NegotiatedProtocol != res.state.NegotiatedProtocol {
		r.Violate(work, idx, "negotiated-protocol-differs", fmt.Sprintf("client %q backend %q", cs.NegotiatedProtocol, res.state.NegotiatedProtocol), c)
		return false
	}
	if s.WantHRR && !(sawHRR && nHello == 2) {
		r.Inconclusive("scenario %d was built to force a HelloRetryRequest but none was observed on the wire (%s vs %s)", idx, s.ClientCurves, s.BackendCurves)
	}
	if sawHRR {
		r.Count("completed_with_hrr", 1)
	}
	if round >= 1 {
		if cs.DidResume && res.state.DidResume {
			r.Count("completed_resumed", 1)
			if sawHRR {
				r.Count("completed_resumed_with_hrr", 1)
			}
		} else {
			r.Count("second_connection_not_resumed", 1)
		}
	}
	if s.ClientCert > 0 {
		if len(res.state.PeerCertificates) == 0 {
			r.Violate(work, idx, "client-cert-missing", "backend did not receive the client certificate", c)
			return false
		}
		r.Count("completed_with_client_cert", 1)
	}
	if maxRec > 16384 {
		r.Count("completed_with_record_over_16384", 1)
	}
	r.Count("completed", 1)
	r.Eval(fmt.Sprintf("%s|%s|%v|%d|%d|%v|%d|%d|%d/%d|%d|%d|%d|%v", s.ClientCurves, s.BackendCurves, sawHRR, len(s.ALPN), len(s.ServerName), cs.DidResume, s.ClientCert, s.BackendChain, s.KeyPos, s.NKeys, s.AEAD, s.Up/1000, s.Chunk, s.TCP) + fmt.Sprintf("|px%d|%s", s.Proxy, s.KeySet))
	if s.Proxy > 0 {
		r.Count("completed_through_split_mode_proxy", 1)
		if tapLate {
			r.Count("completed_through_proxy_with_late_returning_writes", 1)
			if sawHRR {
				r.Count("completed_with_hrr_through_proxy_with_late_returning_writes", 1)
			}
		}
	}
	if s.KeySet != "" && s.NKeys > 1 {
		r.Count("completed_with_shared_id_or_other_name_keys", 1)
	}
	return true
}

func errKind(errs ...error) string {
	for _, e := range errs {
		if e == nil {
			continue
		}
		m := e.Error()
		for _, k := range []string{"record length", "bad record MAC", "unexpected message", "decode error", "illegal parameter", "EOF", "closed pipe", "bad certificate", "internal error"} {
			if strings.Contains(m, k) {
				return strings.ReplaceAll(k, " ", "-")
			}
		}
		return "other"
	}
	return "none"
}

func TestCheck(t *testing.T) {
	r := mon.Start(t, "C01", "exploration")
	defer r.Finish()
	r.SetRule("real crypto/tls client <-> transport tap <-> ech.NewConn(keys) <-> router on Conn.ServerName() <-> real crypto/tls backend WITHOUT ECH keys (or, for the public name, a tls.Server WITH the keys, SendAsRetry). " +
		"Scenario = point in client curves {X25519, P-256, P-384, X25519MLKEM768+X25519, default} x backend curves (mismatch forces a real HelloRetryRequest) x ALPN lists (0..8, lengths 1..255) x server names (1..253 bytes) x " +
		"session cache {cold, warm => PSK resumption} x client certificates {none, small, 20 KB} x backend chain {0.5..40 KB} x key set (1..4 keys, target position) x AEAD x other held keys {distinct ids, sharing the target's id, configs of another public name} x config {fresh, stale same id, stale same id of another public name, stale other id} x topology {tls.Server on the Conn, split-mode proxy: backend behind its own connection and copy loops with 1 B..32 KB buffers} x payloads 1 B..100 KB x chunking {whole, 1460, 1 byte}; " +
		"a covering list guarantees every value and the listed pairs, the rest is PRNG fill. distinct = distinct (curves, HRR observed, #ALPN, name length, resumed, client cert, chain size, key position, AEAD, payload size, chunking) combinations that completed")
	r.Assume("the conforming client/backend are crypto/tls of the building toolchain (stages: go1.24.0 and go1.26.8); BoringSSL/NSS are not available offline",
		"a completed TLS 1.3 handshake (Finished / PSK binder verification over the transcript) is itself a cryptographic equality check on the forwarded inner hello")
	ca, err := tlspeer.NewCA()
	if err != nil {
		r.Inconclusive("fixture: %v", err)
		return
	}
	fx := &fixtures{ca: ca}
	resumeBurst = r.N(1200, 12000)
	if os.Getenv("VERIF_C01_PART") != "" {
		resumeBurst = r.N(300, 2000) // the second release and the race stage repeat a part of it
	}
	base := covering()
	n := r.N(600, 40000)
	if os.Getenv("VERIF_C01_PART") == "second" {
		n = r.N(300, 12000)
	}
	if os.Getenv("VERIF_C01_PART") == "race" {
		n = r.N(100, 6000)
	}
	if n < len(base) {
		n = len(base)
	}
	r.Parallel("e2e", n, func(i int, rng *mrand.Rand) {
		var s scenario
		if i < len(base) {
			s = base[i]
		} else {
			cc := []string{"x25519", "p256", "p384", "mlkem", "default", "x-then-p256", "p256-then-x"}[rng.IntN(7)]
			bc := []string{"default", "default", "x25519", "p256", "p384"}[rng.IntN(5)]
			s = scenario{ClientCurves: cc, BackendCurves: bc, NKeys: 1 + rng.IntN(4), AEAD: aeads[rng.IntN(3)],
				Up: []int{1, 100, 5000, 16384, 16385, 100000}[rng.IntN(6)], Down: []int{1, 100, 5000, 16385, 100000}[rng.IntN(5)],
				Chunk: []int{0, 0, 1460, 1}[rng.IntN(4)], BackendChain: []int{0, 500, 4000, 15000, 17000, 40000}[rng.IntN(6)]}
			s.KeyPos = rng.IntN(s.NKeys)
			s.ServerName = dnsName(rng, []int{1, 2, 5, 20, 63, 64, 200, 253, 1 + rng.IntN(253)}[rng.IntN(9)])
			s.ALPN = alpnList(rng, rng.IntN(9))
			s.Resume = rng.IntN(3) == 0
			if rng.IntN(4) == 0 {
				s.ClientCert = []int{1, 20000}[rng.IntN(2)]
			}
			if rng.IntN(6) == 0 {
				s.Stale = []string{"same-id", "other-id", "same-id-other-name"}[rng.IntN(3)]
			}
			if rng.IntN(3) == 0 {
				s.Proxy = []int{1, 3, 100, 1024, 4096, 16384, 32768}[rng.IntN(7)]
				if s.Proxy < 100 && (s.Up > 20000 || s.Down > 20000 || s.BackendChain > 20000) {
					s.Proxy = 1024
				}
			}
			if s.NKeys > 1 && rng.IntN(2) == 0 {
				s.KeySet = []string{"same-id", "other-name", "same-id-other-name"}[rng.IntN(3)]
			}
			if r.Thorough() && i%12 == 11 {
				s.TCP = true
			}
			if s.Chunk == 1 && (s.Up > 20000 || s.Down > 20000 || s.BackendChain > 20000) {
				s.Chunk = 1460
			}
		}
		if s.ServerName == "" {
			s.ServerName = "inner.example"
		}
		// backend ALPN: overlap with the client's list when there is one
		if len(s.ALPN) > 0 {
			s.BackendALPN = []string{s.ALPN[rng.IntN(len(s.ALPN))], "zz-other"}
		} else if i%2 == 0 {
			s.BackendALPN = nil
		}
		if i < len(base) && i%3 == 0 {
			s.ALPN = []string{"h2", "http/1.1"}
			s.BackendALPN = []string{"http/1.1"}
		}
		if !compatible(s) {
			r.Count("skipped_incompatible_curves", 1)
			return
		}
		r.Guard("e2e", i, "e2e", map[string]any{"scenario": s}, func() { run(r, "e2e", i, rng, fx, s) })
		if i < 3 {
			r.Sample(map[string]any{"scenario": s})
		}
	})
	r.Floor("completed", int64(n/2))
	r.Floor("completed_with_hrr", 3)
	r.Floor("completed_resumed", 3+int64(resumeBurst)/2)
	r.Floor("completed_resumed_with_hrr", 1)
	r.Floor("stale_rejections_with_retry_configs", 5)
	r.Floor("completed_with_record_over_16384", 3)
	r.Floor("completed_with_client_cert", 3)
	r.Floor("completed_through_split_mode_proxy", 10)
	r.Floor("completed_with_hrr_through_proxy_with_late_returning_writes", 2)
	r.Floor("completed_with_shared_id_or_other_name_keys", 10)
}

// compatible reports whether client and backend share a group at all (otherwise the handshake legitimately fails).
func compatible(s scenario) bool {
	c, b := curveSets[s.ClientCurves], curveSets[s.BackendCurves]
	if c == nil || b == nil {
		// default sets contain X25519, P-256, P-384 (and MLKEM): always overlapping with our explicit sets
		return true
	}
	for _, x := range c {
		if slices.Contains(b, x) {
			return true
		}
	}
	return false
}
