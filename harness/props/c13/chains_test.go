package c13

// Workload "chains": hand-assembled packets whose names are compression
// pointers that land on other compression pointers.
//
// RFC 1035 section 4.1.4 lets a name be "a pointer" or "a sequence of labels
// ending with a pointer", and a pointer refers to "a prior occurance of the
// same name" - which may itself have been written as a bare pointer. Encoders
// that remember the offset of every name they wrote produce such packets
// (e.g. `example.com MX 10 example.com` where the exchange points at the
// owner field `c0 0c`). dnsmessage.Builder never does, so the decode workload
// cannot reach this shape.
//
// Layout of a case: question 1 holds a name in literal labels; depth-1
// "stepping stones" follow, each a name field consisting of one bare pointer
// to the previous stone (the first one points at a label of the question
// name); stones are owner fields of A records or NS/CNAME/MX RDATA names (or
// further questions when the position under test is the question section).
// The name under test - [labels +] pointer to the last stone - sits at one of
// the name positions of the statement. All expected names are known by
// construction.
//
// Self-check: dnsmessage.Parser and the harness walker must read every packet
// as the model says, otherwise the generator is wrong (inconclusive).
//
// Leniency: RFC 9460 section 2.2 requires the SVCB/HTTPS TargetName to be
// uncompressed, so a receiver may refuse a compressed one. At those two
// positions a decode error is accepted (and counted); only a wrong decoded
// value is a violation there.

import (
	"fmt"
	mrand "math/rand/v2"

	"github.com/c2FmZQ/ech/dns"

	"verif/harness/internal/dnsx"
	"verif/harness/internal/mon"
)

var chainPositions = []string{"question", "owner", "NS", "CNAME", "PTR", "MX", "SOA-mname", "SOA-rname", "SRV", "SVCB", "HTTPS"}

type chainCase struct {
	pkt     []byte
	spec    *dnsx.Msg // what a decompressing decoder must see
	dmSpec  *dnsx.Msg // the same with SVCB/HTTPS RDATA opaque (dnsmessage does not know the types)
	pos     string
	depth   int // pointers followed to reach literal labels from the name under test
	form    int // 0: bare pointer, 1: labels then pointer
	lenient bool
	want    string // expected name at the position under test
}

func genChain(i int, rng *mrand.Rand) chainCase {
	c := chainCase{pos: chainPositions[i%len(chainPositions)], depth: 2 + (i/len(chainPositions))%5, form: (i / (5 * len(chainPositions))) % 2}
	c.lenient = c.pos == "SVCB" || c.pos == "HTTPS"
	g := dnsx.NewGen(rng, i%7 == 6)
	base := dnsx.GenName(rng, 2+rng.IntN(3), 60, i%7 == 6)
	labels := dnsx.Labels(base)
	// entry point: the start of one of the labels of the question name
	k := rng.IntN(len(labels))
	prevOff := 12
	for _, l := range labels[:k] {
		prevOff += 1 + len(l)
	}
	prevName := ""
	for j, l := range labels[k:] {
		if j > 0 {
			prevName += "."
		}
		prevName += l
	}
	prefix := ""
	if c.form == 1 {
		prefix = dnsx.GenName(rng, 1+rng.IntN(2), 24, false)
	}
	c.want = prevName
	if prefix != "" {
		c.want = prefix + "." + prevName
	}

	a := &dnsx.Asm{}
	spec := &dnsx.Msg{ID: uint16(rng.IntN(65536)), QR: true, RD: true, RA: true}
	nStones := c.depth - 1
	qd, an := 1, nStones+2
	if c.pos == "question" {
		qd, an = nStones+2, 1
	}
	a.Header(spec.ID, spec.Flags(), qd, an, 0, 0)
	a.Name(base)
	a.U16(1)
	a.U16(1)
	spec.Question = append(spec.Question, dnsx.Question{Name: base, Type: 1, Class: 1})
	ttl := func() uint32 { return uint32(rng.IntN(100000)) }
	var raw *dnsx.RR  // the record under test as opaque RDATA, for the dnsmessage self-check
	under := func() { // the name under test
		a.Labels(prefix)
		a.Ptr(prevOff)
	}

	if c.pos == "question" {
		for s := 0; s < nStones; s++ {
			o := a.Off()
			a.Ptr(prevOff)
			a.U16(28)
			a.U16(1)
			spec.Question = append(spec.Question, dnsx.Question{Name: prevName, Type: 28, Class: 1})
			prevOff = o
		}
		under()
		a.U16(65)
		a.U16(1)
		spec.Question = append(spec.Question, dnsx.Question{Name: c.want, Type: 65, Class: 1})
		ip := g.IP4()
		t := ttl()
		a.RR(func() { a.Ptr(12) }, dnsx.TypeA, 1, t, func() { a.Raw(ip) })
		spec.Answer = append(spec.Answer, dnsx.RR{Name: base, Type: dnsx.TypeA, Class: 1, TTL: t, Data: dnsx.A(ip)})
	} else {
		for s := 0; s < nStones; s++ {
			t := ttl()
			switch kind := rng.IntN(4); kind {
			case 0: // owner field of an A record
				ip := g.IP4()
				o := a.Off()
				a.RR(func() { a.Ptr(prevOff) }, dnsx.TypeA, 1, t, func() { a.Raw(ip) })
				spec.Answer = append(spec.Answer, dnsx.RR{Name: prevName, Type: dnsx.TypeA, Class: 1, TTL: t, Data: dnsx.A(ip)})
				prevOff = o
			case 1, 2: // RDATA of a CNAME / NS record
				typ := uint16(dnsx.TypeCNAME)
				if kind == 2 {
					typ = dnsx.TypeNS
				}
				p := prevOff
				o := a.RR(func() { a.Ptr(12) }, typ, 1, t, func() { a.Ptr(p) })
				spec.Answer = append(spec.Answer, dnsx.RR{Name: base, Type: typ, Class: 1, TTL: t, Data: dnsx.Name(prevName)})
				prevOff = o
			default: // exchange of an MX record
				pref := rng.IntN(65536)
				p := prevOff
				o := a.RR(func() { a.Ptr(12) }, dnsx.TypeMX, 1, t, func() { a.U16(pref); a.Ptr(p) })
				spec.Answer = append(spec.Answer, dnsx.RR{Name: base, Type: dnsx.TypeMX, Class: 1, TTL: t, Data: dnsx.MX{Pref: uint16(pref), Exchange: prevName}})
				prevOff = o + 2
			}
		}
		t := ttl()
		ptrBase := func() { a.Ptr(12) }
		add := func(typ uint16, data any, rdata func()) {
			a.RR(ptrBase, typ, 1, t, rdata)
			spec.Answer = append(spec.Answer, dnsx.RR{Name: base, Type: typ, Class: 1, TTL: t, Data: data})
		}
		switch c.pos {
		case "owner":
			ip := g.IP6()
			a.RR(under, dnsx.TypeAAAA, 1, t, func() { a.Raw(ip) })
			spec.Answer = append(spec.Answer, dnsx.RR{Name: c.want, Type: dnsx.TypeAAAA, Class: 1, TTL: t, Data: dnsx.AAAA(ip)})
		case "NS":
			add(dnsx.TypeNS, dnsx.Name(c.want), under)
		case "CNAME":
			add(dnsx.TypeCNAME, dnsx.Name(c.want), under)
		case "PTR":
			add(dnsx.TypePTR, dnsx.Name(c.want), under)
		case "MX":
			pref := rng.IntN(65536)
			add(dnsx.TypeMX, dnsx.MX{Pref: uint16(pref), Exchange: c.want}, func() { a.U16(pref); under() })
		case "SOA-mname", "SOA-rname":
			other := g.Name()
			soa := dnsx.SOA{MName: c.want, RName: other, Serial: rng.Uint32(), Refresh: rng.Uint32(), Retry: rng.Uint32(), Expire: rng.Uint32(), Minimum: rng.Uint32()}
			if c.pos == "SOA-rname" {
				soa.MName, soa.RName = other, c.want
			}
			add(dnsx.TypeSOA, soa, func() {
				if c.pos == "SOA-mname" {
					under()
					a.Name(other)
				} else {
					a.Name(other)
					under()
				}
				for _, v := range []uint32{soa.Serial, soa.Refresh, soa.Retry, soa.Expire, soa.Minimum} {
					a.U32(v)
				}
			})
		case "SRV":
			srv := dnsx.SRV{Priority: uint16(rng.IntN(65536)), Weight: uint16(rng.IntN(65536)), Port: uint16(rng.IntN(65536)), Target: c.want}
			add(dnsx.TypeSRV, srv, func() { a.U16(int(srv.Priority)); a.U16(int(srv.Weight)); a.U16(int(srv.Port)); under() })
		case "SVCB", "HTTPS":
			typ := uint16(dnsx.TypeSVCB)
			if c.pos == "HTTPS" {
				typ = dnsx.TypeHTTPS
			}
			svc := g.SvcBasic(rng.IntN(64))
			svc.Target = c.want
			tail := dnsx.Svc{Params: svc.Params}.Encode()[3:] // the parameters only
			start := a.RR(ptrBase, typ, 1, t, func() { a.U16(int(svc.Priority)); under(); a.Raw(tail) })
			spec.Answer = append(spec.Answer, dnsx.RR{Name: base, Type: typ, Class: 1, TTL: t, Data: svc})
			raw = &dnsx.RR{Name: base, Type: typ, Class: 1, TTL: t, Data: dnsx.Raw(append([]byte{}, a.B[start:]...))}
		}
		// a plain record after it, so that a mis-sized name shows up as a shifted record too
		ip := g.IP4()
		t2 := ttl()
		a.RR(func() { a.Ptr(12) }, dnsx.TypeA, 1, t2, func() { a.Raw(ip) })
		spec.Answer = append(spec.Answer, dnsx.RR{Name: base, Type: dnsx.TypeA, Class: 1, TTL: t2, Data: dnsx.A(ip)})
	}
	c.pkt = a.B
	c.spec = spec
	c.dmSpec = spec
	if raw != nil {
		cp := *spec
		cp.Answer = append([]dnsx.RR{}, spec.Answer...)
		cp.Answer[nStones] = *raw
		c.dmSpec = &cp
	}
	return c
}

func runChains(r *mon.Run) {
	combos := len(chainPositions) * 5 * 2
	n := r.N(combos*10, combos*1000)
	r.Parallel("chains", n, func(i int, rng *mrand.Rand) {
		c := genChain(i, rng)
		payload := newCase(c.spec, map[string]any{"packet": c.pkt, "position": c.pos, "depth": c.depth, "labels_then_pointer": c.form == 1, "expected_name": c.want})
		if d := c.dmSpec.CheckParse(c.pkt); d != nil {
			r.Inconclusive("chains %d (%s depth %d): dnsmessage/the harness walker do not read the hand-assembled packet as modelled (%s): %s; packet %x", i, c.pos, c.depth, d.Class, d.Detail, c.pkt)
			return
		}
		r.Guard("chains", i, "chain", payload, func() {
			dec, err := dns.DecodeMessage(c.pkt)
			r.Eval(fmt.Sprintf("chain|%s|%d|%d", c.pos, c.depth, c.form))
			r.Count("chain_cases", 1)
			r.Count("chain_pos_"+c.pos, 1) // coverage: the shape reached the decoder
			r.Count(fmt.Sprintf("chain_depth_%d", c.depth), 1)
			if err != nil {
				if c.lenient {
					r.Count("chain_svc_target_refused", 1) // allowed by RFC 9460 section 2.2
					return
				}
				r.Violate("chains", i, "chain:decode-error", fmt.Sprintf("DecodeMessage rejects (%v) a packet that dnsmessage reads: the %s name %q is written as %s reaching literal labels after %d pointers (RFC 1035 section 4.1.4)", err, c.pos, c.want,
					[]string{"a pointer", "labels followed by a pointer"}[c.form], c.depth), payload)
				return
			}
			if d := cmpMsg(toRepo(c.spec, nil), dec); d != nil {
				r.Violate("chains", i, "chain:"+d.Class, fmt.Sprintf("pointer chain of depth %d at %s: DecodeMessage differs from dnsmessage: %s", c.depth, c.pos, d.Detail), payload)
				return
			}
			r.Count("chain_decoded_equal", 1)
		})
		if i == 5 || i == 5+55 {
			r.Sample(map[string]any{"workload": "chains", "index": i, "case": payload})
		}
	})
	r.Floor("chain_cases", int64(n))
	for _, p := range chainPositions {
		r.Floor("chain_pos_"+p, int64(n/len(chainPositions)))
	}
	for d := 2; d <= 6; d++ {
		r.Floor(fmt.Sprintf("chain_depth_%d", d), int64(n/5))
	}
}
