package c13

import (
	"bytes"
	"encoding/binary"
	"fmt"
	mrand "math/rand/v2"
	"strings"

	"github.com/c2FmZQ/ech/dns"

	"verif/harness/internal/mon"
)

// wireName encodes labels that may hold any byte.
func wireName(labels ...string) []byte {
	var b []byte
	for _, l := range labels {
		b = append(b, byte(len(l)))
		b = append(b, l...)
	}
	return append(b, 0)
}

// wireLabels reads an uncompressed name at off.
func wireLabels(p []byte, off int) ([]string, bool) {
	var out []string
	for off < len(p) {
		n := int(p[off])
		if n == 0 {
			return out, true
		}
		if n > 63 || off+1+n > len(p) {
			return nil, false
		}
		out = append(out, string(p[off+1:off+1+n]))
		off += 1 + n
	}
	return nil, false
}

// runDotted: wire names whose labels contain a '.' byte (legal on the wire, RFC 1035 places no restriction on
// label bytes). Whatever DecodeMessage makes of them - an error, or a name - every name it hands out must denote
// exactly the labels that were on the wire: encoding the decoded name again must give those labels back, so that
// two different wire names never become one name and a decoded name can be put into a query.
func runDotted(r *mon.Run) {
	shapes := [][]string{{"a.b", "c"}, {"x.", "zz"}, {"."}, {".x", "zz"}, {"a", "b.c.d", "e"}, {"www.example", "com"}, {"..", "zz"}}
	positions := []string{"question", "owner", "cname-target", "ns-target", "https-target"}
	n := len(shapes) * len(positions)
	r.ParallelW("dotted", n, 1, func(i int, _ *mrand.Rand) {
		labels, pos := shapes[i%len(shapes)], positions[i/len(shapes)]
		odd := wireName(labels...)
		plain := wireName("plain", "zz")
		var pkt []byte
		hdr := func(qd, an int) {
			pkt = binary.BigEndian.AppendUint16(pkt, 7)
			pkt = binary.BigEndian.AppendUint16(pkt, 0x8180)
			pkt = binary.BigEndian.AppendUint16(pkt, uint16(qd))
			pkt = binary.BigEndian.AppendUint16(pkt, uint16(an))
			pkt = append(pkt, 0, 0, 0, 0)
		}
		rr := func(owner []byte, typ uint16, rdata []byte) {
			pkt = append(pkt, owner...)
			pkt = binary.BigEndian.AppendUint16(pkt, typ)
			pkt = append(pkt, 0, 1, 0, 0, 0, 60)
			pkt = binary.BigEndian.AppendUint16(pkt, uint16(len(rdata)))
			pkt = append(pkt, rdata...)
		}
		switch pos {
		case "question":
			hdr(1, 0)
			pkt = append(append(pkt, odd...), 0, 1, 0, 1)
		case "owner":
			hdr(0, 1)
			rr(odd, 1, []byte{192, 0, 2, 1})
		case "cname-target":
			hdr(0, 1)
			rr(plain, 5, odd)
		case "ns-target":
			hdr(0, 1)
			rr(plain, 2, odd)
		case "https-target":
			hdr(0, 1)
			rr(plain, 65, append([]byte{0, 1}, odd...))
		}
		c := map[string]any{"labels": labels, "position": pos, "packet": mon.Hex(pkt)}
		r.Guard("dotted", i, "dotted-label", c, func() {
			m, err := dns.DecodeMessage(pkt)
			r.Count("dotted_label_cases", 1)
			r.Eval(fmt.Sprintf("dotted|%s|%v", pos, labels))
			if err != nil {
				r.Count("dotted_label_refused", 1)
				return
			}
			var name string
			switch pos {
			case "question":
				name = m.Question[0].Name
			case "owner":
				name = m.Answer[0].Name
			case "cname-target", "ns-target":
				name, _ = m.Answer[0].Data.(string)
			case "https-target":
				h, _ := m.Answer[0].Data.(dns.HTTPS)
				name = h.Target
			}
			c["decoded_name"] = name
			back := dns.Message{Question: []dns.Question{{Name: name, Type: 1, Class: 1}}}.Bytes()
			got, ok := wireLabels(back, 12)
			if !ok || strings.Join(got, "\x00") != strings.Join(labels, "\x00") {
				c["reencoded"] = mon.Hex(back)
				r.Violate("dotted", i, "decode:name-does-not-denote-the-wire-labels:"+pos, fmt.Sprintf("wire labels %q decode to the name %q, which encodes as labels %q (well-formed=%v): another name", labels, name, got, ok && bytes.HasSuffix(back, []byte{0, 1, 0, 1})), c)
				return
			}
			r.Count("dotted_label_roundtrip", 1)
		})
	})
	r.Floor("dotted_label_cases", int64(n))
}
