// C13 — the DNS codec round-trips and agrees with an independent RFC 1035/9460 codec.
//
// Three workloads:
//
//	encode  harness model -> dns.Message -> Message.Bytes(): compared byte for byte
//	        with the harness' own uncompressed RFC 1035/9460 encoder (per header,
//	        question and record, so a mismatch names its component), parsed with
//	        golang.org/x/net/dns/dnsmessage and compared field by field, decoded
//	        again with dns.DecodeMessage and compared with the input, extended
//	        RCODE recomputed.
//	decode  harness model -> dnsmessage.Builder (with and without name
//	        compression; SVCB/HTTPS RDATA from the harness' RFC 9460 encoder) ->
//	        dns.DecodeMessage: compared with the model.
//	padding AddPadding on queries/responses of every question-name length.
//
// Representation choices of the package that are NOT treated as defects
// (normalised in toRepo/cmp): names carry no trailing dot and the root is "";
// nil and empty slices are the same; dns.HTTPS has no field for `mandatory`
// and unknown SvcParamKeys (they are dropped on decode; dns.SVCB keeps all
// parameters and is compared completely); Port == 0 means "no port parameter";
// the header bits Z/AD/CD have no field in dns.Message.
package c13

import (
	"bytes"
	"encoding/json"
	"fmt"
	mrand "math/rand/v2"
	"net"
	"strings"
	"testing"

	"github.com/c2FmZQ/ech/dns"

	"verif/harness/internal/dnsx"
	"verif/harness/internal/mon"
)

// ---- model -> package representation ----

func toRepoRR(rr dnsx.RR) dns.RR {
	out := dns.RR{Name: rr.Name, Type: rr.Type, Class: rr.Class, TTL: rr.TTL}
	switch d := rr.Data.(type) {
	case dnsx.A:
		out.Data = net.IP(append([]byte{}, d[:]...))
	case dnsx.AAAA:
		out.Data = net.IP(append([]byte{}, d[:]...))
	case dnsx.Name:
		out.Data = string(d)
	case dnsx.MX:
		out.Data = dns.MX{Preference: d.Pref, Exchange: d.Exchange}
	case dnsx.SOA:
		out.Data = dns.SOA{MName: d.MName, RName: d.RName, Serial: d.Serial, Refresh: d.Refresh, Retry: d.Retry, Expire: d.Expire, Minimum: d.Minimum}
	case dnsx.TXT:
		out.Data = dns.TXT(append([]string{}, d...))
	case dnsx.SRV:
		out.Data = dns.SRV{Priority: d.Priority, Weight: d.Weight, Port: d.Port, Target: d.Target}
	case dnsx.OPT:
		opts := []dns.Option{}
		for _, o := range d {
			opts = append(opts, dns.Option{Code: o.Code, Data: o.Data})
		}
		out.Data = opts
	case dnsx.Svc:
		if rr.Type == dnsx.TypeSVCB {
			s := dns.SVCB{Priority: d.Priority, Target: d.Target}
			for _, p := range d.Params {
				s.Params = append(s.Params, dns.SVCBParam{Key: p.Key, Value: p.Value})
			}
			out.Data = s
			break
		}
		v := d.View()
		h := dns.HTTPS{Priority: d.Priority, Target: d.Target, ALPN: v.ALPN, NoDefaultALPN: v.NoDefaultALPN, Port: v.Port, ECH: v.ECH}
		for _, ip := range v.IPv4Hint {
			h.IPv4Hint = append(h.IPv4Hint, net.IP(ip))
		}
		for _, ip := range v.IPv6Hint {
			h.IPv6Hint = append(h.IPv6Hint, net.IP(ip))
		}
		out.Data = h
	case dnsx.Raw:
		out.Data = []byte(d)
	}
	return out
}

// respell rewrites m in place into an equivalent spelling and says what it changed.
func respell(rng *mrand.Rand, m *dns.Message) []string {
	var what []string
	dot := func(n string) string {
		if n != "" && !strings.HasSuffix(n, ".") && rng.IntN(2) == 0 {
			what = append(what, "fqdn:"+n)
			return n + "."
		}
		return n
	}
	v4 := func(ip net.IP) net.IP {
		if len(ip) == 4 && rng.IntN(2) == 0 {
			what = append(what, "ip16:"+ip.String())
			return ip.To16()
		}
		return ip
	}
	// the mirror image: an IPv4-mapped IPv6 address (::ffff:a.b.c.d) held in net.IP's 4-byte form, which is what
	// To4() and many address-handling helpers return for it. It is the same address; an AAAA record and an
	// ipv6hint carry 16 octets whatever the slice length.
	v6 := func(ip net.IP) net.IP {
		if ip4 := ip.To4(); len(ip) == 16 && ip4 != nil && rng.IntN(2) == 0 {
			what = append(what, "mapped-ip4:"+ip.String())
			return ip4
		}
		return ip
	}
	for _, sec := range [][]dns.RR{m.Answer, m.Authority, m.Additional} {
		for j := range sec {
			rr := &sec[j]
			if rr.Type != 41 {
				rr.Name = dot(rr.Name)
			}
			switch d := rr.Data.(type) {
			case net.IP:
				if rr.Type == 1 {
					rr.Data = v4(d)
				}
				if rr.Type == 28 {
					rr.Data = v6(d)
				}
			case string:
				rr.Data = dot(d)
			case dns.HTTPS:
				d.Target = dot(d.Target)
				for k := range d.IPv4Hint {
					d.IPv4Hint[k] = v4(d.IPv4Hint[k])
				}
				for k := range d.IPv6Hint {
					d.IPv6Hint[k] = v6(d.IPv6Hint[k])
				}
				rr.Data = d
			}
		}
	}
	return what
}

func b2u(b bool) uint8 {
	if b {
		return 1
	}
	return 0
}

// toRepo converts the model; qdot selects the questions written with a trailing dot.
func toRepo(m *dnsx.Msg, qdot func(i int) bool) *dns.Message {
	out := &dns.Message{ID: m.ID, QR: b2u(m.QR), OpCode: m.OpCode, AA: b2u(m.AA), TC: b2u(m.TC), RD: b2u(m.RD), RA: b2u(m.RA), RCode: m.RCode}
	for i, q := range m.Question {
		n := q.Name
		if qdot != nil && qdot(i) {
			n += "."
		}
		out.Question = append(out.Question, dns.Question{Name: n, Type: q.Type, Class: q.Class})
	}
	for _, rr := range m.Answer {
		out.Answer = append(out.Answer, toRepoRR(rr))
	}
	for _, rr := range m.Authority {
		out.Authority = append(out.Authority, toRepoRR(rr))
	}
	for _, rr := range m.Extra {
		out.Additional = append(out.Additional, toRepoRR(rr))
	}
	return out
}

// ---- comparison under the written normalisation ----

func df(class, format string, a ...any) *dnsx.Diff {
	return &dnsx.Diff{Class: class, Detail: fmt.Sprintf(format, a...)}
}

func sameIPs(a, b []net.IP) bool {
	if len(a) != len(b) {
		return false
	}
	for i := range a {
		if !bytes.Equal(a[i], b[i]) {
			return false
		}
	}
	return true
}

func sameStrings(a, b []string) bool {
	if len(a) != len(b) {
		return false
	}
	for i := range a {
		if a[i] != b[i] {
			return false
		}
	}
	return true
}

func cmpData(tn string, want, got any) *dnsx.Diff {
	if fmt.Sprintf("%T", want) != fmt.Sprintf("%T", got) {
		return df("data-gotype:"+tn, "data has Go type %T, want %T", got, want)
	}
	switch w := want.(type) {
	case net.IP:
		if !bytes.Equal(w, got.(net.IP)) {
			return df("data:"+tn, "address %x, want %x", []byte(got.(net.IP)), []byte(w))
		}
	case string:
		if w != got.(string) {
			return df("data:"+tn, "name %q, want %q", got, w)
		}
	case []byte:
		if !bytes.Equal(w, got.([]byte)) {
			return df("data:"+tn, "rdata %x, want %x", got, w)
		}
	case dns.MX:
		if w != got.(dns.MX) {
			return df("data:"+tn, "%+v, want %+v", got, w)
		}
	case dns.SOA:
		if w != got.(dns.SOA) {
			return df("data:"+tn, "%+v, want %+v", got, w)
		}
	case dns.SRV:
		if w != got.(dns.SRV) {
			return df("data:"+tn, "%+v, want %+v", got, w)
		}
	case dns.TXT:
		if !sameStrings(w, got.(dns.TXT)) {
			return df("data:"+tn, "%q, want %q", got, w)
		}
	case []dns.Option:
		g := got.([]dns.Option)
		if len(g) != len(w) {
			return df("data:"+tn, "%d options, want %d", len(g), len(w))
		}
		for i := range w {
			if g[i].Code != w[i].Code || !bytes.Equal(g[i].Data, w[i].Data) {
				return df("data:"+tn, "option %d is %d:%x, want %d:%x", i, g[i].Code, g[i].Data, w[i].Code, w[i].Data)
			}
		}
	case dns.SVCB:
		g := got.(dns.SVCB)
		if g.Priority != w.Priority {
			return df("data:"+tn+":priority", "priority %d, want %d", g.Priority, w.Priority)
		}
		if g.Target != w.Target {
			return df("data:"+tn+":target", "target %q, want %q", g.Target, w.Target)
		}
		if len(g.Params) != len(w.Params) {
			return df("data:"+tn+":params", "%d params, want %d", len(g.Params), len(w.Params))
		}
		for i := range w.Params {
			if g.Params[i].Key != w.Params[i].Key || !bytes.Equal(g.Params[i].Value, w.Params[i].Value) {
				return df("data:"+tn+":params", "param %d is %d=%x, want %d=%x", i, g.Params[i].Key, g.Params[i].Value, w.Params[i].Key, w.Params[i].Value)
			}
		}
	case dns.HTTPS:
		g := got.(dns.HTTPS)
		switch {
		case g.Priority != w.Priority:
			return df("data:"+tn+":priority", "priority %d, want %d", g.Priority, w.Priority)
		case g.Target != w.Target:
			return df("data:"+tn+":target", "target %q, want %q", g.Target, w.Target)
		case !sameStrings(g.ALPN, w.ALPN):
			return df("data:"+tn+":alpn", "alpn %q, want %q", g.ALPN, w.ALPN)
		case g.NoDefaultALPN != w.NoDefaultALPN:
			return df("data:"+tn+":no-default-alpn", "no-default-alpn %v, want %v", g.NoDefaultALPN, w.NoDefaultALPN)
		case g.Port != w.Port:
			return df("data:"+tn+":port", "port %d, want %d", g.Port, w.Port)
		case !sameIPs(g.IPv4Hint, w.IPv4Hint):
			return df("data:"+tn+":ipv4hint", "ipv4hint %v, want %v", g.IPv4Hint, w.IPv4Hint)
		case !bytes.Equal(g.ECH, w.ECH):
			return df("data:"+tn+":ech", "ech %x, want %x", g.ECH, w.ECH)
		case !sameIPs(g.IPv6Hint, w.IPv6Hint):
			return df("data:"+tn+":ipv6hint", "ipv6hint %v, want %v", g.IPv6Hint, w.IPv6Hint)
		}
	default:
		return df("model", "unsupported data type %T", want)
	}
	return nil
}

func cmpRRs(sec string, want, got []dns.RR) *dnsx.Diff {
	if len(want) != len(got) {
		return df("count:"+sec, "%d %s records, want %d", len(got), sec, len(want))
	}
	for i := range want {
		w, g := want[i], got[i]
		tn := dnsx.TypeName(w.Type)
		var d *dnsx.Diff
		switch {
		case g.Type != w.Type:
			d = df("rr-type:"+tn, "type %d, want %d", g.Type, w.Type)
		case g.Name != w.Name:
			d = df("rr-name:"+tn, "owner %q, want %q", g.Name, w.Name)
		case g.Class != w.Class:
			d = df("rr-class:"+tn, "class %d, want %d", g.Class, w.Class)
		case g.TTL != w.TTL:
			d = df("rr-ttl:"+tn, "ttl %d, want %d", g.TTL, w.TTL)
		default:
			d = cmpData(tn, w.Data, g.Data)
		}
		if d != nil {
			d.Detail = fmt.Sprintf("%s record %d (%s %q): %s", sec, i, tn, w.Name, d.Detail)
			return d
		}
	}
	return nil
}

// cmpMsg compares a decoded message with the expected one (expected question
// names are written without trailing dot).
func cmpMsg(want, got *dns.Message) *dnsx.Diff {
	type hdr struct {
		ID                                uint16
		QR, OpCode, AA, TC, RD, RA, RCode uint8
	}
	wh := hdr{want.ID, want.QR, want.OpCode, want.AA, want.TC, want.RD, want.RA, want.RCode}
	gh := hdr{got.ID, got.QR, got.OpCode, got.AA, got.TC, got.RD, got.RA, got.RCode}
	if wh != gh {
		return df("header", "header %+v, want %+v", gh, wh)
	}
	if len(want.Question) != len(got.Question) {
		return df("count:question", "%d questions, want %d", len(got.Question), len(want.Question))
	}
	for i := range want.Question {
		w, g := want.Question[i], got.Question[i]
		if strings.TrimSuffix(g.Name, ".") != strings.TrimSuffix(w.Name, ".") {
			return df("question-name", "question %d name %q, want %q", i, g.Name, w.Name)
		}
		if g.Type != w.Type || g.Class != w.Class {
			return df("question-type-class", "question %d type/class %d/%d, want %d/%d", i, g.Type, g.Class, w.Type, w.Class)
		}
	}
	if d := cmpRRs("answer", want.Answer, got.Answer); d != nil {
		return d
	}
	if d := cmpRRs("authority", want.Authority, got.Authority); d != nil {
		return d
	}
	return cmpRRs("additional", want.Additional, got.Additional)
}

// ---- case generation ----

func sectionSize(rng *mrand.Rand) int {
	if rng.IntN(5) == 0 {
		return rng.IntN(21)
	}
	return rng.IntN(4)
}

type encCase struct {
	spec     *dnsx.Msg
	qdot     map[int]bool
	sel      int
	nl       int
	mask     int
	class    string // "", "root-qname", "root-target"
	rootForm string
}

func genEncode(i int, rng *mrand.Rand) encCase {
	c := encCase{sel: i % 8192, nl: i % 128, mask: i % 64, qdot: map[int]bool{}}
	g := dnsx.NewGen(rng, i%5 == 4)
	m := &dnsx.Msg{}
	m.SetHeader(uint16(rng.IntN(65536)), c.sel)
	switch i % 32 {
	case 5:
		c.class = "root-qname"
	case 21:
		c.class = "root-target"
		g.RootData = true
	}
	long := g.NameN(c.nl) // the name with the forced number of labels
	if c.class != "root-qname" && long == "" {
		long = g.NameN(1)
	}
	place := rng.IntN(3) // where the forced name goes: question, owner, rdata
	nq := 1
	switch rng.IntN(8) {
	case 0:
		nq = 0
	case 1:
		nq = 2 + rng.IntN(2)
	}
	if c.class == "root-qname" && nq == 0 {
		nq = 1
	}
	for j := 0; j < nq; j++ {
		n := g.Name()
		for n == "" {
			n = g.Name()
		}
		if j == 0 && place == 0 {
			n = long
		}
		if j == 0 && c.class == "root-qname" {
			n = ""
		}
		qt := dnsx.EncoderTypes[rng.IntN(len(dnsx.EncoderTypes))]
		if rng.IntN(6) == 0 {
			qt = uint16(rng.IntN(65536))
		}
		m.Question = append(m.Question, dnsx.Question{Name: n, Type: qt, Class: 1})
		if rng.IntN(2) == 0 {
			c.qdot[j] = true
		}
	}
	first := true
	usedLong := place == 0
	mk := func() dnsx.RR {
		t := dnsx.EncoderTypes[rng.IntN(len(dnsx.EncoderTypes))]
		if first && i%2 == 0 {
			t = dnsx.TypeHTTPS
		}
		owner := g.Name()
		mask := rng.IntN(64)
		if t == dnsx.TypeHTTPS && first {
			mask = c.mask
		}
		first = false
		if !usedLong && place == 1 {
			owner, usedLong = long, true
		}
		rr := g.RR(owner, t, mask)
		if !usedLong && place == 2 {
			switch d := rr.Data.(type) {
			case dnsx.Name:
				rr.Data, usedLong = dnsx.Name(long), true
			case dnsx.Svc:
				d.Target = long
				rr.Data, usedLong = d, true
			}
		}
		return rr
	}
	na, nn, nx := sectionSize(rng), sectionSize(rng), sectionSize(rng)
	if i%2 == 0 && na == 0 {
		na = 1
	}
	for j := 0; j < na; j++ {
		m.Answer = append(m.Answer, mk())
	}
	for j := 0; j < nn; j++ {
		m.Authority = append(m.Authority, mk())
	}
	for j := 0; j < nx; j++ {
		m.Extra = append(m.Extra, mk())
	}
	if c.class == "root-target" {
		t := []uint16{dnsx.TypeNS, dnsx.TypeCNAME, dnsx.TypePTR}[rng.IntN(3)]
		rr := g.RR(g.Name(), t, 0)
		rr.Data = dnsx.Name("")
		m.Answer = append(m.Answer, rr)
	}
	if rng.IntN(2) == 0 {
		pos := rng.IntN(len(m.Extra) + 1)
		m.Extra = append(m.Extra[:pos:pos], append([]dnsx.RR{g.OPT(true)}, m.Extra[pos:]...)...)
	}
	c.spec = m
	return c
}

// hasHighPointer reports whether an owner name of the message starts with or
// runs into a compression pointer to an offset >= 8192.
func hasHighPointer(pkt []byte, w *dnsx.RawMsg) bool {
	off := 12
	scan := func(at int) (next int, high bool) {
		for at < len(pkt) {
			c := int(pkt[at])
			if c&0xc0 == 0xc0 {
				return at + 2, at+1 < len(pkt) && (c&0x3f)<<8|int(pkt[at+1]) >= 8192
			}
			if c == 0 {
				return at + 1, false
			}
			at += 1 + c
		}
		return at, false
	}
	for range w.Question {
		n, h := scan(off)
		if h {
			return true
		}
		off = n + 4
	}
	for _, sec := range w.Sections {
		for _, rr := range sec {
			if _, h := scan(off); h {
				return true
			}
			off = rr.RDOff + rr.RDLen
		}
	}
	return false
}

func hasRootTarget(rr dnsx.RR) bool {
	n, ok := rr.Data.(dnsx.Name)
	return ok && n == ""
}

func summary(m *dnsx.Msg) map[string]any {
	rrs := func(s []dnsx.RR) []string {
		var out []string
		for _, rr := range s {
			out = append(out, fmt.Sprintf("%q %s class=%d ttl=%d %+v", rr.Name, dnsx.TypeName(rr.Type), rr.Class, rr.TTL, rr.Data))
		}
		return out
	}
	var qs []string
	for _, q := range m.Question {
		qs = append(qs, fmt.Sprintf("%q type=%d class=%d", q.Name, q.Type, q.Class))
	}
	return map[string]any{"id": m.ID, "flags": fmt.Sprintf("%04x", m.Flags()), "questions": qs,
		"answer": rrs(m.Answer), "authority": rrs(m.Authority), "additional": rrs(m.Extra)}
}

// lazyCase is the JSON payload of a case, rendered only when it is written out
// (violation or sample).
type lazyCase struct {
	spec *dnsx.Msg
	kv   map[string]any
}

func newCase(spec *dnsx.Msg, kv map[string]any) *lazyCase { return &lazyCase{spec, kv} }

func (c *lazyCase) set(k string, v any) { c.kv[k] = v }

func (c *lazyCase) MarshalJSON() ([]byte, error) {
	m := map[string]any{"message": summary(c.spec)}
	for k, v := range c.kv {
		if b, ok := v.([]byte); ok {
			v = mon.Hex(b)
		}
		m[k] = v
	}
	return json.Marshal(m)
}

// ---- the check ----

func TestCheck(t *testing.T) {
	r := mon.Start(t, "C13", "exploration")
	defer r.Finish()
	r.SetRule("seed-determined messages. encode: all 32 flag x 16 opcode x 16 rcode combinations (index mod 8192), one name per message with (index mod 128) labels placed as question/owner/rdata name, " +
		"records A/AAAA/NS/CNAME/PTR/HTTPS/OPT, first HTTPS record with SvcParam subset (index mod 64) of {alpn,no-default-alpn,port,ipv4hint,ech,ipv6hint}, sections of 0..20 records, " +
		"forced classes root question name and root NS/CNAME/PTR target. decode: dnsmessage.Builder packets (3 of 4 with name compression) with A/AAAA/NS/CNAME/PTR/MX/SOA/TXT/SRV/OPT/SVCB/HTTPS, " +
		"arbitrary legal SvcParam sets incl. mandatory and unknown keys, all 2^7 flag bits. A/AAAA/ipv4hint/ipv6hint addresses random or special (::, ::1, ::ffff:a.b.c.d, 64:ff9b::a.b.c.d, fe80::1, all ones; 0.0.0.0, 255.255.255.255, 127.0.0.1). " +
		"chains: hand-assembled packets whose name at one of 11 positions (2nd+ question, owner, NS/CNAME/PTR/MX/SOA mname/SOA rname/SRV/SVCB/HTTPS RDATA) is a pointer, or labels then a pointer, reaching literal labels through 2..6 pointers via earlier owner/RDATA name fields. padding: every question-name length 1..253 x 8 OPT situations. " +
		"distinct = distinct (workload, header selector, label count, SvcParam subset | name length, OPT situation) classes whose message reached the codec")
	r.Assume("golang.org/x/net/dns/dnsmessage v0.42.0 as conforming RFC 1035 codec (parser and compressing builder)",
		"the harness' own RFC 1035 uncompressed encoder/walker and RFC 9460 SvcParam codec (internal/dnsx), cross-checked against dnsmessage in every decode case",
		"names are compared as label sequences; the generated labels never contain '.' (workload dotted: hand-assembled names whose labels do)")

	// -- encode direction --
	nEnc := r.N(10000, 600000)
	r.Parallel("encode", nEnc, func(i int, rng *mrand.Rand) {
		c := genEncode(i, rng)
		spec := c.spec
		in := toRepo(spec, func(j int) bool { return c.qdot[j] })
		if c.class == "root-qname" && i%64 >= 32 {
			in.Question[0].Name = "." // both spellings of the root
		}
		payload := newCase(spec, map[string]any{"class": c.class})
		if i%4 == 2 {
			// other Go spellings of the same message: IPv4 addresses in net.IP's 16-byte form (what net.ParseIP
			// returns), names written as FQDNs with a trailing dot. The wire form does not change.
			payload.set("respelled", respell(rng, in))
			r.Count("encode_messages_respelled", 1)
		}
		r.Guard("encode", i, "encode", payload, func() {
			got := in.Bytes()
			payload.set("bytes", got)
			r.Eval(fmt.Sprintf("enc|%d|%d|%d|%s", c.sel, c.nl, c.mask, c.class))
			r.Count("encode_messages", 1)
			r.Count("encode_records", int64(len(spec.Answer)+len(spec.Authority)+len(spec.Extra)))
			bad := false
			// 1. bytes, component by component, against the independent uncompressed encoder
			if len(got) < 12 || !bytes.Equal(got[:12], spec.HeaderWire()) {
				r.Violate("encode", i, "encode:header-bytes", fmt.Sprintf("header %x, want %x", got[:min(12, len(got))], spec.HeaderWire()), payload)
				bad = true
			}
			for j, q := range in.Question {
				one := dns.Message{Question: []dns.Question{q}}.Bytes()
				want := spec.Question[j].Wire()
				if len(one) < 12 || !bytes.Equal(one[12:], want) {
					cls := "name"
					if spec.Question[j].Name == "" {
						cls = "root-name"
					}
					r.Violate("encode", i, "encode:question:"+cls, fmt.Sprintf("question %q (type %d class %d) is encoded as %x, RFC 1035 section 4.1.2 gives %x", q.Name, q.Type, q.Class, one[min(12, len(one)):], want), payload)
					bad = true
				}
			}
			for si, sec := range [][]dns.RR{in.Answer, in.Authority, in.Additional} {
				for j, rr := range sec {
					srr := [][]dnsx.RR{spec.Answer, spec.Authority, spec.Extra}[si][j]
					want := srr.Wire()
					one := rr.Bytes()
					if ip, ok := srr.Data.(dnsx.AAAA); ok && dnsx.IsIPv4Mapped(ip[:]) {
						r.Count("aaaa_ipv4_mapped_encoded", 1)
					}
					if !bytes.Equal(one, want) {
						sig := "encode:rr-bytes:" + dnsx.TypeName(rr.Type)
						if hasRootTarget(srr) {
							sig = "encode:rdata-name:root-target"
						}
						if ip, ok := srr.Data.(dnsx.AAAA); ok && dnsx.IsIPv4Mapped(ip[:]) {
							sig += ":ipv4-mapped"
						}
						r.Violate("encode", i, sig, fmt.Sprintf("%s record %q with data %+v is encoded as %x, the independent RFC 1035/9460 encoder gives %x", dnsx.TypeName(rr.Type), rr.Name, srr.Data, one, want), payload)
						bad = true
					}
				}
			}
			if bad {
				return // what follows would only restate the same defect
			}
			// The plain concatenation header + questions + records is ONE correct encoding; an encoder may also use
			// name compression (RFC 1035 4.1.4). Equality is therefore only counted: what decides is whether the
			// independent codec (2.) and the package's own decoder (3.) read the same message out of the bytes.
			if want := spec.Wire(); bytes.Equal(got, want) {
				r.Count("encode_bytes_equal", 1)
			} else {
				r.Count("encode_bytes_differ_from_the_uncompressed_form", 1)
			}
			// 2. dnsmessage reads the same message
			if d := spec.CheckParse(got); d != nil {
				r.Violate("encode", i, "dnsmessage:"+d.Class, "dnsmessage disagrees with the encoded message: "+d.Detail, payload)
				return
			}
			r.Count("encode_dnsmessage_agrees", 1)
			// 3. round trip
			dec, err := dns.DecodeMessage(got)
			if err != nil {
				r.Violate("encode", i, "roundtrip:decode-error", fmt.Sprintf("DecodeMessage(m.Bytes()) failed: %v", err), payload)
				return
			}
			if d := cmpMsg(toRepo(spec, nil), dec); d != nil {
				r.Violate("encode", i, "roundtrip:"+d.Class, "DecodeMessage(m.Bytes()) differs from m: "+d.Detail, payload)
				return
			}
			r.Count("encode_roundtrip_equal", 1)
			// 4. extended response code
			want := spec.ExtRCode()
			if a, b := in.ResponseCode(), dec.ResponseCode(); a != want || b != want {
				r.Violate("encode", i, "rcode:extended", fmt.Sprintf("ResponseCode() = %d (input) / %d (decoded), RFC 6891 gives %d", a, b, want), payload)
			}
			if want > 15 {
				r.Count("extended_rcodes_above_15", 1)
			}
		})
		if i < 2 {
			r.Sample(map[string]any{"workload": "encode", "index": i, "case": payload})
		}
	})
	r.Floor("encode_messages", int64(nEnc))
	r.Floor("encode_messages_respelled", int64(nEnc)/5)
	r.Floor("encode_roundtrip_equal", int64(nEnc)*8/10)
	r.Floor("extended_rcodes_above_15", 100)
	r.Floor("aaaa_ipv4_mapped_encoded", int64(nEnc)/100)

	// -- decode direction --
	nDec := r.N(8000, 400000)
	r.Parallel("decode", nDec, func(i int, rng *mrand.Rand) {
		g := dnsx.NewGen(rng, i%5 == 3)
		g.RootData = true
		spec := &dnsx.Msg{}
		sel := (i * 40503) % 32768
		spec.SetHeader(uint16(rng.IntN(65536)), sel)
		nl := i % 128
		long := g.NameN(nl)
		compress := i%4 != 3
		nq := 1
		if rng.IntN(6) == 0 {
			nq = rng.IntN(4)
		}
		for j := 0; j < nq; j++ {
			n := g.Name()
			if j == 0 && i%3 == 0 {
				n = long
			}
			spec.Question = append(spec.Question, dnsx.Question{Name: n, Type: uint16(rng.IntN(300)), Class: 1})
		}
		usedLong := i%3 == 0
		var types []string
		mk := func() dnsx.RR {
			t := dnsx.DecoderTypes[rng.IntN(len(dnsx.DecoderTypes))]
			mask := -1
			if rng.IntN(3) == 0 {
				mask = rng.IntN(64)
			}
			owner := g.Name()
			if !usedLong && i%3 == 1 {
				owner, usedLong = long, true
			}
			rr := g.RR(owner, t, mask)
			if !usedLong && i%3 == 2 {
				switch d := rr.Data.(type) {
				case dnsx.Name:
					rr.Data, usedLong = dnsx.Name(long), true
				case dnsx.MX:
					d.Exchange = long
					rr.Data, usedLong = d, true
				case dnsx.SRV:
					d.Target = long
					rr.Data, usedLong = d, true
				case dnsx.SOA:
					d.RName = long
					rr.Data, usedLong = d, true
				case dnsx.Svc:
					d.Target = long
					rr.Data, usedLong = d, true
				}
			}
			types = append(types, dnsx.TypeName(t))
			return rr
		}
		for j, n := 0, sectionSize(rng)+1; j < n; j++ {
			spec.Answer = append(spec.Answer, mk())
		}
		big := i%25 == 7
		if big {
			// a message of 8..16 KiB whose later names are first written beyond offset 8192,
			// so that compression pointers use all 14 offset bits
			size := 0
			for _, rr := range spec.Answer {
				size += len(rr.Wire())
			}
			for target := 8300 + rng.IntN(7000); size < target; {
				rr := mk()
				size += len(rr.Wire())
				spec.Answer = append(spec.Answer, rr)
			}
			g.Refresh()
			for j := 0; j < 12; j++ {
				spec.Authority = append(spec.Authority, mk())
			}
		}
		for j, n := 0, sectionSize(rng); j < n; j++ {
			spec.Authority = append(spec.Authority, mk())
		}
		for j, n := 0, sectionSize(rng); j < n; j++ {
			spec.Extra = append(spec.Extra, mk())
		}
		if rng.IntN(2) == 0 {
			pos := rng.IntN(len(spec.Extra) + 1)
			spec.Extra = append(spec.Extra[:pos:pos], append([]dnsx.RR{g.OPT(true)}, spec.Extra[pos:]...)...)
		}
		pkt, err := spec.Build(compress)
		if err != nil {
			r.Inconclusive("decode %d: dnsmessage builder refused the generated message: %v", i, err)
			return
		}
		// self-checks of the trusted base: dnsmessage reads back what it wrote, the harness'
		// walker/SVCB decoder agree, and the harness' uncompressed encoder equals dnsmessage's.
		if d := spec.CheckParse(pkt); d != nil {
			r.Inconclusive("decode %d: harness codecs disagree with dnsmessage (%s): %s", i, d.Class, d.Detail)
			return
		}
		if !compress && !bytes.Equal(pkt, spec.Wire()) {
			r.Inconclusive("decode %d: harness encoder and dnsmessage produce different uncompressed bytes", i)
			return
		}
		compressed := len(pkt) < len(spec.Wire())
		highPtr := false
		for k := 12; compress && k+1 < len(pkt) && !highPtr; k++ {
			// (a scan for the byte pattern is enough for a coverage counter: it is confirmed by the name walk below)
			if pkt[k]&0xe0 == 0xe0 {
				if w, err := dnsx.Walk(pkt); err == nil {
					highPtr = hasHighPointer(pkt, w)
				}
				break
			}
		}
		payload := newCase(spec, map[string]any{"packet": pkt, "compress": compress})
		r.Guard("decode", i, "decode", payload, func() {
			dec, err := dns.DecodeMessage(pkt)
			r.Eval(fmt.Sprintf("dec|%d|%d|%v|%s", sel, nl, compress, strings.Join(types, ",")))
			r.Count("decode_messages", 1)
			if compressed {
				r.Count("decode_messages_with_pointers", 1)
			}
			if highPtr {
				r.Count("decode_messages_with_pointers_beyond_8192", 1)
			}
			if err != nil {
				r.Violate("decode", i, "decode:error", fmt.Sprintf("DecodeMessage rejects a packet built by dnsmessage: %v", err), payload)
				return
			}
			if d := cmpMsg(toRepo(spec, nil), dec); d != nil {
				r.Violate("decode", i, "decode:"+d.Class, "DecodeMessage differs from what dnsmessage encoded: "+d.Detail, payload)
				return
			}
			if got, want := dec.ResponseCode(), spec.ExtRCode(); got != want {
				r.Violate("decode", i, "rcode:extended", fmt.Sprintf("ResponseCode() = %d, RFC 6891 gives %d", got, want), payload)
				return
			}
			r.Count("decode_equal", 1)
			for _, tn := range types {
				r.Count("decode_rr_"+tn, 1)
			}
		})
		if i < 2 {
			r.Sample(map[string]any{"workload": "decode", "index": i, "case": payload})
		}
	})
	r.Floor("decode_messages", int64(nDec))
	r.Floor("decode_messages_with_pointers", int64(nDec)/2)
	r.Floor("decode_messages_with_pointers_beyond_8192", int64(nDec)/100)
	for _, t := range dnsx.DecoderTypes {
		r.Floor("decode_rr_"+dnsx.TypeName(t), 200)
	}

	// -- pointer chains (hand-assembled packets, see chains_test.go) --
	runChains(r)
	runDotted(r)

	// -- AddPadding --
	const modes = 8
	nPad := r.N(253*modes, 253*modes*20)
	r.Parallel("padding", nPad, func(i int, rng *mrand.Rand) {
		nameLen := 1 + i%253
		mode := (i / 253) % modes
		g := dnsx.NewGen(rng, false)
		name := dnsx.NameOfLen(rng, nameLen)
		if len(name) != nameLen || !dnsx.ValidName(name) {
			r.Inconclusive("padding %d: name generator produced %q for length %d", i, name, nameLen)
			return
		}
		spec := &dnsx.Msg{ID: uint16(rng.IntN(65536)), RD: true}
		spec.Question = []dnsx.Question{{Name: name, Type: []uint16{1, 28, 65}[rng.IntN(3)], Class: 1}}
		opt := g.OPT(false)
		others := append(dnsx.OPT{}, opt.Data.(dnsx.OPT)...)
		pad := func() dnsx.Option { return dnsx.Option{Code: 12, Data: make([]byte, rng.IntN(300))} }
		insert := func(o dnsx.OPT, p dnsx.Option) dnsx.OPT {
			pos := rng.IntN(len(o) + 1)
			return append(o[:pos:pos], append(dnsx.OPT{p}, o[pos:]...)...)
		}
		hasOPT := true
		switch mode {
		case 0: // plain query
			hasOPT = false
		case 1: // no OPT, other additional records
			hasOPT = false
			for j := 0; j < 1+rng.IntN(3); j++ {
				spec.Extra = append(spec.Extra, g.RR(g.Name(), dnsx.TypeA, 0))
			}
		case 2: // OPT without options
			others = dnsx.OPT{}
			opt.Data = dnsx.OPT{}
		case 3: // OPT with other options
			if len(others) == 0 {
				others = dnsx.OPT{{Code: 10, Data: g.Bytes(8)}}
			}
			opt.Data = append(dnsx.OPT{}, others...)
		case 4: // already padded once
			opt.Data = insert(append(dnsx.OPT{}, others...), pad())
		case 5: // several padding options
			o := append(dnsx.OPT{}, others...)
			for j := 0; j < 2+rng.IntN(3); j++ {
				o = insert(o, pad())
			}
			opt.Data = o
		case 6: // OPT after other additional records, padded
			for j := 0; j < 1+rng.IntN(3); j++ {
				spec.Extra = append(spec.Extra, g.RR(g.Name(), dnsx.EncoderTypes[rng.IntN(len(dnsx.EncoderTypes))], rng.IntN(64)))
			}
			opt.Data = insert(append(dnsx.OPT{}, others...), pad())
		case 7: // a response with answers
			spec.QR = true
			for j := 0; j < 1+rng.IntN(4); j++ {
				spec.Answer = append(spec.Answer, g.RR(name, dnsx.EncoderTypes[rng.IntN(len(dnsx.EncoderTypes))], rng.IntN(64)))
			}
			opt.Data = append(dnsx.OPT{}, others...)
		}
		if hasOPT {
			spec.Extra = append(spec.Extra, opt)
		} else {
			others = dnsx.OPT{}
		}
		in := toRepo(spec, func(int) bool { return i%2 == 1 })
		payload := newCase(spec, map[string]any{"name_len": nameLen, "mode": mode})
		r.Guard("padding", i, "padding", payload, func() {
			before := len(in.Bytes())
			in.AddPadding()
			check := func(stage string) bool {
				b := in.Bytes()
				payload.set("bytes_"+stage, b)
				if len(b)%128 != 0 || len(b) == 0 {
					r.Violate("padding", i, "padding:length", fmt.Sprintf("%s: encoded length %d (was %d) is not a multiple of 128", stage, len(b), before), payload)
					return false
				}
				dec, err := dns.DecodeMessage(b)
				if err != nil {
					r.Violate("padding", i, "padding:decode-error", fmt.Sprintf("%s: padded message does not decode: %v", stage, err), payload)
					return false
				}
				w, werr := dnsx.Walk(b)
				if werr != nil || w.End != len(b) || len(w.Question) != 1 || w.Question[0] != spec.Question[0] {
					r.Violate("padding", i, "padding:independent-decode", fmt.Sprintf("%s: the independent walker does not find the question %+v in the padded message (err=%v)", stage, spec.Question[0], werr), payload)
					return false
				}
				if len(dec.Question) != 1 || strings.TrimSuffix(dec.Question[0].Name, ".") != name || dec.Question[0].Type != spec.Question[0].Type || dec.Question[0].Class != 1 {
					r.Violate("padding", i, "padding:question", fmt.Sprintf("%s: question after padding %+v, want %+v", stage, dec.Question, spec.Question), payload)
					return false
				}
				// everything but the OPT record is unchanged; exactly one OPT; its fixed fields are kept
				want := toRepo(spec, nil)
				var gotOpts []dns.Option
				var gotOPT, wantOPT []dns.RR
				strip := func(in []dns.RR, opts *[]dns.RR) []dns.RR {
					var out []dns.RR
					for _, rr := range in {
						if rr.Type == dnsx.TypeOPT {
							if o, ok := rr.Data.([]dns.Option); ok && opts == &gotOPT {
								gotOpts = o
							}
							rr.Data = []dns.Option{}
							*opts = append(*opts, rr)
							continue
						}
						out = append(out, rr)
					}
					return out
				}
				dec.Additional = strip(dec.Additional, &gotOPT)
				want.Additional = strip(want.Additional, &wantOPT)
				if len(gotOPT) != 1 {
					r.Violate("padding", i, "padding:opt-count", fmt.Sprintf("%s: %d OPT records after padding", stage, len(gotOPT)), payload)
					return false
				}
				if hasOPT {
					if d := cmpRRs("additional", wantOPT, gotOPT); d != nil {
						r.Violate("padding", i, "padding:message-changed:opt", stage+": padding changed the OPT record: "+d.Detail, payload)
						return false
					}
				} else if gotOPT[0].Name != "" {
					r.Violate("padding", i, "padding:opt-owner", fmt.Sprintf("%s: the added OPT record is owned by %q, not the root", stage, gotOPT[0].Name), payload)
					return false
				}
				if d := cmpMsg(want, dec); d != nil {
					r.Violate("padding", i, "padding:message-changed:"+d.Class, stage+": padding changed the rest of the message: "+d.Detail, payload)
					return false
				}
				nPadOpt := 0
				var rest []dns.Option
				for _, o := range gotOpts {
					if o.Code == 12 {
						nPadOpt++
					} else {
						rest = append(rest, o)
					}
				}
				if nPadOpt != 1 {
					r.Violate("padding", i, "padding:option-count", fmt.Sprintf("%s: %d padding options (code 12) after AddPadding, want exactly 1", stage, nPadOpt), payload)
					return false
				}
				if d := cmpData("OPT", toRepoRR(dnsx.RR{Type: dnsx.TypeOPT, Data: others}).Data, append([]dns.Option{}, rest...)); d != nil {
					r.Violate("padding", i, "padding:options-changed", stage+": the other EDNS options changed: "+d.Detail, payload)
					return false
				}
				return true
			}
			r.Eval(fmt.Sprintf("pad|%d|%d", nameLen, mode))
			r.Count("padding_cases", 1)
			if !check("first") {
				return
			}
			in.AddPadding() // idempotent with respect to the property
			if !check("second") {
				return
			}
			r.Count("padding_ok", 1)
			if before%128 != 0 {
				r.Count("padding_needed", 1)
			}
		})
		if i == 0 || i == 253*4+17 {
			r.Sample(map[string]any{"workload": "padding", "index": i, "case": payload})
		}
	})
	r.Floor("padding_cases", int64(nPad))
	r.Floor("padding_needed", int64(nPad)/2)
}
