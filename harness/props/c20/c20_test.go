// C20 — PublishECH changes exactly the ech parameter of exactly the requested
// records.
//
// Monitor: the real CloudflarePublisher talks to the fake Cloudflare API of
// internal/cfapi (hook VerifSetBaseURL). Histories of publishes against
// seed-determined zones; the oracle is a model store that is advanced only by
// validated writes, plus rules over the API request log.
package c20

import (
	"context"
	"encoding/base64"
	"encoding/json"
	"fmt"
	mrand "math/rand/v2"
	"reflect"
	"runtime/debug"
	"sort"
	"strings"
	"sync"
	"sync/atomic"
	"testing"

	"github.com/c2FmZQ/ech/publish"

	"verif/harness/internal/cfapi"
	"verif/harness/internal/mon"
)

const perPage = 20 // the page size the publisher asks for; only used to label classes, the fake honours whatever is requested

// ---- presentation-format tokenizer of the oracle (quote aware) ----

// tokens splits a SvcParams presentation string on spaces that are outside
// double quotes (a backslash escapes the next character). Empty tokens
// (leading, trailing, repeated spaces) are dropped: white space is not a
// parameter.
func tokens(v string) []string {
	var out []string
	var cur strings.Builder
	inq, esc := false, false
	for i := 0; i < len(v); i++ {
		c := v[i]
		switch {
		case esc:
			esc = false
			cur.WriteByte(c)
		case c == '\\':
			esc = true
			cur.WriteByte(c)
		case c == '"':
			inq = !inq
			cur.WriteByte(c)
		case (c == ' ' || c == '\t') && !inq:
			if cur.Len() > 0 {
				out = append(out, cur.String())
				cur.Reset()
			}
		default:
			cur.WriteByte(c)
		}
	}
	if cur.Len() > 0 {
		out = append(out, cur.String())
	}
	return out
}

// splitEch separates the ech entries (their values, quotes removed) from the
// other parameters.
func splitEch(v string) (ech []string, others []string) {
	for _, t := range tokens(v) {
		k, val, ok := strings.Cut(t, "=")
		if k == "ech" {
			if ok && len(val) >= 2 && val[0] == '"' && val[len(val)-1] == '"' {
				val = val[1 : len(val)-1]
			}
			ech = append(ech, val)
			continue
		}
		others = append(others, t)
	}
	return
}

// ---- generators ----

var paramChoices = [][]string{
	{`alpn="h2,h3"`, `alpn="h3"`, `alpn=h2`, `alpn="h2,h3,http/1.1"`},
	{`no-default-alpn`},
	{`port=8443`, `port="443"`},
	{`ipv4hint=1.2.3.4`, `ipv4hint="192.0.2.1,192.0.2.2"`},
	{`ipv6hint="2001:db8::1"`, `ipv6hint=2001:db8::1,2001:db8::2`},
	{`mandatory=alpn`},
	{`dohpath="/dns-query{?dns}"`},
	{`key65400="abc"`, `key65400=abc`},
	{`key65401`},
	{`key65402=a\044b`},
	{`key65403="a\"b"`},
	{`key65404="x=y"`},
	{`key65405=""`},
	{`key65406="ech"`}, // a value, not the key
	// escaped backslashes (RFC 9460 appendix A): the closing quote after `\\` is NOT escaped
	{`key65407="C:\\"`, `key65407="a\\\\b"`, `key65407=a\\b`, `key65407="\\\" x"`},
}

type valueClass struct {
	Ech       string // absent | quoted | unquoted | twice
	Space     string // "" | plain | lookalike
	Empty     bool
	DoubleSep bool
}

func randB64(rng *mrand.Rand) string {
	b := make([]byte, 1+rng.IntN(40))
	for i := range b {
		b[i] = byte(rng.IntN(256))
	}
	return base64.StdEncoding.EncodeToString(b)
}

func genValue(rng *mrand.Rand, lists [][]byte, force int) (string, valueClass) {
	var cl valueClass
	var toks []string
	perm := rng.Perm(len(paramChoices))
	n := rng.IntN(6)
	for _, p := range perm[:n] {
		c := paramChoices[p]
		toks = append(toks, c[rng.IntN(len(c))])
	}
	echVal := func() string {
		if rng.IntN(10) < 3 {
			return base64.StdEncoding.EncodeToString(lists[rng.IntN(len(lists))])
		}
		return randB64(rng)
	}
	insert := func(t string) {
		p := rng.IntN(len(toks) + 1)
		toks = append(toks, "")
		copy(toks[p+1:], toks[p:])
		toks[p] = t
	}
	x := rng.IntN(100)
	if force >= 0 {
		x = []int{0, 30, 80, 96}[force%4]
	}
	switch {
	case x < 25:
		cl.Ech = "absent"
	case x < 75:
		cl.Ech = "quoted"
		insert(`ech="` + echVal() + `"`)
	case x < 91:
		cl.Ech = "unquoted"
		insert(`ech=` + echVal())
	case x < 94:
		// the key without a value: still the ech parameter (RFC 9460 presentation format, "key" alone)
		cl.Ech = "bare"
		insert(`ech`)
	default:
		cl.Ech = "twice"
		insert(`ech="` + echVal() + `"`)
		insert(`ech="` + echVal() + `"`)
	}
	switch y := rng.IntN(100); {
	case y < 4:
		cl.Space = "plain"
		insert(`key65500="hello world"`)
	case y < 5:
		cl.Space = "lookalike"
		insert(`key65501="x ech=y"`)
	case y < 7 && cl.Ech == "absent":
		cl.Empty = true
		toks = nil
	}
	sep := " "
	if rng.IntN(50) == 0 && len(toks) > 1 {
		cl.DoubleSep = true
		sep = "  "
	} else if rng.IntN(25) == 0 && len(toks) > 1 {
		// RFC 9460 section 2.1: SvcParams are separated by white space, which is SP or HTAB
		cl.DoubleSep = true
		sep = []string{"\t", " \t", "\t\t"}[rng.IntN(3)]
	}
	return strings.Join(toks, sep), cl
}

func hexID(rng *mrand.Rand) string {
	const h = "0123456789abcdef"
	b := make([]byte, 32)
	for i := range b {
		b[i] = h[rng.IntN(16)]
	}
	return string(b)
}

type recMeta struct {
	class valueClass
}

func genZones(rng *mrand.Rand, i int, lists [][]byte, meta map[string]recMeta) []cfapi.Zone {
	nz := 1 + rng.IntN(3)
	var zones []cfapi.Zone
	for j := 0; j < nz; j++ {
		z := cfapi.Zone{ID: hexID(rng), Name: fmt.Sprintf("z%d.h%d.example", j, i)}
		var nrec int
		switch (i + j) % 6 {
		case 0:
			nrec = 41 + rng.IntN(20) // 3 pages
		case 1:
			nrec = 21 + rng.IntN(20) // 2 pages
		case 2:
			nrec = 1 + rng.IntN(19)
		case 3:
			nrec = []int{20, 40, 60, 0}[rng.IntN(4)] // page boundaries, empty zone
		default:
			nrec = rng.IntN(61)
		}
		names := []string{z.Name, "*." + z.Name, "www." + z.Name}
		for k := 3; k < nrec; k++ {
			names = append(names, fmt.Sprintf("h%d.%s", k, z.Name))
		}
		names = names[:nrec]
		rng.Shuffle(len(names), func(a, b int) { names[a], names[b] = names[b], names[a] })
		nOther := rng.IntN(6)
		for k, name := range names {
			v, cl := genValue(rng, lists, map[bool]int{true: k, false: -1}[k < 4])
			rec := cfapi.Record{ID: hexID(rng), Name: name, Type: "HTTPS", TTL: []int{1, 300, 3600}[rng.IntN(3)],
				Data: &cfapi.Data{Priority: []int{1 + rng.IntN(3), 1 + rng.IntN(3), 1 + rng.IntN(3), 32767, 32768, 65535, 1 + rng.IntN(65535)}[rng.IntN(7)], Target: []string{".", "svc." + z.Name + "."}[rng.IntN(2)], Value: v}}
			if rng.IntN(4) == 0 {
				rec.Comment = "managed elsewhere"
			}
			meta[rec.ID] = recMeta{cl}
			z.Records = append(z.Records, rec)
			// non-HTTPS records interleaved, some sharing the name of an HTTPS record
			if nOther > 0 && rng.IntN(nrec) < 6 {
				nOther--
				o := cfapi.Record{ID: hexID(rng), Name: name, Type: []string{"A", "AAAA", "TXT"}[rng.IntN(3)], TTL: 300, Content: "192.0.2.1"}
				if rng.IntN(2) == 0 {
					o.Name = fmt.Sprintf("a%d.%s", k, z.Name)
				}
				z.Records = append(z.Records, o)
			}
		}
		for ; nOther > 0; nOther-- {
			z.Records = append(z.Records, cfapi.Record{ID: hexID(rng), Name: fmt.Sprintf("only-a%d.%s", nOther, z.Name), Type: "A", TTL: 300, Content: "192.0.2.9"})
		}
		zones = append(zones, z)
	}
	return zones
}

// ---- model helpers ----

func findZone(m []cfapi.Zone, name string) *cfapi.Zone {
	for i := range m {
		if m[i].Name == name {
			return &m[i]
		}
	}
	return nil
}

// findHTTPS returns the HTTPS record called name and its position among the
// HTTPS records of the zone (listing order).
func findHTTPS(z *cfapi.Zone, name string) (*cfapi.Record, int) {
	pos := 0
	for i := range z.Records {
		if z.Records[i].Type != "HTTPS" {
			continue
		}
		if z.Records[i].Name == name {
			return &z.Records[i], pos
		}
		pos++
	}
	return nil, -1
}

func httpsRecords(z *cfapi.Zone) []*cfapi.Record {
	var out []*cfapi.Record
	for i := range z.Records {
		if z.Records[i].Type == "HTTPS" {
			out = append(out, &z.Records[i])
		}
	}
	return out
}

// ---- deterministic violation collector (min index per signature) ----

type vrec struct {
	idx   int
	desc  string
	c     any
	count int
}

type vcoll struct {
	mu sync.Mutex
	m  map[string]*vrec
}

func (v *vcoll) add(idx int, sig, desc string, payload func() any) {
	v.mu.Lock()
	defer v.mu.Unlock()
	if v.m == nil {
		v.m = map[string]*vrec{}
	}
	e := v.m[sig]
	if e == nil {
		v.m[sig] = &vrec{idx: idx, desc: desc, c: payload(), count: 1}
		return
	}
	e.count++
	if idx < e.idx {
		e.idx, e.desc, e.c = idx, desc, payload()
	}
}

func (v *vcoll) flush(r *mon.Run, work string) {
	sigs := make([]string, 0, len(v.m))
	for s := range v.m {
		sigs = append(sigs, s)
	}
	sort.Strings(sigs)
	for _, sig := range sigs {
		e := v.m[sig]
		r.Violate(work, e.idx, sig, e.desc, e.c)
		for k := 1; k < e.count; k++ {
			r.Violate(work, e.idx, sig, "", nil)
		}
	}
}

// ---- counters ----

var ctrNames = []string{"histories", "publishes", "targets", "results_updated", "results_nochange", "results_notfound", "results_error",
	"targets_existing_record", "targets_missing_name", "targets_unknown_zone", "targets_wrong_zone", "targets_non_https_name",
	"targets_duplicate_in_call", "duplicate_of_updated_record", "targets_on_later_pages", "later_page_targets_found",
	"faults_planned", "faults_hit_zone_lookup", "faults_hit_list_page1", "faults_hit_list_later_page", "faults_hit_patch",
	"patches_applied", "list_requests_page1", "list_requests_later_page", "external_changes", "histories_with_late_zone", "targets_in_zone_not_there_yet", "targets_in_zone_that_appeared",
	"target_ech_absent", "target_ech_quoted", "target_ech_unquoted", "target_ech_twice", "target_ech_bare",
	"target_value_quoted_space", "target_value_quoted_space_ech_lookalike", "target_value_empty", "target_value_double_space",
	"nochange_when_current", "updated_validated", "lenient_after_zone_failure", "lenient_ech_twice", "zones_3_pages", "zones_2_pages", "zones_1_page", "histories_with_sparse_json"}

type counters struct {
	idx map[string]int
	v   []atomic.Int64
}

func newCounters() *counters {
	c := &counters{idx: map[string]int{}, v: make([]atomic.Int64, len(ctrNames))}
	for i, n := range ctrNames {
		c.idx[n] = i
	}
	return c
}

func (c *counters) add(name string, n int64) {
	i, ok := c.idx[name]
	if !ok {
		panic("unknown counter " + name)
	}
	c.v[i].Add(n)
}

// ---- one history ----

type stepJSON struct {
	ConfigList string           `json:"config_list_hex"`
	NewValue   string           `json:"expected_ech_value"`
	Targets    []publish.Target `json:"targets"`
	Faults     []cfapi.Fault    `json:"faults,omitempty"`
	External   string           `json:"external_change,omitempty"`
	Results    []string         `json:"results"`
	Log        []cfapi.Entry    `json:"request_log"`
}

type history struct {
	r     *mon.Run
	vc    *vcoll
	ctr   *counters
	i     int
	zones []cfapi.Zone // initial store
	steps []*stepJSON
	meta  map[string]recMeta
}

func (h *history) payload() any {
	// JSON round trip: a stable deep copy of what was observed so far
	b, _ := json.Marshal(map[string]any{"initial_zones": h.zones, "publishes": h.steps})
	var v any
	json.Unmarshal(b, &v)
	return v
}

func (h *history) violate(sig, format string, a ...any) {
	h.vc.add(h.i, sig, fmt.Sprintf("history %d, publish %d: ", h.i, len(h.steps)-1)+fmt.Sprintf(format, a...), h.payload)
}

func codeName(c publish.StatusCode) string {
	switch c {
	case publish.StatusUpdated:
		return "updated"
	case publish.StatusNotFound:
		return "notfound"
	case publish.StatusNoChange:
		return "nochange"
	case publish.StatusError:
		return "error"
	case publish.StatusUnknown:
		return "unknown"
	}
	return fmt.Sprintf("invalid%d", int(c))
}

func spaceSuffix(cl valueClass) string {
	switch cl.Space {
	case "plain":
		return ":quoted-space"
	case "lookalike":
		return ":quoted-space-ech-lookalike"
	}
	return ""
}

const work = "history"

func runHistory(r *mon.Run, vc *vcoll, ctr *counters, i int, rng *mrand.Rand) {
	h := &history{r: r, vc: vc, ctr: ctr, i: i, meta: map[string]recMeta{}}
	ctr.add("histories", 1)
	// config lists of this history: non-empty byte strings
	lists := make([][]byte, 3)
	for k := range lists {
		lists[k] = make([]byte, 1+rng.IntN(60))
		for j := range lists[k] {
			lists[k][j] = byte(rng.IntN(256))
		}
	}
	h.zones = genZones(rng, i, lists, h.meta)
	for zi := range h.zones {
		switch n := len(httpsRecords(&h.zones[zi])); {
		case n > 2*perPage:
			ctr.add("zones_3_pages", 1)
		case n > perPage:
			ctr.add("zones_2_pages", 1)
		default:
			ctr.add("zones_1_page", 1)
		}
	}
	srv := cfapi.New("token")
	defer srv.Close()
	srv.SetZones(h.zones)
	// every third history: the API leaves out JSON members that hold a zero value ("" , 0, false, null, [])
	if i%3 == 2 {
		srv.SetSparse(true)
		ctr.add("histories_with_sparse_json", 1)
	}
	model := srv.Snapshot()
	pub := publish.NewCloudflarePublisher("token")
	pub.VerifSetBaseURL(srv.BaseURL())

	nPub := 1 + rng.IntN(6)
	// every fifth history: one zone is not there (not yet visible to the
	// token) during the first publishes and appears between two of them; its
	// records do not exist before and exist afterwards
	var late *cfapi.Zone
	lateAt := 0
	if i%5 == 4 && len(model) > 1 {
		if nPub < 2 {
			nPub = 2
		}
		zi := rng.IntN(len(model))
		late = &cfapi.Zone{}
		*late = model[zi]
		model = append(model[:zi:zi], model[zi+1:]...)
		srv.SetZones(model)
		lateAt = 1 + rng.IntN(nPub-1)
		ctr.add("histories_with_late_zone", 1)
	}
	cur := 0
	for k := 0; k < nPub; k++ {
		if k > 0 && rng.IntN(3) > 0 {
			cur = (cur + 1 + rng.IntN(2)) % 3 // change the list (2/3), else publish the same list again
		}
		list := lists[cur]
		newValue := base64.StdEncoding.EncodeToString(list)
		st := &stepJSON{ConfigList: mon.Hex(list), NewValue: newValue}
		h.steps = append(h.steps, st)

		// another actor edits a record between publishes
		if k > 0 && rng.IntN(6) == 0 {
			z := &model[rng.IntN(len(model))]
			if hr := httpsRecords(z); len(hr) > 0 {
				rec := hr[rng.IntN(len(hr))]
				_, others := splitEch(rec.Data.Value)
				nv := strings.Join(append(others, `ech="`+randB64(rng)+`"`), " ")
				if srv.SetValue(z.ID, rec.ID, nv) {
					rec.Data.Value = nv
					st.External = fmt.Sprintf("record %s (%s) value set to %q", rec.ID, rec.Name, nv)
					ctr.add("external_changes", 1)
				}
			}
		}

		lateNow := false
		if late != nil && k == lateAt {
			srv.AddZone(*late)
			model = srv.Snapshot()
			st.External += fmt.Sprintf("zone %s appears with %d records", late.Name, len(late.Records))
			lateNow = true
		}

		// targets
		nt := 1 + rng.IntN(8)
		var targets []publish.Target
		if late != nil {
			// asked for while absent (not found), and again from the
			// publish at which it is there
			if hr := httpsRecords(late); len(hr) > 0 && (k < lateAt || lateNow || rng.IntN(2) == 0) {
				targets = append(targets, publish.Target{Zone: late.Name, Name: hr[rng.IntN(len(hr))].Name})
				if k < lateAt {
					ctr.add("targets_in_zone_not_there_yet", 1)
				} else {
					ctr.add("targets_in_zone_that_appeared", 1)
				}
			}
		}
		pickExisting := func(later bool) (publish.Target, bool) {
			for try := 0; try < 6; try++ {
				z := &model[rng.IntN(len(model))]
				hr := httpsRecords(z)
				if len(hr) == 0 || (later && len(hr) <= perPage) {
					continue
				}
				lo := 0
				if later {
					lo = perPage
				}
				return publish.Target{Zone: z.Name, Name: hr[lo+rng.IntN(len(hr)-lo)].Name}, true
			}
			return publish.Target{}, false
		}
		for len(targets) < nt {
			x := rng.IntN(100)
			if len(targets) == 1 && (i+k)%3 == 0 {
				x = 60 // forced duplicate
			}
			if len(targets) == 0 && (i+k)%2 == 0 {
				x = 0 // forced later-page target when a zone has one
			}
			switch {
			case x < 25:
				if t, ok := pickExisting(true); ok {
					targets = append(targets, t)
					continue
				}
				fallthrough
			case x < 58:
				if t, ok := pickExisting(false); ok {
					targets = append(targets, t)
				} else {
					targets = append(targets, publish.Target{Zone: model[0].Name, Name: "nothing." + model[0].Name})
				}
			case x < 72:
				if len(targets) > 0 {
					targets = append(targets, targets[rng.IntN(len(targets))])
				}
			case x < 82:
				z := &model[rng.IntN(len(model))]
				targets = append(targets, publish.Target{Zone: z.Name, Name: fmt.Sprintf("missing%d.%s", rng.IntN(3), z.Name)})
			case x < 90:
				zn := fmt.Sprintf("unknown%d.example", rng.IntN(2))
				targets = append(targets, publish.Target{Zone: zn, Name: "www." + zn})
			case x < 95:
				z := &model[rng.IntN(len(model))]
				var cands []string
				for _, rec := range z.Records {
					if rec.Type != "HTTPS" {
						if hr, _ := findHTTPS(z, rec.Name); hr == nil {
							cands = append(cands, rec.Name)
						}
					}
				}
				if len(cands) > 0 {
					targets = append(targets, publish.Target{Zone: z.Name, Name: cands[rng.IntN(len(cands))]})
				}
			default:
				if len(model) > 1 {
					a := rng.IntN(len(model))
					b := (a + 1) % len(model)
					if hr := httpsRecords(&model[a]); len(hr) > 0 {
						targets = append(targets, publish.Target{Zone: model[b].Name, Name: hr[rng.IntN(len(hr))].Name})
					}
				}
			}
		}
		st.Targets = targets

		// failure plan
		var faults []cfapi.Fault
		if rng.IntN(10) < 4 {
			nf := 1 + rng.IntN(2)
			for f := 0; f < nf; f++ {
				mode := []string{"403", "envelope", "envelope-no-errors"}[rng.IntN(3)]
				left := 1
				if rng.IntN(4) == 0 {
					left = -1
				}
				t := targets[rng.IntN(len(targets))]
				z := findZone(model, t.Zone)
				switch y := rng.IntN(10); {
				case y < 3:
					faults = append(faults, cfapi.Fault{Op: "zone", Zone: t.Zone, Mode: mode, Left: left})
				case y < 6:
					if z != nil {
						pages := max(1, (len(httpsRecords(z))+perPage-1)/perPage)
						faults = append(faults, cfapi.Fault{Op: "list", Zone: z.Name, Page: 1 + rng.IntN(pages), Mode: mode, Left: left})
					}
				default:
					if z != nil {
						if rec, _ := findHTTPS(z, t.Name); rec != nil {
							faults = append(faults, cfapi.Fault{Op: "patch", RecordID: rec.ID, Mode: mode, Left: left})
						}
					}
				}
			}
		}
		st.Faults = faults
		srv.SetFaults(faults)
		ctr.add("faults_planned", int64(len(faults)))

		// the call under observation
		mark := srv.Mark()
		var results []publish.TargetResult
		panicked := false
		func() {
			defer func() {
				if p := recover(); p != nil {
					panicked = true
					frame := mon.TopRepoFrame(debug.Stack())
					r.Violate(work, i, "publish:panic@"+frame, fmt.Sprintf("panic: %v at %s", p, frame), h.payload())
				}
			}()
			results = pub.PublishECH(context.Background(), targets, list)
		}()
		log := srv.LogSince(mark)
		st.Log = log
		for _, res := range results {
			s := codeName(res.Code)
			if res.Error != nil {
				s += ": " + res.Error.Error()
			}
			st.Results = append(st.Results, s)
		}
		ctr.add("publishes", 1)
		ctr.add("targets", int64(len(targets)))
		if panicked {
			return
		}
		model = h.judge(model, srv.Snapshot(), targets, results, newValue, log)

		// fingerprint: class of this publish
		maxPages, dup := 0, false
		seen := map[publish.Target]bool{}
		for _, t := range targets {
			if seen[t] {
				dup = true
			}
			seen[t] = true
			if z := findZone(model, t.Zone); z != nil {
				maxPages = max(maxPages, (len(httpsRecords(z))+perPage-1)/perPage)
			}
		}
		codes := make([]string, len(results))
		for j := range results {
			codes[j] = codeName(results[j].Code)[:2]
		}
		fk := ""
		for _, e := range log {
			if e.Fault != "" {
				fk += e.Op + e.Fault
			}
		}
		r.Eval(fmt.Sprintf("p%d|t%d|d%v|f%s|%s", maxPages, len(targets), dup, fk, strings.Join(codes, "")))
	}
	if i < 3 {
		var zs []string
		for zi := range h.zones {
			z := &h.zones[zi]
			ex := ""
			if hr := httpsRecords(z); len(hr) > 0 {
				ex = hr[0].Data.Value
			}
			zs = append(zs, fmt.Sprintf("%s: %d HTTPS records of %d, first value %q", z.Name, len(httpsRecords(z)), len(z.Records), ex))
		}
		b, _ := json.Marshal(h.steps)
		var steps any
		json.Unmarshal(b, &steps)
		r.Sample(map[string]any{"index": i, "zones": zs, "publishes": steps})
	}
}

// judge checks one PublishECH call. model is the store as the oracle knows it
// before the call; the returned model is the store after it.
func (h *history) judge(model, after []cfapi.Zone, targets []publish.Target, results []publish.TargetResult, newValue string, log []cfapi.Entry) []cfapi.Zone {
	ctr := h.ctr
	// request-log rules that do not depend on the results
	zoneFailed := map[string]bool{}
	var patches []cfapi.Entry
	for _, e := range log {
		switch e.Op {
		case "zone":
			if e.Fault != "" {
				zoneFailed[e.Zone] = true
				ctr.add("faults_hit_zone_lookup", 1)
			}
		case "list":
			if e.Page <= 1 {
				ctr.add("list_requests_page1", 1)
			} else {
				ctr.add("list_requests_later_page", 1)
			}
			if e.Fault != "" {
				zoneFailed[e.Zone] = true
				if e.Page <= 1 {
					ctr.add("faults_hit_list_page1", 1)
				} else {
					ctr.add("faults_hit_list_later_page", 1)
				}
			}
		case "patch":
			patches = append(patches, e)
			if e.Fault != "" {
				ctr.add("faults_hit_patch", 1)
			}
			if e.Applied {
				ctr.add("patches_applied", 1)
			}
		default:
			h.violate("request:unexpected", "the publisher sent %s %s, which is neither a lookup, a listing nor a PATCH of one record", e.Method, e.Path)
		}
		if !e.AuthOK {
			h.violate("request:unauthenticated", "%s %s was sent without the API token", e.Method, e.Path)
		}
	}

	// one result per requested record, in request order
	if len(results) != len(targets) {
		h.violate("results:length", "%d results for %d targets: %v", len(results), len(targets), h.steps[len(h.steps)-1].Results)
		return after // cannot align results with targets; resynchronise the model
	}

	// A PATCH is attributed to the first target (in request order) of ITS record that has not been given one yet:
	// writes to different records may reach the API in any order (a publisher may send them concurrently); only the
	// order of the writes to one record is taken to follow the order of the targets that name it.
	used := make([]bool, len(patches))
	nextPatchFor := func(rec *cfapi.Record, z *cfapi.Zone) *cfapi.Entry {
		for i := range patches {
			if !used[i] && patches[i].RecordID == rec.ID && patches[i].ZoneID == z.ID {
				used[i] = true
				return &patches[i]
			}
		}
		return nil
	}
	nextFailedPatchFor := func(rec *cfapi.Record, z *cfapi.Zone) *cfapi.Entry {
		for i := range patches {
			if !used[i] && patches[i].RecordID == rec.ID && patches[i].ZoneID == z.ID {
				if patches[i].Fault == "" {
					return nil
				}
				used[i] = true
				return &patches[i]
			}
		}
		return nil
	}
	seenZone := map[string]bool{}
	seenTarget := map[publish.Target]int{}
	updatedInCall := map[string]bool{}
	for j, t := range targets {
		res := results[j]
		code := codeName(res.Code)
		switch res.Code {
		case publish.StatusUpdated:
			ctr.add("results_updated", 1)
		case publish.StatusNoChange:
			ctr.add("results_nochange", 1)
		case publish.StatusNotFound:
			ctr.add("results_notfound", 1)
		case publish.StatusError:
			ctr.add("results_error", 1)
		default:
			h.violate("result:invalid-code", "target %d %v: status code %d", j, t, int(res.Code))
			continue
		}
		if (res.Code == publish.StatusError) != (res.Error != nil) {
			h.violate("result:error-field", "target %d %v: code %s with Error=%v", j, t, code, res.Error)
		}
		first := !seenZone[t.Zone]
		seenZone[t.Zone] = true
		dupOf, isDup := seenTarget[t]
		if !isDup {
			seenTarget[t] = j
		} else {
			ctr.add("targets_duplicate_in_call", 1)
		}
		z := findZone(model, t.Zone)
		var rec *cfapi.Record
		pos := -1
		if z != nil {
			rec, pos = findHTTPS(z, t.Name)
		}
		switch {
		case z == nil:
			ctr.add("targets_unknown_zone", 1)
		case rec == nil:
			if strings.HasPrefix(t.Name, "missing") || strings.HasPrefix(t.Name, "nothing") {
				ctr.add("targets_missing_name", 1)
			} else if !strings.HasSuffix(t.Name, z.Name) {
				ctr.add("targets_wrong_zone", 1)
			} else {
				ctr.add("targets_non_https_name", 1)
			}
		default:
			ctr.add("targets_existing_record", 1)
			if pos >= perPage {
				ctr.add("targets_on_later_pages", 1)
			}
		}

		lenient := false
		if zoneFailed[t.Zone] {
			if first {
				// this target's own lookup hit the injected failure
				switch res.Code {
				case publish.StatusError:
				case publish.StatusNotFound:
					h.violate("error:reported-as-not-found", "target %d %v: the lookup of zone %q failed (injected API failure) but the result is not-found", j, t, t.Zone)
				default:
					h.violate("error:zone-failure-not-reported", "target %d %v: the lookup of zone %q failed (injected API failure) but the result is %s", j, t, t.Zone, code)
					if rec != nil && res.Code == publish.StatusUpdated {
						nextPatchFor(rec, z)
					}
				}
				continue
			}
			// later targets of a zone whose lookup failed in this call: error,
			// or a correct update from the part of the zone that was read.
			// Not-found is for what does not exist: a record that is there
			// must not be reported missing because the API failed.
			lenient = true
			if res.Code == publish.StatusNotFound && rec != nil {
				h.violate("error:later-target-reported-as-not-found", "target %d %v: the lookup of zone %q failed earlier in this call (injected API failure); the record exists (%s) but the result is not-found instead of an error", j, t, t.Zone, rec.ID)
				continue
			}
			if res.Code == publish.StatusNotFound || res.Code == publish.StatusError {
				ctr.add("lenient_after_zone_failure", 1)
				if res.Code == publish.StatusError && rec != nil && nextFailedPatchFor(rec, z) != nil {
					continue // its own write failed: that is the error it reports
				}
				if res.Code == publish.StatusError && rec != nil {
					// a write to this record belongs to this target only if no later target of the same record reports
					// an update that would otherwise be left without its write (the failed read may have hit this
					// target alone: a publisher may read per target)
					later := 0
					for jj := j + 1; jj < len(targets); jj++ {
						if targets[jj] == t && results[jj].Code == publish.StatusUpdated {
							later++
						}
					}
					unusedApplied := 0
					for i := range patches {
						if !used[i] && patches[i].RecordID == rec.ID && patches[i].ZoneID == z.ID && patches[i].Applied {
							unusedApplied++
						}
					}
					if unusedApplied > later {
						if p := nextPatchFor(rec, z); p != nil && p.Applied {
							h.violate("error:reported-but-written", "target %d %v: error reported although the PATCH was applied", j, t)
							*rec = p.After.Clone()
						}
					}
				}
				continue
			}
		}
		_ = lenient

		if z == nil || rec == nil {
			what := "missing"
			if z == nil {
				what = "unknown-zone"
			}
			if res.Code != publish.StatusNotFound {
				h.violate(what+":reported-"+code, "target %d %v does not exist (%s) but the result is %s", j, t, what, code)
			}
			continue
		}

		// the record exists and its zone could be read
		cl := h.meta[rec.ID].class
		ctr.add("target_ech_"+cl.Ech, 1)
		switch cl.Space {
		case "plain":
			ctr.add("target_value_quoted_space", 1)
		case "lookalike":
			ctr.add("target_value_quoted_space_ech_lookalike", 1)
		}
		if cl.Empty {
			ctr.add("target_value_empty", 1)
		}
		if cl.DoubleSep {
			ctr.add("target_value_double_space", 1)
		}
		// Values with a quoted "... ech=..." look-alike are one generator class
		// with one signature: once such a record was rewritten, every
		// value-dependent judgement about it is about the same corruption.
		vv := func(sig, format string, a ...any) {
			if cl.Space == "lookalike" {
				sig = "params:corrupted:quoted-space-ech-lookalike"
			}
			h.violate(sig, format, a...)
		}
		echs, others := splitEch(rec.Data.Value)
		current := len(echs) == 1 && echs[0] == newValue
		ambiguous := false // more than one ech entry, one of them the new value: either answer is accepted
		if len(echs) > 1 {
			for _, e := range echs {
				if e == newValue {
					ambiguous = true
				}
			}
		}
		dupSuffix := ""
		if isDup && updatedInCall[rec.ID] {
			dupSuffix = ":duplicate-target"
			ctr.add("duplicate_of_updated_record", 1)
		}
		_ = dupOf

		switch res.Code {
		case publish.StatusNotFound:
			if p := nextFailedPatchFor(rec, z); p != nil {
				h.violate("error:reported-as-not-found", "target %d %v: the PATCH of record %s failed (injected API failure) but the result is not-found", j, t, rec.ID)
				continue
			}
			if pos >= perPage {
				h.violate("pagination:record-on-later-page-not-found", "target %d %v: record %s exists (HTTPS record #%d of zone %s, i.e. page %d at per_page=%d) but the result is not-found; listing requests of this call: %s",
					j, t, rec.ID, pos+1, z.Name, pos/perPage+1, perPage, listRequests(log, z.Name))
			} else {
				h.violate("exists:reported-not-found", "target %d %v: record %s exists on the first page but the result is not-found", j, t, rec.ID)
			}
		case publish.StatusNoChange:
			switch {
			case current:
				ctr.add("nochange_when_current", 1)
				if pos >= perPage {
					ctr.add("later_page_targets_found", 1)
				}
			case ambiguous:
				ctr.add("lenient_ech_twice", 1)
			default:
				vv("nochange:reported-but-stale", "target %d %v: no-change reported but the stored value %q does not hold ech=%q", j, t, rec.Data.Value, newValue)
			}
		case publish.StatusUpdated, publish.StatusError:
			p := nextPatchFor(rec, z)
			if p == nil {
				if res.Code == publish.StatusError {
					h.violate("error:unexpected", "target %d %v: error %v although no API failure was injected for this record", j, t, res.Error)
					continue
				}
				h.violate("updated:no-write", "target %d %v: updated reported but no PATCH for record %s was sent", j, t, rec.ID)
				continue
			}
			if current {
				vv("nochange:patch-when-current"+dupSuffix, "target %d %v: record %s already holds ech=%q (stored value %q) but a PATCH was sent (result %s)", j, t, rec.ID, newValue, rec.Data.Value, code)
			}
			if res.Code == publish.StatusError {
				if p.Fault == "" {
					h.violate("error:reported-but-written", "target %d %v: error %v reported although the PATCH succeeded", j, t, res.Error)
					*rec = p.After.Clone()
				}
				continue
			}
			if p.Fault != "" || !p.Applied {
				h.violate("updated:write-failed", "target %d %v: updated reported but the PATCH failed (status %d, fault %q)", j, t, p.Status, p.Fault)
				continue
			}
			if pos >= perPage {
				ctr.add("later_page_targets_found", 1)
			}
			// the stored record after the write
			a := p.After
			sfx := spaceSuffix(cl)
			ok := true
			if a.Name != rec.Name || a.Type != rec.Type || a.TTL != rec.TTL || a.Comment != rec.Comment || a.Content != rec.Content || a.ID != rec.ID {
				ok = false
				h.violate("record:field-changed", "target %d %v: the write changed a field other than data: %+v -> %+v", j, t, *rec, *a)
			}
			if a.Data == nil || a.Data.Priority != rec.Data.Priority || a.Data.Target != rec.Data.Target {
				ok = false
				h.violate("data:priority-or-target-changed", "target %d %v: priority/target changed: %+v -> %+v", j, t, *rec.Data, a.Data)
			}
			if a.Data != nil {
				ne, no := splitEch(a.Data.Value)
				switch {
				case len(ne) == 0:
					ok = false
					vv("ech:missing"+sfx, "target %d %v: stored value %q has no ech entry (was %q)", j, t, a.Data.Value, rec.Data.Value)
				case len(ne) > 1:
					ok = false
					vv("ech:multiple"+sfx, "target %d %v: stored value %q has %d ech entries (was %q)", j, t, a.Data.Value, len(ne), rec.Data.Value)
				case ne[0] != newValue:
					ok = false
					vv("ech:value"+sfx, "target %d %v: stored ech %q, expected %q", j, t, ne[0], newValue)
				}
				if !reflect.DeepEqual(no, others) && !(len(no) == 0 && len(others) == 0) {
					ok = false
					kind := "changed"
					if sameMultiset(no, others) {
						kind = "reordered"
					} else if len(no) < len(others) {
						kind = "lost"
					}
					vv("params:"+kind+sfx, "target %d %v: other parameters %q -> %q (stored value %q -> %q)", j, t, others, no, rec.Data.Value, a.Data.Value)
				}
			}
			if ok {
				ctr.add("updated_validated", 1)
			}
			*rec = a.Clone()
			updatedInCall[rec.ID] = true
		}
	}
	targetRecords := map[string]bool{}
	for _, t := range targets {
		if z := findZone(model, t.Zone); z != nil {
			if rec, _ := findHTTPS(z, t.Name); rec != nil {
				targetRecords[rec.ID] = true
			}
		}
	}
	for i, p := range patches {
		if used[i] {
			continue
		}
		if !targetRecords[p.RecordID] {
			h.violate("patch:wrong-record", "a write went to %s %s (record %s), which no target of this call names", p.Method, p.Path, p.RecordID)
			continue
		}
		h.violate("patch:unexpected", "a write that belongs to no reported update: %s %s body %s", p.Method, p.Path, p.Body)
	}
	// byte-identical store diff: nothing but the validated writes changed
	if !reflect.DeepEqual(model, after) {
		h.violate("store:unaccounted-change", "the store differs from the model after the call: %s", storeDiff(model, after))
	}
	return after
}

func peek(p []cfapi.Entry, i int) *cfapi.Entry {
	if i < len(p) {
		return &p[i]
	}
	return nil
}

func sameMultiset(a, b []string) bool {
	if len(a) != len(b) {
		return false
	}
	x := append([]string{}, a...)
	y := append([]string{}, b...)
	sort.Strings(x)
	sort.Strings(y)
	return reflect.DeepEqual(x, y)
}

func listRequests(log []cfapi.Entry, zone string) string {
	var out []string
	for _, e := range log {
		if e.Op == "list" && e.Zone == zone {
			out = append(out, fmt.Sprintf("page=%d per_page=%d returned=%d", e.Page, e.PerPage, e.Returned))
		}
	}
	if len(out) == 0 {
		return "none"
	}
	return strings.Join(out, "; ")
}

func storeDiff(a, b []cfapi.Zone) string {
	if len(a) != len(b) {
		return "number of zones"
	}
	for i := range a {
		if len(a[i].Records) != len(b[i].Records) {
			return "number of records of " + a[i].Name
		}
		for j := range a[i].Records {
			if !reflect.DeepEqual(a[i].Records[j], b[i].Records[j]) {
				x, _ := json.Marshal(a[i].Records[j])
				y, _ := json.Marshal(b[i].Records[j])
				return fmt.Sprintf("zone %s record %d: model %s, store %s", a[i].Name, j, x, y)
			}
		}
	}
	return "none located"
}

func TestCheck(t *testing.T) {
	r := mon.Start(t, "C20", "exploration")
	defer r.Finish()
	r.SetRule("seed-determined histories of 1..6 PublishECH calls of one CloudflarePublisher against a fake Cloudflare API: 1..3 zones with 0..60 HTTPS records " +
		"(1..3 pages at per_page=20, page boundaries 20/40/60 forced) interleaved with A/AAAA/TXT records (some sharing a name), values from a SvcParams presentation generator " +
		"(0..5 other parameters in random order: quoted, unquoted, key-only, escaped, empty; ech absent/quoted/unquoted/twice at any position; rare: quoted values with spaces, empty value, double spaces), " +
		"1..8 targets per call (existing on first/later page, duplicate, missing name, unknown zone, wrong zone, name of a non-HTTPS record), 3 config lists per history re-used and changed, " +
		"edits by another actor between calls, injected failures (HTTP 403 / success:false) on zone lookup, page k, PATCH of record r. " +
		"distinct = distinct (max pages, #targets, duplicate present, failures hit, result code sequence) classes of a call")
	r.Assume("fake Cloudflare API of internal/cfapi: count = items on this page, total_count = all items, per_page/page honoured, PATCH merges the data object",
		"HTTPS record names are unique inside a zone",
		"white space between parameters is not a parameter; ech may be stored quoted or unquoted; the position of ech in the rewritten value is free",
		"first target of a zone whose lookup hit an injected failure must be reported as error; later targets of that zone in the same call may be not-found, error or a correct update",
		"records holding two ech entries of which one equals the new value: both no-change and a rewrite are accepted (counted as lenient_ech_twice)")

	ctr := newCounters()
	var vc vcoll
	n := r.N(600, 60000)
	r.Parallel(work, n, func(i int, rng *mrand.Rand) {
		runHistory(r, &vc, ctr, i, rng)
	})
	vc.flush(r, work)
	for i, name := range ctrNames {
		r.Count(name, ctr.v[i].Load())
	}
	nn := int64(n)
	r.Floor("histories", nn)
	r.Floor("publishes", 2*nn)
	r.Floor("results_updated", nn)
	r.Floor("results_nochange", nn/4)
	r.Floor("results_notfound", nn)
	r.Floor("results_error", nn/10)
	r.Floor("targets_on_later_pages", nn)
	r.Floor("targets_duplicate_in_call", nn/2)
	r.Floor("targets_unknown_zone", nn/4)
	r.Floor("targets_missing_name", nn/4)
	r.Floor("faults_hit_zone_lookup", nn/20)
	r.Floor("faults_hit_list_page1", nn/20)
	r.Floor("faults_hit_patch", nn/20)
	r.Floor("target_ech_absent", nn/4)
	r.Floor("target_ech_unquoted", nn/4)
	r.Floor("target_ech_twice", nn/20)
	r.Floor("zones_3_pages", nn/10)
	r.Floor("zones_2_pages", nn/10)
	r.Floor("updated_validated", nn)
}
