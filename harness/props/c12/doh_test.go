package c12

import (
	"context"
	"fmt"
	mrand "math/rand/v2"
	"net"
	"net/http"
	"net/http/httptest"
	"runtime"
	"strconv"
	"strings"
	"time"

	"github.com/c2FmZQ/ech"
	"github.com/c2FmZQ/ech/dns"

	"verif/harness/internal/mon"
)

// dohFraming serves DoH answers whose HTTP framing is unusual or hostile: no Content-Length
// (chunked), a Content-Length that is larger or smaller than the body, zero, just beyond 64 KiB,
// bodies cut mid-way, and (thorough tier: they make retryablehttp back off) syntactically bad or
// duplicated length headers written on a hijacked connection. Whatever arrives, dns.DoH and
// Resolver.Resolve must return a value or an error - never panic - and allocate within bounds.
// theQuery is what every call of this workload asks.
var theQuery = dns.Question{Name: "example.com", Type: 65, Class: 1}

// answersTheQuery: is m a response (QR=1) to theQuery sent with id 1? A DoH client may refuse anything else.
func answersTheQuery(m *dns.Message) bool {
	return m.QR == 1 && m.ID == 1 && len(m.Question) == 1 && strings.EqualFold(strings.TrimSuffix(m.Question[0].Name, "."), theQuery.Name) &&
		m.Question[0].Type == theQuery.Type && m.Question[0].Class == theQuery.Class
}

func dohFraming(r *mon.Run, bodies [][]byte) {
	// Every body that decodes is also served re-headed as a response to the query that will be sent (same id, QR=1,
	// the question echoed): an arbitrary DNS message is not something a DoH client has to accept as its answer, a
	// response to its own query is. The exact-decoding rule below applies to those.
	for _, b := range append([][]byte{}, bodies...) {
		m, err := dns.DecodeMessage(b)
		if err != nil {
			continue
		}
		func() {
			defer func() { recover() }() // a decoded record type the encoder does not write: no variant of this body
			m.ID, m.QR, m.Question = 1, 1, []dns.Question{theQuery}
			if nb := m.Bytes(); len(nb) <= 65535 {
				if back, err := dns.DecodeMessage(nb); err == nil && answersTheQuery(back) {
					bodies = append(bodies, nb)
					r.Count("doh_framing_bodies_that_answer_the_query", 1)
				}
			}
		}()
	}
	type mode struct {
		name  string
		exact bool // Content-Length equals the body: the result must be the decoding of exactly that body
		raw   bool // needs a hijacked connection (malformed headers)
		h    func(w http.ResponseWriter, body []byte)
		rawf func(c net.Conn, body []byte)
	}
	ct := func(w http.ResponseWriter) { w.Header().Set("Content-Type", "application/dns-message") }
	modes := []mode{
		{name: "content-length-exact", exact: true, h: func(w http.ResponseWriter, b []byte) {
			ct(w)
			w.Header().Set("Content-Length", strconv.Itoa(len(b)))
			w.Write(b)
		}},
		{name: "content-length-exact-body-in-pieces", exact: true, h: func(w http.ResponseWriter, b []byte) {
			// the body reaches the client in several reads: header flushed first, then pieces
			ct(w)
			w.Header().Set("Content-Length", strconv.Itoa(len(b)))
			w.WriteHeader(200)
			w.(http.Flusher).Flush()
			for len(b) > 0 {
				n := min(len(b), 1+len(b)/3)
				w.Write(b[:n])
				w.(http.Flusher).Flush()
				b = b[n:]
			}
		}},
		{name: "no-content-length-flushed", h: func(w http.ResponseWriter, b []byte) {
			ct(w)
			w.Write(b[:len(b)/2])
			w.(http.Flusher).Flush()
			w.Write(b[len(b)/2:])
		}},
		{name: "no-content-length-large-write", h: func(w http.ResponseWriter, b []byte) {
			ct(w)
			w.Write(append(append([]byte{}, b...), make([]byte, 4096)...))
		}},
		{name: "no-content-length-empty", h: func(w http.ResponseWriter, b []byte) {
			ct(w)
			w.(http.Flusher).Flush()
		}},
		{name: "content-length-larger-than-body", h: func(w http.ResponseWriter, b []byte) {
			ct(w)
			w.Header().Set("Content-Length", strconv.Itoa(len(b)+1+len(b)%977))
			w.Write(b)
		}},
		{name: "content-length-smaller-than-body", h: func(w http.ResponseWriter, b []byte) {
			ct(w)
			w.Header().Set("Content-Length", strconv.Itoa(len(b)/2))
			w.Write(b)
		}},
		{name: "content-length-zero", h: func(w http.ResponseWriter, b []byte) {
			ct(w)
			w.Header().Set("Content-Length", "0")
		}},
		{name: "content-length-65535", h: func(w http.ResponseWriter, b []byte) {
			ct(w)
			w.Header().Set("Content-Length", "65535")
			w.Write(append(append([]byte{}, b...), make([]byte, 65535-min(len(b), 65535))...)[:65535])
		}},
		{name: "content-length-65536", h: func(w http.ResponseWriter, b []byte) {
			ct(w)
			w.Header().Set("Content-Length", "65536")
			w.Write(make([]byte, 65536))
		}},
		{name: "content-length-16MiB-announced-body-cut", h: func(w http.ResponseWriter, b []byte) {
			ct(w)
			w.Header().Set("Content-Length", strconv.Itoa(16<<20))
			w.Write(b)
		}},
		{name: "status-204", h: func(w http.ResponseWriter, b []byte) { w.WriteHeader(204) }},
		{name: "status-404-with-body", h: func(w http.ResponseWriter, b []byte) { w.WriteHeader(404); w.Write(b) }},
		{name: "raw:content-length-negative", raw: true, rawf: func(c net.Conn, b []byte) {
			fmt.Fprintf(c, "HTTP/1.1 200 OK\r\nContent-Type: application/dns-message\r\nContent-Length: -1\r\n\r\n%s", b)
		}},
		{name: "raw:content-length-not-a-number", raw: true, rawf: func(c net.Conn, b []byte) {
			fmt.Fprintf(c, "HTTP/1.1 200 OK\r\nContent-Length: 0x20\r\n\r\n%s", b)
		}},
		{name: "raw:content-length-overflows", raw: true, rawf: func(c net.Conn, b []byte) {
			fmt.Fprintf(c, "HTTP/1.1 200 OK\r\nContent-Length: 99999999999999999999999\r\n\r\n%s", b)
		}},
		{name: "raw:http10-no-length-close", raw: true, rawf: func(c net.Conn, b []byte) {
			fmt.Fprintf(c, "HTTP/1.0 200 OK\r\nContent-Type: application/dns-message\r\n\r\n%s", b)
		}},
		{name: "raw:chunked-bogus-chunk-size", raw: true, rawf: func(c net.Conn, b []byte) {
			fmt.Fprintf(c, "HTTP/1.1 200 OK\r\nTransfer-Encoding: chunked\r\n\r\nffffffffffffffff\r\n%s", b)
		}},
	}
	srv := httptest.NewServer(http.HandlerFunc(func(w http.ResponseWriter, req *http.Request) {
		q := req.URL.Query()
		mi, _ := strconv.Atoi(q.Get("m"))
		bi, _ := strconv.Atoi(q.Get("b"))
		m, body := modes[mi%len(modes)], bodies[bi%len(bodies)]
		if m.raw {
			c, _, err := w.(http.Hijacker).Hijack()
			if err != nil {
				return
			}
			m.rawf(c, body)
			c.Close()
			return
		}
		m.h(w, body)
	}))
	defer srv.Close()

	type job struct{ m, b int }
	var jobs []job
	perMode := r.N(6, 60)
	for mi, m := range modes {
		n := perMode
		if m.raw {
			if !r.Thorough() {
				continue // malformed headers make the HTTP client retry with back-off (about 15 s per call)
			}
			n = 2
		}
		for k := 0; k < n; k++ {
			jobs = append(jobs, job{mi, k*5 + mi})
		}
	}
	r.ParallelW("doh-framing", len(jobs), 16, func(i int, rng *mrand.Rand) {
		j := jobs[i]
		m := modes[j.m]
		url := fmt.Sprintf("%s/dns-query?m=%d&b=%d", srv.URL, j.m, j.b)
		c := map[string]any{"framing": m.name, "body": mon.Clip(mon.Hex(bodies[j.b%len(bodies)]), 300)}
		q := &dns.Message{ID: 1, RD: 1, Question: []dns.Question{theQuery}}
		ctx, cancel := context.WithTimeout(context.Background(), 60*time.Second)
		defer cancel()
		r.Guard("doh-framing", i, "doh-framing:"+m.name, c, func() {
			msg, err := dns.DoH(ctx, q, url)
			if m.exact {
				body := bodies[j.b%len(bodies)]
				want, werr := dns.DecodeMessage(body)
				switch {
				case werr == nil && err != nil && !answersTheQuery(want):
					r.Count("doh_framing_decodable_bodies_that_do_not_answer_the_query_refused", 1) // allowed
				case (werr == nil) != (err == nil):
					r.Violate("doh-framing", i, "doh-framing:result-is-not-the-decoding-of-the-body:"+m.name, fmt.Sprintf("DoH returned err=%v for a %d-byte body with a matching Content-Length whose direct decoding gives err=%v", err, len(body), werr), c)
				case err == nil && fmt.Sprintf("%+v", *msg) != fmt.Sprintf("%+v", *want):
					r.Violate("doh-framing", i, "doh-framing:result-is-not-the-decoding-of-the-body:"+m.name, fmt.Sprintf("DoH returned a message with %d answers for a %d-byte body that decodes to %d answers (or other fields differ)", len(msg.Answer), len(body), len(want.Answer)), c)
				default:
					r.Count("doh_framing_exact_bodies_compared", 1)
				}
			}
			out := "error"
			if err == nil && msg != nil {
				out = "message"
			}
			if err == nil && msg == nil {
				r.Violate("doh-framing", i, "doh-framing:nil-message-and-nil-error", "dns.DoH returned neither a message nor an error for framing "+m.name, c)
			}
			r.Count("doh_framing_calls", 1)
			r.Count("doh_framing_"+out, 1)
			r.Eval(fmt.Sprintf("doh|%s|%d|%s", m.name, j.b%len(bodies), out))
		})
		if i%3 == 0 && !m.raw {
			r.Guard("doh-framing", i, "doh-framing:resolve:"+m.name, c, func() {
				res, err := ech.NewResolver(url)
				if err != nil {
					r.Inconclusive("NewResolver(%s): %v", url, err)
					return
				}
				_, rerr := res.Resolve(ctx, "example.com")
				r.Count("doh_framing_resolves", 1)
				r.Eval(fmt.Sprintf("doh-resolve|%s|%v", m.name, rerr == nil))
			})
		}
	})
	// the announced length must not be trusted for allocation: serial calls, allocation accounted per call
	for mi, m := range modes {
		if !strings.HasPrefix(m.name, "content-length-16MiB") {
			continue
		}
		for k := 0; k < 3 && !r.Replaying(); k++ {
			url := fmt.Sprintf("%s/dns-query?m=%d&b=%d", srv.URL, mi, k)
			q := &dns.Message{ID: 1, RD: 1, Question: []dns.Question{{Name: "example.com", Type: 65, Class: 1}}}
			c := map[string]any{"framing": m.name}
			r.Guard("doh-alloc", k, "doh-framing:alloc", c, func() {
				var ms0, ms1 runtime.MemStats
				runtime.GC()
				runtime.ReadMemStats(&ms0)
				_, err := dns.DoH(context.Background(), q, url)
				runtime.ReadMemStats(&ms1)
				d := ms1.TotalAlloc - ms0.TotalAlloc
				c["allocated_bytes"], c["err"] = d, fmt.Sprint(err)
				if d > 4<<20 {
					r.Violate("doh-alloc", k, "doh-framing:allocation-follows-announced-length", fmt.Sprintf("%d bytes allocated for a response that announced 16 MiB and delivered a few hundred bytes", d), c)
				}
				r.Count("doh_framing_alloc_checked", 1)
			})
		}
	}
	r.Floor("doh_framing_calls", int64(len(jobs))*9/10)
	r.Floor("doh_framing_message", 3)
	r.Floor("doh_framing_exact_bodies_compared", 8)
	r.Floor("doh_framing_error", int64(len(jobs))/3)
}
