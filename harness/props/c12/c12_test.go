// C12 — decoding any DNS message terminates, within bounds, without panicking.
//
// Layout of the check:
//
//   - TestCheck (parent, talks to mon) generates hostile inputs in batches,
//     writes each batch to a file and has a helper process decode it.
//   - TestWorker (the same test binary re-executed with VERIF_C12_WORKER=1)
//     decodes the inputs one at a time. Before each call it logs the input
//     index; a monitor goroutine samples runtime/metrics
//     /gc/heap/allocs:bytes and the process CPU time (getrusage) and, when the
//     running call has allocated more than A(n) = 1 MiB + 16*n^2 bytes or used
//     more than 5 CPU-seconds, records the top frame of the decoding goroutine
//     and exits with a distinct status. The parent turns that into a violation
//     naming the input and restarts a worker on the remaining inputs, so one
//     runaway input never hides the others. No verdict depends on wall-clock
//     time: a terminating call is also judged by its allocation delta after it
//     returns; the sampling period only decides how soon a runaway is stopped.
//   - Inputs that were decoded within bounds are (every k-th, and all of the
//     resolver-shaped ones) served as DoH response body by an httptest server
//     to a fresh ech.Resolver in the parent; a panic there is a violation.
//
// Simplification with respect to DESIGN section 6: the CPU budget is sampled by
// the worker itself (getrusage) rather than by the driver via /proc.
package c12

import (
	"bufio"
	"context"
	"encoding/binary"
	"errors"
	"fmt"
	"io"
	"log"
	mrand "math/rand/v2"
	"net"
	"net/http"
	"net/http/httptest"
	"os"
	"os/exec"
	"path/filepath"
	"runtime"
	"runtime/debug"
	"runtime/metrics"
	"strconv"
	"strings"
	"sync"
	"sync/atomic"
	"syscall"
	"testing"
	"time"

	"github.com/c2FmZQ/ech"
	"github.com/c2FmZQ/ech/dns"

	"verif/harness/internal/dnsx"
	"verif/harness/internal/mon"
)

// ---- budgets ----

func allocBudget(n int) uint64 { return 1<<20 + 16*uint64(n)*uint64(n) }

func cpuBudget() time.Duration {
	if raceEnabled {
		return 50 * time.Second // the race detector slows the decoder about tenfold
	}
	return 5 * time.Second
}

const (
	exitAlloc = 3
	exitCPU   = 4
)

// ---- the type table implied by RR.Type ----

func wantGoType(t uint16) string {
	switch t {
	case 1, 28:
		return "net.IP"
	case 2, 5, 12:
		return "string"
	case 6:
		return "dns.SOA"
	case 15:
		return "dns.MX"
	case 16:
		return "dns.TXT"
	case 29:
		return "dns.LOC"
	case 33:
		return "dns.SRV"
	case 37:
		return "dns.CERT"
	case 41:
		return "[]dns.Option"
	case 43:
		return "dns.DS"
	case 46:
		return "dns.RRSIG"
	case 47:
		return "dns.NSEC"
	case 48:
		return "dns.DNSKEY"
	case 64:
		return "dns.SVCB"
	case 65:
		return "dns.HTTPS"
	case 256:
		return "dns.URI"
	case 257:
		return "dns.CAA"
	}
	return "[]uint8"
}

func goType(v any) string {
	switch v.(type) {
	case net.IP:
		return "net.IP"
	case string:
		return "string"
	case []byte:
		return "[]uint8"
	case dns.SOA:
		return "dns.SOA"
	case dns.MX:
		return "dns.MX"
	case dns.TXT:
		return "dns.TXT"
	case dns.LOC:
		return "dns.LOC"
	case dns.SRV:
		return "dns.SRV"
	case dns.CERT:
		return "dns.CERT"
	case []dns.Option:
		return "[]dns.Option"
	case dns.DS:
		return "dns.DS"
	case dns.RRSIG:
		return "dns.RRSIG"
	case dns.NSEC:
		return "dns.NSEC"
	case dns.DNSKEY:
		return "dns.DNSKEY"
	case dns.SVCB:
		return "dns.SVCB"
	case dns.HTTPS:
		return "dns.HTTPS"
	case dns.URI:
		return "dns.URI"
	case dns.CAA:
		return "dns.CAA"
	}
	return fmt.Sprintf("%T", v)
}

// checkTypes returns "" or "<rrtype>:<observed Go type>" for the first record
// whose data has the wrong Go type, and the number of records looked at.
func checkTypes(m *dns.Message) (string, int) {
	n := 0
	for _, sec := range [][]dns.RR{m.Answer, m.Authority, m.Additional} {
		for _, rr := range sec {
			n++
			if got := goType(rr.Data); got != wantGoType(rr.Type) {
				return dnsx.TypeName(rr.Type) + ":" + got, n
			}
		}
	}
	return "", n
}

// ---- worker ----

func readAllocs(s []metrics.Sample) uint64 {
	metrics.Read(s)
	return s[0].Value.Uint64()
}

func cpuNow() time.Duration {
	var ru syscall.Rusage
	if err := syscall.Getrusage(syscall.RUSAGE_SELF, &ru); err != nil {
		return 0
	}
	return time.Duration(ru.Utime.Nano() + ru.Stime.Nano())
}

type running struct {
	idx        int
	n          int
	startAlloc uint64
	startCPU   time.Duration
}

func readInputs(path string) ([][]byte, error) {
	raw, err := os.ReadFile(path)
	if err != nil {
		return nil, err
	}
	var out [][]byte
	for len(raw) >= 4 {
		l := int(binary.BigEndian.Uint32(raw))
		if 4+l > len(raw) {
			return nil, errors.New("truncated input file")
		}
		out = append(out, raw[4:4+l])
		raw = raw[4+l:]
	}
	return out, nil
}

func writeInputs(path string, inputs []input) error {
	var b []byte
	for _, in := range inputs {
		b = binary.BigEndian.AppendUint32(b, uint32(len(in.b)))
		b = append(b, in.b...)
	}
	return os.WriteFile(path, b, 0o644)
}

// TestWorker is the helper process. Protocol on the log file (append only):
//
//	B <i>                                     input i is about to be decoded
//	E <i> <status> <alloc> <cpu_us> <detail>  it returned; status ok|err|panic|type
//	X <i> <alloc|cpu> <alloc> <cpu_us> <frame> the monitor stopped the process
//	D                                         all inputs done
func TestWorker(t *testing.T) {
	if os.Getenv("VERIF_C12_WORKER") != "1" {
		t.Skip("helper process of TestCheck")
	}
	runtime.GOMAXPROCS(2)
	inputs, err := readInputs(os.Getenv("VERIF_C12_IN"))
	if err != nil {
		fmt.Println("WORKER-ERROR", err)
		os.Exit(9)
	}
	from, _ := strconv.Atoi(os.Getenv("VERIF_C12_FROM"))
	lf, err := os.OpenFile(os.Getenv("VERIF_C12_LOG"), os.O_APPEND|os.O_CREATE|os.O_WRONLY, 0o644)
	if err != nil {
		fmt.Println("WORKER-ERROR", err)
		os.Exit(9)
	}
	var cur atomic.Pointer[running]
	var logMu sync.Mutex
	emit := func(s string) {
		logMu.Lock()
		lf.WriteString(s)
		logMu.Unlock()
	}
	cpuMax := cpuBudget()

	// budget monitor
	go func() {
		s := []metrics.Sample{{Name: "/gc/heap/allocs:bytes"}}
		for tick := 0; ; tick++ {
			time.Sleep(500 * time.Microsecond)
			st := cur.Load()
			if st == nil {
				continue
			}
			alloc := readAllocs(s) - st.startAlloc
			var cpu time.Duration
			if tick%64 == 0 {
				cpu = cpuNow() - st.startCPU
			}
			kind, code := "", 0
			if alloc > allocBudget(st.n) {
				kind, code = "alloc", exitAlloc
			} else if cpu > cpuMax {
				kind, code = "cpu", exitCPU
			}
			// the call is still the one the numbers belong to: a new *running is stored per call
			if kind == "" || cur.Load() != st {
				continue
			}
			buf := make([]byte, 1<<20)
			buf = buf[:runtime.Stack(buf, true)]
			frame := "unknown"
			for _, g := range strings.Split(string(buf), "\n\n") {
				if strings.Contains(g, "github.com/c2FmZQ/ech/dns.") {
					frame = mon.TopRepoFrame([]byte(g))
					break
				}
			}
			emit(fmt.Sprintf("X %d %s %d %d %s\n", st.idx, kind, alloc, (cpuNow() - st.startCPU).Microseconds(), frame))
			os.Exit(code)
		}
	}()

	s := []metrics.Sample{{Name: "/gc/heap/allocs:bytes"}}
	for i := from; i < len(inputs); i++ {
		in := inputs[i]
		emit("B " + strconv.Itoa(i) + "\n")
		st := &running{idx: i, n: len(in), startAlloc: readAllocs(s), startCPU: cpuNow()}
		cur.Store(st)
		status, detail := decodeOne(in)
		cur.Store(nil)
		alloc := readAllocs(s) - st.startAlloc
		cpu := cpuNow() - st.startCPU
		emit(fmt.Sprintf("E %d %s %d %d %s\n", i, status, alloc, cpu.Microseconds(), detail))
	}
	emit("D\n")
}

func decodeOne(in []byte) (status, detail string) {
	defer func() {
		if p := recover(); p != nil {
			status = "panic"
			detail = mon.TopRepoFrame(debug.Stack()) + " " + strings.ReplaceAll(fmt.Sprint(p), "\n", " ")
		}
	}()
	m, err := dns.DecodeMessage(in)
	if err != nil {
		return "err", "-"
	}
	if m == nil {
		return "type", "nil-message:nil"
	}
	bad, n := checkTypes(m)
	if bad != "" {
		return "type", bad
	}
	return "ok", strconv.Itoa(n)
}

// ---- parent ----

type outcome struct {
	status string // ok err panic type | alloc cpu crash (worker stopped)
	alloc  uint64
	cpuUS  int64
	detail string
}

// runWorker decodes inputs[from:] in a helper process and returns the
// outcomes it logged, whether it finished, and how it ended otherwise.
func runWorker(exe, dir string, batch, from int) (res map[int]outcome, done bool, exit int, lastBegun int, output string, err error) {
	logPath := filepath.Join(dir, fmt.Sprintf("b%d.log", batch))
	outPath := filepath.Join(dir, fmt.Sprintf("b%d.out", batch))
	os.Remove(logPath)
	cmd := exec.Command(exe, "-test.run", "^TestWorker$", "-test.timeout", "0")
	cmd.Env = append(os.Environ(), "VERIF_C12_WORKER=1", "VERIF_OUT=", "VERIF_ONLY=",
		"VERIF_C12_IN="+filepath.Join(dir, fmt.Sprintf("b%d.in", batch)), "VERIF_C12_LOG="+logPath, "VERIF_C12_FROM="+strconv.Itoa(from))
	of, err := os.Create(outPath)
	if err != nil {
		return nil, false, 0, -1, "", err
	}
	cmd.Stdout, cmd.Stderr = of, of
	runErr := cmd.Run()
	of.Close()
	var ee *exec.ExitError
	if runErr != nil && !errors.As(runErr, &ee) {
		return nil, false, 0, -1, "", runErr
	}
	if ee != nil {
		exit = ee.ExitCode()
	}
	ob, _ := os.ReadFile(outPath)
	output = string(ob)
	res = map[int]outcome{}
	lastBegun = -1
	f, err := os.Open(logPath)
	if err != nil {
		return res, false, exit, -1, output, nil
	}
	defer f.Close()
	sc := bufio.NewScanner(f)
	sc.Buffer(make([]byte, 1<<16), 1<<22)
	for sc.Scan() {
		p := strings.SplitN(sc.Text(), " ", 6)
		switch p[0] {
		case "B":
			lastBegun, _ = strconv.Atoi(p[1])
		case "E", "X":
			if len(p) < 5 {
				continue
			}
			i, _ := strconv.Atoi(p[1])
			o := outcome{status: p[2]}
			o.alloc, _ = strconv.ParseUint(p[3], 10, 64)
			o.cpuUS, _ = strconv.ParseInt(p[4], 10, 64)
			if len(p) > 5 {
				o.detail = p[5]
			}
			res[i] = o
		case "D":
			done = true
		}
	}
	return res, done, exit, lastBegun, output, nil
}

var crashRe = []string{"fatal error: ", "panic: ", "runtime: "}

func classifyCrash(output string) (what, frame string) {
	for _, l := range strings.Split(output, "\n") {
		for _, p := range crashRe {
			if strings.HasPrefix(l, p) {
				at := strings.Index(output, l)
				return strings.TrimSpace(l), mon.TopRepoFrame([]byte(output[at:]))
			}
		}
	}
	return "", ""
}

func genInput(r *mon.Run, forced []forcedCase, stride, g int) input {
	rng := r.Rand("c12-input", g)
	if g%stride == 0 && g/stride < len(forced) {
		fc := forced[g/stride]
		return input{b: clip(fc.make(rng)), class: fc.class, drive: fc.drive}
	}
	switch k := rng.IntN(20); {
	case k < 8:
		forRes := rng.IntN(3) == 0
		b, kinds := mutate(rng, validPacket(rng, forRes))
		return input{b: b, class: "mut:" + kinds, drive: forRes && rng.IntN(16) == 0}
	case k < 12:
		return input{b: clip(grammar(rng)), class: "grammar"}
	case k < 14:
		all := append(append([]uint16{}, decoderTypes...), defaultTypes...)
		t := all[rng.IntN(len(all))]
		rd, kinds := mutate(rng, sampleRData(rng, t))
		l := len(rd)
		if rng.IntN(6) == 0 {
			l += rng.IntN(7) - 3
			if l < 0 {
				l = 0
			}
		}
		drive := rng.IntN(40) == 0
		class := uint16(1)
		if rng.IntN(4) == 0 {
			class = rrClasses[rng.IntN(len(rrClasses))]
		}
		return input{b: clip(wrapRDataClass(t, class, rd, l, true)), class: "rdata:mut-" + kinds + ":" + dnsx.TypeName(t), drive: drive}
	case k < 15:
		return input{b: validPacket(rng, true), class: "resolver:valid", drive: rng.IntN(8) == 0}
	case k < 17:
		return input{b: validPacket(rng, false), class: "valid"}
	default:
		n := rng.IntN(64)
		if rng.IntN(20) == 0 {
			n = rng.IntN(2000)
		}
		b := rnd(rng, n)
		if n >= 12 && rng.IntN(2) == 0 {
			copy(b[2:], []byte{0x81, 0x80, 0, byte(rng.IntN(3)), 0, byte(rng.IntN(3)), 0, byte(rng.IntN(2)), 0, byte(rng.IntN(2))})
		}
		return input{b: b, class: fmt.Sprintf("random:%d", min(n, 64)/8)}
	}
}

func clip(b []byte) []byte {
	if len(b) > maxInput {
		return b[:maxInput]
	}
	return b
}

// asResponseTo makes the bytes that are served look like a response to the query that was received, as far as that
// can be done without re-encoding them: the query's id, QR=1 and - when the body's first question names the same
// name - the query's type and class. (One input is served for the HTTPS, the A and the AAAA query of a Resolve call;
// a DoH client may refuse a message that does not answer its query.) Bodies that cannot be patched are served as
// they are.
func asResponseTo(query, body []byte) []byte {
	if len(query) < 12 || len(body) < 12 {
		return body
	}
	out := append([]byte{}, body...)
	out[0], out[1] = query[0], query[1]
	out[2] |= 0x80
	endOfName := func(b []byte) int { // offset just behind the uncompressed name that starts at 12, or -1
		i := 12
		for i < len(b) {
			l := int(b[i])
			switch {
			case l == 0:
				return i + 1
			case l >= 64:
				return -1
			}
			i += 1 + l
		}
		return -1
	}
	qe, be := endOfName(query), endOfName(out)
	if qe < 0 || be < 0 || qe+4 > len(query) || be+4 > len(out) || int(out[4])<<8|int(out[5]) != 1 {
		return out
	}
	if strings.EqualFold(string(query[12:qe]), string(out[12:be])) {
		copy(out[be:be+4], query[qe:qe+4])
	}
	return out
}

func TestCheck(t *testing.T) {
	r := mon.Start(t, "C12", "exploration")
	defer r.Finish()
	log.SetOutput(io.Discard) // the resolver logs alias loops
	r.SetRule("seed-determined byte strings of 0..65535 bytes: a forced list (compression-pointer shapes — self, label-then-pointer-back, 2-/3-cycles, forward, out of range, last byte, into header/RDATA, chains of 1..2000 pointers with and without labels — " +
		"at 13 name positions: question, owner, NS/CNAME/PTR/MX/SOA/SRV/RRSIG/NSEC/SVCB/HTTPS RDATA; lying section counts; valid/empty/truncated/over-long/filled RDATA and lying RDLENGTH for every type of the decoder's switch and 5 unknown types; " +
		"1K..64K inputs incl. the quadratic long-name x many-pointers shape) interleaved with random mutations of valid dnsmessage-built packets, grammar-drawn messages, mutated typed RDATA and random bytes. " +
		"Each is decoded in a helper process under an allocation (1 MiB + 16 n^2 bytes) and CPU (5 s) budget; decoded messages are type-checked; inputs decoded within bounds are served to ech.Resolver.Resolve as DoH bodies. " +
		"A second workload serves DoH answers with unusual HTTP framing (no Content-Length, lengths larger/smaller than the body, 0, 65535, 65536, 16 MiB announced, non-200; thorough: malformed length headers on hijacked connections) to dns.DoH and Resolver.Resolve. " +
		"distinct = distinct (input class, decode outcome) pairs")
	r.Assume("runtime/metrics /gc/heap/allocs:bytes and getrusage of the helper process attribute allocation and CPU to the single decode call running in it",
		"net/http/httptest as DoH server; ech.NewResolver accepts plain http on 127.0.0.1")

	exe, err := os.Executable()
	if err != nil {
		r.Inconclusive("cannot locate the test binary: %v", err)
		return
	}
	dir, err := os.MkdirTemp("", "c12-")
	if err != nil {
		r.Inconclusive("temp dir: %v", err)
		return
	}
	defer os.RemoveAll(dir)

	const batchSize = 2000
	nInputs := r.N(200000, 4000000)
	if raceEnabled {
		nInputs /= 8
	}
	driveEvery := r.N(120, 1200)
	forced := forcedList()
	stride := nInputs / (len(forced) + 1)
	if stride < 1 {
		r.Inconclusive("forced list (%d) does not fit in %d inputs", len(forced), nInputs)
		return
	}
	nBatches := (nInputs + batchSize - 1) / batchSize
	r.Extra("forced_cases", len(forced))
	var maxFrac, maxCPU atomic.Uint64 // max alloc/budget in 1e-6 units, max cpu in us

	runBatch := func(b int) {
		inputs := make([]input, 0, batchSize)
		for j := 0; j < batchSize && b*batchSize+j < nInputs; j++ {
			inputs = append(inputs, genInput(r, forced, stride, b*batchSize+j))
		}
		if err := writeInputs(filepath.Join(dir, fmt.Sprintf("b%d.in", b)), inputs); err != nil {
			r.Inconclusive("batch %d: %v", b, err)
			return
		}
		payload := func(j int) map[string]any {
			return map[string]any{"input": mon.Hex(inputs[j].b), "len": len(inputs[j].b), "class": inputs[j].class, "batch": b, "index_in_batch": j}
		}
		within := make([]bool, len(inputs)) // decoded (or rejected) within bounds, no panic
		from := 0
		for from < len(inputs) {
			res, done, exit, lastBegun, output, err := runWorker(exe, dir, b, from)
			if err != nil {
				r.Inconclusive("batch %d: cannot run the helper process: %v", b, err)
				return
			}
			for j := from; j < len(inputs); j++ {
				o, logged := res[j]
				if !logged {
					continue
				}
				in := inputs[j]
				n := len(in.b)
				r.Eval(in.class + "|" + o.status)
				r.Count("inputs", 1)
				switch o.status {
				case "ok", "err":
					r.Count("decode_"+o.status, 1)
					if o.status == "ok" {
						k, _ := strconv.Atoi(o.detail)
						r.Count("records_type_checked", int64(k))
					}
					if o.alloc > allocBudget(n) {
						r.Violate("decode", b, "bounds:alloc", fmt.Sprintf("DecodeMessage of a %d-byte input (%s) returned after allocating %d bytes > 1 MiB + 16 n^2 = %d", n, in.class, o.alloc, allocBudget(n)), payload(j))
					} else if time.Duration(o.cpuUS)*time.Microsecond > cpuBudget() {
						r.Violate("decode", b, "bounds:cpu", fmt.Sprintf("DecodeMessage of a %d-byte input (%s) used %d us of CPU", n, in.class, o.cpuUS), payload(j))
					} else {
						within[j] = true
					}
					if f := o.alloc * 1000000 / allocBudget(n); f > maxFrac.Load() {
						maxFrac.Store(f)
					}
					if c := uint64(o.cpuUS); c > maxCPU.Load() {
						maxCPU.Store(c)
					}
				case "panic":
					frame, _, _ := strings.Cut(o.detail, " ")
					r.Violate("decode", b, "decode:panic@"+frame, fmt.Sprintf("DecodeMessage panicked on a %d-byte input (%s): %s", n, in.class, o.detail), payload(j))
				case "type":
					r.Violate("decode", b, "type:"+o.detail, fmt.Sprintf("decoded record data has the wrong Go type (record type : observed type = %s), input class %s", o.detail, in.class), payload(j))
				case "alloc", "cpu":
					r.Count("worker_stopped_by_monitor", 1)
					lim := fmt.Sprintf("allocated %d bytes > 1 MiB + 16 n^2 = %d", o.alloc, allocBudget(n))
					if o.status == "cpu" {
						lim = fmt.Sprintf("used %d us of CPU > %v", o.cpuUS, cpuBudget())
					}
					r.Violate("decode", b, "bounds:"+o.status+"@"+o.detail, fmt.Sprintf("DecodeMessage of a %d-byte input (%s) was still running in %s when it had %s; the helper process was stopped", n, in.class, o.detail, lim), payload(j))
				}
			}
			if done {
				break
			}
			// the worker ended early: by the monitor (the culprit has an X line) or by a crash
			if lastBegun < from {
				r.Inconclusive("batch %d: helper process exited (status %d) before decoding anything: %s", b, exit, mon.Clip(output, 600))
				return
			}
			if _, logged := res[lastBegun]; !logged {
				what, frame := classifyCrash(output)
				r.Eval(inputs[lastBegun].class + "|crash")
				if what == "" {
					r.Inconclusive("batch %d: helper process died (status %d) without a classifiable cause while decoding input %d: %s", b, exit, lastBegun, mon.Clip(output, 600))
				} else {
					sig := strings.ReplaceAll(strings.SplitN(what, ":", 2)[0], " ", "_")
					p := payload(lastBegun)
					p["output_tail"] = mon.Clip(output, 3000)
					r.Violate("decode", b, "crash:"+sig+"@"+frame, fmt.Sprintf("the process died while DecodeMessage ran on a %d-byte input (%s): %s", len(inputs[lastBegun].b), inputs[lastBegun].class, what), p)
				}
			}
			from = lastBegun + 1
		}

		// resolver drives, in this process: only inputs known to decode within bounds
		var body atomic.Pointer[[]byte]
		srv := httptest.NewUnstartedServer(http.HandlerFunc(func(w http.ResponseWriter, req *http.Request) {
			query, _ := io.ReadAll(io.LimitReader(req.Body, 65536))
			p := asResponseTo(query, *body.Load())
			w.Header().Set("Content-Type", "application/dns-message")
			w.Header().Set("Content-Length", strconv.Itoa(len(p)))
			w.WriteHeader(200) // never 5xx: the DoH client would retry for seconds
			w.Write(p)
		}))
		srv.Config.SetKeepAlivesEnabled(false)
		srv.Start()
		defer srv.Close()
		for j := range inputs {
			g := b*batchSize + j
			if !within[j] || !(inputs[j].drive || g%driveEvery == 0) {
				continue
			}
			p := inputs[j].b
			body.Store(&p)
			pl := payload(j)
			r.Guard("decode", b, "resolve", pl, func() {
				res, err := ech.NewResolver(srv.URL)
				if err != nil {
					r.Inconclusive("NewResolver(%s): %v", srv.URL, err)
					return
				}
				res.SetCacheSize(0)
				ctx, cancel := context.WithTimeout(context.Background(), 120*time.Second) // watchdog only
				defer cancel()
				out, err := res.Resolve(ctx, "example.com")
				r.EvalN(1)
				r.Count("resolver_drives", 1)
				switch {
				case ctx.Err() != nil:
					r.Inconclusive("Resolve did not return within the 120 s watchdog (batch %d input %d)", b, j)
				case err != nil:
					r.Count("resolver_errors", 1)
				default:
					r.Count("resolver_results", 1)
					if len(out.Address) > 0 {
						r.Count("resolver_results_with_addresses", 1)
					}
					if len(out.HTTPS) > 0 {
						r.Count("resolver_results_with_https", 1)
					}
					// walk the result the way Dial does
					for range out.Targets("tcp") {
					}
				}
			})
		}
		if b == 0 {
			for j := 0; j < len(inputs) && j < 3; j++ {
				r.Sample(map[string]any{"workload": "decode", "class": inputs[j].class, "input": mon.Clip(mon.Hex(inputs[j].b), 400)})
			}
		}
	}
	// Batch 0 starts with the canonical minimal inputs of the forced list and runs first, so
	// that the example stored for a signature is the same in every run.
	if !r.Replaying() {
		runBatch(0)
	}
	r.Parallel("decode", nBatches, func(b int, _ *mrand.Rand) {
		if b == 0 && !r.Replaying() {
			return
		}
		runBatch(b)
	})
	// -- DoH answers with unusual or hostile HTTP framing --
	{
		brng := r.Rand("doh-bodies", 0)
		bodies := [][]byte{{}, rnd(brng, 12), rnd(brng, 700)}
		for k := 0; k < 4; k++ {
			bodies = append(bodies, grammar(brng))
		}
		for k := 0; k < 7; k++ {
			bodies = append(bodies, validPacket(brng, true))
		}
		// large answers (16 KiB and 64 KiB of small records): more than one read of the HTTP body
		bodies = append(bodies, bigInput(brng, 6*len(bigSizes)+2), bigInput(brng, 6*len(bigSizes)+3), bigInput(brng, 6*len(bigSizes)+1))
		dohFraming(r, bodies)
	}
	r.Extra("max_alloc_over_budget_ppm", maxFrac.Load())
	r.Extra("max_cpu_us_one_call", maxCPU.Load())
	r.Floor("inputs", int64(nInputs)*99/100)
	r.Floor("decode_ok", int64(nInputs)/20)
	r.Floor("decode_err", int64(nInputs)/20)
	r.Floor("records_type_checked", int64(nInputs)/10)
	r.Floor("resolver_drives", int64(nInputs/driveEvery)/2)
	r.Floor("resolver_results_with_addresses", 20)
	r.Floor("resolver_results_with_https", 20)
}
