package c12

// Hostile input generator for C12. Every input is a deterministic function of
// (seed, global input index).

import (
	"encoding/binary"
	"fmt"
	mrand "math/rand/v2"

	"verif/harness/internal/dnsx"
)

const maxInput = 65535 // the DoH client refuses longer bodies

type input struct {
	b     []byte
	class string // family:shape[:position] — part of the distinct-case fingerprint
	drive bool   // always serve to the resolver
}

// ---- a tiny assembler ----

type asm struct{ b []byte }

func (a *asm) off() int       { return len(a.b) }
func (a *asm) u8(v int)       { a.b = append(a.b, byte(v)) }
func (a *asm) u16(v int)      { a.b = binary.BigEndian.AppendUint16(a.b, uint16(v)) }
func (a *asm) u32(v uint32)   { a.b = binary.BigEndian.AppendUint32(a.b, v) }
func (a *asm) raw(p []byte)   { a.b = append(a.b, p...) }
func (a *asm) ptr(target int) { a.u16(0xc000 | target&0x3fff) }
func (a *asm) name(n string)  { a.b = dnsx.AppendName(a.b, n) }
func (a *asm) label(n int, c byte) {
	a.u8(n)
	for i := 0; i < n; i++ {
		a.u8(int(c))
	}
}
func (a *asm) header(id, flags, qd, an, ns, ar int) {
	a.u16(id)
	a.u16(flags)
	a.u16(qd)
	a.u16(an)
	a.u16(ns)
	a.u16(ar)
}

// rr writes owner (by callback), fixed fields and RDATA with a correct RDLENGTH.
func (a *asm) rr(owner func(), typ int, rdata func()) {
	owner()
	a.u16(typ)
	a.u16(1)
	a.u32(300)
	at := a.off()
	a.u16(0)
	rdata()
	binary.BigEndian.PutUint16(a.b[at:], uint16(a.off()-at-2))
}

func root(a *asm) func() { return func() { a.u8(0) } }

// ---- sample RDATA for every type of the decoder's switch ----

var decoderTypes = []uint16{1, 2, 5, 12, 6, 15, 16, 28, 29, 33, 37, 41, 43, 46, 47, 48, 64, 65, 256, 257}
var defaultTypes = []uint16{0, 3, 99, 255, 65535}

func rnd(rng *mrand.Rand, n int) []byte {
	b := make([]byte, n)
	for i := range b {
		b[i] = byte(rng.IntN(256))
	}
	return b
}

func sampleRData(rng *mrand.Rand, t uint16) []byte {
	g := dnsx.NewGen(rng, rng.IntN(4) == 0)
	g.RootData = true
	nm := func() []byte { return dnsx.AppendName(nil, g.DataName()) }
	cat := func(parts ...[]byte) []byte {
		var out []byte
		for _, p := range parts {
			out = append(out, p...)
		}
		return out
	}
	switch t {
	case 1:
		return rnd(rng, 4)
	case 28:
		return rnd(rng, 16)
	case 2, 5, 12:
		return nm()
	case 6:
		return cat(nm(), nm(), rnd(rng, 20))
	case 15:
		return cat(rnd(rng, 2), nm())
	case 16:
		return g.RR("", dnsx.TypeTXT, 0).RData()
	case 29:
		return rnd(rng, 16)
	case 33:
		return cat(rnd(rng, 6), nm())
	case 37:
		return rnd(rng, 5+rng.IntN(30))
	case 41:
		return g.OPT(true).RData()
	case 43:
		return rnd(rng, 4+rng.IntN(33))
	case 46:
		return cat(rnd(rng, 18), nm(), rnd(rng, rng.IntN(40)))
	case 47:
		return cat(nm(), rnd(rng, rng.IntN(12)))
	case 48:
		return rnd(rng, 4+rng.IntN(40))
	case 64, 65:
		return g.SvcArbitrary().Encode()
	case 256:
		return rnd(rng, 4+rng.IntN(30))
	case 257:
		tag := rnd(rng, 1+rng.IntN(8))
		return cat([]byte{byte(rng.IntN(256)), byte(len(tag))}, tag, rnd(rng, rng.IntN(30)))
	}
	return rnd(rng, rng.IntN(40))
}

// ---- family 1: compression pointer shapes at every name position ----

type namePos struct {
	id        string
	typ       int
	pre, post []byte
}

var namePositions = []namePos{
	{id: "question"},
	{id: "owner", typ: 1, post: []byte{1, 2, 3, 4}},
	{id: "NS", typ: 2},
	{id: "CNAME", typ: 5},
	{id: "PTR", typ: 12},
	{id: "MX", typ: 15, pre: []byte{0, 10}},
	{id: "SOA-mname", typ: 6, post: append([]byte{0}, make([]byte, 20)...)},
	{id: "SOA-rname", typ: 6, pre: []byte{0}, post: make([]byte, 20)},
	{id: "SRV", typ: 33, pre: []byte{0, 1, 0, 2, 1, 187}},
	{id: "RRSIG", typ: 46, pre: make([]byte, 18), post: []byte{1, 2, 3, 4, 5, 6, 7, 8}},
	{id: "NSEC", typ: 47, post: []byte{0, 1, 0x40}},
	{id: "SVCB", typ: 64, pre: []byte{0, 1}, post: []byte{0, 3, 0, 2, 1, 187}},
	{id: "HTTPS", typ: 65, pre: []byte{0, 1}, post: []byte{0, 1, 0, 3, 2, 'h', '2'}},
}

// a shape writes auxiliary bytes (stored in the RDATA of an earlier record of
// unknown type, i.e. at lower offsets) and the hostile name itself. Lengths
// never depend on the offsets, so two passes fix all values.
type shape struct {
	id   string
	loop bool // expected to make a decoder without loop protection spin
	blob func(a *asm, nameOff, blobOff, total int)
	name func(a *asm, nameOff, blobOff, total int)
}

func chainShape(d int, labels bool) shape {
	id := fmt.Sprintf("chain%d", d)
	if labels {
		id = fmt.Sprintf("labelchain%d", d)
	}
	step := 2
	if labels {
		step = 4
	}
	return shape{id: id,
		blob: func(a *asm, nameOff, blobOff, total int) {
			a.raw([]byte{1, 'a', 0})
			prev := blobOff
			for k := 1; k < d; k++ {
				at := blobOff + 3 + (k-1)*step
				if labels {
					a.raw([]byte{1, 'a'})
				}
				a.ptr(prev)
				prev = at
			}
		},
		name: func(a *asm, nameOff, blobOff, total int) {
			last := blobOff
			if d > 1 {
				last = blobOff + 3 + (d-2)*step
			}
			a.ptr(last)
		}}
}

func pointerShapes() []shape {
	none := func(a *asm, nameOff, blobOff, total int) {}
	s := []shape{
		{id: "self", loop: true, blob: none, name: func(a *asm, n, b, t int) { a.ptr(n) }},
		{id: "loop2", loop: true, blob: none, name: func(a *asm, n, b, t int) { a.label(1, 'a'); a.label(1, 'b'); a.ptr(n + 2) }},
		{id: "fwd", blob: none, name: func(a *asm, n, b, t int) { a.ptr(n + 2); a.raw([]byte{1, 'a', 0}) }},
		{id: "fwd-far", blob: none, name: func(a *asm, n, b, t int) { a.ptr(n + 40) }},
		{id: "hdr0", blob: none, name: func(a *asm, n, b, t int) { a.ptr(0) }},
		{id: "hdr6", blob: none, name: func(a *asm, n, b, t int) { a.ptr(6) }},
		{id: "oob", blob: none, name: func(a *asm, n, b, t int) { a.ptr(0x3fff) }},
		{id: "last-byte", blob: none, name: func(a *asm, n, b, t int) { a.ptr(t - 1) }},
		{id: "end", blob: none, name: func(a *asm, n, b, t int) { a.ptr(t) }},
		{id: "label-then-last", blob: none, name: func(a *asm, n, b, t int) { a.label(2, 'x'); a.ptr(t - 1) }},
		{id: "half-pointer", blob: none, name: func(a *asm, n, b, t int) { a.label(1, 'a'); a.u8(0xc0) }},
		{id: "reserved-40", blob: none, name: func(a *asm, n, b, t int) { a.u8(0x40); a.u8(0) }},
		{id: "reserved-80", blob: none, name: func(a *asm, n, b, t int) { a.u8(0x80); a.u8(0) }},
		{id: "blob-loop", loop: true, blob: func(a *asm, n, b, t int) { a.raw([]byte{1, 'a'}); a.ptr(b) }, name: func(a *asm, n, b, t int) { a.ptr(b) }},
		{id: "blob-2cycle", loop: true, blob: func(a *asm, n, b, t int) { a.ptr(n) }, name: func(a *asm, n, b, t int) { a.ptr(b) }},
		{id: "blob-3cycle", loop: true, blob: func(a *asm, n, b, t int) { a.ptr(n); a.ptr(b) }, name: func(a *asm, n, b, t int) { a.ptr(b + 2) }},
		{id: "label-2cycle", loop: true, blob: func(a *asm, n, b, t int) { a.raw([]byte{1, 'a'}); a.ptr(n) }, name: func(a *asm, n, b, t int) { a.raw([]byte{1, 'b'}); a.ptr(b) }},
		// pointer-only cycles that live entirely in earlier, opaque bytes and are entered through one more pointer: a decoder that
		// bounds pointers by the start of the name being decoded (instead of by the pointer being followed) never leaves them
		{id: "blob-self-ptr", loop: true, blob: func(a *asm, n, b, t int) { a.ptr(b) }, name: func(a *asm, n, b, t int) { a.ptr(b) }},
		{id: "blob-ptr-2cycle", loop: true, blob: func(a *asm, n, b, t int) { a.ptr(b + 2); a.ptr(b) }, name: func(a *asm, n, b, t int) { a.ptr(b) }},
		{id: "blob-fwd-then-self", loop: true, blob: func(a *asm, n, b, t int) { a.ptr(b + 2); a.ptr(b + 2) }, name: func(a *asm, n, b, t int) { a.ptr(b) }},
		{id: "blob-ptr-3cycle", loop: true, blob: func(a *asm, n, b, t int) { a.ptr(b + 4); a.ptr(b); a.ptr(b + 2) }, name: func(a *asm, n, b, t int) { a.ptr(b + 2) }},
		{id: "blob-rdata-mid", blob: func(a *asm, n, b, t int) { a.raw([]byte{0xff, 0xff, 3, 'w', 'w', 'w', 0}) }, name: func(a *asm, n, b, t int) { a.ptr(b + 2) }},
	}
	for _, l := range []int{1, 3, 63, 64, 191} {
		l := l
		s = append(s, shape{id: fmt.Sprintf("loop-L%d", l), loop: true, blob: none, name: func(a *asm, n, b, t int) { a.label(l, 'a'); a.ptr(n) }})
	}
	for _, d := range []int{1, 2, 3, 10, 11, 12, 100, 127, 128, 1000, 2000} {
		s = append(s, chainShape(d, false), chainShape(d, true))
	}
	return s
}

func buildPointerCase(p namePos, s shape) []byte {
	pass := func(nameOff, blobOff, total int) (out []byte, gotName, gotBlob int) {
		a := &asm{}
		if p.id == "question" {
			a.header(0x1234, 0x8180, 2, 2, 0, 0)
			// the question section comes first, so the auxiliary bytes cannot precede the
			// name; they live in the record after it (forward references only).
			gotName = a.off()
			s.name(a, nameOff, blobOff, total)
			a.u16(1)
			a.u16(1)
			a.name("example.com")
			a.u16(1)
			a.u16(1)
			a.rr(root(a), 0xff01, func() { gotBlob = a.off(); s.blob(a, nameOff, blobOff, total) })
			a.rr(func() { a.name("example.com") }, 1, func() { a.raw([]byte{192, 0, 2, 1}) })
			return a.b, gotName, gotBlob
		}
		a.header(0x1234, 0x8180, 1, 3, 0, 0)
		a.name("example.com")
		a.u16(65)
		a.u16(1)
		a.rr(root(a), 0xff01, func() { gotBlob = a.off(); s.blob(a, nameOff, blobOff, total) })
		if p.id == "owner" {
			a.rr(func() { gotName = a.off(); s.name(a, nameOff, blobOff, total) }, p.typ, func() { a.raw(p.post) })
		} else {
			a.rr(func() { a.name("example.com") }, p.typ, func() {
				a.raw(p.pre)
				gotName = a.off()
				s.name(a, nameOff, blobOff, total)
				a.raw(p.post)
			})
		}
		a.rr(func() { a.name("example.com") }, 1, func() { a.raw([]byte{192, 0, 2, 1}) })
		return a.b, gotName, gotBlob
	}
	b, n, bl := pass(0, 0, 0)
	b, _, _ = pass(n, bl, len(b))
	return b
}

// headerLoop: the header itself is read as a label that runs into the pointer.
func headerLoop(variant int) []byte {
	a := &asm{}
	if variant == 0 {
		a.header(0x0b00, 0x0100, 1, 0, 0, 0) // byte 0 = 11: a label covering bytes 1..11
		a.ptr(0)
	} else {
		a.header(0x0000, 0x0900, 1, 0, 0, 0) // byte 2 = 9: a label covering bytes 3..11
		a.ptr(2)
	}
	a.u16(1)
	a.u16(1)
	return a.b
}

// ---- family 2: RDATA of every type: valid, truncated, over-long, lying RDLENGTH ----

func wrapRData(typ uint16, rdata []byte, rdlen int, tail bool) []byte {
	return wrapRDataClass(typ, 1, rdata, rdlen, tail)
}

// rrClasses are the classes of the record under test besides IN: the decoded Go type is a function of the record
// type alone, whatever the class says (RFC 2136 uses NONE and ANY with empty RDATA; 0 and 0xffff are reserved).
var rrClasses = []uint16{0, 3, 254, 255, 0xffff}

func wrapRDataClass(typ, class uint16, rdata []byte, rdlen int, tail bool) []byte {
	a := &asm{}
	n := 1
	if tail {
		n = 2
	}
	a.header(7, 0x8400, 1, n, 0, 0)
	a.name("example.com")
	a.u16(int(typ))
	a.u16(1)
	a.name("example.com")
	a.u16(int(typ))
	a.u16(int(class))
	a.u32(60)
	a.u16(rdlen)
	a.raw(rdata)
	if tail {
		a.rr(func() { a.ptr(12) }, 1, func() { a.raw([]byte{192, 0, 2, 7}) })
	}
	return a.b
}

// ---- family 3: big inputs ----

func quadratic(n int) []byte {
	// one long label sequence, then as many records as fit whose owner and RDATA point at it
	a := &asm{}
	// Sizing: each record decodes the L-label name twice, so the work is 2*L*R label
	// reads. The full 64 KiB shape (L = n/4, R = n/28: 77 M label reads) costs the
	// unchanged decoder 3.2 CPU-seconds here - inside the 5 s budget but too close to
	// it for a load-independent verdict - so the largest case is scaled to about 30 M.
	L := n / 4
	R := (n/2 - 30) / 14
	if n > 40000 {
		L, R = 8192, 1800
	}
	if R < 1 {
		R = 1
	}
	a.header(9, 0x8000, 0, R+1, 0, 0)
	var chain int
	a.owner0(func() { chain = a.off() }, L)
	for i := 0; i < R && a.off()+14 <= maxInput; i++ {
		a.rr(func() { a.ptr(chain) }, 2, func() { a.ptr(chain) })
	}
	return a.b
}

func (a *asm) owner0(mark func(), labels int) {
	// record of unknown type whose RDATA is one very long name
	a.rr(root(a), 0xff02, func() {
		mark()
		for i := 0; i < labels; i++ {
			a.raw([]byte{1, 'a'})
		}
		a.u8(0)
	})
}

var bigKinds = []string{"random", "zeros-maxcounts", "quadratic", "txt", "opt", "https", "many-a", "long-name", "random-maxcounts", "pointer-chain-fanin"}
var bigSizes = []int{1024, 4096, 16384, maxInput}

func bigClass(k int) (class string, drive bool) {
	kind := (k / len(bigSizes)) % len(bigKinds)
	return fmt.Sprintf("big:%s:%d", bigKinds[kind], bigSizes[k%len(bigSizes)]), kind == 5 || kind == 6
}

func bigInput(rng *mrand.Rand, k int) []byte {
	n := bigSizes[k%len(bigSizes)]
	kind := (k / len(bigSizes)) % len(bigKinds)
	a := &asm{}
	switch kind {
	case 0:
		return rnd(rng, n)
	case 1:
		b := make([]byte, n)
		binary.BigEndian.PutUint16(b[4:], 0xffff)
		binary.BigEndian.PutUint16(b[6:], 0xffff)
		return b
	case 2:
		return quadratic(n)
	case 3: // TXT records of many one-byte strings
		cnt := (n - 40) / 300
		a.header(1, 0x8000, 0, cnt, 0, 0)
		for i := 0; i < cnt; i++ {
			a.rr(root(a), 16, func() {
				for j := 0; j < 280/2; j++ {
					a.raw([]byte{1, 'x'})
				}
			})
		}
		return a.b
	case 4: // OPT with as many empty options as fit
		a.header(1, 0x8000, 0, 0, 0, 1)
		a.rr(root(a), 41, func() {
			for a.off()+4 < n-4 {
				a.u16(12)
				a.u16(0)
			}
		})
		return a.b
	case 5: // HTTPS with an alpn value made of empty ids and many parameters
		a.header(1, 0x8180, 0, 1, 0, 0)
		a.rr(func() { a.name("example.com") }, 65, func() {
			a.u16(1)
			a.u8(0)
			a.u16(1)
			half := (n - 60) / 2
			a.u16(half)
			a.raw(make([]byte, half))
			for k := 7; a.off()+4 < n-8; k++ {
				a.u16(k)
				a.u16(0)
			}
		})
		return a.b
	case 6: // many small valid records with compressed owners
		a.header(1, 0x8180, 1, 0, 0, 0)
		a.name("example.com")
		a.u16(1)
		a.u16(1)
		cnt := 0
		for a.off()+16 <= n {
			a.rr(func() { a.ptr(12) }, 1, func() { a.raw([]byte{10, 0, byte(cnt >> 8), byte(cnt)}) })
			cnt++
		}
		binary.BigEndian.PutUint16(a.b[6:], uint16(cnt))
		return a.b
	case 7: // one name of 191-byte "labels" (prefixes 0x40..0xbf are plain lengths for a lax decoder)
		a.header(1, 0x8000, 1, 0, 0, 0)
		for a.off()+200 < n {
			a.label(0xbf, 'z')
		}
		a.u8(0)
		a.u16(1)
		a.u16(1)
		return a.b
	case 9:
		// a chain of K strictly backward pointers ending in the root label, hidden in opaque RDATA,
		// then R records whose owner name is a pointer to the head of the chain: K*R pointer hops
		// (2.7e7 for 64 KiB) as long as following one pointer costs constant time
		K := min(n/8, 8170) // compression pointers reach offsets below 16384 only
		R := min((n-2*K-40)/12, 2500) // 2e7 hops: about 0.6 CPU-seconds for the unchanged decoder, well inside the budget
		a.header(1, 0x8000, 0, R+1, 0, 0)
		head := 0
		a.rr(root(a), 0xff03, func() {
			prev := a.off()
			a.u8(0)
			for i := 0; i < K; i++ {
				head = a.off()
				a.ptr(prev)
				prev = head
			}
		})
		for i := 0; i < R && a.off()+12 <= n; i++ {
			a.rr(func() { a.ptr(head) }, 0xff04, func() {})
		}
		return a.b
	default: // counts far beyond the data
		b := rnd(rng, n)
		copy(b, []byte{0, 1, 0x81, 0x80, 0xff, 0xff, 0xff, 0xff, 0xff, 0xff, 0xff, 0xff})
		return b
	}
}

// grammar draws a message from the RFC 1035 grammar with free choice of
// names (labels, pointers anywhere), counts and typed or random RDATA.
func grammar(rng *mrand.Rand) []byte {
	a := &asm{}
	counts := [4]int{rng.IntN(3), rng.IntN(5), rng.IntN(3), rng.IntN(3)}
	hdr := counts
	if rng.IntN(10) == 0 {
		hdr[rng.IntN(4)] = rng.IntN(65536)
	}
	flags := 0x8180
	if rng.IntN(3) == 0 {
		flags = rng.IntN(65536)
	}
	a.header(rng.IntN(65536), flags, hdr[0], hdr[1], hdr[2], hdr[3])
	var starts []int // offsets where a name or a label starts
	name := func() {
		at := a.off()
		before := len(starts)
		starts = append(starts, at)
		switch k := rng.IntN(40); {
		case k < 4:
			a.u8(0)
		case k < 12 && before > 0:
			a.ptr(starts[rng.IntN(before)])
		case k == 12 && rng.IntN(4) == 0:
			a.ptr(rng.IntN(at + 1))
		case k == 14:
			a.ptr(rng.IntN(0x4000))
		case k == 15 && rng.IntN(30) == 0: // a label and a pointer back to it
			a.label(1+rng.IntN(5), 'q')
			a.ptr(at)
		default:
			for i, n := 0, 1+rng.IntN(4); i < n; i++ {
				starts = append(starts, a.off())
				l := 1 + rng.IntN(12)
				if rng.IntN(30) == 0 {
					l = 64 + rng.IntN(128)
				}
				a.u8(l)
				a.raw(rnd(rng, l))
			}
			switch {
			case before > 0 && rng.IntN(2) == 0:
				a.ptr(starts[rng.IntN(before)]) // a suffix written earlier
			case rng.IntN(150) == 0:
				a.ptr(starts[before+rng.IntN(len(starts)-before)]) // back into this very name
			default:
				a.u8(0)
			}
		}
	}
	for i := 0; i < counts[0]; i++ {
		name()
		a.u16(rng.IntN(70))
		a.u16(1)
	}
	all := append(append([]uint16{}, decoderTypes...), defaultTypes...)
	for i := 0; i < counts[1]+counts[2]+counts[3]; i++ {
		t := all[rng.IntN(len(all))]
		name()
		a.u16(int(t))
		a.u16(1)
		a.u32(rng.Uint32())
		at := a.off()
		a.u16(0)
		switch t {
		case 2, 5, 12, 47:
			name()
			if t == 47 {
				a.raw(rnd(rng, rng.IntN(8)))
			}
		case 15:
			a.u16(rng.IntN(65536))
			name()
		case 6:
			name()
			name()
			a.raw(rnd(rng, 20))
		case 33:
			a.raw(rnd(rng, 6))
			name()
		case 46:
			a.raw(rnd(rng, 18))
			name()
			a.raw(rnd(rng, rng.IntN(20)))
		case 64, 65:
			a.u16(rng.IntN(3))
			name()
			a.raw(sampleRData(rng, t)[3:])
		default:
			a.raw(sampleRData(rng, t))
		}
		l := a.off() - at - 2
		if rng.IntN(12) == 0 {
			l += rng.IntN(5) - 2
			if l < 0 {
				l = 0
			}
		}
		binary.BigEndian.PutUint16(a.b[at:], uint16(l))
	}
	if rng.IntN(10) == 0 {
		a.raw(rnd(rng, rng.IntN(10)))
	}
	return a.b
}

// ---- valid packets (for mutation and for the resolver) ----

func validPacket(rng *mrand.Rand, forResolver bool) []byte {
	g := dnsx.NewGen(rng, rng.IntN(6) == 0)
	g.RootData = true
	m := &dnsx.Msg{}
	m.SetHeader(uint16(rng.IntN(65536)), 1|8|16) // a response, RD, RA, NOERROR
	if !forResolver && rng.IntN(3) == 0 {
		m.SetHeader(uint16(rng.IntN(65536)), rng.IntN(32768))
	}
	qname := "example.com"
	if !forResolver {
		qname = g.Name()
	}
	m.Question = []dnsx.Question{{Name: qname, Type: 65, Class: 1}}
	names := []string{qname, qname, qname, "svc.example.net", "alias.example.org"}
	mk := func() dnsx.RR {
		var t uint16
		switch k := rng.IntN(10); {
		case forResolver && k < 3:
			t = dnsx.TypeHTTPS
		case forResolver && k < 5:
			t = dnsx.TypeA
		case forResolver && k < 7:
			t = dnsx.TypeAAAA
		case forResolver && k < 8:
			t = dnsx.TypeCNAME
		case k == 8:
			t = uint16(rng.IntN(70)) // any low type number, known to the decoder or not
		default:
			all := append(append([]uint16{}, decoderTypes...), defaultTypes...)
			t = all[rng.IntN(len(all))]
		}
		owner := g.Name()
		if forResolver {
			owner = names[rng.IntN(len(names))]
		}
		mask := -1
		if rng.IntN(2) == 0 {
			mask = rng.IntN(64)
		}
		var rr dnsx.RR
		switch t {
		case 1, 28, 2, 5, 12, 6, 15, 16, 33, 64, 65:
			rr = g.RR(owner, t, mask)
			if forResolver {
				switch d := rr.Data.(type) {
				case dnsx.Name:
					rr.Data = dnsx.Name(names[rng.IntN(len(names))])
				case dnsx.Svc:
					switch rng.IntN(4) {
					case 0:
						d.Target = ""
					case 1:
						d.Target = names[rng.IntN(len(names))]
					}
					if rng.IntN(6) == 0 {
						d.Priority = 0 // alias mode
					}
					rr.Data = d
				}
			}
		case 41:
			rr = g.OPT(true)
		default:
			rr = dnsx.RR{Name: owner, Type: t, Class: 1, TTL: uint32(rng.IntN(4000)), Data: dnsx.Raw(sampleRData(rng, t))}
		}
		if forResolver {
			rr.Class = 1
		}
		return rr
	}
	for i, n := 0, 1+rng.IntN(5); i < n; i++ {
		m.Answer = append(m.Answer, mk())
	}
	for i, n := 0, rng.IntN(3); i < n; i++ {
		m.Authority = append(m.Authority, mk())
	}
	for i, n := 0, rng.IntN(3); i < n; i++ {
		m.Extra = append(m.Extra, mk())
	}
	if forResolver && rng.IntN(4) == 0 {
		opt := g.OPT(true)
		opt.TTL &= 0x00ffffff // extended rcode 0, so the answer is looked at
		if rng.IntN(3) == 0 {
			opt.TTL |= uint32(rng.IntN(3)) << 24
		}
		m.Extra = append(m.Extra, opt)
	}
	b, err := m.Build(rng.IntN(4) != 0)
	if err != nil {
		// the model always builds; fall back to the plain encoder so the case still exists
		b = m.Wire()
	}
	return b
}

func mutate(rng *mrand.Rand, b []byte) ([]byte, string) {
	b = append([]byte{}, b...)
	kinds := ""
	for k, n := 0, 1+rng.IntN(3); k < n && len(b) > 0; k++ {
		pos := rng.IntN(len(b))
		switch m := rng.IntN(12); m {
		case 0:
			b[pos] ^= 1 << rng.IntN(8)
			kinds += "b"
		case 1:
			b[pos] = []byte{0, 0xff, 0xc0, 0x3f, 0x40, 0x80, 0xc1}[rng.IntN(7)]
			kinds += "s"
		case 2:
			b = b[:pos]
			kinds += "t"
		case 3:
			b = append(b, rnd(rng, 1+rng.IntN(20))...)
			kinds += "a"
		case 4:
			b = append(b[:pos], b[pos+1:]...)
			kinds += "d"
		case 5:
			b = append(b[:pos], append([]byte{byte(rng.IntN(256))}, b[pos:]...)...)
			kinds += "i"
		case 6, 7: // a compression pointer to an earlier (or any) offset; rare, because on a decoder
			// without loop protection every label-then-pointer-back costs one helper process
			if rng.IntN(12) != 0 {
				b[pos] = byte(rng.IntN(256))
				kinds += "r"
				continue
			}
			if pos+1 < len(b) {
				target := rng.IntN(pos + 1)
				if rng.IntN(4) == 0 {
					target = rng.IntN(len(b) + 4)
				}
				b[pos], b[pos+1] = 0xc0|byte(target>>8), byte(target)
			}
			kinds += "p"
		case 8: // counts
			if len(b) >= 12 {
				f := 4 + 2*rng.IntN(4)
				binary.BigEndian.PutUint16(b[f:], []uint16{0, 1, 2, 0xffff, 0x8000, uint16(rng.IntN(40))}[rng.IntN(6)])
			}
			kinds += "c"
		case 9: // a 16-bit field to a boundary value (hits RDLENGTH, option and parameter lengths)
			if pos+1 < len(b) {
				binary.BigEndian.PutUint16(b[pos:], []uint16{0, 1, 0xffff, uint16(len(b) - pos), uint16(len(b) - pos - 2), uint16(len(b) - pos - 1)}[rng.IntN(6)])
			}
			kinds += "l"
		case 10: // duplicate a slice
			end := pos + rng.IntN(len(b)-pos+1)
			b = append(b[:end:end], append(append([]byte{}, b[pos:end]...), b[end:]...)...)
			kinds += "x"
		default:
			b[pos] = byte(rng.IntN(256))
			kinds += "r"
		}
	}
	if len(b) > maxInput {
		b = b[:maxInput]
	}
	return b, kinds
}

// ---- the forced list: one entry per hostile shape ----

type forcedCase struct {
	class string
	make  func(rng *mrand.Rand) []byte
	drive bool
}

func forcedList() []forcedCase {
	var out []forcedCase
	add := func(class string, drive bool, f func(rng *mrand.Rand) []byte) {
		out = append(out, forcedCase{class, f, drive})
	}
	// the 16-byte input of DESIGN section 7 (F7), verbatim: question name "a" followed by a pointer to itself
	add("ptr:f7-minimal", false, func(*mrand.Rand) []byte {
		return []byte{0, 0, 1, 0, 0, 1, 0, 0, 0, 0, 0, 0, 1, 'a', 0xc0, 0x0c}
	})
	add("ptr:header-loop0", false, func(*mrand.Rand) []byte { return headerLoop(0) })
	add("ptr:header-loop2", false, func(*mrand.Rand) []byte { return headerLoop(1) })
	for _, p := range namePositions {
		for _, s := range pointerShapes() {
			p, s := p, s
			add("ptr:"+s.id+":"+p.id, !s.loop, func(*mrand.Rand) []byte { return buildPointerCase(p, s) })
		}
	}
	for n := 0; n <= 12; n++ {
		n := n
		add(fmt.Sprintf("short:%d", n), true, func(rng *mrand.Rand) []byte { return rnd(rng, n) })
		add(fmt.Sprintf("short-counts:%d", n), true, func(rng *mrand.Rand) []byte {
			b := []byte{0, 1, 0x81, 0x80, 0, 1, 0, 1, 0, 1, 0, 1}
			return b[:n]
		})
	}
	// lying section counts on a valid packet
	for f := 0; f < 4; f++ {
		for _, v := range []int{0, -1, 1, 2, 0xffff, 0x8000} {
			f, v := f, v
			add(fmt.Sprintf("counts:field%d:%d", f, v), true, func(rng *mrand.Rand) []byte {
				b := validPacket(rng, true)
				cur := int(binary.BigEndian.Uint16(b[4+2*f:]))
				nv := v
				if v == -1 || v == 1 || v == 2 {
					nv = cur + v
					if nv < 0 {
						nv = 3
					}
				}
				binary.BigEndian.PutUint16(b[4+2*f:], uint16(nv))
				return b
			})
		}
	}
	all := append(append([]uint16{}, decoderTypes...), defaultTypes...)
	for _, t := range all {
		t := t
		tn := dnsx.TypeName(t)
		add("rdata:valid:"+tn, true, func(rng *mrand.Rand) []byte { rd := sampleRData(rng, t); return wrapRData(t, rd, len(rd), true) })
		add("rdata:empty:"+tn, true, func(rng *mrand.Rand) []byte { return wrapRData(t, nil, 0, true) })
		for _, c := range rrClasses {
			c := c
			add(fmt.Sprintf("rdata:class%d-valid:%s", c, tn), true, func(rng *mrand.Rand) []byte {
				rd := sampleRData(rng, t)
				return wrapRDataClass(t, c, rd, len(rd), true)
			})
			add(fmt.Sprintf("rdata:class%d-empty:%s", c, tn), true, func(rng *mrand.Rand) []byte { return wrapRDataClass(t, c, nil, 0, true) })
		}
		for cut := 1; cut <= 48; cut++ {
			cut := cut
			add(fmt.Sprintf("rdata:trunc%d:%s", cut, tn), true, func(rng *mrand.Rand) []byte {
				rd := sampleRData(rng, t)
				if cut >= len(rd) {
					cut2 := len(rd) - 1 - (cut-len(rd))%max(len(rd), 1)
					if cut2 < 0 {
						cut2 = 0
					}
					return wrapRData(t, rd[:cut2], cut2, true)
				}
				return wrapRData(t, rd[:cut], cut, true)
			})
		}
		for extra := 1; extra <= 6; extra++ {
			extra := extra
			add(fmt.Sprintf("rdata:overlong%d:%s", extra, tn), true, func(rng *mrand.Rand) []byte {
				rd := append(sampleRData(rng, t), rnd(rng, extra)...)
				return wrapRData(t, rd, len(rd), true)
			})
		}
		for _, lie := range []int{-3, -1, 1, 2, 17, 1000, 0xffff} {
			lie := lie
			add(fmt.Sprintf("rdata:rdlength%+d:%s", lie, tn), true, func(rng *mrand.Rand) []byte {
				rd := sampleRData(rng, t)
				l := len(rd) + lie
				if lie == 0xffff {
					l = 0xffff
				}
				if l < 0 {
					l = 0
				}
				return wrapRData(t, rd, l, lie < 0)
			})
		}
		for _, fill := range []byte{0x00, 0xff, 0xc0, 0x3f} {
			for _, l := range []int{1, 2, 3, 4, 5, 16, 17, 40} {
				fill, l := fill, l
				add(fmt.Sprintf("rdata:fill%02x-%d:%s", fill, l, tn), true, func(rng *mrand.Rand) []byte {
					rd := make([]byte, l)
					for i := range rd {
						rd[i] = fill
					}
					return wrapRData(t, rd, l, true)
				})
			}
		}
		// compression pointers inside the RDATA of every type, wherever it may hold a name
		for _, target := range []int{0, 12, 25, 0x3fff} {
			target := target
			add(fmt.Sprintf("rdata:ptr%d:%s", target, tn), true, func(rng *mrand.Rand) []byte {
				rd := sampleRData(rng, t)
				if len(rd) >= 2 {
					pos := rng.IntN(len(rd) - 1)
					rd[pos], rd[pos+1] = 0xc0|byte(target>>8), byte(target)
				}
				return wrapRData(t, rd, len(rd), true)
			})
		}
	}
	for k := 0; k < len(bigKinds)*len(bigSizes); k++ {
		k := k
		class, drive := bigClass(k)
		add(class, drive, func(rng *mrand.Rand) []byte { return bigInput(rng, k) })
	}
	return out
}
