package c16

import (
	"context"
	"fmt"
	mrand "math/rand/v2"
	"runtime"
	"sort"
	"strings"
	"sync"
	"sync/atomic"
	"time"

	"github.com/anishathalye/porcupine"
	"github.com/c2FmZQ/ech"

	"verif/harness/internal/dohfake"
	"verif/harness/internal/mon"
)

// ---- parts 2 and 3: concurrent phases ---------------------------------------------------------------------------
//
// One case = one Resolver, 1..3 names, G goroutines, 3..6 phases. All goroutines of a phase are joined before the
// next phase starts (barrier). The virtual clock moves only at barriers; the zone data and the failure switch may
// also change in the middle of a phase. Every call and every control action is stamped at invocation and at return
// from one atomic counter, so "A returned before B was invoked" is a fact about the run, not about wall time.
//
// Oracle, per (name, qtype) partition (porcupine, nondeterministic model):
//
//	state  = virtual time T, current data version V, upstream failing F, set of answers {version, valid-until} that
//	         some earlier lookup fetched and that are still within their smallest TTL
//	read x = legal iff x is in the set (served from cache), or x == V, the upstream is not failing and the server
//	         saw at least one query for this key in this phase (fresh fetch; adds {V, T+ttl} when ttl > 0)
//
// The set (instead of one entry) makes the model sound for lookups that race on a missing entry and fetch twice; it
// still forbids every answer older than its TTL, every answer of a version that was never current, and (through the
// failing flag) data invented while the upstream fails. What the statement demands about WHEN the upstream is asked
// is judged per phase from the server's query log with a deterministic model (phaseCheck).

const (
	pkPlain    = "plain"
	pkHeld     = "held"      // upstream queries held until every goroutine is running, then released
	pkHeldZone = "held+zone" // zone data changes while the queries are held
	pkHeldBlip = "held+blip" // upstream fails the held queries, recovers while calls are still running
	pkFreeZone = "zone-mid"  // zone data changes after some calls completed, others still running
	pkFailing  = "failing"   // upstream fails during the whole phase
	pkHerd     = "herd"      // every answer of one name has just expired; all goroutines ask for that name at the same moment
)

type concCall struct {
	Client  int    `json:"client"`
	Phase   int    `json:"phase"`
	Name    string `json:"name"`
	Call    int64  `json:"call"`
	Ret     int64  `json:"return"`
	Vers    [3]int `json:"versions"` // HTTPS, A, AAAA (-1 empty, -2 not one RRSet)
	Err     string `json:"error,omitempty"`
	ec      string
	problem string
	class   [3]string
	used    [3]int // targets yielded, records with spare ALPN capacity, own-copy modifications
}

type ctlOp struct {
	Kind  string `json:"ctl"` // advance | zone | fail
	D     int64  `json:"seconds,omitempty"`
	Fail  string `json:"fail,omitempty"`
	Phase int    `json:"before_or_in_phase"`
	Call  int64  `json:"call"`
	Ret   int64  `json:"return"`
	fail  bool
}

type phaseInfo struct {
	Kind    string            `json:"kind"`
	Clock   int64             `json:"clock"`
	Queries map[string][3]int `json:"upstream_queries"` // name -> HTTPS, A, AAAA
	Release int64             `json:"release_stamp,omitempty"`
	Held    int               `json:"held_queries,omitempty"`
	dirty   bool              // the failure switch changed inside the phase
}

type concCase struct {
	e          *env
	work       string
	idx        int
	srv        *dohfake.Server
	res        *ech.Resolver
	clock      *vclock
	names      []string
	spec       zoneSpec
	ver        int
	seq        atomic.Int64
	G          int
	calls      []*concCall
	ctls       []*ctlOp
	phases     []*phaseInfo
	counts     map[string]int64
	anyFailure bool
	herdName   string
}

var (
	overlapHist  [18]atomic.Int64 // calls by number of other calls on the same name they overlapped (17 = more)
	overlapShape sync.Map         // "kind/degree" -> true
)

func (c *concCase) payload(extra map[string]any) map[string]any {
	p := map[string]any{"names": c.names, "rrsets": c.spec, "goroutines": c.G, "phases": c.phases, "control": c.ctls,
		"note": "call/return: stamps of one atomic counter; versions: data version of the HTTPS, A, AAAA records returned"}
	for k, v := range extra {
		p[k] = v
	}
	return p
}

func (c *concCase) viol(sig string, extra map[string]any, f string, a ...any) {
	c.e.r.Violate(c.work, c.idx, sig, fmt.Sprintf(f, a...), c.payload(extra))
}

func (c *concCase) ctl(kind string, phase int, f func(op *ctlOp)) {
	op := &ctlOp{Kind: kind, Phase: phase}
	op.Call = c.seq.Add(1)
	f(op)
	op.Ret = c.seq.Add(1)
	c.ctls = append(c.ctls, op)
}

// Failure modes of a concurrent case: the server's switch (SERVFAIL / HTTP 400) or a response code outside 1..5 forced
// on every name of the case (header code 9, extended codes 16 and 23 whose upper bits travel in the OPT record).
const failRcode = 100 // failRcode+n: every query is answered with response code n

func concFailMode(rng *mrand.Rand) int {
	return []int{dohfake.FailServfail, dohfake.FailHTTP400, failRcode + 9, failRcode + 16, failRcode + 23}[rng.IntN(5)]
}

func failName(mode int) string {
	if mode >= failRcode {
		return fmt.Sprintf("rcode%d", mode-failRcode)
	}
	return failNames[mode]
}

func (c *concCase) setFail(phase, mode int) {
	c.ctl("fail", phase, func(op *ctlOp) {
		op.Fail, op.fail = failName(mode), mode != dohfake.FailNone
		switch {
		case mode >= failRcode:
			c.srv.Update(func(z *dohfake.Zone) {
				for _, n := range c.names {
					z.Rcode[dohfake.Key{Name: n}] = mode - failRcode
				}
			})
			c.counts["conc_failure_windows_rcode_outside_1_5"]++
		case mode == dohfake.FailNone:
			c.srv.Update(func(z *dohfake.Zone) { clear(z.Rcode) })
			c.srv.SetFail(mode)
		default:
			c.srv.SetFail(mode)
		}
	})
	if mode != dohfake.FailNone {
		c.anyFailure = true
	}
}

func (c *concCase) changeZone(phase int) {
	c.ctl("zone", phase, func(*ctlOp) {
		c.ver++
		install(c.srv, c.spec, c.ver)
	})
}

func (e *env) concCase(work string, idx int, rng *mrand.Rand) {
	r := e.r
	srv := <-e.servers
	defer func() { e.servers <- srv }()
	srv.Reset(dohfake.NewZone())

	c := &concCase{e: e, work: work, idx: idx, srv: srv, clock: newClock(), spec: zoneSpec{}, counts: map[string]int64{}}
	defer bind(c.clock)()
	pos := []uint32{1, 2, 5, 30, 60}
	for _, k := range rng.Perm(3)[:1+rng.IntN(3)] {
		name := pool[k]
		c.names = append(c.names, name)
		var sets [3]rrset
		for k := range sets {
			zero := rng.IntN(4) == 0
			base := pos[rng.IntN(len(pos))]
			n := 1 + rng.IntN(3)
			if k == kHTTPS {
				n = 2 + rng.IntN(3) // 2..4 records, listed out of priority order: Resolve has to sort what it got from the (shared) cache entry
			}
			sets[k] = genSet(rng, k, n, func() uint32 {
				switch {
				case zero:
					return 0
				case rng.IntN(3) == 0:
					return pos[rng.IntN(len(pos))]
				}
				return base
			}, 1)
		}
		c.spec[name] = &sets
	}
	sort.Strings(c.names)
	install(srv, c.spec, 0)
	res, err := ech.NewResolver(srv.URL)
	if err != nil {
		r.Inconclusive("fixture: NewResolver(%q): %v", srv.URL, err)
		return
	}
	c.res = res
	c.G = 2 + rng.IntN(15)
	if idx%5 == 0 {
		c.G = []int{2, 16}[idx/5%2] // both ends of the range in every run
	}
	if idx == 0 {
		r.Sample(map[string]any{"part": work, "names": c.names, "rrsets": c.spec, "goroutines": c.G})
	}

	nPhases := 3 + rng.IntN(4)
	var kinds []string
	for p := 0; p < nPhases; p++ {
		kind := []string{pkPlain, pkPlain, pkHeld, pkHeld, pkHeldZone, pkHeldZone, pkHeldBlip, pkHeldBlip, pkFreeZone, pkFreeZone, pkFreeZone, pkFailing}[rng.IntN(12)]
		if p == 0 && kind == pkFailing {
			kind = pkHeld
		}
		kinds = append(kinds, kind)
		if p > 0 { // barrier: clock step aimed at the TTL boundaries of some key, maybe new zone data
			name, k := c.names[rng.IntN(len(c.names))], rng.IntN(3)
			tau := int64(minTTL(c.spec[name][k].TTLs))
			d := []int64{0, 1, tau - 1, tau, tau + 1, tau, 100}[rng.IntN(7)]
			c.ctl("advance", p, func(op *ctlOp) { op.D = max(d, 0); c.clock.Advance(time.Duration(op.D) * time.Second) })
			if rng.IntN(2) == 0 {
				c.changeZone(p)
			}
		}
		if !c.runPhase(p, kind, rng) {
			return
		}
	}
	// Herd rounds: the clock steps so that every cached answer of one name has expired, then all goroutines ask for
	// that name at once: one of them fetches, the others wait on the entry and receive the very same cached slices a
	// moment later, while the first is still working with its copy of the result.
	herd := c.names[rng.IntN(len(c.names))]
	step := int64(1)
	for k := 0; k < 3; k++ {
		step = max(step, int64(minTTL(c.spec[herd][k].TTLs)))
	}
	rounds := 100
	if c.work == "race" {
		rounds = 10 // the race detector does not need the two goroutines to meet in time
	}
	for round := rounds; round > 0; round-- {
		p := len(c.phases)
		kinds = append(kinds, pkHerd)
		c.ctl("advance", p, func(op *ctlOp) { op.D = step; c.clock.Advance(time.Duration(step) * time.Second) })
		if round%3 == 0 {
			c.changeZone(p)
		}
		c.herdName = herd
		if !c.runPhase(p, pkHerd, rng) {
			return
		}
	}
	c.judge()
	r.Eval(fmt.Sprintf("conc|%s|g%d|n%d", strings.Join(kinds, ","), c.G, len(c.names)))
	c.counts["conc_cases"]++
	for k, v := range c.counts {
		r.Count(k, v)
	}
}

// runPhase starts the goroutines of one phase and plays the controller. false = fixture trouble (already reported).
func (c *concCase) runPhase(p int, kind string, rng *mrand.Rand) bool {
	r, srv := c.e.r, c.srv
	ph := &phaseInfo{Kind: kind, Clock: c.clock.Secs(), Queries: map[string][3]int{}}
	c.phases = append(c.phases, ph)
	if kind == pkFailing {
		c.setFail(p, concFailMode(rng))
	}
	srv.ResetLog()
	for len(srv.Arrivals()) > 0 {
		<-srv.Arrivals()
	}
	held := kind == pkHeld || kind == pkHeldZone || kind == pkHeldBlip || (kind == pkFailing && rng.IntN(2) == 0)
	if held {
		srv.Block(c.names...)
	}
	// plan: calls per goroutine and their names (drawn here so that the case is a function of the seed)
	type plan struct {
		names []string
		seed  uint64
	}
	plans := make([]plan, c.G)
	total := 0
	hot := c.names[rng.IntN(len(c.names))] // most calls go to one name so that they meet on the same cache entries
	for g := range plans {
		for n := 1 + rng.IntN(3); n > 0; n-- {
			name := hot
			if kind == pkHerd {
				name, n = c.herdName, 1
			} else if rng.IntN(3) == 0 {
				name = c.names[rng.IntN(len(c.names))]
			}
			plans[g].names = append(plans[g].names, name)
			total++
		}
		plans[g].seed = rng.Uint64()
	}
	done := make(chan *concCall, total)
	ctx, cancel := context.WithTimeout(context.Background(), 2*time.Minute) // watchdog only
	defer cancel()
	var wg sync.WaitGroup
	start := make(chan struct{}) // herd: nobody calls before everybody is running
	if kind != pkHerd {
		close(start)
	}
	var pmu sync.Mutex
	pending := map[uint64]bool{} // goroutines of this phase that are still calling the resolver
	for g := range plans {
		wg.Add(1)
		go func() {
			defer wg.Done()
			defer bind(c.clock)()
			me := gid()
			pmu.Lock()
			pending[me] = true
			pmu.Unlock()
			defer func() { pmu.Lock(); delete(pending, me); pmu.Unlock() }()
			lrng := mrand.New(mrand.NewPCG(plans[g].seed, uint64(g)))
			<-start
			for _, name := range plans[g].names {
				rec := &concCall{Client: g, Phase: p, Name: name}
				rec.Call = c.seq.Add(1)
				res, err := c.res.Resolve(ctx, name)
				rec.Ret = c.seq.Add(1)
				rec.ec = classifyErr(err)
				if err != nil {
					rec.Err = err.Error()
					rec.Vers = [3]int{verBad, verBad, verBad}
				} else {
					// the RRSet shapes never change in a concurrent case; whether the version ever existed is judged later
					rec.Vers, rec.problem, rec.class = observe(name, res, func(v int) (string, *[3]rrset) {
						if v < 0 {
							return name, nil
						}
						return name, c.spec[name]
					})
					rec.used[0], rec.used[1], rec.used[2] = useResult(res, lrng)
				}
				done <- rec
			}
		}()
	}
	if kind == pkHerd {
		close(start)
	}
	completed, errs, arrived := 0, 0, 0
	// deadlock monitor: the phase's goroutines are the only users of this case's Resolver, which starts no goroutines
	// itself. If every one of them that has not finished is parked on a mutex inside the library, in two looks a
	// second apart, nobody is left to unlock it. (A look that finds anybody running, sleeping or in I/O resets it.)
	tick := time.NewTicker(time.Second)
	defer tick.Stop()
	looks, deadlocked := 0, false
	waitFor := func(cond func() bool) {
		for !cond() && completed < total && !deadlocked {
			select {
			case <-tick.C:
				pmu.Lock()
				ids := map[uint64]bool{}
				for id := range pending {
					ids[id] = true
				}
				pmu.Unlock()
				if all, n, where := mon.ParkedOnLocks(ids); all && n > 0 && len(done) == 0 {
					looks++
					if looks >= 3 {
						deadlocked = true
						c.viol("deadlock:calls-parked-on-a-lock@"+where, map[string]any{"phase": kind, "parked_calls": n, "completed_calls": completed, "planned_calls": total},
							"%d of %d Resolve calls of a %s phase are parked on a lock in %s and no other goroutine uses this Resolver: they can never return", n, total-completed, kind, where)
					}
				} else {
					looks = 0
				}
			case <-srv.Arrivals():
				arrived++
			case rec := <-done:
				completed++
				if rec.Err != "" {
					errs++
				}
				c.calls = append(c.calls, rec)
				c.counts["targets_yielded"] += int64(rec.used[0])
				c.counts["https_records_with_spare_alpn_capacity"] += int64(rec.used[1])
				c.counts["own_copy_mutations"] += int64(rec.used[2])
			}
		}
	}
	nudge := func() { time.Sleep(time.Duration(200+rng.IntN(800)) * time.Microsecond) } // lets the other goroutines reach the entry's lock; never a verdict input
	if held {
		waitFor(func() bool { return arrived >= 1 })
		nudge()
		switch kind {
		case pkHeldZone:
			c.changeZone(p)
			c.counts["conc_midphase_zone_changes"]++
		case pkHeldBlip:
			c.setFail(p, concFailMode(rng))
			ph.dirty = true
		}
		ph.Release = c.seq.Add(1)
		srv.Release()
		if kind == pkHeldBlip {
			waitFor(func() bool { return errs >= 1 })
			c.setFail(p, dohfake.FailNone)
		}
	} else if kind == pkFreeZone {
		k := 1 + rng.IntN(max(total/2, 1))
		waitFor(func() bool { return completed >= k })
		c.changeZone(p)
		c.counts["conc_midphase_zone_changes"]++
	}
	waitFor(func() bool { return false })
	if deadlocked {
		srv.Release()
		if kind == pkFailing {
			c.setFail(p, dohfake.FailNone)
		}
		return false // the parked goroutines are abandoned; every case has its own Resolver
	}
	wg.Wait()
	for len(srv.Arrivals()) > 0 {
		<-srv.Arrivals()
		arrived++
	}
	ph.Held = arrived
	c.counts["conc_held_queries"] += int64(arrived)
	if kind == pkFailing {
		c.setFail(p, dohfake.FailNone)
	}
	if ctx.Err() != nil {
		r.Inconclusive("watchdog: a concurrent phase did not finish within 2 minutes")
		return false
	}
	qlog := srv.Log()
	for _, name := range c.names {
		n, _ := countQueries(qlog, name)
		ph.Queries[name] = n
	}
	known := map[string]bool{}
	for _, n := range c.names {
		known[n] = true
	}
	for _, q := range qlog {
		if !known[q.Name] || (q.Type != dohfake.TypeA && q.Type != dohfake.TypeAAAA && q.Type != dohfake.TypeHTTPS) {
			r.Inconclusive("monitor: query %s/%d is not covered by the model", q.Name, q.Type)
			return false
		}
	}
	c.counts["conc_phases_"+kind]++
	if kind == pkHerd {
		c.counts["conc_herd_calls"] += int64(total)
	} else {
		c.counts["conc_phases"]++
		c.counts["conc_calls"] += int64(total)
	}
	return true
}

// ---- judging a finished case -------------------------------------------------------------------------------------

type pin struct {
	Kind     string // read | advance | zone | fail
	D        int64
	Fail     bool
	HadQuery bool
}

type pstate struct {
	T int64
	V int
	F bool
	E string // canonical list of "version@valid-until" of answers fetched and still within their TTL
}

type pentry struct {
	v     int
	until int64
}

func decodeEntries(s string) []pentry {
	var out []pentry
	for _, f := range strings.Fields(s) {
		var e pentry
		fmt.Sscanf(f, "%d@%d", &e.v, &e.until)
		out = append(out, e)
	}
	return out
}

func encodeEntries(es []pentry, now int64) string {
	sort.Slice(es, func(i, j int) bool { return es[i].v < es[j].v || es[i].v == es[j].v && es[i].until < es[j].until })
	var b strings.Builder
	for i, e := range es {
		if e.until <= now || i > 0 && es[i-1] == e {
			continue
		}
		fmt.Fprintf(&b, "%d@%d ", e.v, e.until)
	}
	return b.String()
}

func cacheModel(tau int64) porcupine.Model {
	nm := porcupine.NondeterministicModel{
		Init: func() []interface{} { return []interface{}{pstate{}} },
		Step: func(state, input, output interface{}) []interface{} {
			s, in := state.(pstate), input.(pin)
			switch in.Kind {
			case "advance":
				s.T += in.D
				s.E = encodeEntries(decodeEntries(s.E), s.T)
				return []interface{}{s}
			case "zone":
				s.V++
				return []interface{}{s}
			case "fail":
				s.F = in.Fail
				return []interface{}{s}
			}
			x := output.(int)
			var next []interface{}
			es := decodeEntries(s.E)
			for _, e := range es {
				if e.v == x && e.until > s.T {
					next = append(next, s) // served from cache
					break
				}
			}
			if x == s.V && !s.F && in.HadQuery { // fetched now
				if tau > 0 {
					s.E = encodeEntries(append(es, pentry{x, s.T + tau}), s.T)
				}
				next = append(next, s)
			}
			return next
		},
		DescribeOperation: func(input, output interface{}) string {
			in := input.(pin)
			if in.Kind == "read" {
				return fmt.Sprintf("read -> v%d", output.(int))
			}
			return fmt.Sprintf("%s %d %v", in.Kind, in.D, in.Fail)
		},
	}
	return nm.ToModel()
}

type histOp struct {
	Client int    `json:"client"`
	Op     string `json:"op"`
	Call   int64  `json:"call"`
	Ret    int64  `json:"return"`
	Phase  int    `json:"phase"`
}

func (c *concCase) judge() {
	r := c.e.r
	// failing windows, for the legality of error results
	type window struct{ from, to int64 }
	var windows []window
	for _, op := range c.ctls {
		if op.Kind != "fail" {
			continue
		}
		if op.fail {
			windows = append(windows, window{op.Call, 1 << 62})
		} else if len(windows) > 0 {
			windows[len(windows)-1].to = op.Ret
		}
	}
	byPhaseName := map[string][]*concCall{}
	bad := false
	for _, call := range c.calls {
		key := fmt.Sprintf("%d/%s", call.Phase, call.Name)
		byPhaseName[key] = append(byPhaseName[key], call)
		switch call.ec {
		case errFixture:
			r.Inconclusive("fixture: transport error %s", call.Err)
			return
		case errOther:
			c.viol("conc:unexpected-error", map[string]any{"call": call}, "Resolve(%s) failed with %q", call.Name, call.Err)
			bad = true
		case errUpstream:
			c.counts["conc_error_calls"]++
			ok := false
			for _, w := range windows {
				ok = ok || call.Call <= w.to && call.Ret >= w.from
			}
			if !ok {
				sig := "conc:error-while-upstream-answered"
				if c.anyFailure {
					sig = "failure-cached:error-after-recovery"
				}
				c.viol(sig, map[string]any{"call": call}, "Resolve(%s) [stamps %d..%d] failed with %q although the upstream did not fail at any moment of the call", call.Name, call.Call, call.Ret, call.Err)
				bad = true
			}
		default:
			c.counts["conc_results_checked_as_sorted_copy_of_unsorted_answer"]++ // every name has 2..4 HTTPS records listed out of priority order
			for k, v := range call.Vers {
				switch v {
				case verBad:
					c.viol("wrong-data:"+qnames[k]+":"+call.class[k], map[string]any{"call": call}, "Resolve(%s) [stamps %d..%d]: %s", call.Name, call.Call, call.Ret, call.problem)
					bad = true
				case verEmpty: // every RRSet of a concurrent case has records
					sig := "conc:empty-" + qnames[k] + "-answer-returned"
					if c.anyFailure {
						sig = "failure-cached:empty-" + qnames[k] + "-answer-served-after-upstream-failure"
					}
					c.viol(sig, map[string]any{"call": call}, "Resolve(%s) [stamps %d..%d] returned no %s record; every version of the zone has some", call.Name, call.Call, call.Ret, qnames[k])
					bad = true
				}
			}
		}
	}
	// overlap shapes
	for key, calls := range byPhaseName {
		var p int
		fmt.Sscanf(key, "%d/", &p)
		for i, a := range calls {
			deg, withErr := 0, false
			for j, b := range calls {
				if i != j && a.Call <= b.Ret && b.Call <= a.Ret {
					deg++
					withErr = withErr || b.Err != ""
				}
			}
			overlapHist[min(deg, 17)].Add(1)
			overlapShape.Store(fmt.Sprintf("%s/%d/err=%v", c.phases[p].Kind, min(deg, 17), withErr), true)
			if deg > 0 {
				c.counts["conc_calls_overlapping_same_name"]++
			}
			if withErr {
				c.counts["conc_calls_overlapping_error"]++
			}
			if rel := c.phases[p].Release; rel > 0 && a.Call < rel && a.Ret > rel {
				c.counts["conc_calls_in_flight_at_release"]++
			}
		}
	}
	c.phaseCheck(byPhaseName)
	if bad {
		return // a result that is not data of one version cannot be placed in a history
	}

	// porcupine, one partition per (name, qtype)
	for _, name := range c.names {
		for k := 0; k < 3; k++ {
			tau := int64(minTTL(c.spec[name][k].TTLs))
			var ops []porcupine.Operation
			var dump []histOp
			for _, op := range c.ctls {
				ops = append(ops, porcupine.Operation{ClientId: 0, Input: pin{Kind: op.Kind, D: op.D, Fail: op.fail}, Call: op.Call, Output: 0, Return: op.Ret})
				dump = append(dump, histOp{0, fmt.Sprintf("%s %d %s", op.Kind, op.D, op.Fail), op.Call, op.Ret, op.Phase})
			}
			reads := 0
			versions := map[int]map[int]bool{}
			for _, call := range c.calls {
				if call.Name != name || call.Err != "" {
					continue
				}
				reads++
				had := c.phases[call.Phase].Queries[name][k] > 0
				ops = append(ops, porcupine.Operation{ClientId: 1 + call.Client, Input: pin{Kind: "read", HadQuery: had}, Call: call.Call, Output: call.Vers[k], Return: call.Ret})
				dump = append(dump, histOp{1 + call.Client, fmt.Sprintf("read %s/%s -> version %d (queries for this key in the phase: %d)", name, qnames[k], call.Vers[k], c.phases[call.Phase].Queries[name][k]), call.Call, call.Ret, call.Phase})
				if versions[call.Phase] == nil {
					versions[call.Phase] = map[int]bool{}
				}
				versions[call.Phase][call.Vers[k]] = true
			}
			if reads == 0 {
				continue
			}
			for _, vs := range versions {
				if len(vs) > 1 {
					c.counts["conc_old_and_new_version_in_one_phase"]++
				}
			}
			c.counts["conc_partition_reads"] += int64(reads)
			// A read that no order can explain (see impossibleRead) settles the partition without a search.
			class := c.impossibleRead(name, k, tau)
			res := porcupine.Illegal
			if class == "" {
				class = "order"
				res = porcupine.CheckOperationsTimeout(cacheModel(tau), ops, 60*time.Second)
			}
			switch res {
			case porcupine.Ok:
				c.counts["conc_partitions_linearizable"]++
			case porcupine.Unknown:
				r.Inconclusive("porcupine gave up after 60 s on partition %s/%s of %s case %d (%d operations)", name, qnames[k], c.work, c.idx, len(ops))
			default:
				sort.Slice(dump, func(i, j int) bool { return dump[i].Call < dump[j].Call })
				c.viol("linearizability:"+qnames[k]+":"+class, map[string]any{"partition": name + "/" + qnames[k], "smallest_ttl": tau, "partition_history": dump},
					"the calls on %s/%s (smallest TTL %d s) cannot be ordered so that every answer is either a cached answer within its TTL or the data current at that moment (%s)", name, qnames[k], tau, class)
			}
		}
	}
}

// impossibleRead finds a read that is illegal under EVERY order of the partition, and names the mechanism:
//
//	stale-beyond-ttl    the version it shows was replaced at virtual second s (so it was fetched at s at the latest and
//	                    is valid before s+ttl only) and the call was made at virtual second >= s+ttl, ttl > 0
//	ttl0-answer-reused  every record has TTL 0 (never cacheable) and the zone change that replaced the version shown had
//	                    returned before the call was invoked (so this call cannot have fetched it)
//	future-version      a version that was never installed
//
// "" = no such read; the partition then goes to porcupine (class "order" when it is rejected there).
func (c *concCase) impossibleRead(name string, k int, tau int64) string {
	supersededAt := map[int]int64{}
	clockAt := func(stamp int64) int64 { // virtual time at a stamp (the clock changes only through advance ops)
		var t int64
		for _, op := range c.ctls {
			if op.Kind == "advance" && op.Ret <= stamp {
				t += op.D
			}
		}
		return t
	}
	v := 0
	for _, op := range c.ctls {
		if op.Kind == "zone" {
			supersededAt[v] = clockAt(op.Call)
			v++
		}
	}
	for _, call := range c.calls {
		if call.Name != name || call.Err != "" {
			continue
		}
		x := call.Vers[k]
		if x > v {
			return "future-version"
		}
		if at, ok := supersededAt[x]; ok && tau > 0 && clockAt(call.Call) >= at+tau {
			return "stale-beyond-ttl"
		}
		if _, ok := supersededAt[x]; ok && tau == 0 && c.supersededBefore(x, call.Call) {
			return "ttl0-answer-reused"
		}
	}
	return ""
}

// supersededBefore: the zone change that replaced version x had returned before stamp.
func (c *concCase) supersededBefore(x int, stamp int64) bool {
	v := 0
	for _, op := range c.ctls {
		if op.Kind == "zone" {
			if v == x {
				return op.Ret < stamp
			}
			v++
		}
	}
	return false
}

// phaseCheck: the deterministic part of the oracle, from the per-phase query counts of the server.
//
// For every key the monitor tracks until when the cache certainly holds a valid answer. It is certain after a phase
// without failures (every call fetched or found the answer, and nothing removes a valid entry) and after a phase in
// which the upstream failed for a while and at least one call for the name succeeded afterwards; after a failure blip
// without a successful call it is not (some of the three answers may have been fetched before the call failed on
// another), and the checks on that key are suspended until a later phase settles it again.
func (c *concCase) phaseCheck(byPhaseName map[string][]*concCall) {
	type det struct {
		until   int64
		certain bool
		cands   []int64 // while uncertain: the valid-until values the entry may have (it may also be absent)
	}
	state := map[string]*[3]det{}
	for _, n := range c.names {
		state[n] = &[3]det{{until: -1, certain: true}, {until: -1, certain: true}, {until: -1, certain: true}}
	}
	for p, ph := range c.phases {
		for _, name := range c.names {
			calls := byPhaseName[fmt.Sprintf("%d/%s", p, name)]
			if len(calls) == 0 {
				continue
			}
			ok, failed := 0, 0
			for _, call := range calls {
				if call.Err == "" {
					ok++
				} else {
					failed++
				}
			}
			q := ph.Queries[name]
			allValid, someInvalid := true, false
			for k := 0; k < 3; k++ {
				d := &state[name][k]
				valid := d.until > ph.Clock
				allValid = allValid && d.certain && valid
				someInvalid = someInvalid || d.certain && !valid
			}
			extra := map[string]any{"phase": p, "name": name, "calls": calls}
			if ph.Kind == pkFailing {
				if allValid && failed > 0 {
					c.viol("conc:error-although-every-answer-cached", extra, "phase %d (upstream failing): %d of %d Resolve(%s) calls failed although HTTPS, A and AAAA answers were all cached and within their TTL", p, failed, len(calls), name)
				}
				if someInvalid && ok > 0 {
					c.viol("conc:data-returned-while-upstream-failing", extra, "phase %d (upstream failing): %d Resolve(%s) calls succeeded although at least one of the three answers was not cached within its TTL", p, ok, name)
				}
				if allValid {
					c.counts["conc_failing_phase_served_from_cache"]++
				}
			}
			for k := 0; k < 3; k++ {
				d := &state[name][k]
				tau := int64(minTTL(c.spec[name][k].TTLs))
				valid := d.until > ph.Clock
				clean := ph.Kind != pkFailing && !ph.dirty
				ex := map[string]any{"phase": p, "key": name + "/" + qnames[k], "smallest_ttl": tau, "calls": calls}
				switch {
				case d.certain && valid:
					c.counts["conc_keys_cached_at_phase_start"]++
					if q[k] != 0 {
						c.viol("conc:upstream-query-within-ttl", ex, "phase %d at second %d: %d upstream %s queries for %s although the answer cached since an earlier phase is valid until second %d", p, ph.Clock, q[k], qnames[k], name, d.until)
						d.until = ph.Clock + tau
					}
				case d.certain && clean:
					c.counts["conc_keys_expired_at_phase_start"]++
					switch {
					case q[k] == 0:
						c.viol("conc:no-upstream-query-after-expiry", ex, "phase %d at second %d: %d Resolve(%s) calls succeeded without any upstream %s query although no answer within its TTL was cached (valid until second %d)", p, ph.Clock, ok, name, qnames[k], d.until)
					case tau == 0 && q[k] < ok:
						c.viol("conc:ttl0-answer-served-from-cache", ex, "phase %d: %d successful Resolve(%s) calls but only %d upstream %s queries although every record has TTL 0", p, ok, name, q[k], qnames[k])
					case q[k] > 3*len(calls): // one call may repeat a query that failed; three times as many queries as calls is a storm
						c.viol("conc:more-upstream-queries-than-calls", ex, "phase %d: %d upstream %s queries for %d Resolve(%s) calls", p, q[k], qnames[k], len(calls), name)
					}
					if tau == 0 {
						c.counts["conc_ttl0_key_phases"]++
					}
					d.until = ph.Clock + tau
				case d.certain && ph.Kind == pkFailing:
					// nothing can be fetched; the entry stays invalid
				case d.certain && ok > 0:
					// failure blip, and a call for this name succeeded: no valid answer was cached when the phase began
					// and the clock stands still inside a phase, so this answer was fetched in this phase - by that call
					// or by one it waited for - after the upstream had recovered. It is within its TTL until now+ttl and
					// "within the TTL serves repeated lookups from its cache" holds for it like for any other answer,
					// whatever failed before it in the phase.
					if q[k] == 0 {
						c.viol("conc:no-upstream-query-after-expiry", ex, "phase %d at second %d: %d Resolve(%s) calls succeeded without any upstream %s query although no answer within its TTL was cached (valid until second %d)", p, ph.Clock, ok, name, qnames[k], d.until)
					}
					d.until = ph.Clock + tau
					c.counts["conc_keys_fetched_after_blip"]++
				case d.certain:
					// failure blip without any successful call: the key may have been fetched (valid until now+ttl) or not
					d.certain, d.cands = false, []int64{ph.Clock + tau}
					c.counts["conc_keys_uncertain_after_blip"]++
				case !clean && ph.Kind != pkFailing: // another blip while uncertain
					live := []int64{ph.Clock + tau}
					for _, u := range d.cands {
						if u > ph.Clock {
							live = append(live, u)
						}
					}
					d.cands = live
				case clean && ok > 0 && q[k] > 0: // it was missing or expired, and is cached now
					d.certain, d.until, d.cands = true, ph.Clock+tau, nil
				case clean && ok > 0: // no query: one of the possible entries was there and valid
					var live []int64
					for _, u := range d.cands {
						if u > ph.Clock && (len(live) == 0 || live[len(live)-1] != u) {
							live = append(live, u)
						}
					}
					switch len(live) {
					case 0:
						c.viol("conc:no-upstream-query-after-expiry", ex, "phase %d at second %d: %d Resolve(%s) calls succeeded without any upstream %s query although no answer fetched earlier can still be within its TTL (candidates valid until %v)", p, ph.Clock, ok, name, qnames[k], d.cands)
						d.certain, d.until, d.cands = true, ph.Clock+tau, nil
					case 1:
						d.certain, d.until, d.cands = true, live[0], nil
					default:
						d.cands = live
					}
				}
			}
		}
	}
}

// resizeCase: "concurrent use of one Resolver": while 2..8 goroutines resolve, another one switches the cache off, on
// and to other sizes. The data never changes and the clock stands still, so every successful result must be the
// version-0 data; what this workload is for is the race detector (stage race) and panics.
func (e *env) resizeCase(work string, idx int, rng *mrand.Rand) {
	r := e.r
	srv := <-e.servers
	defer func() { e.servers <- srv }()
	srv.Reset(dohfake.NewZone())
	clock := newClock()
	defer bind(clock)()
	spec := zoneSpec{}
	names := []string{pool[rng.IntN(2)], pool[2+rng.IntN(2)]}
	for _, name := range names {
		var sets [3]rrset
		for k := range sets {
			sets[k] = genSet(rng, k, 1+rng.IntN(3), func() uint32 { return 60 }, 1)
		}
		spec[name] = &sets
	}
	install(srv, spec, 0)
	res, err := ech.NewResolver(srv.URL)
	if err != nil {
		r.Inconclusive("fixture: NewResolver(%q): %v", srv.URL, err)
		return
	}
	ctx, cancel := context.WithTimeout(context.Background(), 2*time.Minute) // watchdog only
	defer cancel()
	G, rounds := 2+rng.IntN(7), 6
	sizes := []int{0, 16, 0, 3, 32, 0, 1, 8}
	var wg sync.WaitGroup
	stop := make(chan struct{})
	var toggles atomic.Int64
	wg.Add(1)
	go func() { // the caller that reconfigures
		defer wg.Done()
		defer bind(clock)()
		for i := 0; ; i++ {
			select {
			case <-stop:
				return
			default:
			}
			res.SetCacheSize(sizes[i%len(sizes)])
			toggles.Add(1)
			runtime.Gosched()
		}
	}()
	var lookups sync.WaitGroup
	for g := 0; g < G; g++ {
		lookups.Add(1)
		go func() {
			defer lookups.Done()
			defer bind(clock)()
			for k := 0; k < rounds; k++ {
				name := names[(g+k)%len(names)]
				c := map[string]any{"name": name, "goroutines": G}
				r.Guard(work, idx, "resize:resolve", c, func() {
					out, err := res.Resolve(ctx, name)
					r.Count("resize_lookups", 1)
					if err != nil {
						r.Violate(work, idx, "resize:error", fmt.Sprintf("Resolve(%s) failed with %v while another goroutine called SetCacheSize; the upstream answers every query", name, err), c)
						return
					}
					vers, problem, _ := observe(name, out, func(v int) (string, *[3]rrset) {
						if v < 0 {
							return name, nil
						}
						return name, spec[name]
					})
					if problem != "" || vers != [3]int{0, 0, 0} {
						r.Violate(work, idx, "resize:wrong-data", fmt.Sprintf("Resolve(%s) returned versions %v (%s) while another goroutine called SetCacheSize; the zone only ever held version 0", name, vers, problem), c)
					}
				})
			}
		}()
	}
	lookups.Wait()
	close(stop)
	wg.Wait()
	r.Count("resize_cases", 1)
	r.Count("resize_setcachesize_calls", toggles.Load())
}
