package c16

import (
	"context"
	"fmt"
	mrand "math/rand/v2"
	"net/netip"
	"slices"
	"sort"
	"strings"
	"sync/atomic"
	"time"

	"github.com/c2FmZQ/ech"

	"verif/harness/internal/dohfake"
)

// ---- part 1: sequential histories against an exact model -------------------------------------------------------

// entry is what the model knows about the cached answer of one (name, qtype).
type entry struct {
	Has      bool     `json:"has"`
	Ver      int      `json:"version"`
	At       int64    `json:"fetched_at"`                    // virtual second at which the upstream produced the answer
	AtMax    int64    `json:"received_by,omitempty"`         // virtual second at which the call that fetched it returned, when the clock stepped during that call (else 0)
	TTLs     []uint32 `json:"ttls"`                          // TTLs of ALL records of that response, in answer order (CNAMEs, the RRSet, unrelated extras)
	Own      []uint32 `json:"rrset_ttls,omitempty"`          // of the records the lookup returns (the RRSet at the end of the CNAME chain)
	CN       []uint32 `json:"cname_ttls,omitempty"`          // of the CNAME records of the chain
	Ex       []uint32 `json:"extra_ttls,omitempty"`          // of records owned by an unrelated name
	Neg      []uint32 `json:"soa_ttl_and_minimum,omitempty"` // negative answer: TTL and MINIMUM of the SOA in the authority section
	End      string   `json:"data_from,omitempty"`           // name at the end of the CNAME chain when the answer was fetched
	Empty    bool     `json:"empty,omitempty"`               // no record of the asked type (the response may still carry CNAMEs / extras)
	Certain  bool     `json:"certain"`                       // false: the cache is smaller than the working set, the entry may be gone
	Why      string   `json:"why,omitempty"`
	FailedBy string   `json:"failed_by,omitempty"` // after-failure: what the upstream answered
	Jumped   bool     `json:"clock_stepped_during_fetch,omitempty"`
}

type seqOp struct {
	Kind   string  `json:"op"` // resolve | advance | zone | fail | cachesize
	Name   string  `json:"name,omitempty"`
	D      int64   `json:"seconds,omitempty"`          // advance: step; resolve: step applied while a query is in flight
	JumpAt int     `json:"step_at_query,omitempty"`    // resolve: the clock steps when the n-th upstream query arrives
	Fail   string  `json:"fail,omitempty"`             // fail: none | servfail | http400; rcode: "<name>/<type>=<code>" or "cleared"
	Size   int     `json:"size,omitempty"`             // cachesize
	Spec   any     `json:"zone_change,omitempty"`      // zone: what changed besides the data version
	Clock  int64   `json:"clock"`                      // virtual second at the start of the op
	Ver    int     `json:"zone_version"`               // data version installed when the op started
	Q      *[3]int `json:"upstream_queries,omitempty"` // resolve: queries seen for HTTPS, A, AAAA
	Got    *[3]int `json:"served_versions,omitempty"`  // resolve: version of the HTTPS, A, AAAA data returned (-1 empty)
	Err    string  `json:"error,omitempty"`
	Expect string  `json:"model,omitempty"` // per key: what the model demanded
}

// ---- zone of a sequential history: data names, CNAME aliases with their own TTLs, unrelated extra records ---------

// strictNoData: how to judge a response that carries records (CNAMEs of the chain, unrelated extras) but none of the
// asked type. Read literally, the statement gives such an answer the smallest TTL of those records. The resolver
// treats it like a response without any record (cached 300 s); the 300 s rule for empty answers is an accepted
// leniency of this check, so the default extends it to this class (either outcome accepted up to 300 s). With true,
// such an answer must not be served once it is as old as the smallest TTL of the records present (signature
// stale:no-data-answer-served-beyond-cname-ttl / -extra-record-ttl); asking again earlier stays acceptable.
// On /repo at d04a852 the strict reading is violated: x CNAME y (TTL 2), y without AAAA => the empty AAAA answer of x
// is served from cache for 300 s.
const strictNoData = true

type cname struct {
	Target string `json:"target"`
	TTL    uint32 `json:"ttl"`
}

// extraRR: one record owned by extra.zz (not related to any name looked up) that the server adds to the answers of
// one (name, qtype), before or after the genuine records. The resolver must ignore its data, but it is a record of
// the response, so its TTL bounds the lifetime of the cached answer.
type extraRR struct {
	TTL    uint32 `json:"ttl"`
	Type   string `json:"type"` // A | AAAA | CNAME
	Before bool   `json:"before,omitempty"`
}

type seqZone struct {
	Data  zoneSpec                `json:"rrsets"`                  // data names
	Alias map[string]cname        `json:"cnames,omitempty"`        // alias -> target (a data name or an alias that points to a data name)
	Extra map[string]*[3]*extraRR `json:"extra_records,omitempty"` // query name -> HTTPS, A, AAAA
	// Neg: TTL and MINIMUM of the SOA record that the server puts into the authority section of a NOERROR response
	// without any record of the type asked (RFC 2308; the answer section is empty or holds only the CNAMEs that lead
	// there). It is a record of the response: the negative answer may not outlive it.
	Neg *[2]uint32 `json:"negative_answer_soa,omitempty"`
}

func (z *seqZone) clone() *seqZone {
	c := &seqZone{Data: z.Data.clone(), Alias: map[string]cname{}, Extra: map[string]*[3]*extraRR{}, Neg: z.Neg}
	for k, v := range z.Alias {
		c.Alias[k] = v
	}
	for k, v := range z.Extra {
		e := *v
		c.Extra[k] = &e
	}
	return c
}

// chain follows the aliases from name: TTLs of the CNAME records on the way and the name the data comes from.
func (z *seqZone) chain(name string) (ttls []uint32, end string) {
	for hops := 0; hops < 4; hops++ {
		c, ok := z.Alias[name]
		if !ok {
			break
		}
		ttls = append(ttls, c.TTL)
		name = c.Target
	}
	return ttls, name
}

// response: TTLs of the records the server puts in the answer to (name, qtype k), as the recursive resolver it
// plays does: [extra] CNAME... RRSet-at-the-end... [extra].
func (z *seqZone) response(name string, k int) (all, own, cn, ex, neg []uint32, end string) {
	cn, end = z.chain(name)
	if d := z.Data[end]; d != nil {
		own = d[k].TTLs
	}
	var e *extraRR
	if x := z.Extra[name]; x != nil {
		e = x[k]
	}
	if e != nil {
		ex = []uint32{e.TTL}
		if e.Before {
			all = append(all, e.TTL)
		}
	}
	all = append(append(all, cn...), own...)
	if e != nil && !e.Before {
		all = append(all, e.TTL)
	}
	if len(own) == 0 && z.Neg != nil {
		// no record of the type asked (an empty answer section, or only the CNAMEs that lead to a name without such
		// a record: RFC 2308 section 2.2): the authority section carries the SOA
		neg = []uint32{z.Neg[0], z.Neg[1]}
		all = append(all, neg...)
	}
	return all, own, cn, ex, neg, end
}

func (z *seqZone) install(srv *dohfake.Server, v int) {
	rrs := z.Data.records(v)
	for a, c := range z.Alias {
		rrs[a] = []dohfake.RR{dohfake.CNAME(a, c.Target, c.TTL)}
	}
	poison := map[dohfake.Key]dohfake.Poison{}
	for name, x := range z.Extra {
		for k, e := range x {
			if e == nil {
				continue
			}
			var rr dohfake.RR
			switch e.Type {
			case "A":
				rr = dohfake.Addr("extra.zz", netip.AddrFrom4([4]byte{192, 0, 2, 7}), e.TTL)
			case "AAAA":
				rr = dohfake.Addr("extra.zz", netip.MustParseAddr("2001:db8::7"), e.TTL)
			default:
				rr = dohfake.CNAME("extra.zz", "other.zz", e.TTL)
			}
			p := dohfake.Poison{After: []dohfake.RR{rr}}
			if e.Before {
				p = dohfake.Poison{Before: []dohfake.RR{rr}}
			}
			poison[dohfake.Key{Name: name, Type: qtypes[k]}] = p
		}
	}
	var neg *dohfake.NegSOA
	if z.Neg != nil {
		neg = &dohfake.NegSOA{TTL: z.Neg[0], Minimum: z.Neg[1]}
	}
	srv.Update(func(zz *dohfake.Zone) { zz.RRs, zz.Poison, zz.NegSOA = rrs, poison, neg })
}

func (z *seqZone) dataNames() []string {
	var out []string
	for _, n := range pool {
		if _, alias := z.Alias[n]; !alias {
			out = append(out, n)
		}
	}
	return out
}

func (z *seqZone) aliasNames() []string {
	var out []string
	for _, n := range pool {
		if _, alias := z.Alias[n]; alias {
			out = append(out, n)
		}
	}
	return out
}

// repointTargets: where alias a may point next without making a chain longer than two CNAMEs or a loop.
func (z *seqZone) repointTargets(a string) []string {
	out := z.dataNames()
	pointedAt := false
	for _, c := range z.Alias {
		pointedAt = pointedAt || c.Target == a
	}
	if !pointedAt {
		for _, b := range z.aliasNames() {
			if _, viaAlias := z.Alias[z.Alias[b].Target]; b != a && !viaAlias {
				out = append(out, b)
			}
		}
	}
	var keep []string
	for _, t := range out {
		if t != z.Alias[a].Target {
			keep = append(keep, t)
		}
	}
	return keep
}

func cnameTTL(rng *mrand.Rand) uint32 {
	return []uint32{0, 1, 2, 2, 5, 5, 30, 60, 300, 3600}[rng.IntN(10)]
}

func genExtra(rng *mrand.Rand) *extraRR {
	return &extraRR{TTL: []uint32{0, 1, 2, 5, 30}[rng.IntN(5)], Type: []string{"A", "AAAA", "CNAME"}[rng.IntN(3)], Before: rng.IntN(2) == 0}
}

var failNames = map[int]string{dohfake.FailNone: "none", dohfake.FailServfail: "servfail", dohfake.FailHTTP400: "http400"}

type seqHist struct {
	e            *env
	work         string
	idx          int
	srv          *dohfake.Server
	res          *ech.Resolver
	clock        *vclock
	names        []string
	specs        []*seqZone // by data version
	ver          int
	fail         int
	size         int // cache size (0 = disabled)
	entries      map[string]*[3]entry
	ops          []*seqOp
	counts       map[string]int64
	classes      map[string]bool
	failedBefore bool
	hint         string              // name to look up next
	rcodes       map[dohfake.Key]int // response codes forced on (name, qtype; type 0 = every qtype) while an episode lasts
	// the order in which THIS implementation looks the three keys up, learned from the first call that asked upstream
	// for all three (nil until then); orderUnstable: a later call contradicted it, nothing is inferred from it any more
	lookupOrder   []int
	orderUnstable bool
	resolves      int
}

func (h *seqHist) payload() map[string]any {
	return map[string]any{"names": h.names, "initial_zone": h.specs[0], "history": h.ops,
		"model_entries_now": h.entries, "note": "TTL unit: seconds; clock: virtual seconds since the start of the history"}
}

func (h *seqHist) viol(sig, f string, a ...any) {
	h.e.r.Violate(h.work, h.idx, sig, fmt.Sprintf(f, a...), h.payload())
}

func seqTTL(rng *mrand.Rand) uint32 {
	return []uint32{0, 0, 1, 2, 5, 30, 60, 60, 300, 3600}[rng.IntN(10)]
}

func seqSet(rng *mrand.Rand, k int) rrset {
	n := []int{0, 1, 1, 1, 2, 2, 2, 3, 3}[rng.IntN(9)]
	s := genSet(rng, k, n, func() uint32 { return seqTTL(rng) }, 0)
	if n >= 2 && rng.IntN(4) == 0 { // forced {0,k} mix, zero at a random position
		for i := range s.TTLs {
			s.TTLs[i] = []uint32{1, 2, 5, 30, 60, 300}[rng.IntN(6)]
		}
		s.TTLs[rng.IntN(n)] = 0
	}
	return s
}

func (e *env) seqHistory(work string, idx int, rng *mrand.Rand) {
	r := e.r
	srv := <-e.servers
	defer func() { e.servers <- srv }()
	srv.Reset(dohfake.NewZone())

	h := &seqHist{e: e, work: work, idx: idx, srv: srv, clock: newClock(), size: 32,
		entries: map[string]*[3]entry{}, counts: map[string]int64{}, classes: map[string]bool{}, rcodes: map[dohfake.Key]int{}}
	defer bind(h.clock)()
	// All four names exist in the zone; 0..2 of them are CNAME aliases (the second one may point to the first: a
	// chain of two), the others carry data. The history looks up 1..4 of them, aliases preferred.
	spec := &seqZone{Data: zoneSpec{}, Alias: map[string]cname{}, Extra: map[string]*[3]*extraRR{}}
	if rng.IntN(2) == 0 {
		t := []uint32{0, 1, 2, 5, 30, 60, 300, 3600}
		spec.Neg = &[2]uint32{t[rng.IntN(len(t))], t[rng.IntN(len(t))]}
	}
	perm := rng.Perm(len(pool))
	nAlias := []int{0, 1, 1, 2, 2}[rng.IntN(5)]
	for i, k := range perm {
		name := pool[k]
		switch {
		case i >= nAlias:
			spec.Data[name] = &[3]rrset{seqSet(rng, kHTTPS), seqSet(rng, kA), seqSet(rng, kAAAA)}
		case i == 1 && rng.IntN(2) == 0:
			spec.Alias[name] = cname{pool[perm[0]], cnameTTL(rng)}
		default:
			spec.Alias[name] = cname{pool[perm[nAlias+rng.IntN(len(pool)-nAlias)]], cnameTTL(rng)}
		}
	}
	nNames := 1 + rng.IntN(4)
	look := rng.Perm(len(pool))[:nNames]
	if nAlias > 0 && rng.IntN(4) > 0 {
		look[0] = perm[rng.IntN(nAlias)] // an alias
		for i := 1; i < len(look); i++ {
			if look[i] == look[0] {
				look[i] = look[len(look)-1]
				look = look[:len(look)-1]
				break
			}
		}
	}
	for _, k := range look {
		name := pool[k]
		h.names = append(h.names, name)
		h.entries[name] = &[3]entry{{Why: "first"}, {Why: "first"}, {Why: "first"}}
		for k := 0; k < 3; k++ {
			if rng.IntN(6) == 0 {
				if spec.Extra[name] == nil {
					spec.Extra[name] = &[3]*extraRR{}
				}
				spec.Extra[name][k] = genExtra(rng)
			}
		}
	}
	sort.Strings(h.names)
	h.specs = []*seqZone{spec}
	spec.install(srv, 0)
	res, err := ech.NewResolver(srv.URL)
	if err != nil {
		r.Inconclusive("fixture: NewResolver(%q): %v", srv.URL, err)
		return
	}
	h.res = res
	if idx < 2 {
		r.Sample(map[string]any{"part": "seq", "names_looked_up": h.names, "zone": spec})
	}

	nOps := 10 + rng.IntN(31)
	for step := 0; step < nOps; step++ {
		op := &seqOp{Clock: h.clock.Secs(), Ver: h.ver}
		h.ops = append(h.ops, op)
		h.counts["seq_ops"]++
		p := rng.IntN(100)
		switch {
		case h.hint != "":
			p = 0 // a response-code episode just began or ended: look the affected name up
		case len(h.rcodes) > 0 && rng.IntN(5) == 0:
			p = 93 // episodes are short: end it
		}
		switch {
		case p < 52 || step == 0:
			op.Kind, op.Name = "resolve", h.names[rng.IntN(len(h.names))]
			if h.hint != "" {
				op.Name, h.hint = h.hint, ""
			}
			if rng.IntN(9) == 0 {
				op.JumpAt, op.D = 1+rng.IntN(3), []int64{1, 2, 5, 30, 60, 299}[rng.IntN(6)]
			}
			if h.resolve(op) {
				h.counts["seq_histories_stopped_after_desync"]++
				step = nOps
			}
		case p < 77:
			op.Kind, op.D = "advance", h.genAdvance(rng)
			h.clock.Advance(time.Duration(op.D) * time.Second)
		case p < 88:
			op.Kind = "zone"
			// every zone change gives all records new data (the version); some also change the shape of the zone
			ns := h.specs[h.ver]
			aliases := ns.aliasNames()
			switch c := rng.IntN(8); {
			case c < 2: // one RRSet changes shape (TTLs, number of records, empty <-> non-empty)
				ns = ns.clone()
				data := ns.dataNames()
				name, k := data[rng.IntN(len(data))], rng.IntN(3)
				ns.Data[name][k] = seqSet(rng, k)
				op.Spec = map[string]any{"name": name, "type": qnames[k], "rrset": ns.Data[name][k]}
			case c < 5 && len(aliases) > 0: // a CNAME is repointed
				a := aliases[rng.IntN(len(aliases))]
				if to := ns.repointTargets(a); len(to) > 0 {
					ns = ns.clone()
					nc := cname{to[rng.IntN(len(to))], ns.Alias[a].TTL}
					if rng.IntN(3) == 0 {
						nc.TTL = cnameTTL(rng)
					}
					ns.Alias[a] = nc
					op.Spec = map[string]any{"name": a, "cname": nc}
					h.counts["seq_cname_repointings"]++
				}
			case c == 5 && len(aliases) > 0: // a CNAME gets another TTL
				ns = ns.clone()
				a := aliases[rng.IntN(len(aliases))]
				ns.Alias[a] = cname{ns.Alias[a].Target, cnameTTL(rng)}
				op.Spec = map[string]any{"name": a, "cname": ns.Alias[a]}
			case c == 6: // an unrelated extra record appears in / disappears from the answers of one (name, qtype)
				ns = ns.clone()
				name, k := h.names[rng.IntN(len(h.names))], rng.IntN(3)
				if ns.Extra[name] == nil {
					ns.Extra[name] = &[3]*extraRR{}
				}
				if ns.Extra[name][k] == nil {
					ns.Extra[name][k] = genExtra(rng)
				} else {
					ns.Extra[name][k] = nil
				}
				op.Spec = map[string]any{"name": name, "type": qnames[k], "extra_record": ns.Extra[name][k]}
			}
			h.ver++
			h.specs = append(h.specs, ns)
			ns.install(srv, h.ver)
			h.counts["seq_zone_changes"]++
		case p >= 93 && p < 97:
			// an upstream failure of another kind: a response code outside 1..5 (header codes 6, 9, 10, extended codes
			// 16, 23 whose upper bits travel in the OPT record; 5 as the ordinary control) forced on one name of a chain
			// for one qtype or for all. It lasts until the next op of this kind.
			op.Kind = "rcode"
			if len(h.rcodes) > 0 {
				zone := h.specs[h.ver]
				for _, n := range h.names { // a looked-up name whose lookups the episode hit
					for k := 0; k < 3; k++ {
						if h.forcedRcode(zone, n, k) != 0 && h.entries[n][k].Why == "after-failure" {
							h.hint = n
						}
					}
				}
				clear(h.rcodes)
				op.Fail = "cleared"
			} else {
				zone := h.specs[h.ver]
				cur := h.names[rng.IntN(len(h.names))]
				h.hint = cur
				for hops := rng.IntN(3); hops > 0; hops-- { // the name looked up, or a name further down its CNAME chain
					if c, ok := zone.Alias[cur]; ok {
						cur = c.Target
					}
				}
				key := dohfake.Key{Name: cur}
				typ := "all"
				if k := rng.IntN(4); k < 3 {
					key.Type, typ = qtypes[k], qnames[k]
				}
				h.rcodes[key] = []int{9, 9, 16, 16, 23, 6, 10, 5}[rng.IntN(8)]
				op.Fail = fmt.Sprintf("%s/%s=%d", cur, typ, h.rcodes[key])
				h.counts["seq_rcode_episodes"]++
			}
			forced := map[dohfake.Key]int{}
			for k, v := range h.rcodes {
				forced[k] = v
			}
			srv.Update(func(z *dohfake.Zone) { z.Rcode = forced })
		case p < 93:
			op.Kind = "fail"
			if h.fail == dohfake.FailNone {
				h.fail = dohfake.FailServfail + rng.IntN(2)
			} else {
				h.fail = dohfake.FailNone
			}
			op.Fail = failNames[h.fail]
			srv.SetFail(h.fail)
		default:
			op.Kind, op.Size = "cachesize", []int{0, 0, 1, 2, 4, 32, 64}[rng.IntN(7)]
			h.setCacheSize(op.Size)
		}
	}
	// fingerprint: the set of decision classes this history exercised
	cl := make([]string, 0, len(h.classes))
	for c := range h.classes {
		cl = append(cl, c)
	}
	sort.Strings(cl)
	r.Eval("seq|" + strings.Join(cl, ","))
	h.counts["seq_histories"]++
	for k, v := range h.counts {
		r.Count(k, v)
	}
}

func (h *seqHist) setCacheSize(n int) {
	was := h.size
	h.size = n
	h.res.SetCacheSize(n)
	for _, name := range h.names {
		for k := range h.entries[name] {
			en := &h.entries[name][k]
			switch {
			case n == 0 || was == 0: // cache dropped / a new, empty cache
				*en = entry{Why: "cache-reset"}
			case n < 16: // Resize may have evicted anything
				en.Certain = false
			}
		}
	}
	h.counts["seq_setcachesize"]++
}

// genAdvance prefers steps that land one second before, exactly at, or one second after the moment some cached
// answer reaches its smallest TTL, its smallest non-zero TTL, its largest TTL, or (empty answers) 300 s.
func (h *seqHist) genAdvance(rng *mrand.Rand) int64 {
	now := h.clock.Secs()
	var cands []int64
	for _, name := range h.names {
		for k := range h.entries[name] {
			en := &h.entries[name][k]
			if !en.Has {
				continue
			}
			taus := []uint32{300}
			if !en.Empty {
				taus = []uint32{minTTL(en.TTLs), minPosTTL(en.TTLs), maxTTL(en.TTLs)}
			}
			for _, tau := range taus {
				for d := int64(-1); d <= 1 && tau > 0; d++ {
					if t := en.At + int64(tau) + d; t >= now {
						cands = append(cands, t-now)
					}
				}
			}
		}
	}
	if len(cands) > 0 && rng.IntN(4) > 0 {
		return cands[rng.IntN(len(cands))]
	}
	return []int64{0, 1, 1, 2, 5, 29, 30, 59, 60, 61, 299, 300, 301, 3600, 86400}[rng.IntN(15)]
}

const (
	mustServe = "serve-from-cache"
	mustFetch = "ask-upstream"
	lenient   = "either"
)

// decide: what the statement demands for a lookup of an entry at virtual second now.
func (h *seqHist) decide(en *entry, now int64) (class, reason string) {
	class, reason = h.decideAt(en, now)
	// An answer fetched during a call in which the clock stepped was RECEIVED somewhere between the moment the upstream
	// produced it (At) and the moment the call returned (AtMax): a resolver counts the TTL from receipt, and one that
	// looks several types up at the same time may process an answer produced before the step after it. Where the two
	// ends of that interval give different demands, either behaviour is accepted.
	if en.Has && en.AtMax > en.At {
		late := *en
		late.At = en.AtMax
		if c2, _ := h.decideAt(&late, now); c2 != class {
			return lenient, "received-before-or-after-the-clock-step"
		}
	}
	return class, reason
}

func (h *seqHist) decideAt(en *entry, now int64) (class, reason string) {
	switch {
	case h.size == 0:
		return mustFetch, "cache-disabled"
	case !en.Has:
		return mustFetch, en.Why
	case en.Empty && len(en.TTLs) == 0 && now-en.At < 300:
		return lenient, "empty-answer-under-300s"
	case en.Empty && len(en.TTLs) == 0:
		return mustFetch, "empty-answer-300s-old"
	case en.Empty && !strictNoData && now-en.At < 300: // CNAMEs / extras but no record of the type: see strictNoData
		return lenient, "no-data-answer-under-300s"
	case en.Empty && !strictNoData:
		return mustFetch, "empty-answer-300s-old"
	case en.Empty && now-en.At >= int64(minTTL(en.TTLs)): // strict: never older than the smallest TTL of the records present
		return mustFetch, "no-data-answer-past-record-ttl"
	case en.Empty: // strict: how long within that TTL a negative answer is kept is not demanded
		return lenient, "no-data-answer-within-record-ttl"
	}
	tau, age := int64(minTTL(en.TTLs)), now-en.At
	switch {
	case tau == 0 && maxTTL(en.TTLs) == 0:
		return mustFetch, "ttl0-only"
	case tau == 0:
		return mustFetch, "ttl0-mixed"
	case age == tau:
		return mustFetch, "expired-exactly"
	case age > tau:
		return mustFetch, "expired"
	case !en.Certain:
		return lenient, "within-ttl-small-cache"
	}
	return mustServe, "within-ttl"
}

// staleSig: signature of "no upstream query although the statement demands one".
func staleSig(reason string, en *entry, now int64) string {
	age := now - en.At
	if reason == "no-data-answer-past-record-ttl" {
		return "stale:no-data-answer-served-beyond-" + forcedBy(en, age) + "-ttl"
	}
	if which := forcedBy(en, age); which != "" && (reason == "ttl0-mixed" || reason == "expired" || reason == "expired-exactly") {
		// the returned records alone are still within their TTLs: the answer is too old only because of a record
		// of the response that the lookup does not return
		return "stale:" + which + "-ttl-ignored"
	}
	switch reason {
	case "ttl0-mixed":
		if age < int64(minPosTTL(en.TTLs)) {
			return "stale:ttl0-mixed-treated-as-unset"
		}
		return "stale:ttl0-mixed-served-beyond-smallest-nonzero-ttl"
	case "ttl0-only":
		return "stale:ttl0-answer-served-from-cache"
	case "expired-exactly":
		return "stale:served-at-exact-expiry"
	case "expired":
		shape := "uniform-ttls"
		if maxTTL(en.TTLs) != minTTL(en.TTLs) {
			shape = "mixed-ttls-within-largest"
			if age >= int64(maxTTL(en.TTLs)) {
				shape = "mixed-ttls-beyond-largest"
			}
		}
		return "stale:served-after-expiry:" + shape
	case "after-failure":
		return "failure-cached:no-upstream-query-after-failure"
	case "empty-answer-300s-old":
		return "stale:empty-answer-served-after-300s"
	case "cache-disabled":
		return "stale:served-from-cache-although-disabled"
	}
	return "stale:no-upstream-query:" + reason // first, cache-reset
}

// forcedBy: "cname" / "extra-record" when an answer of this age is past the TTL of a CNAME / unrelated record of its
// response while every record the lookup returns is still within its own TTL; "" otherwise.
func forcedBy(en *entry, age int64) string {
	if len(en.Own) > 0 && age >= int64(minTTL(en.Own)) {
		return ""
	}
	switch {
	case len(en.CN) > 0 && age >= int64(minTTL(en.CN)):
		return "cname"
	case len(en.Neg) > 0 && age >= int64(minTTL(en.Neg)):
		return "authority-soa"
	case len(en.Ex) > 0 && age >= int64(minTTL(en.Ex)):
		return "extra-record"
	}
	return ""
}

// forcedRcode: the response code the upstream gives to a query (name, qtype k) now: forced on the name itself or on
// any name of its CNAME chain, for that qtype or for all (0 = none). dohfake checks every name it walks through.
func (h *seqHist) forcedRcode(zone *seqZone, name string, k int) int {
	for hops := 0; hops < 4; hops++ {
		if rc := h.rcodes[dohfake.Key{Name: name, Type: qtypes[k]}]; rc != 0 {
			return rc
		}
		if rc := h.rcodes[dohfake.Key{Name: name}]; rc != 0 {
			return rc
		}
		c, ok := zone.Alias[name]
		if !ok {
			break
		}
		name = c.Target
	}
	return 0
}

func rcodeClass(rc int) string {
	switch {
	case rc >= 16:
		return "extended-16-and-up"
	case rc > 5:
		return "header-6-15"
	}
	return "header-1-5"
}

// resolve runs one Resolve and judges it. It returns true when model and implementation can no longer be
// reconciled (after a violation whose effect on the cache the monitor cannot know); the history then ends.
func (h *seqHist) resolve(op *seqOp) (stop bool) {
	r, srv := h.e.r, h.srv
	srv.ResetLog()
	// The first call of a history asks upstream for everything. Its answers are held back for a few milliseconds
	// (injected delay, never a verdict): an implementation that sends several of its queries at the same time then
	// shows them in flight together, and the model stops inferring anything from a lookup ORDER (orderUnstable).
	if h.resolves == 0 {
		srv.SetDelay(3 * time.Millisecond)
		defer srv.SetDelay(0)
	}
	h.resolves++
	var arrivals atomic.Int64
	if op.JumpAt > 0 {
		step := time.Duration(op.D) * time.Second
		srv.OnQuery(func(dohfake.Query) {
			if arrivals.Add(1) == int64(op.JumpAt) {
				h.clock.Advance(step) // before the answer is computed: the answer is produced at the new time
			}
		})
	}
	ctx, cancel := context.WithTimeout(context.Background(), 2*time.Minute) // watchdog only
	var res ech.ResolveResult
	var err error
	panicked := r.Guard(h.work, h.idx, "resolve", h.payload(), func() { res, err = h.res.Resolve(ctx, op.Name) })
	expired := ctx.Err() != nil
	cancel()
	srv.OnQuery(nil)
	h.counts["seq_resolves"]++
	if panicked {
		return true
	}
	if expired {
		r.Inconclusive("watchdog: Resolve(%q) did not return within 2 minutes", op.Name)
		return true
	}
	n, other := countQueries(srv.Log(), op.Name)
	op.Q = &n
	if len(other) > 0 {
		r.Inconclusive("monitor: Resolve(%q) sent queries the model does not cover: %v", op.Name, other)
		return true
	}
	ec := classifyErr(err)
	if err != nil {
		op.Err = err.Error()
	}
	if ec == errFixture {
		r.Inconclusive("fixture: transport error %v", err)
		return true
	}

	// ---- model walk: the three keys, in the order in which Resolve asked upstream for them (whatever that order
	// is: the statement does not fix it), then the keys it did not ask for ----
	now := h.clock.Secs()
	jumped := op.JumpAt > 0 && arrivals.Load() >= int64(op.JumpAt)
	if jumped {
		now -= op.D // the step happened during this call
		h.counts["seq_clock_steps_during_query"]++
		h.classes["clock-step-during-query"] = true
	}
	now0, now1 := now, now // before and after the step (equal when there was none)
	if jumped {
		now1 = now0 + op.D
	}
	var pos [3]int // 1-based arrival position of the first query for each key among the queries of this call; 0 = none
	{
		qs := srv.Log()
		sort.SliceStable(qs, func(i, j int) bool { return qs[i].Seq < qs[j].Seq })
		idx := 0
		for _, q := range qs {
			if q.Name != op.Name {
				continue
			}
			idx++
			for k := range qtypes {
				if q.Type == qtypes[k] && pos[k] == 0 {
					pos[k] = idx
				}
			}
		}
	}
	order := []int{0, 1, 2}
	sort.SliceStable(order, func(i, j int) bool {
		a, b := pos[order[i]], pos[order[j]]
		switch {
		case a > 0 && b > 0:
			return a < b
		case a > 0:
			return true
		}
		return false
	})
	zone := h.specs[h.ver]
	_, endNow := zone.chain(op.Name)
	ents := h.entries[op.Name]
	var want [3]int // version each key must show; verBad = unknown
	var expect []string
	expectErr, afterFail, sent, allCached, failedBy, failedRc := false, false, 0, true, "", 0
	for _, q := range srv.Log() {
		if q.Overlap > 0 && !h.orderUnstable {
			h.orderUnstable = true // queries in flight at the same time: there is no lookup order to speak of
			h.counts["seq_histories_with_overlapping_upstream_queries"]++
		}
	}
	// learn / confirm the lookup order from what was asked upstream in this call
	var asked []int
	for _, k := range order {
		if pos[k] > 0 {
			asked = append(asked, k)
		}
	}
	rank := func(k int) int { return slices.Index(h.lookupOrder, k) }
	if h.lookupOrder == nil && len(asked) == 3 {
		h.lookupOrder = asked
	} else if h.lookupOrder != nil {
		for i := 1; i < len(asked); i++ {
			if rank(asked[i-1]) > rank(asked[i]) {
				h.orderUnstable = true
			}
		}
	}
	trigger := -1 // the key whose (first) query made the clock step
	for k := range pos {
		if jumped && pos[k] == op.JumpAt {
			trigger = k
		}
	}
	gaveUp := false // a lookup failed and Resolve reported it: what it did not ask for afterwards is not judged
	for _, k := range order {
		en := &ents[k]
		if gaveUp && n[k] == 0 {
			continue
		}
		// the moment at which Resolve looked into its cache for this key: just before its own query if it sent one
		// (a query that arrived after the step was preceded by a look after the step); unknown for a key it did not
		// ask for when the clock stepped during the call - then either answer of the model is accepted where the two
		// moments disagree
		now = now0
		if jumped && pos[k] > op.JumpAt {
			now = now1
		}
		if jumped && pos[k] == 0 && h.lookupOrder != nil && !h.orderUnstable && trigger >= 0 && rank(k) > rank(trigger) {
			now = now1 // this implementation looks this key up after the one whose query made the clock step
		}
		class, reason := h.decide(en, now)
		if jumped && pos[k] == 0 && (h.lookupOrder == nil || h.orderUnstable || trigger < 0) {
			if c1, _ := h.decide(en, now1); c1 != class {
				class, reason = lenient, "looked-up-before-or-after-the-clock-step"
			}
		}
		expect = append(expect, fmt.Sprintf("%s:%s(%s)", qnames[k], class, reason))
		h.classes[class+"/"+reason] = true
		h.counts["seq_lookups"]++
		age := now - en.At
		if endNow != op.Name {
			h.counts["seq_lookups_through_cname"]++
		}
		if en.Has && h.size > 0 {
			if len(en.Ex) > 0 {
				h.counts["seq_lookups_of_answers_with_extra_record"]++
			}
			if len(en.CN) > 0 && len(en.Own) > 0 {
				switch {
				case minTTL(en.CN) == 0:
					h.counts["seq_lookups_cname_ttl0"]++
				case minTTL(en.CN) < minTTL(en.Own):
					h.counts["seq_lookups_cname_ttl_below_rrset_ttl"]++
				case minTTL(en.CN) > minTTL(en.Own):
					h.counts["seq_lookups_cname_ttl_above_rrset_ttl"]++
				}
			}
			if class == mustFetch && !en.Empty {
				switch forcedBy(en, age) {
				case "cname":
					h.counts["seq_refetch_forced_by_cname_ttl_only"]++
					h.classes["refetch-forced-by-cname-ttl"] = true
				case "extra-record":
					h.counts["seq_refetch_forced_by_extra_record_ttl_only"]++
					h.classes["refetch-forced-by-extra-ttl"] = true
				}
			}
			if class == mustServe && len(en.CN) > 0 {
				h.counts["seq_served_within_cname_ttl"]++
				if en.End != endNow {
					h.counts["seq_served_within_ttl_after_repointing"]++
				}
			}
			if en.Empty && len(en.TTLs) > 0 {
				h.counts["seq_lookups_of_no_data_answers_with_records"]++
			}
		}
		switch reason {
		case "ttl0-only":
			h.counts["seq_ttl0_only_lookups"]++
		case "ttl0-mixed":
			h.counts["seq_ttl0_mixed_lookups"]++
			if en.TTLs[len(en.TTLs)-1] != 0 {
				h.counts["seq_ttl0_mixed_zero_not_last_lookups"]++
			}
		case "expired-exactly":
			h.counts["seq_refetch_at_exact_expiry"]++
		case "after-failure":
			afterFail = true
		case "within-ttl":
			if age == int64(minTTL(en.TTLs))-1 {
				h.counts["seq_served_one_second_before_expiry"]++
			}
			if en.Ver != h.ver {
				h.counts["seq_old_version_served_within_ttl"]++
			}
			if en.Jumped {
				h.classes["within-ttl-after-clock-step"] = true
			}
		}
		fetched := n[k] >= 1
		switch class {
		case mustServe:
			if n[k] != 0 {
				sig := "within-ttl:upstream-query-although-cached"
				if en.Jumped {
					sig = "within-ttl:requery-when-clock-stepped-during-fetch"
				}
				h.viol(sig, "Resolve(%s) at second %d sent %d %s quer(ies) upstream although the answer of version %d fetched at second %d with TTLs %v is %d s old (smallest TTL %d)",
					op.Name, now, n[k], qnames[k], en.Ver, en.At, en.TTLs, age, minTTL(en.TTLs))
			} else {
				h.counts["seq_served_from_cache_within_ttl"]++
			}
		case mustFetch:
			if n[k] == 0 {
				if !en.Has {
					h.viol(staleSig(reason, en, now), "Resolve(%s) at second %d sent no %s query although nothing can be cached for it (%s)", op.Name, now, qnames[k], reason)
					op.Expect = strings.Join(expect, " ")
					return true // nothing known about what the cache holds
				}
				h.viol(staleSig(reason, en, now), "Resolve(%s) at second %d sent no %s query: it served the answer of version %d fetched at second %d (%d s old) whose records have TTLs %v, smallest %d (%s)",
					op.Name, now, qnames[k], en.Ver, en.At, age, en.TTLs, minTTL(en.TTLs), reason)
			}
		}
		// The statement says when the upstream must and must not be asked, not how often one call may ask: a resolver
		// may repeat a query that failed. More than a handful of queries for one key in one call is a storm, though.
		if n[k] > 3 {
			h.viol("refetch:query-storm", "Resolve(%s) sent %d %s queries in one call", op.Name, n[k], qnames[k])
		} else if n[k] > 1 {
			h.counts["seq_keys_asked_more_than_once_in_a_call"]++
		}
		if !fetched {
			want[k] = verBad
			if en.Has {
				want[k] = en.Ver
				if en.Empty {
					want[k] = verEmpty
				}
			}
			continue
		}
		allCached = false
		sent++
		if jumped && pos[k] >= op.JumpAt {
			now = now1 // the answer to the query that triggered the step, and to every later one, was produced after it
		}
		if rc := h.forcedRcode(zone, op.Name, k); h.fail != dohfake.FailNone || rc != 0 {
			by := failNames[h.fail]
			if h.fail == dohfake.FailNone {
				by = fmt.Sprintf("rcode%d", rc)
			}
			if !expectErr {
				expectErr, failedBy, failedRc = true, by, rc
				if h.fail != dohfake.FailNone {
					failedRc = 0
				}
			}
			*en = entry{Why: "after-failure", FailedBy: by}
			h.failedBefore = true
			want[k] = verBad
			if err != nil {
				gaveUp = true // Resolve reports the failure, as it must; it may still have asked for other keys
			}
			continue // keep the model in step for the remaining keys
		}
		if en.Why == "after-failure" && strings.HasPrefix(en.FailedBy, "rcode") {
			h.counts["seq_refetched_after_rcode_failure"]++
		}
		all, own, cn, ex, neg, end := zone.response(op.Name, k)
		atMax := int64(0)
		if jumped && now1 > now {
			atMax = now1
		}
		*en = entry{Has: true, Ver: h.ver, At: now, AtMax: atMax, TTLs: all, Own: own, CN: cn, Ex: ex, Neg: neg, End: end, Empty: len(own) == 0, Certain: h.size >= 16,
			Jumped: jumped && pos[k] >= op.JumpAt}
		want[k] = h.ver
		if en.Empty {
			want[k] = verEmpty
			h.counts["seq_empty_answers"]++
		}
		h.counts["seq_upstream_fetches"]++
	}
	op.Expect = strings.Join(expect, " ")

	// ---- outcome ----
	switch {
	case expectErr && err == nil:
		sig := "failure:data-returned-while-upstream-failing"
		if failedRc != 0 {
			sig = "failure:no-error-for-upstream-response-code:" + rcodeClass(failedRc)
		}
		h.viol(sig, "Resolve(%s) returned no error although its upstream query was answered with a failure (%s)", op.Name, failedBy)
		return false // the failed key is absent in the model: serving it from cache next time is the follow-up violation
	case expectErr:
		h.counts["seq_failed_resolves"]++
		h.classes["failed/"+failedBy] = true
		if failedRc != 0 {
			h.counts["seq_failed_resolves_rcode_"+rcodeClass(failedRc)]++
		}
		if ec != errUpstream {
			h.viol("failure:wrong-error", "Resolve(%s) failed with %q while the upstream failure was %s", op.Name, err, failedBy)
		}
		return false
	case err != nil:
		sig := "error:resolve-failed-while-upstream-answered"
		if h.failedBefore && h.fail == dohfake.FailNone && len(h.rcodes) == 0 {
			sig = "failure-cached:error-after-recovery"
		}
		h.viol(sig, "Resolve(%s) failed with %q although every upstream query it sent (%v) was answered without failure", op.Name, err, n)
		return true
	}
	if h.fail != dohfake.FailNone && allCached {
		h.counts["seq_failing_upstream_served_from_cache"]++
		h.classes["served-while-upstream-failing"] = true
	}
	if afterFail && !expectErr {
		h.counts["seq_resolves_after_recovery"]++
	}
	if _, end := zone.chain(op.Name); zone.Data[end] != nil && len(zone.Data[end][kHTTPS].Prio) >= 2 && len(res.HTTPS) >= 2 {
		h.counts["seq_results_checked_as_sorted_copy_of_unsorted_answer"]++
	}
	got, problem, pclass := observe(op.Name, res, func(v int) (string, *[3]rrset) {
		if v < 0 || v >= len(h.specs) {
			return "", nil
		}
		_, end := h.specs[v].chain(op.Name)
		return end, h.specs[v].Data[end]
	})
	op.Got = &got
	for k := 0; k < 3; k++ {
		switch {
		case got[k] == verBad:
			h.viol("wrong-data:"+qnames[k]+":"+pclass[k], "Resolve(%s): %s", op.Name, problem)
		case want[k] == verBad: // violation already recorded above
		case got[k] != want[k] && n[k] == 0:
			h.viol("wrong-data:"+qnames[k]+":cache-returned-other-version", "Resolve(%s) served %s data of version %d without an upstream query; the cached answer is version %d", op.Name, qnames[k], got[k], want[k])
		case got[k] != want[k]:
			h.viol("wrong-data:"+qnames[k]+":fresh-query-but-other-version", "Resolve(%s) asked upstream (current version %d) but returned %s data of version %d", op.Name, want[k], qnames[k], got[k])
		}
	}
	t, s, m := useResult(res, mrand.New(mrand.NewPCG(uint64(h.idx), uint64(len(h.ops)))))
	h.counts["targets_yielded"] += int64(t)
	h.counts["https_records_with_spare_alpn_capacity"] += int64(s)
	h.counts["own_copy_mutations"] += int64(m)
	return false
}
