// C16 — the resolver cache never serves stale answers and is safe under concurrency.
//
// Three parts (DESIGN.md section 6, C16):
//
//	seq   sequential histories over {resolve, resolve with a clock step during an upstream query, advance clock,
//	      change zone, upstream fails / recovers, SetCacheSize} judged against an exact model per (name, qtype):
//	      the oracle reads the upstream query log of the fake DoH server and the zone version that every returned
//	      record identifies; it never looks inside the Resolver.
//	conc  concurrent phases (2..16 goroutines, held / released upstream queries, zone changes and failure blips in
//	      the middle of a phase, clock changes at barriers) judged by porcupine against a per-(name, qtype)
//	      nondeterministic model plus deterministic per-phase query counts.
//	race  the same concurrent workload in a -race build (stage "race" of bin/stages.json, VERIF_C16_PART=race);
//	      the driver turns every DATA RACE block into a violation.
//
// All time is virtual (ech.VerifSetClock); no verdict depends on the wall clock.
package c16

import (
	"bytes"
	"context"
	"errors"
	"fmt"
	"io"
	"log"
	mrand "math/rand/v2"
	"net"
	"net/netip"
	"net/url"
	"os"
	"runtime"
	"sort"
	"strconv"
	"strings"
	"sync"
	"sync/atomic"
	"testing"
	"time"

	"github.com/c2FmZQ/ech"

	"verif/harness/internal/dohfake"
	"verif/harness/internal/mon"
)

// ---- virtual clock -------------------------------------------------------------------------------------------
//
// ech.VerifSetClock replaces ONE package-level clock, but histories run on all cores, each with its own virtual
// time. The clock function therefore dispatches on the calling goroutine: the resolver reads the clock only on the
// goroutine that called Resolve (resolveOne runs on the caller), and every goroutine that calls Resolve is bound to
// the clock of its history first. A clock read from a goroutine that is not bound is counted and makes the run
// inconclusive (it would mean the code under test reads the clock somewhere the monitor does not control).

type vclock struct {
	mu sync.Mutex
	t  time.Time
}

var baseTime = time.Date(2040, 1, 1, 0, 0, 0, 0, time.UTC)

func newClock() *vclock { return &vclock{t: baseTime} }

func (c *vclock) Now() time.Time {
	c.mu.Lock()
	defer c.mu.Unlock()
	return c.t
}

func (c *vclock) Advance(d time.Duration) {
	c.mu.Lock()
	c.t = c.t.Add(d)
	c.mu.Unlock()
}

// Secs is the virtual time in whole seconds since the start of the history (all steps are whole seconds).
func (c *vclock) Secs() int64 { return int64(c.Now().Sub(baseTime) / time.Second) }

var (
	clocks       sync.Map // goroutine id -> *vclock
	unboundReads atomic.Int64
	clockReads   atomic.Int64
)

func gid() uint64 {
	var buf [64]byte
	b := buf[:runtime.Stack(buf[:], false)]
	b = bytes.TrimPrefix(b, []byte("goroutine "))
	if i := bytes.IndexByte(b, ' '); i > 0 {
		b = b[:i]
	}
	n, _ := strconv.ParseUint(string(b), 10, 64)
	return n
}

func clockNow() time.Time {
	clockReads.Add(1)
	id := gid()
	if c, ok := clocks.Load(id); ok {
		return c.(*vclock).Now()
	}
	// A goroutine that the library started itself (an implementation may look two record types up at the same time):
	// it lives in the history of the goroutine that created it. The traceback names the creator ("created by ... in
	// goroutine N"); the clock found that way is remembered for this goroutine (ids are never reused).
	if parent := creatorOf(); parent != 0 {
		if c, ok := clocks.Load(parent); ok {
			clocks.Store(id, c)
			inheritedClocks.Add(1)
			return c.(*vclock).Now()
		}
	}
	unboundReads.Add(1)
	return baseTime
}

var inheritedClocks atomic.Int64

// creatorOf: the id of the goroutine that created the calling one (0 if the traceback does not say).
func creatorOf() uint64 {
	buf := make([]byte, 16<<10)
	b := buf[:runtime.Stack(buf, false)]
	i := bytes.LastIndex(b, []byte("created by "))
	if i < 0 {
		return 0
	}
	line := b[i:]
	if j := bytes.IndexByte(line, '\n'); j >= 0 {
		line = line[:j]
	}
	k := bytes.LastIndex(line, []byte(" in goroutine "))
	if k < 0 {
		return 0
	}
	n, _ := strconv.ParseUint(string(bytes.TrimSpace(line[k+len(" in goroutine "):])), 10, 64)
	return n
}

// bind makes c the clock of the calling goroutine until the returned function is called.
func bind(c *vclock) (unbind func()) {
	id := gid()
	clocks.Store(id, c)
	return func() { clocks.Delete(id) }
}

// ---- zone data: every record identifies the data version it belongs to ------------------------------------------

const (
	kHTTPS = 0
	kA     = 1
	kAAAA  = 2

	verEmpty = -1 // the result carried no record of this type
	verBad   = -2 // records that are not one complete RRSet of one version
)

var (
	qtypes = [3]uint16{dohfake.TypeHTTPS, dohfake.TypeA, dohfake.TypeAAAA}
	qnames = [3]string{"HTTPS", "A", "AAAA"}
	pool   = []string{"a.zz", "b.zz", "c.zz", "d.zz"}
	alpns  = []string{"h2", "h3", "http/1.1", "x1", "x2"}
)

// rrset: one RRSet; record i has TTL TTLs[i]. HTTPS records additionally carry an ALPN list.
type rrset struct {
	TTLs []uint32   `json:"ttls"`
	Prio []uint16   `json:"priorities,omitempty"` // HTTPS: distinct priorities in ZONE order, which is in general not ascending
	ALPN [][]string `json:"alpn,omitempty"`
	NDA  []bool     `json:"no_default_alpn,omitempty"`
}

// zoneSpec: name -> RRSets of HTTPS, A, AAAA. A spec is immutable once installed (copy on change).
type zoneSpec map[string]*[3]rrset

func (z zoneSpec) clone() zoneSpec {
	out := zoneSpec{}
	for n, s := range z {
		c := *s
		out[n] = &c
	}
	return out
}

// echTag: ech parameter of the HTTPS record of name with priority prio at data version v.
func echTag(v int, name string, prio int) string { return fmt.Sprintf("v=%d;%s;p%d", v, name, prio) }

// records builds the universe of data version v: address i of name is dohfake.AutoAddr(name, v, i); the HTTPS records
// (service mode, owner as target) have distinct priorities, are listed in the zone (and hence in the answer) in an
// order that is generally NOT ascending, and carry "v=<v>;<name>;p<priority>" as their ech parameter.
func (z zoneSpec) records(v int) map[string][]dohfake.RR {
	out := map[string][]dohfake.RR{}
	for name, sets := range z {
		var rrs []dohfake.RR
		for i, ttl := range sets[kHTTPS].TTLs {
			rrs = append(rrs, dohfake.Svc(name, dohfake.HTTPS{Priority: sets[kHTTPS].Prio[i], ALPN: sets[kHTTPS].ALPN[i],
				NoDefaultALPN: sets[kHTTPS].NDA[i], ECH: []byte(echTag(v, name, int(sets[kHTTPS].Prio[i])))}, ttl))
		}
		for i, ttl := range sets[kA].TTLs {
			rrs = append(rrs, dohfake.Addr(name, dohfake.AutoAddr(name, v, i, false), ttl))
		}
		for i, ttl := range sets[kAAAA].TTLs {
			rrs = append(rrs, dohfake.Addr(name, dohfake.AutoAddr(name, v, i, true), ttl))
		}
		out[name] = rrs
	}
	return out
}

// install swaps the server's data atomically (under the server's lock) for version v of spec.
func install(srv *dohfake.Server, spec zoneSpec, v int) {
	rrs := spec.records(v)
	srv.Update(func(z *dohfake.Zone) { z.RRs = rrs })
}

func minTTL(t []uint32) uint32 {
	if len(t) == 0 {
		return 0
	}
	m := t[0]
	for _, x := range t {
		m = min(m, x)
	}
	return m
}
func maxTTL(t []uint32) uint32 {
	if len(t) == 0 {
		return 0
	}
	m := t[0]
	for _, x := range t {
		m = max(m, x)
	}
	return m
}

// minPosTTL: smallest non-zero TTL (0 when all are zero).
func minPosTTL(t []uint32) uint32 {
	var m uint32
	for _, x := range t {
		if x > 0 && (m == 0 || x < m) {
			m = x
		}
	}
	return m
}

// observe maps a result to the data version each of its three RRSets belongs to. endOf(v) tells which name the
// data of the looked-up name comes from at version v (the name itself, or the end of its CNAME chain) and that
// name's RRSets (nil = no such version). A set that is not exactly the RRSet of one version is verBad.
func observe(name string, res ech.ResolveResult, endOf func(v int) (owner string, sets *[3]rrset)) (ver [3]int, problem string, class [3]string) {
	ver = [3]int{verEmpty, verEmpty, verEmpty}
	bad := func(k int, cls, f string, a ...any) {
		ver[k] = verBad
		if class[k] == "" {
			class[k] = cls
		}
		if problem == "" {
			problem = qnames[k] + ": " + fmt.Sprintf(f, a...)
		}
	}
	// HTTPS: exactly the records of ONE version of the name the lookup leads to, each once, in ascending priority
	seen := map[int]bool{}
	for i, h := range res.HTTPS {
		var v, prio int
		parts := strings.Split(string(h.ECH), ";")
		if len(parts) == 3 && strings.HasPrefix(parts[0], "v=") && strings.HasPrefix(parts[2], "p") {
			v, _ = strconv.Atoi(parts[0][2:])
			prio, _ = strconv.Atoi(parts[2][1:])
		}
		owner, sets := endOf(v)
		if len(parts) != 3 || sets == nil || string(h.ECH) != echTag(v, owner, prio) {
			bad(kHTTPS, "unknown-record", "record %d carries ech %q which is not a record of the name %s leads to at that version", i, h.ECH, name)
			break
		}
		if i == 0 {
			ver[kHTTPS] = v
		}
		zi := -1 // index of that priority in the zone's list
		for j, p := range sets[kHTTPS].Prio {
			if int(p) == prio {
				zi = j
			}
		}
		switch {
		case v != ver[kHTTPS]:
			bad(kHTTPS, "records-of-two-versions", "records of versions %d and %d in one result", ver[kHTTPS], v)
		case int(h.Priority) != prio || zi < 0:
			bad(kHTTPS, "unknown-record", "record %d has priority %d but the ech of the priority %d record of version %d", i, h.Priority, prio, v)
		case seen[prio]:
			bad(kHTTPS, "record-duplicated", "the priority %d record of version %d appears twice (priorities returned: %v, zone: %v)", prio, v, prios(res), sets[kHTTPS].Prio)
		case i > 0 && res.HTTPS[i-1].Priority > h.Priority:
			bad(kHTTPS, "not-in-priority-order", "priorities returned %v are not ascending (zone order: %v)", prios(res), sets[kHTTPS].Prio)
		case fmt.Sprint(h.ALPN) != fmt.Sprint(sets[kHTTPS].ALPN[zi]) || h.NoDefaultALPN != sets[kHTTPS].NDA[zi]:
			bad(kHTTPS, "alpn-differs", "the priority %d record has alpn %q no-default-alpn=%v, the zone has %q %v", prio, h.ALPN, h.NoDefaultALPN, sets[kHTTPS].ALPN[zi], sets[kHTTPS].NDA[zi])
		case i == len(res.HTTPS)-1 && len(sets[kHTTPS].TTLs) != len(res.HTTPS):
			bad(kHTTPS, "record-missing", "%d records with priorities %v, version %d has %v", len(res.HTTPS), prios(res), v, sets[kHTTPS].Prio)
		}
		seen[prio] = true
		if ver[kHTTPS] == verBad {
			break
		}
	}
	// A, AAAA
	var got [3][]netip.Addr
	for _, ip := range res.Address {
		a, ok := netip.AddrFromSlice(ip)
		if !ok {
			bad(kA, "not-one-rrset", "address %v is not an IP", ip)
			continue
		}
		if a = a.Unmap(); a.Is4() {
			got[kA] = append(got[kA], a)
		} else {
			got[kAAAA] = append(got[kAAAA], a)
		}
	}
	for _, k := range []int{kA, kAAAA} {
		if len(got[k]) == 0 || ver[k] == verBad {
			continue
		}
		v := dohfake.AddrVersion(got[k][0])
		owner, sets := endOf(v)
		if sets == nil || len(sets[k].TTLs) != len(got[k]) {
			bad(k, "not-one-rrset", "%d addresses %v are not the RRSet of version %d", len(got[k]), got[k], v)
			continue
		}
		want := map[netip.Addr]bool{}
		for i := range got[k] {
			want[dohfake.AutoAddr(owner, v, i, k == kAAAA)] = true
		}
		for _, a := range got[k] {
			if !want[a] {
				bad(k, "not-one-rrset", "address %s is not an address of %s (where %s leads) at version %d", a, owner, name, v)
			}
			delete(want, a)
		}
		if ver[k] != verBad {
			ver[k] = v
		}
	}
	return ver, problem, class
}

func prios(res ech.ResolveResult) []uint16 {
	var out []uint16
	for _, h := range res.HTTPS {
		out = append(out, h.Priority)
	}
	return out
}

// ---- generators shared by the parts --------------------------------------------------------------------------

func genALPN(rng *mrand.Rand, n int) []string {
	// 1..5 entries (0 = no alpn parameter): the decoder builds the list with append, so 3 and 5 entries leave spare capacity
	out := []string{}
	for _, k := range rng.Perm(len(alpns))[:n] {
		out = append(out, alpns[k])
	}
	if n == 0 {
		return nil
	}
	return out
}

// genSet draws one RRSet. ttl draws one TTL; zeroMix in {-1: as drawn, 0: force all-positive, 1: force a {0,k} mix}.
func genSet(rng *mrand.Rand, k, n int, ttl func() uint32, minALPN int) rrset {
	var s rrset
	if k == kHTTPS && n > 0 {
		// distinct priorities from 1..9 in a random zone order; when that happens to be ascending it is turned
		// around, so that a set of two or more records is never listed in priority order
		for _, p := range rng.Perm(9)[:n] {
			s.Prio = append(s.Prio, uint16(p+1))
		}
		if sort.SliceIsSorted(s.Prio, func(i, j int) bool { return s.Prio[i] < s.Prio[j] }) {
			for i, j := 0, n-1; i < j; i, j = i+1, j-1 {
				s.Prio[i], s.Prio[j] = s.Prio[j], s.Prio[i]
			}
		}
	}
	for i := 0; i < n; i++ {
		s.TTLs = append(s.TTLs, ttl())
		if k == kHTTPS {
			na := minALPN + rng.IntN(6-minALPN)
			s.ALPN = append(s.ALPN, genALPN(rng, na))
			s.NDA = append(s.NDA, na > 0 && rng.IntN(4) == 0)
		}
	}
	return s
}

// ---- error classes ---------------------------------------------------------------------------------------------

const (
	errNone     = ""
	errUpstream = "upstream-failure" // what the failure switch / a forced response code of the fake server produces
	errFixture  = "transport"        // sockets, cancelled watchdog context: never a verdict
	errOther    = "other"
)

func classifyErr(err error) string {
	if err == nil {
		return errNone
	}
	if errors.Is(err, ech.ErrServerFailure) || errors.Is(err, ech.ErrQueryRefused) || strings.Contains(err.Error(), "status code 400") || strings.Contains(err.Error(), "response code ") {
		return errUpstream
	}
	var ue *url.Error
	var ne net.Error
	if errors.As(err, &ue) || errors.As(err, &ne) || errors.Is(err, context.Canceled) || errors.Is(err, context.DeadlineExceeded) {
		return errFixture
	}
	// Any other error: C16 asks WHETHER a failure is reported (and not cached), not in which words or class - the
	// mapping of response codes to the documented errors is C14's business, and response codes outside 1..5 have no
	// documented error at all. An error that is reported although the upstream answered is judged by the callers
	// (error-while-upstream-answered), whatever its class.
	return errUpstream
}

// countQueries: upstream queries per qtype of name in a log; other counts everything else.
func countQueries(qlog []dohfake.Query, name string) (n [3]int, other []string) {
	for _, q := range qlog {
		hit := false
		for k := range qtypes {
			if q.Name == name && q.Type == qtypes[k] {
				n[k]++
				hit = true
			}
		}
		if !hit {
			other = append(other, fmt.Sprintf("%s/%d", q.Name, q.Type))
		}
	}
	return n, other
}

// ---- use of a result, as a caller would -----------------------------------------------------------------------

var sink atomic.Uint64

// useResult reads everything a caller can reach from res, iterates Targets, and modifies the caller's OWN copy
// (append to / reorder the slices of the returned struct, which Resolve built for this call). It never writes
// through a slice it did not create. Returns targets yielded and records whose ALPN slice has spare capacity.
var sharedSeqs, sharedSeqDiffers atomic.Int64

func useResult(res ech.ResolveResult, rng *mrand.Rand) (targets, spare, mutations int) {
	var acc uint64
	read := func(r ech.ResolveResult, network string) {
		for t := range r.Targets(network) {
			targets++
			acc += uint64(t.Address.Port())
			for _, b := range t.ECH {
				acc += uint64(b)
			}
			for _, a := range t.ALPN {
				acc += uint64(len(a))
				if len(a) > 0 {
					acc += uint64(a[0])
				}
			}
		}
	}
	for _, h := range res.HTTPS {
		if cap(h.ALPN) > len(h.ALPN) {
			spare++
		}
		for _, a := range h.ALPN {
			acc += uint64(len(a))
		}
		acc += uint64(len(h.ECH)) + uint64(h.Priority) + uint64(h.Port)
	}
	for _, ip := range res.Address {
		for _, b := range ip {
			acc += uint64(b)
		}
	}
	read(res, "tcp")
	read(res, []string{"tcp", "tcp4", "tcp6"}[rng.IntN(3)])
	// one target sequence handed to two goroutines (a result and what it hands out may be shared)
	if rng.IntN(4) == 0 {
		seq := res.Targets("tcp")
		var n [2]int
		var wg sync.WaitGroup
		for g := 0; g < 2; g++ {
			wg.Add(1)
			go func() {
				defer wg.Done()
				for t := range seq {
					n[g] += 1 + int(t.Address.Port())&0
				}
			}()
		}
		wg.Wait()
		if n[0] != n[1] {
			sharedSeqDiffers.Add(1)
		}
		sharedSeqs.Add(1)
	}
	// the caller's own copy
	mine := res
	switch rng.IntN(4) {
	case 0:
		mine.Address = append(mine.Address, net.IP{192, 0, 2, byte(1 + rng.IntN(250))})
		mutations++
	case 1:
		if len(mine.HTTPS) > 1 {
			sort.SliceStable(mine.HTTPS, func(i, j int) bool { return mine.HTTPS[i].Priority > mine.HTTPS[j].Priority })
			mutations++
		}
	case 2:
		if len(mine.HTTPS) > 0 {
			extra := mine.HTTPS[0]
			extra.Priority = 99
			mine.HTTPS = append(mine.HTTPS, extra)
			mutations++
		}
	case 3:
		mine.Port = 8443
		if len(mine.Address) > 1 {
			mine.Address[0], mine.Address[1] = mine.Address[1], mine.Address[0]
		}
		mutations++
	}
	read(mine, "tcp")
	sink.Add(acc)
	return targets, spare, mutations
}

// ---- the check -------------------------------------------------------------------------------------------------

type env struct {
	r       *mon.Run
	servers chan *dohfake.Server
}

func TestCheck(t *testing.T) {
	log.SetOutput(io.Discard)
	r := mon.Start(t, "C16", "exploration")
	defer r.Finish()
	part := os.Getenv("VERIF_C16_PART") // "" = seq + conc, "race" = the concurrent workload only (built with -race)
	r.SetRule("seq: seed-determined histories of 10..40 ops from {resolve(name), resolve(name) with the clock stepping while the n-th upstream query is in flight, advance clock (0, 1 s, to TTL-1 / TTL / TTL+1 of a cached answer, 300+-1, hours), " +
		"change zone data (every record identifies its data version; TTL sets may change; CNAMEs are repointed or get another TTL; unrelated extra records appear in answers), upstream fails with SERVFAIL / HTTP 400 / recovers, a response code outside 1..5 (6, 9, 10, extended 16, 23; 5 as control) is forced on one name of a chain for one qtype or all until cleared, SetCacheSize(0|1..4|32|64)} over 1..4 bare host names of which 0..2 are CNAME aliases (chains of one or two CNAMEs, each with its own TTL from {0,1,2,5,30,60,300,3600}, smaller and larger than the TTLs at the chain end), RRSets of 0..3 records with per-record TTLs from {0,1,2,5,30,60,300,3600} incl. mixed {0,k} sets in every order; " +
		"conc: cases of 3..6 phases, 2..16 goroutines x 1..3 Resolve+Targets calls on 1..3 names; every name has 2..4 service-mode HTTPS records with distinct priorities listed in the zone OUT of priority order (ech = name, version, priority); phase kinds plain / upstream queries held then released / held + zone change / held + failure blip / zone change while running / whole phase failing (switch or forced response code 9 / 16 / 23) / 100 herd rounds (all answers of one name just expired, all goroutines ask at once; 10 rounds in the race stage); clock steps at barriers to TTL-1 / TTL / TTL+1; " +
		"distinct = distinct sets of (decision class, reason) per history resp. (phase kinds, goroutines, overlap degree) per concurrent case")
	r.Assume("internal/dohfake serves exactly the installed data version and logs every query it answers; zone changes are atomic (server lock)",
		"the resolver reads the package clock only on the goroutine that called Resolve (clock reads from other goroutines are counted and make the run inconclusive)",
		"the age of an answer counts from the moment the upstream response was produced (virtual clock at that moment)",
		"the smallest TTL of an answer is taken over EVERY record of the response: the CNAME records of the chain and records owned by unrelated names included",
		"a response with CNAME / unrelated records but no record of the asked type is judged by the smallest TTL of the records it carries (const strictNoData = true in seq_test.go); only a response without any record may be kept for up to 300 s",
		"an EMPTY answer has no TTL of its own: it may be served from cache for up to 300 s or be asked again (statement silent); after 300 s it must be asked again",
		"with a cache smaller than the working set (SetCacheSize 1..4) a lookup within the TTL may go upstream again; SetCacheSize(0) disables caching, as documented",
		"conc: 'all interleavings' = the schedules the Go runtime produced; overlap is forced with held upstream queries and counted; mixed {0,k} TTL sets are judged in seq only (conc uses all-zero or all-positive sets so that a known TTL defect does not mask ordering defects)",
		"a Resolve that returns an error may still carry partial data in the result struct; only the error is judged",
		"race: only what the race detector reports is a verdict; callers modify only the slices of the struct Resolve returned to them, never the shared records behind them")

	restore := ech.VerifSetClock(clockNow)
	defer restore()

	workers := runtime.GOMAXPROCS(0)
	e := &env{r: r, servers: make(chan *dohfake.Server, workers)}
	for w := 0; w < workers; w++ {
		srv := dohfake.NewServer(dohfake.NewZone())
		defer srv.Close()
		if !strings.HasPrefix(srv.URL, "http://127.0.0.1:") {
			r.Inconclusive("fixture: no listener on 127.0.0.1 (%s)", srv.URL)
			return
		}
		e.servers <- srv
	}

	if part != "race" {
		nSeq := r.N(300, 20000)
		r.Parallel("seq", nSeq, func(i int, rng *mrand.Rand) { e.seqHistory("seq", i, rng) })
		nConc := r.N(24, 500)
		r.Parallel("conc", nConc, func(i int, rng *mrand.Rand) { e.concCase("conc", i, rng) })
		if !r.Replaying() {
			r.Floor("seq_histories", int64(nSeq))
			r.Floor("seq_ops", int64(nSeq)*15)
			r.Floor("seq_resolves", int64(nSeq)*8)
			r.Floor("seq_served_from_cache_within_ttl", int64(nSeq)*3)
			r.Floor("seq_refetch_at_exact_expiry", int64(nSeq)/6)
			r.Floor("seq_served_one_second_before_expiry", int64(nSeq)/4)
			r.Floor("seq_ttl0_only_lookups", int64(nSeq)/4)
			r.Floor("seq_ttl0_mixed_lookups", int64(nSeq)/2)
			r.Floor("seq_ttl0_mixed_zero_not_last_lookups", int64(nSeq)/6)
			r.Floor("seq_failed_resolves", int64(nSeq)/2)
			r.Floor("seq_resolves_after_recovery", int64(nSeq)/6)
			r.Floor("seq_failing_upstream_served_from_cache", int64(nSeq)/100)
			r.Floor("seq_old_version_served_within_ttl", int64(nSeq)/3)
			r.Floor("seq_clock_steps_during_query", int64(nSeq)/5)
			r.Floor("seq_empty_answers", int64(nSeq)/2)
			r.Floor("seq_lookups_through_cname", int64(nSeq)*4)
			r.Floor("seq_rcode_episodes", int64(nSeq)/3)
			r.Floor("seq_failed_resolves_rcode_header-6-15", int64(nSeq)/5)
			r.Floor("seq_failed_resolves_rcode_extended-16-and-up", int64(nSeq)/10)
			r.Floor("seq_refetched_after_rcode_failure", int64(nSeq)/8)
			r.Floor("seq_results_checked_as_sorted_copy_of_unsorted_answer", int64(nSeq)*2)
			r.Floor("conc_failure_windows_rcode_outside_1_5", int64(nConc)/10)
			r.Floor("conc_phases_herd", int64(nConc)*100)
			r.Floor("conc_results_checked_as_sorted_copy_of_unsorted_answer", int64(nConc)*500)
			r.Floor("seq_lookups_cname_ttl_below_rrset_ttl", int64(nSeq)/2)
			r.Floor("seq_lookups_cname_ttl_above_rrset_ttl", int64(nSeq)/2)
			r.Floor("seq_lookups_cname_ttl0", int64(nSeq)/6)
			r.Floor("seq_refetch_forced_by_cname_ttl_only", int64(nSeq)/5)
			r.Floor("seq_refetch_forced_by_extra_record_ttl_only", int64(nSeq)/12)
			r.Floor("seq_served_within_cname_ttl", int64(nSeq)/2)
			r.Floor("seq_cname_repointings", int64(nSeq)/4)
			r.Floor("seq_served_within_ttl_after_repointing", int64(nSeq)/30)
			r.Floor("seq_lookups_of_answers_with_extra_record", int64(nSeq))
			r.Floor("conc_cases", int64(nConc))
			r.Floor("conc_phases", int64(nConc)*2)
			r.Floor("conc_calls", int64(nConc)*40)
			r.Floor("conc_partitions_linearizable", int64(nConc)*2)
			r.Floor("conc_calls_overlapping_same_name", int64(nConc)*20)
			r.Floor("conc_held_queries", int64(nConc))
			r.Floor("conc_keys_cached_at_phase_start", int64(nConc))
			r.Floor("conc_keys_expired_at_phase_start", int64(nConc)*2)
			r.Floor("conc_ttl0_key_phases", int64(nConc))
			r.Floor("conc_calls_in_flight_at_release", int64(nConc)*4)
			r.Floor("conc_error_calls", int64(nConc)/2)
			r.Floor("conc_calls_overlapping_error", int64(nConc))
			r.Floor("conc_midphase_zone_changes", int64(nConc)/2)
			r.Floor("conc_old_and_new_version_in_one_phase", int64(nConc)/5)
			r.Floor("targets_yielded", int64(nConc)*40)
		}
	} else {
		// One replayable unit ("race:0", the address the driver gives to race reports) made of nRace concurrent cases.
		nRace := r.N(16, 160)
		r.ParallelW("race", 1, 1, func(_ int, _ *mrand.Rand) {
			var next atomic.Int64
			var wg sync.WaitGroup
			for w := 0; w < min(workers, 8); w++ {
				wg.Add(1)
				go func() {
					defer wg.Done()
					for j := int(next.Add(1) - 1); j < nRace; j = int(next.Add(1) - 1) {
						e.concCase("race", j, r.Rand("race-case", j))
					}
				}()
			}
			wg.Wait()
			// SetCacheSize concurrently with lookups
			for j := 0; j < nRace/2; j++ {
				e.resizeCase("race", j, r.Rand("resize-case", j))
			}
		})
		if !r.Replaying() {
			r.Floor("resize_lookups", int64(nRace)*6)
			r.Floor("resize_setcachesize_calls", int64(nRace)*4)
			r.Floor("conc_cases", int64(nRace))
			r.Floor("conc_calls", int64(nRace)*40)
			r.Floor("conc_calls_overlapping_same_name", int64(nRace)*20)
			r.Floor("targets_yielded", int64(nRace)*40)
			r.Floor("https_records_with_spare_alpn_capacity", int64(nRace)*10)
			r.Floor("own_copy_mutations", int64(nRace)*20)
			r.Floor("conc_partitions_linearizable", int64(nRace)*2)
			r.Floor("conc_phases_herd", int64(nRace)*10)
			r.Floor("conc_results_checked_as_sorted_copy_of_unsorted_answer", int64(nRace)*50)
			r.Floor("conc_held_queries", int64(nRace)*3/4)
			r.Floor("conc_error_calls", int64(nRace)/2)
		}
	}
	r.Count("target_sequences_iterated_by_two_goroutines", sharedSeqs.Load())
	if n := sharedSeqDiffers.Load(); n > 0 && !r.Replaying() {
		r.Violate("race", 0, "targets:shared-sequence-yields-differ", fmt.Sprintf("%d target sequences gave two goroutines iterating them at the same time different numbers of targets", n), map[string]any{"sequences": sharedSeqs.Load()})
	}
	hist := map[string]int64{}
	for d := range overlapHist {
		if n := overlapHist[d].Load(); n > 0 {
			hist[fmt.Sprintf("%02d", d)] = n
		}
	}
	shapes := 0
	overlapShape.Range(func(_, _ any) bool { shapes++; return true })
	r.Extra("calls_by_number_of_overlapping_calls_on_the_same_name", hist)
	r.Count("conc_overlap_shapes", int64(shapes)) // distinct (phase kind, overlap degree, overlapped a failing call)
	if !r.Replaying() {
		r.Floor("conc_overlap_shapes", 40)
	}
	r.Extra("clock_reads", clockReads.Load())
	if n := unboundReads.Load(); n > 0 {
		r.Inconclusive("monitor: %d clock reads came from goroutines that no history had bound to a virtual clock", n)
	}
	if clockReads.Load() == 0 {
		r.Inconclusive("monitor: the resolver never read the injected clock")
	}
}
