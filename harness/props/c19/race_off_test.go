//go:build !race

package c19

const raceBuild = false
