package c19

// Oracle model of C19, written from the property statement and RFC 9460 and
// computed from the zone alone (dohfake.Zone.Lookup = what DNS says).

import (
	"net/netip"
	"sort"

	"verif/harness/internal/dohfake"
)

func httpsAt(z *dohfake.Zone, name string) []*dohfake.HTTPS {
	rrs, rc := z.Lookup(name, dohfake.TypeHTTPS, 0)
	if rc != 0 {
		return nil
	}
	var out []*dohfake.HTTPS
	for _, rr := range rrs {
		if rr.Type == dohfake.TypeHTTPS {
			out = append(out, rr.HTTPS)
		}
	}
	return out
}

func addrsAt(z *dohfake.Zone, name string) []netip.Addr {
	var out []netip.Addr
	for _, t := range []uint16{dohfake.TypeA, dohfake.TypeAAAA} {
		rrs, rc := z.Lookup(name, t, 0)
		if rc != 0 {
			continue
		}
		for _, rr := range rrs {
			if rr.Type == t {
				out = append(out, rr.Addr)
			}
		}
	}
	return out
}

func isRoot(t string) bool { return t == "" || t == "." }

func has(l []string, s string) bool {
	for _, x := range l {
		if x == s {
			return true
		}
	}
	return false
}

// The three predicates of the statement.
func offersH3(h *dohfake.HTTPS) bool { return has(h.ALPN, "h3") }
func offersH12(h *dohfake.HTTPS) bool {
	return !h.NoDefaultALPN || has(h.ALPN, "h2") || has(h.ALPN, "http/1.1") // explicitly, or through the default ALPN
}
func usable(h *dohfake.HTTPS) bool { return offersH3(h) || offersH12(h) }

// compatible: may a connection of the chosen protocol use this record?
func compatible(h *dohfake.HTTPS, mode string) bool {
	if mode == "h3" {
		return offersH3(h)
	}
	return offersH12(h) || len(h.ALPN) == 0
}

// reading is one acceptable interpretation of the HTTPS RRSet chain of a query
// name: the service-mode records that apply and the name they are owned by.
// Pure sets have exactly one reading. A set mixing alias-mode and service-mode
// records has two (RFC 9460 2.4.1 lets the alias win; the statement's "skip
// alias-mode" lets the service records win): the oracle accepts either.
type reading struct {
	Svc []*dohfake.HTTPS
	End string
}

func readings(z *dohfake.Zone, name string, seen map[string]bool) []reading {
	recs := httpsAt(z, name)
	if len(recs) == 0 {
		return []reading{{nil, name}}
	}
	var alias, svc []*dohfake.HTTPS
	for _, h := range recs {
		if h.Priority == 0 {
			alias = append(alias, h)
		} else {
			svc = append(svc, h)
		}
	}
	var out []reading
	if len(svc) > 0 {
		out = append(out, reading{svc, name})
	}
	for _, a := range alias {
		if isRoot(a.Target) || seen[a.Target] || len(seen) > 8 {
			out = append(out, reading{nil, name})
			continue
		}
		seen[a.Target] = true
		out = append(out, readings(z, a.Target, seen)...)
	}
	return out
}

// aliasOnly: see model.AliasUp.
func aliasOnly(z *dohfake.Zone, qname string) bool {
	cur, seen := qname, map[string]bool{}
	for hop := 0; hop <= 3; hop++ {
		recs := httpsAt(z, cur)
		if len(recs) == 0 {
			return hop > 0 && len(addrsAt(z, cur)) > 0
		}
		if len(recs) != 1 || recs[0].Priority != 0 || isRoot(recs[0].Target) || seen[recs[0].Target] || recs[0].Target == qname {
			return false
		}
		seen[cur] = true
		cur = recs[0].Target
	}
	return false
}

type apSet map[netip.AddrPort]bool

type model struct {
	QName    string
	AnyRR    bool // an HTTPS RR of either mode exists at the query name
	Readings []reading
	HasSvc   bool // every reading ends in service-mode records
	Clean    bool // every name a connection could be made to has at least one address
	Aliased  bool
	AliasUp  bool // the query name holds alias-mode records only, and following them (real targets, no loop, at most 3 hops) ends at a name that has addresses and no HTTPS record at all; or it holds just the alias to "." and the origin has addresses
	z        *dohfake.Zone
	o        originSpec
	port     int
}

func buildModel(z *dohfake.Zone, o originSpec, plainPort int) *model {
	m := &model{z: z, o: o, port: o.port(plainPort)}
	m.QName = qnameOf(o.Host, m.port)
	top := httpsAt(z, m.QName)
	m.AnyRR = len(top) > 0
	m.Aliased = m.AnyRR && top[0].Priority == 0
	m.Readings = readings(z, m.QName, map[string]bool{m.QName: true})
	m.AliasUp = aliasOnly(z, m.QName)
	// ... or the only record is the alias to "." ("the service is not available here", RFC 9460 2.5.1): still an
	// AliasMode record of the origin (9.5), and the connection that follows goes to the origin's own addresses
	if len(top) == 1 && top[0].Priority == 0 && isRoot(top[0].Target) && len(addrsAt(z, o.Host)) > 0 {
		m.AliasUp = true
	}
	m.HasSvc, m.Clean = true, true
	for _, rd := range m.Readings {
		if len(rd.Svc) == 0 {
			m.HasSvc = false
		}
		end := rd.End
		if end == m.QName {
			end = o.Host
		}
		if len(addrsAt(z, end)) == 0 {
			m.Clean = false
		}
		for _, h := range rd.Svc {
			if !isRoot(h.Target) && len(addrsAt(z, h.Target)) == 0 {
				m.Clean = false
			}
		}
	}
	return m
}

// decide1: the h3 decision table for one reading. Records are walked by
// priority; ties may be walked in any order, so both outcomes are possible
// when a tie group mixes records that list h3 with usable ones that do not.
func decide1(svc []*dohfake.HTTPS) (h3, notH3 bool) {
	return decideOver(svc, nil)
}

// decideOver: decide1 with the records for which skip reports true left out.
func decideOver(svc []*dohfake.HTTPS, skip func(*dohfake.HTTPS) bool) (h3, notH3 bool) {
	var s []*dohfake.HTTPS
	for _, h := range svc {
		if skip == nil || !skip(h) {
			s = append(s, h)
		}
	}
	sort.SliceStable(s, func(i, j int) bool { return s[i].Priority < s[j].Priority })
	for i := 0; i < len(s); {
		j := i
		any3, anyNot := false, false
		for ; j < len(s) && s[j].Priority == s[i].Priority; j++ {
			if !usable(s[j]) {
				continue // offers neither h3 nor h2/http/1.1: skipped
			}
			if offersH3(s[j]) {
				any3 = true
			} else {
				anyNot = true
			}
		}
		if any3 || anyNot {
			return any3, anyNot
		}
		i = j
	}
	return false, true // no usable record
}

// decide: which outcomes of the HTTP/3 choice the statement allows for this origin.
func (m *model) decide(h3Configured bool) (h3, notH3 bool) {
	if !h3Configured {
		return false, true
	}
	for _, rd := range m.Readings {
		a, b := decide1(rd.Svc)
		h3, notH3 = h3 || a, notH3 || b
		// "usable": a record that gives no address (named target without address records; own name without
		// addresses and without hints) cannot be dialled. Whether that makes it unusable for the choice the
		// statement does not say: both ways of counting are accepted here, and T7 judges where a QUIC dial goes.
		a, b = decideOver(rd.Svc, func(h *dohfake.HTTPS) bool { return !m.hasAddress(rd, h) })
		h3, notH3 = h3 || a, notH3 || b
	}
	return
}

func (m *model) hasAddress(rd reading, h *dohfake.HTTPS) bool {
	if !isRoot(h.Target) {
		return len(addrsAt(m.z, h.Target)) > 0
	}
	return len(m.endAddrs(rd))+len(h.IPv4Hint)+len(h.IPv6Hint) > 0
}

func (m *model) listsH3Anywhere() bool {
	for _, rd := range m.Readings {
		for _, h := range rd.Svc {
			if offersH3(h) {
				return true
			}
		}
	}
	return false
}

// ports a record WITHOUT a port parameter may be dialled at.
func (m *model) defaultPorts() []uint16 {
	switch {
	case m.port < 0, m.port == 80 && m.o.Scheme == "http":
		return []uint16{443} // https default; an upgraded http request goes to 443 (RFC 9460 9.5)
	case m.port == 80:
		return []uint16{80, 443} // https://host:80 — the statement is silent: lenient
	}
	return []uint16{uint16(m.port)}
}

// ports of a TLS or QUIC connection made without a usable HTTPS record. An http
// URL (default port or :80) that is served over TLS has been upgraded, and the
// upgraded URL is the https one at the https default port (RFC 9460 9.5): a
// TLS handshake sent to port 80 is not an upgrade to https.
func (m *model) fallbackPorts() []uint16 {
	switch {
	case m.port >= 0 && m.port != 80:
		return []uint16{uint16(m.port)}
	case m.o.Scheme == "http":
		return []uint16{443}
	case m.port == 80:
		return []uint16{80, 443} // https://host:80 - the statement is silent: lenient
	}
	return []uint16{443}
}

func (m *model) endAddrs(rd reading) []netip.Addr {
	out := addrsAt(m.z, m.o.Host)
	if rd.End != m.QName && rd.End != m.o.Host {
		out = append(out, addrsAt(m.z, rd.End)...)
	}
	return out
}

// recordTargets: every address:port a record may stand for (a lenient superset:
// the owner's/origin's addresses or the named target's, plus its hints).
func (m *model) recordTargets(rd reading, h *dohfake.HTTPS, into apSet) {
	ports := m.defaultPorts()
	if h.Port != 0 {
		ports = []uint16{h.Port}
	}
	var addrs []netip.Addr
	if isRoot(h.Target) {
		addrs = m.endAddrs(rd)
	} else {
		addrs = addrsAt(m.z, h.Target)
	}
	addrs = append(append(addrs, h.IPv4Hint...), h.IPv6Hint...)
	for _, a := range addrs {
		for _, p := range ports {
			into[netip.AddrPortFrom(a, p)] = true
		}
	}
}

// allowed: dial targets of records compatible with mode, over all readings;
// where a reading has no compatible record with an address, the plain
// addresses of the origin (RFC 9460 section 3: "as if no record existed").
// incompatible: targets that ONLY incompatible records stand for.
func (m *model) allowed(mode string) (ok, incompatible apSet) {
	ok, incompatible = apSet{}, apSet{}
	for _, rd := range m.Readings {
		n := len(ok)
		reachable := false // a compatible record with an address record behind it (hints alone may be left unused)
		for _, h := range rd.Svc {
			if compatible(h, mode) {
				m.recordTargets(rd, h, ok)
				if isRoot(h.Target) && len(m.endAddrs(rd)) > 0 || !isRoot(h.Target) && len(addrsAt(m.z, h.Target)) > 0 {
					reachable = true
				}
			}
		}
		if !reachable {
			n = len(ok) // no compatible record can be dialled through address records: the fall-back below applies too
		}
		// The fall-back is the connection "as if no record existed" (RFC 9460 section 3): TCP to the origin's own
		// addresses. There is no such thing for HTTP/3 - a QUIC dial is only ever justified by a record that offers
		// h3, so its targets are the targets of those records and nothing else.
		if len(ok) == n && mode != "h3" {
			for _, a := range m.endAddrs(rd) {
				for _, p := range m.fallbackPorts() {
					ok[netip.AddrPortFrom(a, p)] = true
				}
			}
		}
	}
	for _, rd := range m.Readings {
		for _, h := range rd.Svc {
			if !compatible(h, mode) {
				m.recordTargets(rd, h, incompatible)
			}
		}
	}
	for ap := range ok {
		delete(incompatible, ap)
	}
	return
}
