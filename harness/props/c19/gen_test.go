package c19

// Case generator of C19: a DNS universe, a Transport configuration, a set of
// origins and a request sequence, all a function of (seed, case index).

import (
	"fmt"
	mrand "math/rand/v2"
	"net/netip"
	"sort"
	"strings"

	"verif/harness/internal/dohfake"
)

// portPlain stands for "the port of this worker's plaintext listener" (known at run time only).
const (
	portNone  = -1
	portPlain = -2
)

type originSpec struct {
	Scheme string `json:"scheme"`
	Host   string `json:"host"`
	Port   int    `json:"port"` // -1 none, -2 plaintext listener's port
}

func (o originSpec) port(plainPort int) int {
	if o.Port == portPlain {
		return plainPort
	}
	return o.Port
}

// authority is the host[:port] exactly as the caller writes it in the URL.
func (o originSpec) authority(plainPort int) string {
	if p := o.port(plainPort); p >= 0 {
		return fmt.Sprintf("%s:%d", o.Host, p)
	}
	return o.Host
}

func (o originSpec) url(plainPort int) string { return o.Scheme + "://" + o.authority(plainPort) }

type caseCfg struct {
	H3           bool `json:"http3_transport"` // a fake HTTP3Transport is configured
	H2           bool `json:"alpn_h2"`         // TLSConfig.NextProtos = h2, http/1.1 (else none: HTTP/1.1)
	PlainAllowed bool `json:"plaintext_allowed"`
	FailAll      bool `json:"fail_all_dials"` // every DialFunc call returns a scripted error (enumerates the target list)
	Concurrent   bool `json:"concurrent"`
	MaxConc      int  `json:"max_concurrency"`
	DelayMs      int  `json:"concurrency_delay_ms"`
}

type reqSpec struct {
	Origin       int    `json:"origin"`
	Path         string `json:"path"`
	Marker       string `json:"marker"`
	HostOverride string `json:"host_override,omitempty"`
}

type caseSpec struct {
	Theme         string            `json:"theme"`
	Cfg           caseCfg           `json:"cfg"`
	Origins       []originSpec      `json:"origins"`
	Reqs          []reqSpec         `json:"requests"`
	IPs           map[string]string `json:"ip_to_backend"`
	Kinds         map[string]string `json:"https_kind_by_qname"`
	NoAddrTargets int               `json:"service_targets_without_address"`
	zone          *dohfake.Zone
}

var themes = []string{"cohost", "upgrade", "refuse", "mismatch", "h3first", "h3later", "alpn", "failall", "alias", "plain", "ports", "free", "mixed", "cohost-h3"}

type alpnPat struct {
	alpn []string
	nda  bool
}

var (
	patsH12 = []alpnPat{{nil, false}, {[]string{"h2"}, false}, {[]string{"h2"}, true}, {[]string{"http/1.1"}, true}, {[]string{"h2", "http/1.1"}, false}, {[]string{"x-unknown"}, false}, {[]string{"h2", "x-unknown"}, true}}
	patsH3  = []alpnPat{{[]string{"h3"}, false}, {[]string{"h3"}, true}, {[]string{"h3", "h2"}, false}, {[]string{"h2", "h3"}, true}, {[]string{"h3", "x-unknown"}, true}}
	patsNo  = []alpnPat{{[]string{"x-unknown"}, true}, {[]string{"x-unknown", "y-unknown"}, true}}
	patsAll = append(append(append([]alpnPat{}, patsH12...), patsH3...), patsNo...)
)

type hostPlan struct {
	backend  string
	addrs    []netip.Addr
	hintOnly bool
}

type gen struct {
	realECH []byte
	rng     *mrand.Rand
	cs      *caseSpec
	z       *dohfake.Zone
	seq     map[string]int
	svcN    int
	aliasN  int
	hosts   map[string]*hostPlan
	done    map[string]bool // query names whose HTTPS scenario is fixed
}

var backendCode = map[string]byte{"A": 1, "B": 2, "C": 3, "P": 4, "dead": 9}

func (g *gen) alloc(backend string, v6 bool) netip.Addr {
	g.seq[backend]++
	n, code := byte(g.seq[backend]), backendCode[backend]
	a := netip.AddrFrom4([4]byte{10, 0, code, n})
	if v6 {
		a = netip.AddrFrom16([16]byte{0x20, 0x01, 0x0d, 0xb8, 0, code, 15: n})
	}
	g.cs.IPs[a.String()] = backend
	return a
}

func (g *gen) addrs(backend string) []netip.Addr {
	out := []netip.Addr{g.alloc(backend, g.rng.IntN(4) == 0)}
	if g.rng.IntN(3) == 0 {
		out = append(out, g.alloc(backend, g.rng.IntN(2) == 0))
	}
	return out
}

func (g *gen) planHost(h string, mismatch, simple bool) *hostPlan {
	if p := g.hosts[h]; p != nil {
		return p
	}
	p := &hostPlan{backend: homeOf(h)}
	if mismatch {
		p.backend = "C"
		if h == hostC && g.rng.IntN(2) == 0 {
			p.backend = "A" // a genuine server of this fixture, but not one holding a certificate for c.example
		}
	}
	switch {
	case !simple && g.rng.IntN(20) == 0:
		p.hintOnly = true
	default:
		if !simple && g.rng.IntN(6) == 0 {
			p.addrs = append(p.addrs, g.alloc([]string{"dead", "dead", "P"}[g.rng.IntN(3)], false))
		}
		p.addrs = append(p.addrs, g.addrs(p.backend)...)
	}
	for _, a := range p.addrs {
		g.z.Add(dohfake.Addr(h, a, 60))
	}
	g.hosts[h] = p
	return p
}

// cohost gives b.example exactly the addresses of a.example.
func (g *gen) cohost() {
	pa := g.planHost(hostA, false, true)
	pb := &hostPlan{backend: pa.backend, addrs: pa.addrs}
	for _, a := range pb.addrs {
		g.z.Add(dohfake.Addr(hostB, a, 60))
	}
	g.hosts[hostB] = pb
}

func (g *gen) pick(p []alpnPat) alpnPat { return p[g.rng.IntN(len(p))] }

// svcSet puts 1..4 service-mode records under owner. style: simple | h3first | h3later | any.
func (g *gen) svcSet(owner, host, style string, ownerBackend string, hintOnly bool) {
	rng := g.rng
	n := 1 + rng.IntN(4)
	switch style {
	case "simple":
		n = 1 + rng.IntN(2)
	case "h3later", "enumerate":
		n = 2 + rng.IntN(3)
	}
	lead := 0
	if style == "h3first" && rng.IntN(3) == 0 {
		lead = 1 // an unusable record in front
		n++
	}
	prio := uint16(1 + rng.IntN(3))
	for k := 0; k < n; k++ {
		if k > 0 && rng.IntN(7) != 0 {
			prio += uint16(1 + rng.IntN(3)) // else: a tie
		}
		var pat alpnPat
		switch {
		case style == "simple":
			pat = patsH12[rng.IntN(5)]
		case style == "h3first" && k < lead:
			pat = g.pick(patsNo)
		case style == "h3first" && k == lead:
			pat = g.pick(patsH3)
		case style == "h3later" && k == 0:
			pat = g.pick(patsH12)
		case style == "h3later" && k == 1:
			pat = g.pick(patsH3)
		default:
			pat = g.pick(patsAll)
		}
		h := dohfake.HTTPS{Priority: prio, ALPN: pat.alpn, NoDefaultALPN: pat.nda}
		be := ownerBackend
		if style != "simple" {
			switch x := rng.IntN(100); {
			case x < 14:
				be = "dead"
			case x < 22:
				be = "C"
			case x < 25:
				be = "P"
			}
		}
		named := rng.IntN(2) == 0 || be != ownerBackend
		if named && g.svcN < len(svcNames) {
			h.Target = svcNames[g.svcN]
			g.svcN++
			if style != "simple" && rng.IntN(8) == 0 {
				// a target name without any address record: the record cannot be dialled
				g.cs.NoAddrTargets++
			} else {
				for _, a := range g.addrs(be) {
					g.z.Add(dohfake.Addr(h.Target, a, 60))
				}
			}
		} else {
			be = ownerBackend
		}
		if rng.IntN(100) < 40 {
			h.Port = []uint16{443, 8443, 4443, 9443, 80}[rng.IntN(5)]
		}
		switch x := rng.IntN(100); {
		case x < 20:
			h.ECH = g.realECH
		case x < 35 && g.cs.Cfg.FailAll:
			h.ECH = []byte("opaque:" + owner)
		}
		if (hintOnly && h.Target == "") || rng.IntN(7) == 0 {
			h.IPv4Hint = []netip.Addr{g.alloc(be, false)}
			if rng.IntN(3) == 0 {
				h.IPv6Hint = []netip.Addr{g.alloc(be, true)}
			}
		}
		g.z.Add(dohfake.Svc(owner, h, 60))
	}
}

// https fixes the HTTPS scenario of one query name. kind: none | svc | alias | aliasdot | mixed.
func (g *gen) https(qname, host, kind, style string) {
	if g.done[qname] {
		return
	}
	g.done[qname] = true
	hp := g.hosts[host]
	if kind == "alias" || kind == "mixed" {
		if g.aliasN >= len(aliasNames) {
			kind = "svc"
		}
	}
	g.cs.Kinds[qname] = kind + "/" + style
	switch kind {
	case "none":
	case "svc":
		g.svcSet(qname, host, style, hp.backend, hp.hintOnly)
	case "aliasdot":
		g.z.Add(dohfake.Svc(qname, dohfake.HTTPS{Target: "."}, 60))
	case "alias", "mixed":
		if kind == "mixed" { // service-mode records FIRST, then an alias-mode record in the same RRSet
			g.svcSet(qname, host, style, hp.backend, hp.hintOnly)
		}
		t := aliasNames[g.aliasN]
		g.aliasN++
		g.z.Add(dohfake.Svc(qname, dohfake.HTTPS{Target: t}, 60))
		if g.rng.IntN(4) == 0 && g.aliasN < len(aliasNames) {
			t2 := aliasNames[g.aliasN]
			g.aliasN++
			g.z.Add(dohfake.Svc(t, dohfake.HTTPS{Target: t2}, 60))
			t = t2
		}
		for _, a := range g.addrs(hp.backend) {
			g.z.Add(dohfake.Addr(t, a, 60))
		}
		if g.rng.IntN(10) < 7 {
			g.svcSet(t, host, style, hp.backend, false)
		}
	}
}

func qnameOf(host string, port int) string {
	if port <= 0 {
		port = 443
	}
	if port != 80 && port != 443 {
		return fmt.Sprintf("_%d._https.%s", port, host)
	}
	return host
}

func genCase(rng *mrand.Rand, i int, plainPort int, realECH []byte) *caseSpec {
	cs := &caseSpec{Theme: themes[i%len(themes)], IPs: map[string]string{}, Kinds: map[string]string{}, zone: dohfake.NewZone()}
	g := &gen{realECH: realECH, rng: rng, cs: cs, z: cs.zone, seq: map[string]int{}, hosts: map[string]*hostPlan{}, done: map[string]bool{}}
	cs.zone.NXUnknown = rng.IntN(2) == 0
	cs.zone.Compress = rng.IntN(2) == 0
	cfg := &cs.Cfg
	cfg.H2 = rng.IntN(2) == 0
	cfg.H3 = rng.IntN(2) == 0
	cfg.Concurrent = rng.IntN(4) == 0
	cfg.MaxConc = rng.IntN(4)
	cfg.DelayMs = []int{5, 20, 100}[rng.IntN(3)]
	cfg.FailAll = rng.IntN(25) == 0
	cfg.PlainAllowed = rng.IntN(40) == 0
	round := i / len(themes)
	th := cs.Theme
	add := func(scheme, host string, port int) {
		for _, o := range cs.Origins {
			if o == (originSpec{scheme, host, port}) {
				return
			}
		}
		cs.Origins = append(cs.Origins, originSpec{scheme, host, port})
	}
	anyHost := func() string { return urlHosts[rng.IntN(len(urlHosts))] }
	kindFree := func() string {
		switch x := rng.IntN(100); {
		case x < 20:
			return "none"
		case x < 70:
			return "svc"
		case x < 88:
			return "alias"
		case x < 93:
			return "aliasdot"
		}
		return "mixed"
	}
	// per theme: origins, and the HTTPS scenario (kind, style) of each origin's query name
	kind, style := func(o originSpec) string { return kindFree() }, "any"
	switch th {
	case "cohost", "cohost-h3":
		cfg.FailAll, cfg.PlainAllowed = false, false
		g.cohost()
		port := []int{portNone, portNone, 8443, 443}[rng.IntN(4)]
		add("https", hostA, port)
		add("https", hostB, port)
		if rng.IntN(2) == 0 {
			add("http", []string{hostA, hostB}[rng.IntN(2)], portNone)
		}
		if rng.IntN(3) == 0 {
			add("https", hostC, portNone)
		}
		style = "simple"
		kind = func(originSpec) string { return []string{"svc", "svc", "none", "alias"}[rng.IntN(4)] }
		if th == "cohost-h3" { // the same, on the HTTP/3 side
			cfg.H3, style = true, "h3first"
			kind = func(originSpec) string { return "svc" }
		}
	case "upgrade":
		cfg.FailAll = false
		h := anyHost()
		add("http", h, portNone)
		if rng.IntN(2) == 0 {
			add("http", h, 80)
		}
		if rng.IntN(2) == 0 {
			add("https", h, portNone)
		}
		if rng.IntN(3) == 0 {
			add("http", anyHost(), 8443)
		}
		style = []string{"simple", "any", "h3first"}[rng.IntN(3)]
		kind = func(originSpec) string { return []string{"svc", "svc", "alias"}[rng.IntN(3)] }
	case "refuse":
		cfg.PlainAllowed = false
		h := anyHost()
		add("http", h, []int{portNone, 80, portPlain, 8443}[round%4])
		if rng.IntN(2) == 0 {
			add("http", anyHost(), []int{portNone, 80, portPlain, 8443}[rng.IntN(4)])
		}
		if rng.IntN(2) == 0 {
			add("https", anyHost(), 8443)
		}
		kind = func(o originSpec) string {
			if o.Scheme == "http" {
				return "none"
			}
			return kindFree()
		}
	case "mismatch":
		cfg.FailAll = false
		h := anyHost()
		g.planHost(h, true, rng.IntN(2) == 0)
		add([]string{"https", "https", "http"}[rng.IntN(3)], h, []int{portNone, portNone, 8443}[rng.IntN(3)])
		if rng.IntN(2) == 0 {
			add("https", anyHost(), portNone)
		}
		kind = func(originSpec) string { return []string{"none", "svc", "svc", "alias"}[rng.IntN(4)] }
		style = []string{"simple", "any"}[rng.IntN(2)]
	case "h3first", "h3later", "alpn":
		cfg.H3 = round%5 != 4
		add([]string{"https", "https", "http"}[rng.IntN(3)], anyHost(), []int{portNone, portNone, 8443}[rng.IntN(3)])
		if rng.IntN(2) == 0 {
			add("https", anyHost(), portNone)
		}
		kind = func(originSpec) string { return []string{"svc", "svc", "svc", "alias"}[rng.IntN(4)] }
		style = map[string]string{"h3first": "h3first", "h3later": "h3later", "alpn": "any"}[th]
	case "failall":
		cfg.FailAll = true
		add([]string{"https", "http"}[rng.IntN(2)], anyHost(), []int{portNone, portNone, 80, 8443}[rng.IntN(4)])
		if rng.IntN(2) == 0 {
			add("https", anyHost(), portNone)
		}
		kind = func(originSpec) string { return []string{"svc", "svc", "svc", "alias", "mixed"}[rng.IntN(5)] }
		style = "enumerate"
	case "alias":
		add([]string{"https", "http"}[rng.IntN(2)], anyHost(), []int{portNone, portNone, 8443}[rng.IntN(3)])
		add("https", anyHost(), portNone)
		kind = func(originSpec) string { return []string{"alias", "alias", "alias", "aliasdot"}[rng.IntN(4)] }
		style = []string{"simple", "any"}[rng.IntN(2)]
	case "plain":
		cfg.PlainAllowed, cfg.FailAll = true, false
		h, h2 := anyHost(), anyHost()
		add("http", h, []int{portNone, 80, portPlain, 8443}[round%4])
		add("https", h, portNone)
		add("http", h2, []int{portNone, 8443}[rng.IntN(2)])
		kind = func(o originSpec) string {
			if o.Scheme == "http" && o.Host == h && o == cs.Origins[0] {
				return "none"
			}
			return []string{"none", "svc", "svc", "alias"}[rng.IntN(4)]
		}
		style = "simple"
	case "ports":
		cfg.FailAll, cfg.PlainAllowed = false, false
		g.cohost()
		add("https", hostA, portNone)
		add("https", hostA, 8443)
		if rng.IntN(2) == 0 {
			add("https", hostB, 8443)
		}
		if rng.IntN(2) == 0 {
			add("https", hostA, 443)
		}
		if rng.IntN(3) == 0 {
			add("http", hostA, 8443)
		}
		if rng.IntN(6) == 0 {
			add("https", hostA, 80)
		}
		style = "simple"
		kind = func(originSpec) string { return []string{"svc", "none", "none"}[rng.IntN(3)] }
	case "mixed":
		add([]string{"https", "http"}[rng.IntN(2)], anyHost(), portNone)
		if rng.IntN(2) == 0 {
			add("https", anyHost(), 8443)
		}
		kind = func(originSpec) string { return "mixed" }
	default: // free
		for n := 2 + rng.IntN(3); n > 0; n-- {
			scheme := []string{"https", "https", "https", "http", "http"}[rng.IntN(5)]
			port := []int{portNone, portNone, portNone, 443, 8443, 8443, 80}[rng.IntN(7)]
			if scheme == "http" && rng.IntN(8) == 0 {
				port = portPlain
			}
			add(scheme, anyHost(), port)
		}
	}
	for _, o := range cs.Origins {
		g.planHost(o.Host, rng.IntN(12) == 0 && th != "cohost" && th != "ports", style == "simple")
	}
	for _, o := range cs.Origins {
		g.https(qnameOf(o.Host, o.port(plainPort)), o.Host, kind(o), style)
	}
	// request sequence: every origin at least once, then revisits
	n := max(len(cs.Origins), 2+rng.IntN(11))
	order := rng.Perm(len(cs.Origins))
	for k := 0; k < n; k++ {
		oi := rng.IntN(len(cs.Origins))
		if k < len(order) {
			oi = order[k]
		}
		rq := reqSpec{Origin: oi, Marker: fmt.Sprintf("c%d-r%d", i, k)}
		rq.Path = "/p/" + rq.Marker
		if rng.IntN(7) == 0 {
			rq.Path = "/r/" + rq.Marker
		} else if rng.IntN(25) == 0 {
			rq.HostOverride = "virtual.example"
		}
		cs.Reqs = append(cs.Reqs, rq)
	}
	return cs
}

// ---- zone dump for payloads ----

func recString(h *dohfake.HTTPS) string {
	t := h.Target
	if t == "" {
		t = "."
	}
	s := fmt.Sprintf("%d %s", h.Priority, t)
	if len(h.ALPN) > 0 {
		s += " alpn=" + strings.Join(h.ALPN, ",")
	}
	if h.NoDefaultALPN {
		s += " no-default-alpn"
	}
	if h.Port != 0 {
		s += fmt.Sprintf(" port=%d", h.Port)
	}
	if len(h.IPv4Hint) > 0 {
		s += fmt.Sprintf(" ipv4hint=%v", h.IPv4Hint)
	}
	if len(h.ECH) > 0 {
		s += fmt.Sprintf(" ech=<%d bytes>", len(h.ECH))
	}
	if len(h.IPv6Hint) > 0 {
		s += fmt.Sprintf(" ipv6hint=%v", h.IPv6Hint)
	}
	return s
}

func dumpZone(z *dohfake.Zone) []string {
	var out []string
	for owner, rrs := range z.RRs {
		for k, r := range rrs {
			switch r.Type {
			case dohfake.TypeHTTPS:
				out = append(out, fmt.Sprintf("%s HTTPS#%d %s", owner, k, recString(r.HTTPS)))
			case dohfake.TypeCNAME:
				out = append(out, fmt.Sprintf("%s CNAME %s", owner, r.Target))
			default:
				out = append(out, fmt.Sprintf("%s ADDR %s", owner, r.Addr))
			}
		}
	}
	sort.Strings(out)
	return append(out, fmt.Sprintf("nx-unknown=%v compress=%v", z.NXUnknown, z.Compress))
}
