// C19 — Transport keeps HTTP requests encrypted, correctly named and origin-isolated.
//
// Every case is a PRNG-determined DNS universe (internal/dohfake), a Transport
// configuration and a sequence of 2..12 requests through ONE http.Client whose
// Transport is a fresh ech.NewTransport(). The verdict comes from what the web
// servers saw (request logs with connection ids, TLS state, Host), from what
// the DialFunc taps were asked to dial, and from a table model of the HTTP/3
// choice and of record/protocol compatibility computed from the zone alone
// (model_test.go). fixture_test.go has the servers and taps, gen_test.go the
// generator.
package c19

import (
	"context"
	"crypto/tls"
	"errors"
	"fmt"
	"io"
	"log"
	mrand "math/rand/v2"
	"net/http"
	"net/netip"
	"net/url"
	"runtime"
	"sort"
	"strings"
	"sync"
	"testing"
	"time"

	"github.com/c2FmZQ/ech"

	"verif/harness/internal/echgen"
	"verif/harness/internal/mon"
	"verif/harness/internal/tlspeer"
)

type outcome struct {
	Marker   string `json:"marker"`
	URL      string `json:"url"`
	Err      string `json:"err,omitempty"`
	Status   int    `json:"status,omitempty"`
	XProto   string `json:"x_proto,omitempty"`
	XServer  string `json:"x_server,omitempty"`
	XMarker  string `json:"x_marker,omitempty"`
	FinalURL string `json:"final_url,omitempty"`
	TimedOut bool   `json:"timed_out,omitempty"`
}

func (w *world) do(client *http.Client, k int) outcome {
	rs := w.cs.Reqs[k]
	o := w.cs.Origins[rs.Origin]
	out := outcome{Marker: rs.Marker, URL: o.url(w.plainPort) + rs.Path}
	ctx, cancel := context.WithTimeout(context.WithValue(context.Background(), markerKey{}, rs.Marker), 2*time.Minute) // watchdog only
	defer cancel()
	req, err := http.NewRequestWithContext(ctx, http.MethodGet, out.URL, nil)
	if err != nil {
		out.Err = "fixture: " + err.Error()
		return out
	}
	req.Header.Set("X-Marker", rs.Marker)
	if rs.HostOverride != "" {
		req.Host = rs.HostOverride
	}
	resp, err := client.Do(req)
	if err != nil {
		out.Err, out.TimedOut = err.Error(), ctx.Err() != nil
		return out
	}
	io.Copy(io.Discard, resp.Body)
	resp.Body.Close()
	out.Status, out.XProto, out.XServer, out.XMarker = resp.StatusCode, resp.Header.Get("X-Proto"), resp.Header.Get("X-Server"), resp.Header.Get("X-Marker")
	if resp.Request != nil && resp.Request.URL != nil {
		out.FinalURL = resp.Request.URL.String()
	}
	return out
}

// hostMatches: the authority the server saw is the one the caller wrote (a
// default port may be dropped or kept: same authority).
func hostMatches(seen, want, scheme string) bool {
	if seen == want {
		return true
	}
	def := ":443"
	if scheme == "http" {
		def = ":80"
	}
	return strings.TrimSuffix(seen, def) == strings.TrimSuffix(want, def)
}

type originKey struct {
	Host   string
	Secure bool
	Port   int
}

// keyOf: the (scheme-after-upgrade, host, port) origin a server-side record belongs to.
func keyOf(o originSpec, plainPort int, secure bool) originKey {
	p := o.port(plainPort)
	if p < 0 {
		p = 443
		if o.Scheme == "http" {
			p = 80
		}
	}
	if secure && p == 80 {
		// upgraded: http://h[:80] and https://h are one origin after the upgrade (RFC 9460 9.5). Lenient: the
		// same for https://h:80, which the statement is silent about and which may be dialled at 443 (see Assume).
		p = 443
	}
	return originKey{o.Host, secure, p}
}

func nameClass(name string) string {
	switch {
	case name == "":
		return "empty"
	case strings.HasPrefix(name, "_"):
		return "pool-key"
	case has(svcNames, name) || has(aliasNames, name):
		return "dns-target-name"
	case has(urlHosts, name):
		return "other-url-host"
	}
	return "other"
}

func TestCheck(t *testing.T) {
	log.SetOutput(io.Discard)
	r := mon.Start(t, "C19", "exploration")
	defer r.Finish()
	r.SetRule("seed-determined cases = DNS universe (A/AAAA of 3 URL hosts incl. two that share addresses and a certificate, dead/plaintext/wrong-certificate addresses, HTTPS RRSets per RFC 9460 query name: none, 1..5 service records with priorities incl. ties, ALPN sets over {h3,h2,http/1.1,unknown}, no-default-alpn, named targets, ports, hints, ech (real or opaque), alias chains of 1..2 hops, alias to '.', sets mixing alias and service mode) " +
		"x Transport configuration (with/without a fake HTTP3Transport, TLS ALPN h2 or none, plaintext dialer reconfigured or not, every dial failing (target enumeration) or real handshakes, Dialer concurrency 1..3) " +
		"x 1..5 origins (http/https, no port/80/443/8443/the plaintext listener's port) x 2..12 requests through one http.Client revisiting origins, sequentially or in waves of 3, some answered by a relative redirect, some with an explicit Host. " +
		"14 themes are forced round-robin by case index. distinct = distinct (theme, configuration, origin URL shapes, HTTPS scenario kinds, per-request outcome classes) tuples")
	r.Assume("net/http (client, server, HTTP/2), crypto/tls (handshake, certificate verification, ECH) and httptest behave as documented; server-side request logs and connection ids (http.Server.ConnContext) are truthful",
		"internal/dohfake serves the zone as a recursive resolver would; the model reads the same zone through Zone.Lookup",
		"the DialFunc tap performs the handshake with exactly the tls.Config it was given against the local listener the scenario maps the fake address to; the fake HTTP/3 side performs no handshake: it succeeds iff the mapped server's certificate names contain the ServerName",
		"ties in priority may be walked in any order; a set mixing alias-mode and service-mode records may be read either way (RFC 9460 2.4.1 or 'skip alias-mode'); an alias whose chain ends without service records may or may not count as 'publishes HTTPS records'",
		"which of several compatible targets is tried first, and how many, is not judged (C15/C18); a default port in the Host header may be kept or dropped; https URLs with an explicit port 80 may be dialled at 80 or 443",
		"a lookup through net.DefaultResolver is attributed to http.Transport's plaintext dialer: nothing else in the Transport under test may use the system resolver")

	ca, err := tlspeer.NewCA()
	if err != nil {
		r.Inconclusive("fixture: NewCA: %v", err)
		return
	}
	key := echgen.NewKey(7, "public.example")
	realECH := echgen.ConfigList(key.Config)
	installSystemResolverHook()

	workers := runtime.GOMAXPROCS(0)
	fixtures := make(chan *fixture, workers)
	for k := 0; k < workers; k++ {
		fx, err := newFixture(ca, key)
		defer fx.close()
		if err != nil {
			r.Inconclusive("fixture: %v", err)
			return
		}
		fixtures <- fx
	}
	g0 := runtime.NumGoroutine()

	n := r.N(1400, 21000)
	if raceBuild {
		n = r.N(420, 4200)
	}
	r.Parallel("seq", n, func(i int, rng *mrand.Rand) {
		fx := <-fixtures
		defer func() { fixtures <- fx }()
		runCase(r, fx, ca, realECH, i, rng)
	})
	time.Sleep(50 * time.Millisecond) // let closed connections unwind before counting goroutines (evidence only)
	r.Extra("goroutines_before_after", []int{g0, runtime.NumGoroutine()})
	strayLookups.mu.Lock()
	if len(strayLookups.names) > 0 {
		r.Violate("seq", 0, "T1:plaintext-dial-through-system-resolver:unattributed", fmt.Sprintf("the system resolver was asked for %v (not attributable to a case)", strayLookups.names[:min(4, len(strayLookups.names))]), nil)
	}
	strayLookups.mu.Unlock()

	nn := int64(n)
	r.Floor("requests", 4*nn)
	r.Floor("tls_requests_served", 2*nn)
	r.Floor("plaintext_refusals", nn/25)
	r.Floor("upgrades", nn/8)
	r.Floor("http_requests_to_alias_only_origins", nn/40)
	r.Floor("service_targets_without_address", nn/10)
	r.Floor("pooled_reuses", nn/2)
	r.Floor("cross_origin_same_address_pairs", nn/10)
	r.Floor("cross_origin_same_address_pairs_h3", nn/60)
	r.Floor("h3_chosen", nn/12)
	r.Floor("h3_not_chosen_with_h3_transport", nn/12)
	r.Floor("h3_declined_for_preferred_h2_record", nn/40)
	r.Floor("cert_mismatch_failures", nn/30)
	r.Floor("dials_checked", 2*nn)
	r.Floor("quic_dials_checked", nn/12)
	r.Floor("incompatible_targets_offered", nn/8)
	// -- URLs whose host is an IP literal: no DNS, the server name is the literal without brackets, one dial per request --
	literalHosts(r)
	r.Floor("alias_origins", nn/8)
	r.Floor("ech_accepted", nn/10)
	r.Floor("plaintext_allowed_served", nn/40)
	r.Floor("redirects_followed", nn/4)
	r.Floor("resp_request_checked", 3*nn)
}

func runCase(r *mon.Run, fx *fixture, ca *tlspeer.CA, realECH []byte, i int, rng *mrand.Rand) {
	plainPort := fx.port["P"]
	cs := genCase(rng, i, plainPort, realECH)
	w := &world{fx: fx, cs: cs, index: i, plainPort: plainPort, realECH: realECH, backend: map[netip.Addr]string{}}
	for ip, be := range cs.IPs {
		w.backend[netip.MustParseAddr(ip)] = be
	}
	active.Store(i, w)
	defer active.Delete(i)
	fx.doh.Reset(cs.zone)
	fx.takeLog()

	tr := ech.NewTransport()
	tr.Resolver = fx.res
	tr.TLSConfig = &tls.Config{RootCAs: ca.Pool}
	if cs.Cfg.H2 {
		tr.TLSConfig.NextProtos = []string{"h2", "http/1.1"}
	}
	if i%2 == 1 {
		// Transport.Dialer is an exported field: an application may install its own Dialer
		tr.Dialer = ech.NewDialer()
	}
	tr.Dialer.DialFunc = w.tlsDial
	tr.Dialer.MaxConcurrency = cs.Cfg.MaxConc
	tr.Dialer.ConcurrencyDelay = time.Duration(cs.Cfg.DelayMs) * time.Millisecond
	if cs.Cfg.H3 {
		tr.HTTP3Transport = &fakeH3{w: w, tc: tr.TLSConfig, conns: map[string]*fakeQUICConn{},
			dialer: &ech.Dialer[*fakeQUICConn]{DialFunc: w.quicDial, MaxConcurrency: cs.Cfg.MaxConc, ConcurrencyDelay: tr.Dialer.ConcurrencyDelay}}
	}
	if cs.Cfg.PlainAllowed {
		tr.HTTPTransport.DialContext = w.plainDial // "unless reconfigured to"
	}
	client := &http.Client{Transport: &wrapRT{w: w, t: tr}}

	outs := make([]outcome, len(cs.Reqs))
	if cs.Cfg.Concurrent {
		for k := 0; k < len(cs.Reqs); k += 3 {
			var wg sync.WaitGroup
			for j := k; j < min(k+3, len(cs.Reqs)); j++ {
				wg.Add(1)
				go func() { defer wg.Done(); outs[j] = w.do(client, j) }()
			}
			wg.Wait()
		}
	} else {
		for k := range cs.Reqs {
			outs[k] = w.do(client, k)
		}
	}
	tr.HTTPTransport.CloseIdleConnections()
	w.judge(r, outs)
}

func (w *world) judge(r *mon.Run, outs []outcome) {
	cs, i := w.cs, w.index
	w.mu.Lock()
	defer w.mu.Unlock()
	srvLog := w.fx.takeLog()
	var payload map[string]any
	getPayload := func() map[string]any {
		if payload == nil {
			urls := make([]string, len(cs.Origins))
			for k, o := range cs.Origins {
				urls[k] = o.url(w.plainPort)
			}
			payload = map[string]any{"case": cs, "origin_urls": urls, "zone": dumpZone(cs.zone), "outcomes": outs, "server_log": srvLog, "h3_side_log": w.h3side,
				"dials": w.dials, "plain_dials": w.plainDials, "h3_roundtrips": w.h3, "roundtrips": w.rts, "system_resolver_lookups": w.sysLookups, "plaintext_port": w.plainPort}
		}
		return payload
	}
	viol := func(sig, f string, a ...any) { r.Violate("seq", i, sig, fmt.Sprintf(f, a...), getPayload()) }
	if i < 3 {
		r.Sample(map[string]any{"case": cs, "zone": dumpZone(cs.zone), "outcomes": outs, "dials": w.dials})
	}

	for _, o := range outs {
		if o.TimedOut || strings.HasPrefix(o.Err, "fixture: ") {
			r.Inconclusive("case %d: request %s: %s", i, o.URL, o.Err)
			return
		}
	}

	reqOf := map[string]*reqSpec{}
	for k := range cs.Reqs {
		reqOf[cs.Reqs[k].Marker] = &cs.Reqs[k]
	}
	models := make([]*model, len(cs.Origins))
	r.Count("service_targets_without_address", int64(cs.NoAddrTargets))
	for k, o := range cs.Origins {
		models[k] = buildModel(cs.zone, o, w.plainPort)
		if models[k].Aliased {
			r.Count("alias_origins", 1)
		}
	}
	originOf := func(marker string) (originSpec, *model, *reqSpec, bool) {
		rq := reqOf[marker]
		if rq == nil {
			return originSpec{}, nil, nil, false
		}
		return cs.Origins[rq.Origin], models[rq.Origin], rq, true
	}
	wantHost := func(o originSpec, rq *reqSpec) string {
		if rq.HostOverride != "" {
			return rq.HostOverride
		}
		return o.authority(w.plainPort)
	}

	// ---- what the servers saw ----
	dialsOf := map[string][]dialRec{}
	for _, d := range w.dials {
		dialsOf[d.Marker] = append(dialsOf[d.Marker], d)
	}
	usedH3 := map[string]bool{}
	for _, h := range w.h3 {
		usedH3[h.Marker] = true
	}
	served := map[string][]reqRec{}
	all := append(append([]reqRec{}, srvLog...), w.h3side...)
	type connID struct {
		server string
		conn   int64
	}
	byConn := map[connID][]reqRec{}
	for _, e := range all {
		o, m, rq, ok := originOf(e.Marker)
		if !ok {
			r.Count("stray_server_records", 1)
			continue
		}
		served[e.Marker] = append(served[e.Marker], e)
		byConn[connID{e.Server, e.Conn}] = append(byConn[connID{e.Server, e.Conn}], e)
		// T4: the original Host/authority
		if want := wantHost(o, rq); !hostMatches(e.Host, want, o.Scheme) {
			viol("T4:host:"+nameClass(strings.Split(e.Host, ":")[0]), "server %s saw Host %q for %s; the caller's authority is %q", e.Server, e.Host, o.url(w.plainPort), want)
		}
		switch {
		case e.Server == "P":
			// T1 / T2: plaintext
			switch {
			case !cs.Cfg.PlainAllowed:
				viol("T1:plaintext-request", "the plaintext server received %s %s (Host %q) although the Transport was not reconfigured to allow plaintext", o.url(w.plainPort), e.Path, e.Host)
			case o.Scheme == "https":
				viol("T1:https-url-sent-in-plaintext", "the plaintext server received the request for %s%s", o.url(w.plainPort), e.Path)
			case m.AliasUp:
				viol("T2:plaintext-despite-alias-record", "plaintext is allowed, but %s publishes an alias-mode HTTPS record (%s) and the request was not upgraded", o.url(w.plainPort), m.QName)
			case m.HasSvc:
				viol("T2:plaintext-despite-https-records", "plaintext is allowed, but %s publishes HTTPS records (%s) and the request was not upgraded", o.url(w.plainPort), m.QName)
			default:
				r.Count("plaintext_allowed_served", 1)
			}
		case e.Server == "H3":
			r.Count("h3_requests_served", 1)
		default:
			r.Count("tls_requests_served", 1)
			if o.Scheme == "http" {
				r.Count("upgrades", 1)
			}
			if e.ECH {
				r.Count("ech_accepted", 1)
			}
			if e.ALPN == "h2" {
				r.Count("h2_requests_served", 1)
			}
			// T3: authenticated against the URL's host name
			if e.SNI != o.Host {
				viol("T3:sni:"+nameClass(e.SNI), "server %s saw SNI %q on the connection that carried the request for %s", e.Server, e.SNI, o.url(w.plainPort))
			}
			if !covers(e.Server, o.Host) {
				viol("T3:served-by-server-without-certificate-for-host", "the request for %s was delivered to server %s whose certificate covers only %v", o.url(w.plainPort), e.Server, certNames[e.Server])
			}
		}
	}
	// T5: origin isolation per server-side connection
	pairs, pairsH3 := map[string]bool{}, map[string]bool{}
	perServer := map[string]map[originKey]bool{}
	for id, es := range byConn {
		keys := map[originKey]bool{}
		for _, e := range es {
			o, _, _, _ := originOf(e.Marker)
			k := keyOf(o, w.plainPort, e.TLS)
			keys[k] = true
			if perServer[id.server] == nil {
				perServer[id.server] = map[originKey]bool{}
			}
			perServer[id.server][k] = true
		}
		if len(es) > 1 {
			r.Count("pooled_reuses", int64(len(es)-1))
		}
		if len(keys) > 1 {
			var ks []originKey
			for k := range keys {
				ks = append(ks, k)
			}
			sort.Slice(ks, func(a, b int) bool { return fmt.Sprint(ks[a]) < fmt.Sprint(ks[b]) })
			class := "port"
			for _, k := range ks[1:] {
				if k.Host != ks[0].Host {
					class = "host"
				} else if k.Secure != ks[0].Secure && class != "host" {
					class = "scheme"
				}
			}
			side := ""
			if id.server == "H3" {
				side = ":h3"
			}
			viol("T5:connection-shared-across-origins:"+class+side, "connection %d of server %s carried requests of %d origins: %v", id.conn, id.server, len(ks), ks)
		}
	}
	for s, ks := range perServer {
		hosts := map[string]bool{}
		for k := range ks {
			hosts[k.Host] = true
		}
		if len(hosts) > 1 || len(ks) > 1 {
			if s == "H3" {
				pairsH3[s] = true
			} else {
				pairs[s] = true
			}
		}
	}
	r.Count("cross_origin_same_address_pairs", int64(len(pairs)))
	r.Count("cross_origin_same_address_pairs_h3", int64(len(pairsH3)))

	// ---- what the taps were asked to dial ----
	allowedOf := map[string][2]apSet{} // "<origin>/<mode>" -> ok, incompatible
	for _, d := range w.dials {
		o, m, rq, ok := originOf(d.Marker)
		if !ok {
			r.Count("dials_unattributed", 1)
			continue
		}
		mode := "h2"
		if d.Kind == "quic" {
			mode = "h3"
			r.Count("quic_dials_checked", 1)
		}
		r.Count("dials_checked", 1)
		// T3: the name the server is authenticated against
		if d.ServerName != o.Host {
			viol("T3:servername:"+nameClass(d.ServerName), "DialFunc(%s %s) got ServerName %q for %s", d.Network, d.Addr, d.ServerName, o.url(w.plainPort))
		}
		if (d.Kind == "tls") != strings.HasPrefix(d.Network, "tcp") {
			viol("T7:network:"+d.Kind, "%s DialFunc called with network %q", d.Kind, d.Network)
		}
		// T7: targets of records compatible with the chosen protocol only
		key := fmt.Sprintf("%d/%s", rq.Origin, mode)
		sets, seen := allowedOf[key]
		if !seen {
			okSet, inc := m.allowed(mode)
			sets = [2]apSet{okSet, inc}
			allowedOf[key] = sets
		}
		ap, err := netip.ParseAddrPort(d.Addr)
		if err != nil {
			viol("T7:unparsable-address", "DialFunc address %q", d.Addr)
			continue
		}
		ap = netip.AddrPortFrom(ap.Addr().Unmap(), ap.Port())
		switch {
		case sets[0][ap]:
		case sets[1][ap]:
			viol("T7:"+mode+":target-of-incompatible-record", "%s dial to %s for %s: that target belongs only to records that do not offer %s (compatible targets: %s)", d.Kind, ap, o.url(w.plainPort), mode, apList(sets[0]))
		default:
			class := "foreign-address"
			for x := range sets[0] {
				if x.Addr() == ap.Addr() {
					class = "port"
				}
			}
			viol("T7:"+mode+":"+class, "%s dial to %s for %s: not a target of any record compatible with %s (compatible targets: %s)", d.Kind, ap, o.url(w.plainPort), mode, apList(sets[0]))
		}
	}

	// ---- per round trip: T8 ----
	for _, rt := range w.rts {
		if rt.Panic != "" {
			viol("T8:panic-in-roundtrip", "RoundTrip(%s) panicked: %s", rt.URLBefore, rt.Panic)
			continue
		}
		if rt.URLAfter != rt.URLBefore || rt.HostAfter != rt.HostBefore {
			viol("T8:callers-request-modified", "RoundTrip changed the caller's request: URL %s -> %s, Host %q -> %q", rt.URLBefore, rt.URLAfter, rt.HostBefore, rt.HostAfter)
		}
		if rt.Err == "" {
			r.Count("resp_request_checked", 1)
			if !rt.SameReq {
				viol("T8:resp-request-not-callers", "resp.Request is not the caller's *http.Request for %s (its URL: %s)", rt.URLBefore, rt.RespReqURL)
			}
		}
	}

	// T1: nothing but a plaintext net.Dialer would ask the system resolver
	if len(w.sysLookups) > 0 {
		viol("T1:plaintext-dial-through-system-resolver", "the system resolver was asked for %v: a plaintext net.Dialer connection was being set up", w.sysLookups)
	}

	// ---- per request ----
	fp := []string{cs.Theme, fmt.Sprintf("h3=%v h2=%v plain=%v fail=%v conc=%v", cs.Cfg.H3, cs.Cfg.H2, cs.Cfg.PlainAllowed, cs.Cfg.FailAll, cs.Cfg.Concurrent)}
	for _, o := range cs.Origins {
		fp = append(fp, fmt.Sprintf("%s:%d:%s", o.Scheme, min(o.Port, 9000), cs.Kinds[qnameOf(o.Host, o.port(w.plainPort))]))
	}
	for k, out := range outs {
		rq := &cs.Reqs[k]
		o, m := cs.Origins[rq.Origin], models[rq.Origin]
		r.Count("requests", 1)
		ok := out.Err == ""
		h3Poss, notPoss := m.decide(cs.Cfg.H3)
		h3Used := usedH3[rq.Marker]
		h12Ran := len(served[rq.Marker]) > 0 && !h3Used
		certFail := false
		for _, d := range dialsOf[rq.Marker] {
			if d.Kind == "tls" {
				h12Ran = true
			}
			if d.Outcome == "cert" {
				certFail = true
			}
		}
		if !ok && certFail {
			r.Count("cert_mismatch_failures", 1)
		}
		// T6: the decision table
		if cs.Cfg.H3 && m.HasSvc {
			switch {
			case h3Used:
				r.Count("h3_chosen", 1)
			case h12Ran:
				r.Count("h3_not_chosen_with_h3_transport", 1)
				if m.listsH3Anywhere() {
					r.Count("h3_declined_for_preferred_h2_record", 1)
				}
			}
		}
		if h3Used && !h3Poss {
			why := "no-record-lists-h3"
			if m.listsH3Anywhere() {
				why = "a-more-preferred-usable-record-offers-h2-or-http1.1"
			}
			viol("T6:h3-used:"+why, "HTTP3Transport ran for %s; HTTPS records of %s: %s", out.URL, m.QName, svcList(m))
		}
		if !h3Used && h12Ran && !notPoss {
			viol("T6:h3-not-used", "HTTPTransport ran for %s although an HTTP3Transport is set and the most-preferred usable record lists h3: %s", out.URL, svcList(m))
		}
		// T1: http without HTTPS records is refused
		if o.Scheme == "http" && !m.AnyRR && !cs.Cfg.PlainAllowed {
			if ok {
				viol("T1:http-served-without-https-records", "%s was answered (status %d by server %s) although %s has no HTTPS record and plaintext is not allowed", out.URL, out.Status, out.XServer, m.QName)
			} else {
				r.Count("plaintext_refusals", 1)
			}
		}
		// T2: http with HTTPS service records is upgraded (observable as: a TLS/QUIC dial or a served TLS request)
		if o.Scheme == "http" && m.HasSvc && m.Clean && !cs.Cfg.Concurrent && !cs.Cfg.PlainAllowed && !ok &&
			len(dialsOf[rq.Marker]) == 0 && !h3Used && len(served[rq.Marker]) == 0 {
			viol("T2:not-upgraded", "%s failed with %q without any TLS or QUIC dial although %s publishes service-mode HTTPS records: %s", out.URL, mon.Clip(out.Err, 160), m.QName, svcList(m))
		}
		if o.Scheme == "http" && m.AliasUp && !cs.Cfg.Concurrent && !cs.Cfg.PlainAllowed && !ok &&
			len(dialsOf[rq.Marker]) == 0 && !h3Used && len(served[rq.Marker]) == 0 {
			viol("T2:alias-only-not-upgraded", "%s failed with %q without any TLS or QUIC dial although %s publishes an alias-mode HTTPS record leading to a name with addresses (RFC 9460 9.5: any AliasMode record upgrades)", out.URL, mon.Clip(out.Err, 160), m.QName)
		}
		if o.Scheme == "http" && m.AliasUp {
			r.Count("http_requests_to_alias_only_origins", 1)
		}
		class := "err"
		if ok {
			class = out.XProto
			// T8: the response belongs to this request
			if out.XMarker != rq.Marker {
				viol("T8:response-of-another-request", "request %s got the response of %q", rq.Marker, out.XMarker)
			}
			u, _ := url.Parse(out.URL)
			wantFinal := out.URL
			if strings.HasPrefix(rq.Path, "/r/") {
				wantFinal = u.Scheme + "://" + u.Host + "/l/" + rq.Path[3:]
				r.Count("redirects_followed", 1)
			}
			if out.FinalURL != wantFinal || out.Status != 200 {
				viol("T8:final-url", "client.Do(%s) ended with status %d at %q; expected 200 at %q", out.URL, out.Status, out.FinalURL, wantFinal)
			}
			if len(served[rq.Marker]) == 0 {
				r.Inconclusive("monitor: case %d: %s succeeded but no server recorded it", i, out.URL)
			}
		}
		fp = append(fp, class)
	}
	// T7 is non-trivial where incompatible records were on offer for the protocol that ran
	for key, sets := range allowedOf {
		_ = key
		if len(sets[1]) > 0 {
			r.Count("incompatible_targets_offered", 1)
		}
	}
	r.Eval(strings.Join(fp, "|"))
}

func apList(s apSet) string {
	var out []string
	for ap := range s {
		out = append(out, ap.String())
	}
	sort.Strings(out)
	return strings.Join(out, " ")
}

func svcList(m *model) string {
	var out []string
	for _, rd := range m.Readings {
		var recs []string
		for _, h := range rd.Svc {
			recs = append(recs, "{"+recString(h)+"}")
		}
		out = append(out, fmt.Sprintf("%s: [%s]", rd.End, strings.Join(recs, " ")))
	}
	return strings.Join(out, " | ")
}

// literalHosts sends requests to URLs whose host is an IP literal through a Transport whose DialFunc records its
// arguments and fails. The Transport must dial the literal itself (every attempt fails, so once per request and target),
// with the literal - without brackets - as TLS server name, and must return the dial error instead of looping.
func literalHosts(r *mon.Run) {
	type lc struct{ url, addr, sn string }
	cases := []lc{
		{"https://[2001:db8::9]/x", "[2001:db8::9]:443", "2001:db8::9"},
		{"https://[2001:db8::9]:8443/x", "[2001:db8::9]:8443", "2001:db8::9"},
		{"https://[::1]/", "[::1]:443", "::1"},
		{"https://192.0.2.9/x", "192.0.2.9:443", "192.0.2.9"},
		{"https://192.0.2.9:8443/", "192.0.2.9:8443", "192.0.2.9"},
	}
	r.ParallelW("literals", len(cases)*2, 1, func(i int, _ *mrand.Rand) {
		c := cases[i%len(cases)]
		h2 := i >= len(cases)
		type call struct{ Addr, ServerName string }
		var mu sync.Mutex
		var calls []call
		tr := ech.NewTransport()
		res, err := ech.NewResolver("http://127.0.0.1:1/unused") // a literal needs no DNS: any query would fail
		if err != nil {
			r.Inconclusive("fixture: %v", err)
			return
		}
		tr.Resolver = res
		tr.TLSConfig = &tls.Config{}
		if h2 {
			tr.TLSConfig.NextProtos = []string{"h2", "http/1.1"}
		}
		tr.Dialer.DialFunc = func(ctx context.Context, network, addr string, tc *tls.Config) (*tls.Conn, error) {
			mu.Lock()
			calls = append(calls, call{addr, tc.ServerName})
			n := len(calls)
			mu.Unlock()
			if n > 50 {
				return nil, errors.New("too many dials")
			}
			return nil, errors.New("scripted dial failure")
		}
		pl := map[string]any{"url": c.url, "h2": h2}
		ctx, cancel := context.WithTimeout(context.Background(), 2*time.Minute) // watchdog only
		defer cancel()
		req, _ := http.NewRequestWithContext(ctx, "GET", c.url, nil)
		r.Guard("literals", i, "literal-host", pl, func() {
			resp, err := tr.RoundTrip(req)
			if resp != nil {
				resp.Body.Close()
			}
			mu.Lock()
			got := append([]call{}, calls...)
			mu.Unlock()
			pl["dials"], pl["error"] = got, fmt.Sprint(err)
			r.Count("literal_host_requests", 1)
			r.Eval(fmt.Sprintf("literal|%s|%v", c.url, h2))
			switch {
			case ctx.Err() != nil:
				r.Inconclusive("watchdog: the request to %s did not return", c.url)
			case len(got) == 0:
				r.Violate("literals", i, "literal:no-dial", fmt.Sprintf("GET %s: DialFunc was never called (err=%v)", c.url, err), pl)
			case len(got) > 3:
				r.Violate("literals", i, "literal:dial-loop", fmt.Sprintf("GET %s: %d dials for one request to one address", c.url, len(got)), pl)
			case got[0].Addr != c.addr:
				r.Violate("literals", i, "literal:address", fmt.Sprintf("GET %s dialled %s, want %s", c.url, got[0].Addr, c.addr), pl)
			case got[0].ServerName != c.sn:
				r.Violate("literals", i, "T3:servername:ip-literal", fmt.Sprintf("GET %s: DialFunc got ServerName %q, want %q", c.url, got[0].ServerName, c.sn), pl)
			case err == nil:
				r.Violate("literals", i, "literal:no-error", "every dial failed but RoundTrip returned no error", pl)
			}
		})
	})
	r.Floor("literal_host_requests", int64(len(cases)*2))
}
