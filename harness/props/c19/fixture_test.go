package c19

// Fixture of C19: per worker one fake DoH server, three TLS web servers
// (HTTP/1.1 + HTTP/2, ECH keys installed) and one plaintext web server on
// 127.0.0.1, all of which log every request they see; per case a "world" that
// holds the taps (TLS DialFunc, QUIC DialFunc of the fake HTTP/3 round-tripper,
// plaintext dialer of the "reconfigured" class) and the client-side records.

import (
	"context"
	"crypto/tls"
	"crypto/x509"
	"errors"
	"fmt"
	"io"
	"log"
	"net"
	"net/http"
	"net/http/httptest"
	"net/netip"
	"strings"
	"sync"
	"sync/atomic"
	"syscall"

	"github.com/c2FmZQ/ech"
	"golang.org/x/net/dns/dnsmessage"

	"verif/harness/internal/dohfake"
	"verif/harness/internal/echgen"
	"verif/harness/internal/tlspeer"
)

const (
	hostA = "a.example"
	hostB = "b.example"
	hostC = "c.example"
)

var (
	urlHosts   = []string{hostA, hostB, hostC}
	svcNames   = []string{"svc1.example", "svc2.example", "svc3.example", "svc4.example", "svc5.example", "svc6.example", "svc7.example", "svc8.example"}
	aliasNames = []string{"alias1.example", "alias2.example", "alias3.example", "alias4.example"}

	// certificate names per web server. A: two DIFFERENT origins share an address and a certificate;
	// C: valid for every name DNS may mention as alias/service target, for none of the URL hosts.
	certNames = map[string][]string{
		"A": {hostA, hostB},
		"B": {hostC},
		"C": append(append([]string{"other.example"}, svcNames...), aliasNames...),
	}
)

func homeOf(host string) string {
	if host == hostC {
		return "B"
	}
	return "A"
}

func covers(server, host string) bool {
	for _, n := range certNames[server] {
		if n == host {
			return true
		}
	}
	return false
}

// reqRec is one request as a web server saw it.
type reqRec struct {
	Server string `json:"server"` // A, B, C (TLS), P (plaintext), H3 (fake HTTP/3 side)
	Conn   int64  `json:"conn"`
	TLS    bool   `json:"tls"`
	SNI    string `json:"sni,omitempty"`
	ALPN   string `json:"alpn,omitempty"`
	ECH    bool   `json:"ech,omitempty"`
	Host   string `json:"host"`
	Path   string `json:"path"`
	Marker string `json:"marker"`
	Proto  string `json:"proto"`
}

type connKey struct{}
type markerKey struct{}

var connSeq atomic.Int64

type fixture struct {
	doh  *dohfake.Server
	res  *ech.Resolver
	srv  map[string]*httptest.Server
	port map[string]int

	mu  sync.Mutex
	log []reqRec
}

func (fx *fixture) handler(id string) http.Handler {
	return http.HandlerFunc(func(w http.ResponseWriter, r *http.Request) {
		rec := reqRec{Server: id, Host: r.Host, Path: r.URL.Path, Marker: r.Header.Get("X-Marker"), Proto: r.Proto}
		if v, ok := r.Context().Value(connKey{}).(int64); ok {
			rec.Conn = v
		}
		if r.TLS != nil {
			rec.TLS, rec.SNI, rec.ALPN, rec.ECH = true, r.TLS.ServerName, r.TLS.NegotiatedProtocol, r.TLS.ECHAccepted
		}
		fx.mu.Lock()
		fx.log = append(fx.log, rec)
		fx.mu.Unlock()
		w.Header().Set("X-Server", id)
		w.Header().Set("X-Marker", rec.Marker)
		w.Header().Set("X-Proto", r.Proto)
		if strings.HasPrefix(r.URL.Path, "/r/") {
			http.Redirect(w, r, "/l/"+r.URL.Path[3:], http.StatusFound) // relative: resolved against resp.Request.URL by the client
			return
		}
		io.WriteString(w, "ok "+rec.Marker)
	})
}

func (fx *fixture) takeLog() []reqRec {
	fx.mu.Lock()
	defer fx.mu.Unlock()
	out := fx.log
	fx.log = nil
	return out
}

func newFixture(ca *tlspeer.CA, key echgen.KeyPair) (*fixture, error) {
	fx := &fixture{srv: map[string]*httptest.Server{}, port: map[string]int{}}
	fx.doh = dohfake.NewServer(dohfake.NewZone())
	if !strings.HasPrefix(fx.doh.URL, "http://127.0.0.1:") {
		return fx, fmt.Errorf("no listener on 127.0.0.1 (%s)", fx.doh.URL)
	}
	res, err := ech.NewResolver(fx.doh.URL)
	if err != nil {
		return fx, err
	}
	res.SetCacheSize(0)
	fx.res = res
	for _, id := range []string{"A", "B", "C", "P"} {
		ts := httptest.NewUnstartedServer(fx.handler(id))
		ts.Config.ErrorLog = log.New(io.Discard, "", 0)
		ts.Config.ConnContext = func(ctx context.Context, c net.Conn) context.Context {
			return context.WithValue(ctx, connKey{}, connSeq.Add(1))
		}
		if id == "P" {
			ts.Start()
		} else {
			ts.EnableHTTP2 = true
			ts.TLS = &tls.Config{
				Certificates:             []tls.Certificate{ca.MustLeaf(0, certNames[id]...)},
				EncryptedClientHelloKeys: []tls.EncryptedClientHelloKey{key.TLSKey()},
			}
			ts.StartTLS()
		}
		ap, err := netip.ParseAddrPort(ts.Listener.Addr().String())
		if err != nil || ap.Addr() != netip.MustParseAddr("127.0.0.1") {
			return fx, fmt.Errorf("web server %s listens on %s", id, ts.Listener.Addr())
		}
		fx.srv[id], fx.port[id] = ts, int(ap.Port())
	}
	return fx, nil
}

func (fx *fixture) close() {
	if fx.doh != nil {
		fx.doh.Close()
	}
	for _, ts := range fx.srv {
		ts.Close()
	}
}

// ---- taps ----

type dialRec struct {
	Kind       string   `json:"kind"` // tls | quic
	Network    string   `json:"network"`
	Addr       string   `json:"addr"`
	ServerName string   `json:"server_name"`
	NextProtos []string `json:"next_protos,omitempty"`
	ECH        string   `json:"ech,omitempty"` // "", real, other(<n bytes>)
	Marker     string   `json:"marker"`
	Backend    string   `json:"backend"`
	Outcome    string   `json:"outcome"` // ok | scripted | cert | error: ...
}

type plainDialRec struct {
	Network string `json:"network"`
	Addr    string `json:"addr"`
	Marker  string `json:"marker"`
}

type h3Rec struct {
	Marker string `json:"marker"`
	URL    string `json:"url"`
	Host   string `json:"host"`
	Conn   int64  `json:"conn"`
	Err    string `json:"err,omitempty"`
}

type rtRec struct {
	Marker     string `json:"marker"`
	URLBefore  string `json:"url_before"`
	URLAfter   string `json:"url_after"`
	HostBefore string `json:"host_before"`
	HostAfter  string `json:"host_after"`
	Err        string `json:"err,omitempty"`
	SameReq    bool   `json:"resp_request_is_callers"`
	RespReqURL string `json:"resp_request_url,omitempty"`
	Panic      string `json:"panic,omitempty"`
	Frame      string `json:"frame,omitempty"`
}

type world struct {
	fx        *fixture
	cs        *caseSpec
	index     int
	plainPort int
	realECH   []byte
	backend   map[netip.Addr]string

	mu         sync.Mutex
	dials      []dialRec
	plainDials []plainDialRec
	h3         []h3Rec
	h3side     []reqRec
	rts        []rtRec
	sysLookups []string
}

// active worlds by case index, for attributing system-resolver lookups (see installSystemResolverHook).
var active sync.Map

var errScripted = &net.OpError{Op: "dial", Net: "tcp", Err: syscall.ECONNREFUSED}

func (w *world) echClass(list []byte) string {
	switch {
	case len(list) == 0:
		return ""
	case string(list) == string(w.realECH):
		return "real"
	}
	return fmt.Sprintf("other(%d bytes)", len(list))
}

func marker(ctx context.Context) string {
	m, _ := ctx.Value(markerKey{}).(string)
	return m
}

func (w *world) lookupBackend(addr string) string {
	ap, err := netip.ParseAddrPort(addr)
	if err != nil {
		return "unparsable"
	}
	if b, ok := w.backend[ap.Addr().Unmap()]; ok {
		return b
	}
	return "unmapped"
}

// tlsDial is Transport.Dialer.DialFunc: it records its arguments, maps the
// fake address to the local listener of the scenario and performs a real
// handshake with the configuration it was given.
func (w *world) tlsDial(ctx context.Context, network, addr string, tc *tls.Config) (*tls.Conn, error) {
	rec := dialRec{Kind: "tls", Network: network, Addr: addr, Marker: marker(ctx), Backend: w.lookupBackend(addr)}
	if tc != nil {
		rec.ServerName, rec.NextProtos, rec.ECH = tc.ServerName, tc.NextProtos, w.echClass(tc.EncryptedClientHelloConfigList)
	}
	var conn *tls.Conn
	var err error
	port, live := w.fx.port[rec.Backend]
	switch {
	case w.cs.Cfg.FailAll || !live:
		rec.Outcome, err = "scripted", errScripted
	default:
		var c net.Conn
		c, err = (&tls.Dialer{Config: tc}).DialContext(ctx, "tcp", fmt.Sprintf("127.0.0.1:%d", port))
		var cve *tls.CertificateVerificationError
		var hne x509.HostnameError
		switch {
		case err == nil:
			conn, rec.Outcome = c.(*tls.Conn), "ok"
		case errors.As(err, &cve) || errors.As(err, &hne):
			rec.Outcome = "cert"
		default:
			rec.Outcome = "error: " + err.Error()
		}
	}
	w.mu.Lock()
	w.dials = append(w.dials, rec)
	w.mu.Unlock()
	return conn, err
}

type fakeQUICConn struct {
	id   int64
	addr string
}

// quicDial is the DialFunc of the fake HTTP/3 side. No packets: the
// "handshake" succeeds iff the backend the address maps to is a TLS server
// whose certificate covers the ServerName asked for.
func (w *world) quicDial(ctx context.Context, network, addr string, tc *tls.Config) (*fakeQUICConn, error) {
	rec := dialRec{Kind: "quic", Network: network, Addr: addr, Marker: marker(ctx), Backend: w.lookupBackend(addr)}
	if tc != nil {
		rec.ServerName, rec.NextProtos, rec.ECH = tc.ServerName, tc.NextProtos, w.echClass(tc.EncryptedClientHelloConfigList)
	}
	var conn *fakeQUICConn
	var err error
	switch {
	case w.cs.Cfg.FailAll || rec.Backend == "dead" || rec.Backend == "P" || certNames[rec.Backend] == nil:
		rec.Outcome, err = "scripted", errScripted
	case !covers(rec.Backend, rec.ServerName):
		rec.Outcome, err = "cert", x509.HostnameError{Host: rec.ServerName}
	default:
		rec.Outcome, conn = "ok", &fakeQUICConn{id: connSeq.Add(1), addr: addr}
	}
	w.mu.Lock()
	w.dials = append(w.dials, rec)
	w.mu.Unlock()
	return conn, err
}

// plainDial is what the "reconfigured to allow plaintext" class installs as
// HTTPTransport.DialContext: whatever the address, it reaches the plaintext web server.
func (w *world) plainDial(ctx context.Context, network, addr string) (net.Conn, error) {
	w.mu.Lock()
	w.plainDials = append(w.plainDials, plainDialRec{Network: network, Addr: addr, Marker: marker(ctx)})
	w.mu.Unlock()
	return (&net.Dialer{}).DialContext(ctx, "tcp", fmt.Sprintf("127.0.0.1:%d", w.plainPort))
}

// fakeH3 stands in for quic-go's http3.Transport the way /repo/quic/h3 wires
// it: it dials through an ech.Dialer with the REQUEST context (which carries
// the Transport's resolver), network "udp" and the URL's host:port, keeps one
// connection per authority, and answers with a synthetic response.
type fakeH3 struct {
	w      *world
	dialer *ech.Dialer[*fakeQUICConn]
	tc     *tls.Config

	mu    sync.Mutex
	conns map[string]*fakeQUICConn
}

func (f *fakeH3) RoundTrip(req *http.Request) (*http.Response, error) {
	rec := h3Rec{Marker: req.Header.Get("X-Marker"), URL: req.URL.String(), Host: req.Host}
	if rec.Host == "" {
		rec.Host = req.URL.Host
	}
	done := func(err error) (*http.Response, error) {
		if err != nil {
			rec.Err = err.Error()
		}
		f.w.mu.Lock()
		f.w.h3 = append(f.w.h3, rec)
		f.w.mu.Unlock()
		return nil, err
	}
	if req.URL.Scheme != "https" {
		return done(fmt.Errorf("http3: unsupported protocol scheme: %s", req.URL.Scheme))
	}
	addr := req.URL.Host
	if _, _, err := net.SplitHostPort(addr); err != nil {
		addr = net.JoinHostPort(addr, "443")
	}
	f.mu.Lock()
	c := f.conns[addr]
	f.mu.Unlock()
	if c == nil {
		var err error
		if c, err = f.dialer.Dial(req.Context(), "udp", addr, f.tc); err != nil {
			return done(err)
		}
		f.mu.Lock()
		if old := f.conns[addr]; old != nil {
			c = old
		} else {
			f.conns[addr] = c
		}
		f.mu.Unlock()
	}
	rec.Conn = c.id
	done(nil)
	path := req.URL.Path
	f.w.mu.Lock()
	f.w.h3side = append(f.w.h3side, reqRec{Server: "H3", Conn: c.id, TLS: true, Host: rec.Host, Path: path, Marker: rec.Marker, Proto: "HTTP/3.0"})
	f.w.mu.Unlock()
	resp := &http.Response{
		Status: "200 OK", StatusCode: 200, Proto: "HTTP/3.0", ProtoMajor: 3,
		Header:  http.Header{"X-Proto": {"h3"}, "X-Server": {"H3"}, "X-Marker": {rec.Marker}},
		Body:    io.NopCloser(strings.NewReader("ok " + rec.Marker)),
		Request: req,
	}
	if strings.HasPrefix(path, "/r/") {
		resp.Status, resp.StatusCode = "302 Found", http.StatusFound
		resp.Header.Set("Location", "/l/"+path[3:])
	}
	return resp, nil
}

// wrapRT sits between http.Client and the Transport under test and records
// what crosses the RoundTrip boundary.
type wrapRT struct {
	w *world
	t *ech.Transport
}

func (x *wrapRT) RoundTrip(req *http.Request) (resp *http.Response, err error) {
	rec := rtRec{Marker: req.Header.Get("X-Marker"), URLBefore: req.URL.String(), HostBefore: req.Host}
	defer func() {
		if p := recover(); p != nil {
			rec.Panic = fmt.Sprint(p)
			resp, err = nil, fmt.Errorf("panic in RoundTrip: %v", p)
		}
		rec.URLAfter, rec.HostAfter = req.URL.String(), req.Host
		if err != nil {
			rec.Err = err.Error()
		} else if resp != nil {
			rec.SameReq = resp.Request == req
			if resp.Request != nil && resp.Request.URL != nil {
				rec.RespReqURL = resp.Request.URL.String()
			}
		}
		x.w.mu.Lock()
		x.w.rts = append(x.w.rts, rec)
		x.w.mu.Unlock()
	}()
	return x.t.RoundTrip(req)
}

// installSystemResolverHook replaces net.DefaultResolver by a resolver that
// talks to an in-process responder answering 127.0.0.1 for every name, and
// reports every lookup. The Transport under test resolves through DoH only; the
// one component that would use the system resolver is http.Transport's
// plaintext dialer (net.Dialer), so a lookup is the visible start of a
// plaintext connection — and with the answer 127.0.0.1 a URL that carries the
// plaintext listener's port then really reaches that listener.
func installSystemResolverHook() {
	net.DefaultResolver = &net.Resolver{PreferGo: true, Dial: func(ctx context.Context, network, address string) (net.Conn, error) {
		c1, c2 := net.Pipe()
		go serveFakeDNS(c2, marker(ctx))
		return c1, nil
	}}
}

var strayLookups struct {
	mu    sync.Mutex
	names []string
}

func serveFakeDNS(c net.Conn, mk string) {
	defer c.Close()
	for {
		var l [2]byte
		if _, err := io.ReadFull(c, l[:]); err != nil {
			return
		}
		msg := make([]byte, int(l[0])<<8|int(l[1]))
		if _, err := io.ReadFull(c, msg); err != nil {
			return
		}
		var p dnsmessage.Parser
		h, err := p.Start(msg)
		if err != nil {
			return
		}
		q, err := p.Question()
		if err != nil {
			return
		}
		name := fmt.Sprintf("%s/%s", q.Name, q.Type)
		attributed := false
		var idx int
		if _, err := fmt.Sscanf(mk, "c%d-", &idx); err == nil {
			if w, ok := active.Load(idx); ok {
				ww := w.(*world)
				ww.mu.Lock()
				ww.sysLookups = append(ww.sysLookups, name)
				ww.mu.Unlock()
				attributed = true
			}
		}
		if !attributed {
			strayLookups.mu.Lock()
			strayLookups.names = append(strayLookups.names, name)
			strayLookups.mu.Unlock()
		}
		b := dnsmessage.NewBuilder(nil, dnsmessage.Header{ID: h.ID, Response: true, RecursionDesired: h.RecursionDesired, RecursionAvailable: true})
		b.StartQuestions()
		b.Question(q)
		b.StartAnswers()
		if q.Type == dnsmessage.TypeA {
			b.AResource(dnsmessage.ResourceHeader{Name: q.Name, Class: dnsmessage.ClassINET, TTL: 1}, dnsmessage.AResource{A: [4]byte{127, 0, 0, 1}})
		}
		out, err := b.Finish()
		if err != nil {
			return
		}
		if _, err := c.Write(append([]byte{byte(len(out) >> 8), byte(len(out))}, out...)); err != nil {
			return
		}
	}
}
